#!/usr/bin/env python3
"""Static detection matrix for arbitrary patches: patch_matrix.py <glob> ...  (each patch applied to a scratch copy of
/repo, all checks run statically; prints which property checks / rules report something new)."""
import json,glob,os,shutil,subprocess,tempfile,sys,re
from concurrent.futures import ThreadPoolExecutor
ENV=dict(os.environ,GOFLAGS='-mod=mod -trimpath',GOPROXY='off',GOSUMDB='off',GOTOOLCHAIN='local',GOWORK='off')
HC=os.environ.get('HMSCHECK','/verif/bin/hmscheck')
patches=[]
for g in sys.argv[1:]: patches+=sorted(glob.glob(g))
base=json.loads(subprocess.run([HC,'-all','-repo','/repo','-verif','/verif'],capture_output=True,text=True,env=ENV).stdout)
basekeys={(p,o['rule'],o['key']) for p,l in base.items() for o in l}
def run(patch):
    tmp=tempfile.mkdtemp(prefix='hms-pm-')
    try:
        scr=os.path.join(tmp,'repo')
        os.makedirs(scr); subprocess.run(['rsync','-a','--exclude=.git','/repo/',scr+'/'])
        if subprocess.run(['git','apply','--whitespace=nowarn',patch],cwd=scr,capture_output=True).returncode!=0: return patch,None,'does not apply'
        if subprocess.run(['go','build','./...'],cwd=scr,capture_output=True,env=ENV).returncode!=0: return patch,None,'does not build'
        p=subprocess.run([HC,'-all','-repo',scr,'-verif','/verif'],capture_output=True,text=True,env=ENV)
        try: res=json.loads(p.stdout)
        except Exception: return patch,None,'checker failed '+p.stderr[-200:]
        det={}
        for pr,l in res.items():
            new=sorted({o['rule'] for o in l if (pr,o['rule'],o['key']) not in basekeys})
            if new: det[pr]=new
        return patch,det,None
    finally: shutil.rmtree(tmp,ignore_errors=True)
own=0;n=0
with ThreadPoolExecutor(max_workers=5) as ex:
    for patch,det,err in ex.map(run,patches):
        m=re.search(r'(C\d\d)',patch); prop=m.group(1) if m else '?'
        n+=1
        if err: print('%-40s %s'%(patch,err)); continue
        hit=prop in det
        own+=hit
        print('%-40s own:%s %s'%(patch,'YES' if hit else 'no ',' '.join('%s(%s)'%(k,','.join(v)) for k,v in sorted(det.items())) or 'NOT DETECTED'))
print('own-property detection: %d of %d'%(own,n))
