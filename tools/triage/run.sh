#!/bin/sh
# usage: run.sh <program.hms> [vm|interp] [call,stack,mem]   (env HMS_TREE=<worktree>, default: a fresh worktree of /repo HEAD)
# Triage only: runs one Homescript program against the real code in a scratch worktree. Not used by any check.
export GOFLAGS=-mod=mod GOPROXY=off GOSUMDB=off GOTOOLCHAIN=local
SRC=$(readlink -f "$1"); BACK=${2:-vm}; LIM=${3:-}
T=${HMS_TREE:-}
CLEAN=0
# never write into /repo itself (other tools copy it concurrently): HMS_TREE=/repo means "the current working tree", as a scratch copy
if [ "$T" = "/repo" ]; then T=$(mktemp -d /tmp/triage-XXXX); rsync -a --exclude=.git /repo/ $T/; CLEAN=2; fi
if [ -z "$T" ]; then T=$(mktemp -d /tmp/triage-XXXX); rmdir $T; git -C /repo worktree add -q --detach $T HEAD; CLEAN=1; fi
cp "$(dirname "$0")/zz_triage_test.go" $T/homescript/zz_triage_test.go
(cd $T && HMS_SRC=$SRC HMS_BACKEND=$BACK HMS_LIMITS=$LIM timeout 60 go test -vet=off -count=1 -v -run '^TestTriage$' ./homescript 2>&1 | grep -v '^ok\|^PASS\|^=== RUN\|^--- PASS' | head -${HMS_LINES:-40})
rm -f $T/homescript/zz_triage_test.go
[ $CLEAN = 1 ] && git -C /repo worktree remove --force $T
[ $CLEAN = 2 ] && rm -rf $T
