package homescript

// Triage-only harness (NOT part of any check): copied into a scratch worktree's
// homescript/ directory to confirm or refute a defect predicted by a static rule
// against the real code. Program text comes from $HMS_SRC (file path) ; backend
// from $HMS_BACKEND (vm|interp); limits from $HMS_LIMITS "call,stack,mem".

import (
	"context"
	"fmt"
	"os"
	"strings"
	"sync"
	"testing"
	"time"

	"github.com/smarthome-go/homescript/v3/homescript/compiler"
	"github.com/smarthome-go/homescript/v3/homescript/diagnostic"
	"github.com/smarthome-go/homescript/v3/homescript/runtime"
)

// triageHost resolves `import … from <name>` from $HMS_MODDIR/<name>.hms (if set).
type triageHost struct {
	TestingAnalyzerHost
}

func (h triageHost) ResolveCodeModule(name string) (string, bool, error) {
	if dir := os.Getenv("HMS_MODDIR"); dir != "" {
		if b, err := os.ReadFile(dir + "/" + name + ".hms"); err == nil {
			return string(b), true, nil
		}
	}
	return h.TestingAnalyzerHost.ResolveCodeModule(name)
}

func TestTriage(t *testing.T) {
	b, err := os.ReadFile(os.Getenv("HMS_SRC"))
	if err != nil {
		t.Skip("no HMS_SRC")
	}
	src := string(b)
	const filename = "triage"
	modules, diagnostics, syntax := Analyze(
		InputProgram{Filename: filename, ProgramText: src},
		TestingAnalyzerScopeAdditions(),
		triageHost{TestingAnalyzerHost{IsInvokedInTests: true}},
		true,
	)
	for _, s := range syntax {
		fmt.Printf("SYNTAX: %s @%d:%d-%d:%d\n", s.Message, s.Span.Start.Line, s.Span.Start.Column, s.Span.End.Line, s.Span.End.Column)
	}
	nerr := 0
	for _, d := range diagnostics {
		fmt.Printf("DIAG[%v]: %s @%d:%d-%d:%d\n", d.Level, d.Message, d.Span.Start.Line, d.Span.Start.Column, d.Span.End.Line, d.Span.End.Column)
		if d.Level == diagnostic.DiagnosticLevelError {
			nerr++
		}
	}
	if len(syntax) > 0 || nerr > 0 {
		fmt.Println("OUTCOME: rejected")
		return
	}
	call, stack, mem := uint(1024), uint(1024), uint(4096)
	if l := os.Getenv("HMS_LIMITS"); l != "" {
		fmt.Sscanf(strings.ReplaceAll(l, ",", " "), "%d %d %d", &call, &stack, &mem)
	}
	exec := TestingVmExecutor{PrintToStdout: false, PrintBuf: new(string), PintBufMutex: &sync.Mutex{}}
	ctx, cancel := context.WithTimeout(context.Background(), 5*time.Second)
	defer cancel()
	if os.Getenv("HMS_BACKEND") == "interp" {
		tex := TestingTreeExecutor{Output: new(string)}
		i := Run(call, modules, filename, tex, TestingInterpreterScopeAdditions(), &ctx)
		fmt.Printf("OUTPUT: %q\n", *tex.Output)
		if i != nil {
			fmt.Printf("OUTCOME: %v: %s\n", (*i).Kind(), (*i).Message())
		} else {
			fmt.Println("OUTCOME: ok")
		}
		return
	}
	c := compiler.NewCompiler(modules, filename)
	compiled, cerr := c.Compile()
	if cerr != nil {
		fmt.Println("OUTCOME: compile error", cerr)
		return
	}
	if os.Getenv("HMS_ASM") != "" {
		fmt.Println(compiled.AsmString(false))
	}
	vm := runtime.NewVM(compiled, exec, &ctx, &cancel, TestingVmScopeAdditions(), runtime.CoreLimits{CallStackMaxSize: call, StackMaxSize: stack, MaxMemorySize: mem})
	core := vm.SpawnAsync(runtime.MainFn(), nil, nil, nil)
	outcome := "ok"
	if _, i := vm.Wait(); i != nil {
		outcome = fmt.Sprintf("%s: %s", (*i).KindString(), (*i).Message())
	}
	fmt.Printf("OUTPUT: %q\n", *exec.PrintBuf)
	fmt.Printf("OUTCOME: %s (operand stack left: %d)\n", outcome, len(core.Stack))
}
