#!/usr/bin/env python3
"""Copy verified seeded mutants from /tmp/seed + /tmp/vw results into /verif/seeded/<id>/."""
import json,glob,os,shutil,re,sys
for rf in sorted(glob.glob('/tmp/vw/result-*.json')):
    r=json.load(open(rf))
    if r.get('status')!='CONFIRMED': 
        print('skip',r['name'],r.get('status')); continue
    prop,m=r['name'].split('-')
    src='/tmp/seed/%s/%s'%(prop,m)
    dst='/verif/seeded/%s-%s'%(prop,m)
    os.makedirs(dst,exist_ok=True)
    for f in os.listdir(src):
        shutil.copy(os.path.join(src,f),os.path.join(dst,f))
    notes=open(os.path.join(src,'notes.md')).read() if os.path.exists(os.path.join(src,'notes.md')) else ''
    meta_path=os.path.join(dst,'meta.json')
    old=json.load(open(meta_path)) if os.path.exists(meta_path) else {}
    meta={
     'property':prop,
     'origin':'written by an independent sub-agent given only the property text and a scratch worktree',
     'needs_to_manifest':old.get('needs_to_manifest') or (re.search(r'(?is)(trigger|needs|manifest)[^\n]*\n(.{0,600})',notes).group(0)[:700] if re.search(r'(?is)(trigger|needs|manifest)',notes) else 'see notes.md'),
     'demo_tests':r.get('tests'),'demo_packages':r.get('pkgs'),
     'verified':{'cmd':r.get('run'),'pristine_exit':r.get('pristine_rc'),'suite_with_patch_exit':r.get('suite_rc'),'demo_with_patch_exit':r.get('mutant_rc'),
        'how':'scratch git worktree of /repo HEAD: demo passes; git apply patch.diff; go build ./...; full suite passes; demo fails (see tools/verify note in DESIGN.md)'},
     'detected_by_checks':old.get('detected_by_checks',[]),
     'detected_by_rules':old.get('detected_by_rules',{}),
    }
    json.dump(meta,open(meta_path,'w'),indent=1)
    print('imported',dst)
