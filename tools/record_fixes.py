#!/usr/bin/env python3
"""For every 'fix:' commit in /repo: analyse the tree before and after it (scratch exports under $TMPDIR,
removed afterwards) with every registered rule and report which rule+key obligations the commit repaired.
Prints JSON lines to be merged into known_findings.json as status=fixed entries."""
import json,subprocess,tempfile,shutil,os,sys
ENV=dict(os.environ,GOFLAGS='-mod=mod -trimpath',GOPROXY='off',GOSUMDB='off',GOTOOLCHAIN='local',GOWORK='off')
def export(rev,dst):
    os.makedirs(dst)
    p=subprocess.Popen(['git','-C','/repo','archive',rev],stdout=subprocess.PIPE)
    subprocess.check_call(['tar','-x','-C',dst],stdin=p.stdout); p.wait()
def dump(rev,cache={}):
    if rev in cache: return cache[rev]
    tmp=tempfile.mkdtemp(prefix='hms-fix-')
    try:
        export(rev,tmp+'/repo')
        out=subprocess.run(['/verif/bin/hmscheck','-dump','-repo',tmp+'/repo'],capture_output=True,text=True,env=ENV).stdout
        try: j=json.loads(out)
        except Exception: j=[{'rule':'<dump failed>','key':out[-200:]}]
        cache[rev]={(o['rule'],o['key']):o for o in j}
        return cache[rev]
    finally:
        shutil.rmtree(tmp,ignore_errors=True)
log=subprocess.check_output(['git','-C','/repo','log','--reverse','--format=%h %s']).decode().splitlines()
res=[]
for line in log:
    h,msg=line.split(' ',1)
    if not msg.startswith('fix:'): continue
    if len(sys.argv)>1 and h not in sys.argv[1:]: continue
    before=dump(h+'^'); after=dump(h)
    fixed=[k for k in before if k not in after]
    new=[k for k in after if k not in before]
    print('%s %s\n   fixed: %s%s'%(h,msg[:90],'; '.join('%s|%s'%k for k in fixed) or '(none seen by the rules)', ('\n   NEW: '+'; '.join('%s|%s'%k for k in new)) if new else ''),file=sys.stderr)
    for k in fixed:
        res.append({'rule':k[0],'key':k[1],'status':'fixed','commit':h,'what':'fixed: %s %s'%(h,msg[5:])})
json.dump(res,open('/tmp/fixed_entries.json','w'),indent=1,ensure_ascii=False)
print(len(res),'fixed obligations written to /tmp/fixed_entries.json')
