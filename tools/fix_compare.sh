#!/bin/sh
# usage: fix_compare.sh <git ref before> [<git ref after, default HEAD>]
# Triage only (not a check): runs every example / test program of /repo on both engines in two scratch trees and
# prints the programs whose diagnostics (errors), output or outcome differ. Used before committing a `fix:` to see
# what else the change does to programs that worked (introduced after fix 722dab4 had silently broken `none`).
BEFORE=$1; AFTER=${2:-HEAD}
A=$(mktemp -d /tmp/fxc-a-XXXX); B=$(mktemp -d /tmp/fxc-b-XXXX)
git -C /repo archive $BEFORE | tar -x -C $A; git -C /repo archive $AFTER | tar -x -C $B
for f in /repo/examples/*.hms /repo/homescript/tests/*.hms /repo/tests/*.hms; do
  [ -f "$f" ] || continue
  for b in vm interp; do
    x=$(HMS_TREE=$A HMS_LINES=80 "$(dirname "$0")/triage/run.sh" "$f" $b 2>&1 | grep -v '^DIAG\[Warn\|^DIAG\[Hint\|^goroutine\|0x' | md5sum)
    y=$(HMS_TREE=$B HMS_LINES=80 "$(dirname "$0")/triage/run.sh" "$f" $b 2>&1 | grep -v '^DIAG\[Warn\|^DIAG\[Hint\|^goroutine\|0x' | md5sum)
    [ "$x" != "$y" ] && echo "DIFFERS ($b): $f"
  done
done
rm -rf $A $B
