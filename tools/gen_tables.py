#!/usr/bin/env python3
"""Regenerates the machine-made tables of DESIGN.md (between the GENERATED markers) from
evidence/*.json, seeded/*/meta.json and known_findings.json."""
import json,glob,os,re,subprocess
out=[]
# rule inventory from evidence
rules={}
props={}
for f in sorted(glob.glob('/verif/evidence/C*.json')):
    e=json.load(open(f)); pid=e['property_id']
    for r,v in e['coverage']['per_rule'].items():
        rules[r]=v; props.setdefault(r,[]).append(pid)
out.append('### 11.2 Rule inventory (from the last evidence run)\n')
out.append('| rule | obligations | discharged | known findings | serves |\n|---|---|---|---|---|')
for r in sorted(rules):
    v=rules[r]
    out.append('| %s | %d | %d | %d | %s |'%(r,v['obligations'],v['discharged'],v['known_findings'],' '.join(props[r])))
# seeded matrix
out.append('\n### 12.1 Seeded changes and the checks that catch them\n')
out.append('Each row is a change written by an independent sub-agent (it saw only the property text and a scratch worktree), confirmed by me (suite passes with it, its demonstration fails with it and passes without). "caught by" lists the property checks that report a violation when the patch is applied to a scratch copy (`tools/seeded_matrix.py`, static runs only); the thorough tier re-checks every row whose own property is listed.\n')
out.append('| seed | property | change (first line of the agent\'s notes) | caught by (rules) | status |\n|---|---|---|---|---|')
for d in sorted(glob.glob('/verif/seeded/*')):
    m=json.load(open(d+'/meta.json')); name=os.path.basename(d)
    notes=''
    np=os.path.join(d,'notes.md')
    if os.path.exists(np):
        for l in open(np).read().splitlines():
            l=l.strip('# *-').strip()
            if len(l)>25: notes=l[:110]; break
    det=m.get('detected_by_rules') or {}
    caught='; '.join('%s (%s)'%(p,', '.join(rs)) for p,rs in sorted(det.items()))
    own=m['property'] in det
    status='caught by own check' if own else ('caught by other checks only' if det else 'missed')
    if m.get('obsolete'): status='obsolete after a fix (see meta.json)'
    if m.get('matrix_note'): status='patch no longer applies to HEAD'
    out.append('| %s | %s | %s | %s | %s |'%(name,m['property'],notes.replace('|','/'),caught or '—',status))
# findings
kf=json.load(open('/verif/known_findings.json'))['findings']
known=[f for f in kf if f['status']=='known']; fixed=[f for f in kf if f['status']=='fixed']
out.append('\n### 13.1 Known findings (recorded, not repaired): %d obligations\n'%len(known))
seen=set()
for f in known:
    if f['what'] in seen: continue
    seen.add(f['what'])
    keys=[g['rule']+' | '+g['key'] for g in known if g['what']==f['what']]
    out.append('* %s\n  * keys: %s'%(f['what'],'; '.join('`%s`'%k for k in keys)))
out.append('\n### 13.2 Repaired defects: %d obligations repaired by %d `fix:` commits in /repo\n'%(len(fixed),len({f['commit'] for f in fixed})))
log=subprocess.check_output(['git','-C','/repo','log','--reverse','--format=%h %s']).decode().splitlines()
out.append('| commit | defect | obligations repaired |\n|---|---|---|')
for l in log:
    h,msg=l.split(' ',1)
    if not msg.startswith('fix:'): continue
    ks=[f['rule'] for f in fixed if f['commit']==h]
    out.append('| %s | %s | %s |'%(h,msg[5:].replace('|','/'),', '.join(sorted(set(ks))) or '(found by reading while repairing a neighbour)'))
txt='\n'.join(out)+'\n'
p='/verif/DESIGN.md'
s=open(p).read()
b='<!-- GENERATED:BEGIN -->'; e='<!-- GENERATED:END -->'
if b in s:
    s=s[:s.index(b)+len(b)]+'\n'+txt+s[s.index(e):]
else:
    s+='\n'+b+'\n'+txt+e+'\n'
open(p,'w').write(s)
print('tables written:',len(out),'lines')
