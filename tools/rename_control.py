#!/usr/bin/env python3
"""Negative control by mechanical renaming: copy /repo to a scratch dir, rename (with type-resolved references)
all unexported functions/methods | locals+params | unexported struct fields by appending a suffix, build, run all
checks statically. Any violated/undecided obligation whose key (with the suffix stripped) is not violated on the
unchanged tree is a false alarm (name-based anchoring)."""
import json,os,shutil,subprocess,sys,tempfile
ENV=dict(os.environ,GOFLAGS='-mod=mod -trimpath',GOPROXY='off',GOSUMDB='off',GOTOOLCHAIN='local',GOWORK='off')
SUF='Zq'
def allv(repo):
    p=subprocess.run([os.environ.get('HMSCHECK','/verif/bin/hmscheck'),'-all','-repo',repo,'-verif','/verif'],capture_output=True,text=True,env=ENV)
    try: return json.loads(p.stdout)
    except Exception: print('checker failed:',p.stdout[-400:],p.stderr[-400:]); sys.exit(2)
base=allv('/repo')
basekeys={(o['rule'],o['key']) for l in base.values() for o in l}
kf=[f for f in json.load(open('/verif/known_findings.json'))['findings'] if f.get('status')=='known']
def known(rule,key):
    for f in kf:
        if f['rule']!=rule: continue
        if f['key']==key or (f['key'].endswith('*') and key.startswith(f['key'][:-1])): return True
    return False
bad=0
for what in (sys.argv[1:] or ['funcs','locals','fields']):
    tmp=tempfile.mkdtemp(prefix='hms-rn-')
    try:
        scr=os.path.join(tmp,'repo'); os.makedirs(scr); subprocess.run(['rsync','-a','--exclude=.git','/repo/',scr+'/'])
        r=subprocess.run(['/verif/bin/renamer','-dir',scr,'-what',what,'-suffix',SUF],capture_output=True,text=True,env=ENV)
        print(what,':',r.stdout.strip(),r.stderr.strip()[-300:])
        if subprocess.run(['go','build','./...'],cwd=scr,capture_output=True,env=ENV).returncode!=0: print('  does not build'); continue
        res=allv(scr); seen=set()
        for pr,l in res.items():
            for o in l:
                k=(o['rule'],o['key'].replace(SUF,''))
                if k in basekeys or k in seen or known(*k): continue
                seen.add(k); bad+=1
                print('   FALSE ALARM %s %s | %s | %s\n        %s'%(o['status'],o['rule'],o['key'],o['pos'],o['detail'][:260].replace(SUF,'')))
        if not seen: print('   silent')
    finally: shutil.rmtree(tmp,ignore_errors=True)
print('false alarms:',bad)
sys.exit(1 if bad else 0)
