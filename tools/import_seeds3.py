#!/usr/bin/env python3
"""Import confirmed round-N seeds: import_seeds3.py <root> <results-dir> <round>  →  /verif/seeded/<Cxx>-r<round>m<k>/"""
import json,glob,os,shutil,sys
root,out,rnd=sys.argv[1],sys.argv[2],sys.argv[3]
for rf in sorted(glob.glob(os.path.join(out,'result-*.json'))):
    r=json.load(open(rf))
    if r.get('status')!='CONFIRMED': print('skip',r['name'],r.get('status')); continue
    prop,m=r['name'].split('-')
    src=r['dir']; dst='/verif/seeded/%s-r%s%s'%(prop,rnd,m)
    os.makedirs(dst,exist_ok=True)
    for f in os.listdir(src):
        p=os.path.join(src,f)
        if os.path.isfile(p) and os.path.getsize(p)<200000 and not f.endswith('.log'): shutil.copy(p,os.path.join(dst,f))
    notes=open(os.path.join(src,'notes.md')).read() if os.path.exists(os.path.join(src,'notes.md')) else ''
    mp=os.path.join(dst,'meta.json'); old=json.load(open(mp)) if os.path.exists(mp) else {}
    meta={'property':prop,'round':int(rnd),
      'origin':'written by an independent sub-agent given only the property text, the list of focus areas used in earlier rounds (to avoid) and a scratch worktree',
      'needs_to_manifest':notes[:900],
      'demo':json.load(open(os.path.join(src,'demo.json'))),
      'verified':{'cmd':r.get('run'),'pristine_exit':r.get('pristine_rc'),'suite_with_patch_exit':r.get('suite_rc'),'demo_with_patch_exit':r.get('mutant_rc'),
         'how':'tools/verify_seed.py: scratch git worktree of /repo HEAD; demo passes; git apply patch.diff; go build; full suite passes (demo removed); demo fails'},
      'files_changed':r.get('files_changed'),
      'detected_by_checks':old.get('detected_by_checks',[]),'detected_by_rules':old.get('detected_by_rules',{})}
    json.dump(meta,open(mp,'w'),indent=1)
    print('imported',dst)
