#!/usr/bin/env python3
"""Negative controls: apply every behaviour-preserving refactoring under /verif/refactors/*.diff (or the
directories given) to a scratch copy of /repo and run ALL checks statically: any new violation is a false alarm."""
import json,glob,os,shutil,subprocess,tempfile,sys
from concurrent.futures import ThreadPoolExecutor
ENV=dict(os.environ,GOFLAGS='-mod=mod',GOPROXY='off',GOSUMDB='off',GOTOOLCHAIN='local',GOWORK='off')
srcs=sys.argv[1:] or ['/verif/refactors']
diffs=[]
for s in srcs: diffs+=sorted(glob.glob(os.path.join(s,'*.diff')))
base=json.loads(subprocess.run([os.environ.get('HMSCHECK','/verif/bin/hmscheck'),'-all','-repo','/repo','-verif','/verif'],capture_output=True,text=True,env=ENV).stdout)
basekeys={(p,o['rule'],o['key']) for p,l in base.items() for o in l}
def run(d):
    tmp=tempfile.mkdtemp(prefix='hms-rf-')
    try:
        scr=os.path.join(tmp,'repo')
        subprocess.run(['cp','-a','/repo',scr],check=True); shutil.rmtree(os.path.join(scr,'.git'),ignore_errors=True)
        if subprocess.run(['git','apply','--whitespace=nowarn',d],cwd=scr,capture_output=True).returncode!=0: return d,None,'does not apply'
        if subprocess.run(['go','build','./...'],cwd=scr,capture_output=True,env=ENV).returncode!=0: return d,None,'does not build'
        p=subprocess.run([os.environ.get('HMSCHECK','/verif/bin/hmscheck'),'-all','-repo',scr,'-verif','/verif'],capture_output=True,text=True,env=ENV)
        try: res=json.loads(p.stdout)
        except Exception: return d,None,'checker failed: '+(p.stderr[-300:] or p.stdout[-300:])
        new=[]
        seen=set()
        for pr,l in res.items():
            for o in l:
                if (pr,o['rule'],o['key']) not in basekeys and (o['rule'],o['key']) not in seen:
                    seen.add((o['rule'],o['key'])); new.append(o)
        return d,new,None
    finally: shutil.rmtree(tmp,ignore_errors=True)
bad=0
with ThreadPoolExecutor(max_workers=6) as ex:
    for d,new,err in ex.map(run,diffs):
        name=os.path.relpath(d,'/')
        if err: print('%-40s %s'%(name,err)); continue
        if not new: print('%-40s silent'%name); continue
        bad+=1
        print('%-40s FALSE ALARM(S):'%name)
        for o in new: print('      %s %s | %s | %s\n          %s'%(o['status'],o['rule'],o['key'],o['pos'],o['detail'][:300]))
print('refactorings with alarms:',bad,'of',len(diffs))
