#!/usr/bin/env python3
"""Run the given rules (comma list) on every negative control: /verif/refactors/*.diff applied to scratch copies, and the
three mechanical renamings. Prints every violated/undecided obligation that is not violated on /repo (suffix-stripped)."""
import glob,os,shutil,subprocess,sys,tempfile,re
from concurrent.futures import ThreadPoolExecutor
ENV=dict(os.environ,GOFLAGS='-mod=mod -trimpath',GOPROXY='off',GOSUMDB='off',GOTOOLCHAIN='local',GOWORK='off')
HC=os.environ.get('HMSCHECK','/verif/bin/hmscheck'); rules=sys.argv[1]
def bad(repo):
    p=subprocess.run([HC,'-rule',rules,'-repo',repo,'-verif','/verif'],capture_output=True,text=True,env=ENV)
    out=[]
    for l in p.stdout.splitlines():
        if l.startswith('violated') or l.startswith('undecided') or 'FATAL' in l or 'aborted' in l: out.append(l.replace('Zq','')[:260])
    if p.returncode not in (0,1): out.append('EXIT %d %s'%(p.returncode,(p.stderr or p.stdout)[-200:]))
    return out
base=set(re.sub(r'\s+\|\s+\S+:\d+$','',l) for l in bad('/repo'))
def norm(l): return re.sub(r'\s+\|\s+\S+:\d+$','',l)
def run(d):
    tmp=tempfile.mkdtemp(prefix='hms-rc-')
    try:
        scr=os.path.join(tmp,'repo'); os.makedirs(scr); subprocess.run(['rsync','-a','--exclude=.git','/repo/',scr+'/'])
        if d.startswith('rename:'):
            if subprocess.run(['/verif/bin/renamer','-dir',scr,'-what',d[7:],'-suffix','Zq'],capture_output=True,env=ENV).returncode!=0: return d,['renamer failed']
        else:
            if subprocess.run(['git','apply','--whitespace=nowarn',d],cwd=scr,capture_output=True).returncode!=0: return d,None
        if subprocess.run(['go','build','./...'],cwd=scr,capture_output=True,env=ENV).returncode!=0: return d,None
        return d,[l for l in bad(scr) if norm(l) not in base]
    finally: shutil.rmtree(tmp,ignore_errors=True)
items=sorted(glob.glob('/verif/refactors/*.diff'))+['rename:funcs','rename:locals','rename:fields']
na=al=0
with ThreadPoolExecutor(max_workers=8) as ex:
    for d,res in ex.map(run,items):
        if res is None: na+=1; continue
        if res:
            al+=1; print(os.path.basename(d)); [print('    ',l) for l in res]
print('controls: %d, not applicable: %d, with alarms: %d'%(len(items),na,al))
