#!/usr/bin/env python3
"""Apply every /verif/seeded/*/patch.diff to a scratch copy of /repo, run all claimed
checks on it statically (hmscheck -all), and record in each meta.json which property
checks / rules report a violation. Scratch copies live under $TMPDIR and are removed."""
import json,glob,os,shutil,subprocess,sys,tempfile
from concurrent.futures import ThreadPoolExecutor
ENV=dict(os.environ,GOFLAGS='-mod=mod -trimpath',GOPROXY='off',GOSUMDB='off',GOTOOLCHAIN='local',GOWORK='off')
only=sys.argv[1:]
def run(d):
    name=os.path.basename(d)
    tmp=tempfile.mkdtemp(prefix='hms-matrix-')
    try:
        scr=os.path.join(tmp,'repo')
        os.makedirs(scr); subprocess.run(['rsync','-a','--exclude=.git','/repo/',scr+'/'])
        p=subprocess.run(['git','apply','--whitespace=nowarn',os.path.join(d,'patch.diff')],cwd=scr,capture_output=True,text=True)
        if p.returncode!=0: return name,None,'patch does not apply: '+p.stderr[:200]
        p=subprocess.run([os.environ.get('HMSCHECK','/verif/bin/hmscheck'),'-all','-repo',scr,'-verif','/verif'],capture_output=True,text=True,env=ENV)
        try: res=json.loads(p.stdout)
        except Exception as e: return name,None,'checker output unparsable: '+p.stdout[-300:]+p.stderr[-300:]
        return name,res,None
    finally:
        shutil.rmtree(tmp,ignore_errors=True)
dirs=[d for d in sorted(glob.glob('/verif/seeded/*')) if os.path.isdir(d) and os.path.exists(os.path.join(d,'patch.diff')) and (not only or os.path.basename(d) in only)]
base=subprocess.run([os.environ.get('HMSCHECK','/verif/bin/hmscheck'),'-all','-repo','/repo','-verif','/verif'],capture_output=True,text=True,env=ENV)
basej=json.loads(base.stdout)
basekeys={(p,o['rule'],o['key']) for p,l in basej.items() for o in l}
if basekeys: print('WARNING: unchanged tree has %d unlisted violations'%len(basekeys))
with ThreadPoolExecutor(max_workers=6) as ex:
    for name,res,err in ex.map(run,dirs):
        mp=os.path.join('/verif/seeded',name,'meta.json')
        meta=json.load(open(mp))
        if err:
            print('%-10s %s'%(name,err)); meta['matrix_note']=err
        else:
            det={};
            for p,l in res.items():
                new=[o for o in l if (p,o['rule'],o['key']) not in basekeys]
                if new: det[p]=sorted({o['rule'] for o in new})
            meta['detected_by_checks']=sorted(det)
            meta['detected_by_rules']=det
            meta.pop('matrix_note',None)
            own=meta['property'] in det
            print('%-10s own-property-check:%s  fired:%s'%(name,'YES' if own else 'no ',json.dumps(det)))
        json.dump(meta,open(mp,'w'),indent=1)
