#!/usr/bin/env python3
"""Confirm seeded mutants delivered by seed sub-agents (round 3 layout: <root>/<Cxx>/m<k>/{patch.diff,demo.json,...}).
For each: scratch worktree of /repo HEAD (outside /repo and /verif, removed afterwards); the demonstration passes on
the pristine tree; the patch applies and builds; the project's own suite still passes with the patch (demonstration
files removed); the demonstration fails with the patch. Writes <out>/result-<Cxx>-<mk>.json.
usage: verify_seed.py <root> <out> [Cxx ...]"""
import json,os,shutil,subprocess,sys,glob
ENV=dict(os.environ,GOFLAGS='-mod=mod -trimpath',GOPROXY='off',GOSUMDB='off',GOTOOLCHAIN='local',GOWORK='off')
root,out=sys.argv[1],sys.argv[2]; only=sys.argv[3:]
os.makedirs(out,exist_ok=True)
def sh(cmd,cwd,timeout=900):
    try:
        p=subprocess.run(cmd,cwd=cwd,shell=True,env=ENV,capture_output=True,text=True,timeout=timeout)
        return p.returncode,(p.stdout+p.stderr)[-1500:]
    except subprocess.TimeoutExpired:
        return 124,'timeout'
for d in sorted(glob.glob(os.path.join(root,'C??','m?'))):
    prop=os.path.basename(os.path.dirname(d)); mk=os.path.basename(d); name=prop+'-'+mk
    if only and prop not in only: continue
    res={'name':name,'dir':d}
    try:
        dj=json.load(open(os.path.join(d,'demo.json')))
        assert os.path.exists(os.path.join(d,'patch.diff'))
    except Exception as e:
        res['status']='INCOMPLETE: %s'%e; json.dump(res,open(os.path.join(out,'result-%s.json'%name),'w'),indent=1); print(name,res['status']); continue
    wt='/tmp/vw3-'+name
    subprocess.run(['git','-C','/repo','worktree','remove','--force',wt],capture_output=True)
    subprocess.run(['git','-C','/repo','worktree','add','-q','--detach',wt],check=True)
    try:
        def put():
            for f,dst in dj['files'].items():
                os.makedirs(os.path.join(wt,dst),exist_ok=True); shutil.copy(os.path.join(d,f),os.path.join(wt,dst,os.path.basename(f)))
        def drop():
            for f,dst in dj['files'].items():
                p=os.path.join(wt,dst,os.path.basename(f))
                if os.path.exists(p): os.remove(p)
        put(); res['run']=dj['cmd']
        res['pristine_rc'],res['pristine_out']=sh(dj['cmd'],wt)
        drop()
        rc,o=sh('git apply --whitespace=nowarn %s'%os.path.join(d,'patch.diff'),wt)
        if rc!=0: res['status']='PATCH DOES NOT APPLY: '+o[-300:]; raise StopIteration
        touched=subprocess.run(['git','-C',wt,'diff','--name-only'],capture_output=True,text=True).stdout.split()
        res['files_changed']=touched
        if any(t.endswith('_test.go') for t in touched): res['status']='PATCH TOUCHES TESTS'; raise StopIteration
        rc,o=sh('go build ./... && go test -vet=off -count=1 ./...',wt)
        res['suite_rc']=rc
        if rc!=0: res['status']='SUITE FAILS WITH PATCH: '+o[-400:]; raise StopIteration
        put()
        res['mutant_rc'],res['mutant_out']=sh(dj['cmd'],wt)
        if res['pristine_rc']==0 and res['mutant_rc']!=0: res['status']='CONFIRMED'
        elif res['pristine_rc']!=0: res['status']='DEMO FAILS ON PRISTINE'
        else: res['status']='DEMO PASSES ON MUTANT'
    except StopIteration: pass
    except Exception as e: res['status']='ERROR %r'%e
    finally:
        subprocess.run(['git','-C','/repo','worktree','remove','--force',wt],capture_output=True)
    json.dump(res,open(os.path.join(out,'result-%s.json'%name),'w'),indent=1)
    print(name,res['status'])
