#!/bin/sh
# Builds the static analyser from the sources in /verif/hmscheck, offline.
set -e
cd "$(dirname "$0")/hmscheck"
export GOFLAGS=-mod=mod GOPROXY=off GOSUMDB=off GOTOOLCHAIN=local GOWORK=off
mkdir -p ../bin ../evidence
go build -o ../bin/hmscheck .
echo "hmscheck built: $(../bin/hmscheck -manifest | grep -c property_id) manifest entries"
