package main

import (
	"fmt"
	"go/ast"
	"go/types"
	"sort"
	"strings"

	"golang.org/x/tools/go/ssa"
)

func init() {
	register(&Rule{ID: "R-enum-total", Floor: 40, Run: ruleEnumTotal,
		Doc: "every switch over an enum whose default clause panics (or that has no default and is followed by a panic) lists every constant that can reach it: all constants of the enum for an arbitrary value; for `x.Kind()` of an interface, the kinds of the implementers that are ever converted to an interface (producer set); minus what enclosing/preceding guards exclude; and, for a parameter of a function whose every use is a direct call, only what the call sites can pass (case guards at the call site, constants, callee return sets). A missing constant is an input that makes the pipeline panic. A switch inside a String()/Error() method that is reached only through fmt's verb dispatch is recovered by fmt (garbled message, informational); it is an obligation when a module function calls the method directly"})
}

type tblSwitch struct {
	fn      *tblFn
	sw      *ast.SwitchStmt
	how     string // "default panics" | "followed by panic"
	context []string
}

// tblPanickingSwitches enumerates the enum switches of fn that end in a panic.
func (m *tblModel) tblPanickingSwitches(f *tblFn) []tblSwitch {
	info := f.Pkg.TypesInfo
	var out []tblSwitch
	par := tblParents(f.Decl)
	ast.Inspect(f.Decl.Body, func(n ast.Node) bool {
		sw, ok := n.(*ast.SwitchStmt)
		if !ok || sw.Tag == nil {
			return true
		}
		if m.enumOf(info.TypeOf(sw.Tag)) == nil {
			return true
		}
		how := ""
		hasDefault := false
		for _, c := range sw.Body.List {
			cc := c.(*ast.CaseClause)
			if cc.List == nil {
				hasDefault = true
				// (statements after the panic - a `return` to satisfy the compiler - are dead)
				for _, st := range cc.Body {
					if m.tblIsPanicStmt(info, st) {
						how = "default panics"
						break
					}
					if tblHasExit(st) {
						break
					}
				}
			}
		}
		if !hasDefault {
			// the statement after the switch (in its block) is a panic
			var stmt ast.Node = sw
			if ls, ok := par[sw].(*ast.LabeledStmt); ok {
				stmt = ls
			}
			var list []ast.Stmt
			switch p := par[stmt].(type) {
			case *ast.BlockStmt:
				list = p.List
			case *ast.CaseClause:
				list = p.Body
			}
			for i, s := range list {
				if ast.Node(s) == stmt && i+1 < len(list) && m.tblIsPanicStmt(info, list[i+1]) {
					how = "no default, followed by panic"
				}
			}
		}
		if how == "" {
			return true
		}
		out = append(out, tblSwitch{fn: f, sw: sw, how: how, context: tblCaseContext(par, sw)})
		return true
	})
	return out
}

// tblCaseContext: the enclosing case labels of a node (outermost first); used
// to key constructs that occur several times in one function.
func tblCaseContext(par map[ast.Node]ast.Node, n ast.Node) []string {
	var ctx []string
	for p := par[n]; p != nil; p = par[p] {
		if cc, ok := p.(*ast.CaseClause); ok {
			if cc.List == nil {
				ctx = append([]string{"default"}, ctx...)
			} else {
				var ls []string
				for _, e := range cc.List {
					ls = append(ls, tblShort(exprStr(e)))
				}
				ctx = append([]string{"case " + strings.Join(ls, ",")}, ctx...)
			}
		}
	}
	return ctx
}

func tblShort(s string) string {
	if i := strings.LastIndex(s, "."); i >= 0 && !strings.Contains(s, "(") {
		return s[i+1:]
	}
	return s
}

// tblReach propagates guard facts from call sites into closed functions.
type tblReach struct {
	m       *tblModel
	entry   map[*tblFn]*tblFacts // nil value: unrestricted
	busy    map[*tblFn]bool
	closed  map[*types.Func]int // 0 unknown, 1 closed, 2 open
	openWhy map[*types.Func]string
}

func (m *tblModel) reach() *tblReach {
	tblModelMu.Lock()
	defer tblModelMu.Unlock()
	if m.reachCache == nil {
		m.reachCache = &tblReach{m: m, entry: map[*tblFn]*tblFacts{}, busy: map[*tblFn]bool{}, closed: map[*types.Func]int{}, openWhy: map[*types.Func]string{}}
	}
	return m.reachCache
}

func (r *tblReach) guard(f *tblFn) *tblGuard { return r.m.guardFor(f) }

// isClosed: every reference to fn in the loaded program is a direct call, and
// fn cannot be reached through an interface method of the same name.
func (r *tblReach) isClosed(fn *types.Func) (bool, string) {
	switch r.closed[fn] {
	case 1:
		return true, ""
	case 2:
		return false, r.openWhy[fn]
	}
	why := ""
	for _, u := range r.m.uses[fn] {
		if u.Call == nil {
			why = "used as a function value at " + r.m.c.Pos(u.Ident.Pos())
			break
		}
	}
	sig := fn.Type().(*types.Signature)
	if why == "" && sig.Recv() != nil {
		rt := sig.Recv().Type()
		for _, it := range r.m.ifaceMethodNames[fn.Name()] {
			if types.Implements(rt, it.Underlying().(*types.Interface)) || types.Implements(types.NewPointer(rt), it.Underlying().(*types.Interface)) {
				why = "implements " + tblTypeName(it) + "." + fn.Name() + " (dynamic callers)"
				break
			}
		}
		// fmt.Stringer / error
		if why == "" && (fn.Name() == "String" || fn.Name() == "Error") && sig.Params().Len() == 0 {
			why = "may be called by fmt"
		}
	}
	if why == "" && len(r.m.uses[fn]) == 0 {
		why = "no call site in the module"
	}
	if why != "" {
		r.closed[fn] = 2
		r.openWhy[fn] = why
		return false, why
	}
	r.closed[fn] = 1
	return true, ""
}

// tblParamIndex returns receiver (index -1) or parameter index of o in f.
func tblParamIndex(f *tblFn, o types.Object) (int, bool) {
	if o == nil {
		return 0, false
	}
	sig := f.Obj.Type().(*types.Signature)
	if sig.Recv() != nil && types.Object(sig.Recv()) == o {
		return -1, true
	}
	for i := 0; i < sig.Params().Len(); i++ {
		if types.Object(sig.Params().At(i)) == o {
			return i, true
		}
	}
	return 0, false
}

// entryFacts: what holds about f's parameters (and what they point to) at
// every call of f: the join, over all call sites, of the caller's facts at the
// site mapped onto the parameters. nil = nothing known (open function, or a
// call site about which nothing is known).
func (r *tblReach) entryFacts(f *tblFn) *tblFacts {
	if v, ok := r.entry[f]; ok {
		return v
	}
	if r.busy[f] {
		return nil
	}
	if ok, _ := r.isClosed(f.Obj); !ok {
		r.entry[f] = nil
		return nil
	}
	r.busy[f] = true
	defer delete(r.busy, f)
	var acc *tblFacts
	for _, u := range r.m.uses[f.Obj] {
		if u.In == nil || u.Call == nil {
			acc = nil
			break
		}
		site := r.siteFacts(u.In, u.Call, f)
		if acc == nil {
			acc = site
		} else {
			acc = tblFactsOr(acc, site)
		}
		if acc.empty() {
			break
		}
	}
	if acc != nil && acc.empty() {
		acc = nil
	}
	r.entry[f] = acc
	return acc
}

// factsAt: facts at node inside f, including what the callers guarantee.
func (r *tblReach) factsAt(f *tblFn, node ast.Node) *tblFacts {
	return r.guard(f).factsAtInit(node, r.entryFacts(f))
}

// siteFacts: the caller's knowledge at one call site, expressed over the
// callee's parameters.
func (r *tblReach) siteFacts(caller *tblFn, call *ast.CallExpr, callee *tblFn) *tblFacts {
	g := r.guard(caller)
	info := caller.Pkg.TypesInfo
	cf := r.factsAt(caller, call)
	out := newTblFacts()
	sig := callee.Obj.Type().(*types.Signature)
	where := fmt.Sprintf("%s@%s", caller.name(), r.m.c.Pos(call.Pos()))
	bindArg := func(pv *types.Var, arg ast.Expr) {
		arg = ast.Unparen(arg)
		pp := &tblPath{Root: pv}
		pp.Key = tblRootKey(pv)
		_, isPtr := types.Unalias(pv.Type()).Underlying().(*types.Pointer)
		pp.Heap = isPtr
		// constant argument
		if en := r.m.enumOf(pv.Type()); en != nil {
			if k := ConstOf(info, arg); k != nil {
				out.restrict(&tblFact{Path: pp, Enum: en, Allowed: map[string]bool{k.Val().ExactString(): true}, Why: where + " passes " + k.Name()})
				return
			}
			if c2, ok := arg.(*ast.CallExpr); ok {
				if fn := CalleeOf(info, c2); fn != nil {
					if rs := r.m.returnSet(fn.Origin(), en); rs != nil {
						out.restrict(&tblFact{Path: pp, Enum: en, Allowed: rs, Why: where + " passes a result of " + fn.Name() + " ∈ {" + tblSetNames(en, rs) + "}"})
						return
					}
				}
			}
		}
		// argument of concrete type passed for a Kind-interface parameter
		if ki := r.m.ifaceOf(pv.Type()); ki != nil {
			if t := info.TypeOf(arg); t != nil {
				if _, isI := types.Unalias(t).Underlying().(*types.Interface); !isI {
					if im := ki.implOf(t); im != nil && im.NonConst == "" {
						set := map[string]bool{}
						for _, k := range im.Kinds {
							set[k.Val().ExactString()] = true
						}
						out.restrict(&tblFact{Path: pp.extend("."+ki.Method+"()", false), Enum: ki.Enum, Allowed: set, Why: where + " passes a " + im.name()})
						return
					}
				}
			}
		}
		ap := g.pathOf(arg)
		if ap == nil {
			return
		}
		conv := func(p *tblPath) *tblPath {
			if p.Root != ap.Root || !tblHasPrefix(p.Parts, ap.Parts) {
				return nil
			}
			rest := p.Parts[len(ap.Parts):]
			np := &tblPath{Root: pv, Parts: rest}
			np.Key = tblRootKey(pv) + rest
			np.Fields = p.Fields[tblMin(len(ap.Fields), len(p.Fields)):]
			// a value parameter is a private copy; below a pointer it is shared memory
			np.Heap = isPtr || strings.Contains(rest, ".*")
			return np
		}
		for _, ft := range cf.m {
			if np := conv(ft.Path); np != nil {
				if ft2 := cf.get(ft.Path); ft2 != nil {
					out.restrict(&tblFact{Path: np, Enum: ft2.Enum, Allowed: ft2.Allowed, Why: where + ": " + tblTrunc(ft2.Why, 300)})
				}
			}
		}
		for _, e := range cf.eqs {
			// equalities are kept when both sides map (possibly through different parameters): handled below
			_ = e
		}
	}
	if sig.Recv() != nil {
		if se, ok := ast.Unparen(call.Fun).(*ast.SelectorExpr); ok {
			bindArg(sig.Recv(), se.X)
		}
	}
	for i := 0; i < sig.Params().Len(); i++ {
		if sig.Variadic() && i == sig.Params().Len()-1 {
			break
		}
		if i < len(call.Args) {
			bindArg(sig.Params().At(i), call.Args[i])
		}
	}
	return out
}

// returnSet: constants a function returns (nil when a return is not constant).
func (m *tblModel) returnSet(fn *types.Func, en *Enum) map[string]bool {
	f := m.fns[fn]
	if f == nil {
		return nil
	}
	sig := fn.Type().(*types.Signature)
	if sig.Results().Len() != 1 || m.enumOf(sig.Results().At(0).Type()) == nil || m.enumOf(sig.Results().At(0).Type()).Type != en.Type {
		return nil
	}
	ks, why := m.constResults(f, 0)
	if why != "" || len(ks) == 0 {
		return nil
	}
	out := map[string]bool{}
	for _, k := range ks {
		out[k.Val().ExactString()] = true
	}
	return out
}

// tblLicensedByTyping: dispatches whose reachable set is fixed by the static
// type system of Homescript rather than by the Go code: a switch on the kind
// of a runtime value, on the kind of the static type of an analysed
// expression (x.Type().Kind()), and the operator switches nested in a clause
// of such a switch. They are the (type kind × operator) and (value kind ×
// member) tables that R-optable / R-members compare against the analyzer's
// admission tables; here they are only counted.
func (m *tblModel) tblLicensedByTyping(g *tblGuard, sw *ast.SwitchStmt) string {
	if w := m.tblLicensedAt(g, sw, sw); w != "" {
		return w
	}
	// a clause body extracted into a helper: the helper dispatches on what the clause hands it (a
	// parameter, or something reached from one)
	if sw.Tag != nil {
		if root := tblRootObj(g.info, g.defOf(sw.Tag)); root != nil {
			if _, isParam := tblParamIndex(g.fn, root); isParam {
				return m.tblLicensedByCallers(g.fn, 0)
			}
		}
	}
	return ""
}

// tblLicensedByCallers: the function is only ever entered from inside a clause
// of a typing-licensed dispatch (the body of such a clause extracted into a
// helper): every reference is a direct call and every call sits in such a
// clause, or in a function that is itself only entered that way.
func (m *tblModel) tblLicensedByCallers(f *tblFn, depth int) string {
	if f == nil || depth > 2 {
		return ""
	}
	if closed, _ := m.reach().isClosed(f.Obj); !closed {
		return ""
	}
	uses := m.uses[f.Obj]
	if len(uses) == 0 {
		return ""
	}
	why := ""
	for _, u := range uses {
		if u.Call == nil || u.In == nil || u.In == f {
			return ""
		}
		g := m.guardFor(u.In)
		w := m.tblLicensedAt(g, u.Call, nil)
		if w == "" {
			w = m.tblLicensedByCallers(u.In, depth+1)
		}
		if w == "" {
			return ""
		}
		if why == "" {
			why = w
		}
	}
	if strings.HasPrefix(why, "reached only from") {
		return why
	}
	return "reached only from " + strings.TrimPrefix(why, "nested in ") + " (every call site of " + f.name() + ")"
}

// tblLicensedAt: node (inside g's function) is a licensed dispatch itself
// (self != nil) or lies in a clause of one.
func (m *tblModel) tblLicensedAt(g *tblGuard, node ast.Node, self *ast.SwitchStmt) string {
	info := g.info
	sw := self
	direct := func(sw *ast.SwitchStmt) string {
		// `k := x.Kind(); switch k` is `switch x.Kind()`
		call, ok := g.defOf(sw.Tag).(*ast.CallExpr)
		if !ok || len(call.Args) != 0 {
			return ""
		}
		se, ok := ast.Unparen(call.Fun).(*ast.SelectorExpr)
		if !ok {
			return ""
		}
		ki := m.ifaceOf(info.TypeOf(se.X))
		if ki == nil || se.Sel.Name != ki.Method {
			return ""
		}
		if m.tblIsValueIface(ki) {
			return "kind of a runtime value"
		}
		// <expr>.Type().Kind(): kind of the static type of an analysed node
		if c2, ok := g.defOf(se.X).(*ast.CallExpr); ok && len(c2.Args) == 0 {
			if s2, ok := ast.Unparen(c2.Fun).(*ast.SelectorExpr); ok && s2.Sel.Name == "Type" {
				if nk := m.ifaceOf(info.TypeOf(s2.X)); nk != nil && !m.tblIsValueIface(nk) {
					return "kind of the static type of an analysed node"
				}
			}
		}
		return ""
	}
	if sw != nil {
		if sw.Tag == nil {
			return ""
		}
		if w := direct(sw); w != "" {
			return w
		}
	}
	for n := g.parents[node]; n != nil; n = g.parents[n] {
		if _, ok := n.(*ast.FuncLit); ok {
			break
		}
		if outer, ok := n.(*ast.SwitchStmt); ok && outer.Tag != nil {
			if w := direct(outer); w != "" {
				return "nested in a dispatch on the " + w
			}
		}
	}
	return ""
}

// recoveryOnly: AST node types of analyzer/ast that the analyzer builds only
// together with an error diagnostic (error-recovery placeholders; see
// rules_tables_recovery.go). Stages that run on successfully analysed programs
// never meet them.
func (m *tblModel) recoveryOnly() map[*types.TypeName]string {
	tblModelMu.Lock()
	if m.recovery != nil {
		defer tblModelMu.Unlock()
		return m.recovery
	}
	tblModelMu.Unlock()
	out := m.computeRecoveryOnly()
	tblModelMu.Lock()
	m.recovery = out
	tblModelMu.Unlock()
	return out
}

// tblBaseOf: the constants the enum-valued expression src (in f) can have by
// construction: the discriminator of a Kind-style interface value (producer
// set), of a concrete implementer, the opcode of an instruction outside the
// compiler, or - for a parameter of a function that is only called directly -
// what every call site passes. ok=false: nothing known (any constant).
func (m *tblModel) tblBaseOf(f *tblFn, src ast.Expr, en *Enum, depth int) (base map[string]bool, baseWhy string, class string, ok bool) {
	info := f.Pkg.TypesInfo
	rel := relPkg(f.Pkg.PkgPath)
	downstream := !strings.HasSuffix(rel, "homescript/analyzer") && !strings.HasSuffix(rel, "homescript/analyzer/ast")
	src = ast.Unparen(src)
	class = "value"
	if call, isCall := src.(*ast.CallExpr); isCall && len(call.Args) == 0 {
		se, isSel := ast.Unparen(call.Fun).(*ast.SelectorExpr)
		if !isSel {
			return nil, "", "", false
		}
		recvT := info.TypeOf(se.X)
		if ki := m.ifaceOf(recvT); ki != nil && se.Sel.Name == ki.Method && ki.Enum.Type == en.Type {
			reach, _ := m.reachableKinds(ki)
			base = reach
			class = "kind"
			var unprod, recov []string
			for _, k := range en.Consts {
				v := k.Val().ExactString()
				if !reach[v] && en.ByVal[v][0] == k {
					unprod = append(unprod, k.Name())
				}
			}
			if downstream && strings.HasSuffix(ki.Named.Obj().Pkg().Path(), "/analyzer/ast") {
				ro := m.recoveryOnly()
				for v := range reach {
					all := len(ki.byKind[v]) > 0
					for _, im := range ki.byKind[v] {
						if _, ok := ro[im.T.Obj()]; !ok {
							all = false
						}
					}
					if all {
						delete(base, v)
						recov = append(recov, ki.Enum.ByVal[v][0].Name())
					}
				}
			}
			baseWhy = fmt.Sprintf("Kind() of %s: producer set = kinds of the implementers converted to an interface somewhere in the module", ki.Name)
			if len(unprod) > 0 {
				baseWhy += " (never produced: " + strings.Join(unprod, ",") + ")"
			}
			if len(recov) > 0 {
				sort.Strings(recov)
				baseWhy += " (error-recovery placeholders the analyzer builds only after reporting an error, not met by this stage: " + strings.Join(recov, ",") + ")"
			}
			return base, baseWhy, class, true
		}
		if recvT != nil && m.tblIsDiscriminatorName(se.Sel.Name, en) {
			// Kind() of a concrete value: exactly its kinds
			for _, ki := range m.ifaces {
				if ki.Enum.Type == en.Type && ki.Method == se.Sel.Name {
					if im := ki.implOf(recvT); im != nil && im.NonConst == "" {
						base = map[string]bool{}
						for _, k := range im.Kinds {
							base[k.Val().ExactString()] = true
						}
						return base, "Kind() of the concrete type " + im.name(), class, true
					}
				}
			}
			return nil, "", "", false
		}
		if nt, isNamed := types.Unalias(recvT).(*types.Named); isNamed && m.c.HasPkg("homescript/compiler") {
			// the opcode of an instruction: what the compiler can leave in a function body
			if op := m.opcodeModel(); op != nil && nt.Obj() == op.iface.Obj() && se.Sel.Name == op.method && f.Pkg.Types != op.iface.Obj().Pkg() {
				base = map[string]bool{}
				var stripped []string
				for v := range op.emitted {
					if _, s := op.stripped[v]; s {
						stripped = append(stripped, op.name(v))
						continue
					}
					base[v] = true
				}
				sort.Strings(stripped)
				baseWhy = fmt.Sprintf("%s() of %s outside the compiler: the %d opcodes the compiler builds (R-opcode-shape) minus those filtered out before Compile returns (%s)", op.method, tblTypeName(op.iface), len(op.emitted), strings.Join(stripped, ","))
				return base, baseWhy, "kind", true
			}
		}
		return nil, "", "", false
	}
	// a parameter of a function whose every reference is a direct call: the union over the call sites
	if id, isId := src.(*ast.Ident); isId && depth < 2 {
		obj := info.Uses[id]
		idx, isParam := tblParamIndex(f, obj)
		if !isParam || idx < 0 || m.guardFor(f).written[obj] > 0 {
			return nil, "", "", false
		}
		if closed, _ := m.reach().isClosed(f.Obj); !closed {
			return nil, "", "", false
		}
		sig := f.Obj.Type().(*types.Signature)
		if sig.Variadic() && idx >= sig.Params().Len()-1 {
			return nil, "", "", false
		}
		uses := m.uses[f.Obj]
		if len(uses) == 0 {
			return nil, "", "", false
		}
		base = map[string]bool{}
		for _, u := range uses {
			if u.Call == nil || u.In == nil || idx >= len(u.Call.Args) {
				return nil, "", "", false
			}
			arg := u.Call.Args[idx]
			// a constant argument
			if k := ConstOf(u.In.Pkg.TypesInfo, ast.Unparen(arg)); k != nil {
				base[k.Val().ExactString()] = true
				if baseWhy == "" {
					baseWhy = "constant arguments"
				}
				continue
			}
			b, why, cls, ok := m.tblBaseOf(u.In, m.guardFor(u.In).defOf(arg), en, depth+1)
			if !ok {
				return nil, "", "", false
			}
			for v := range b {
				base[v] = true
			}
			if cls == "kind" {
				class = "kind"
			}
			if baseWhy == "" || baseWhy == "constant arguments" {
				baseWhy = why
			}
		}
		return base, fmt.Sprintf("parameter %s, at every call site of %s: %s", id.Name, f.name(), baseWhy), class, true
	}
	return nil, "", "", false
}

// tblIsDiscriminatorName: some Kind-style interface over this enum uses a
// discriminator method of that name.
func (m *tblModel) tblIsDiscriminatorName(name string, en *Enum) bool {
	for _, ki := range m.ifaces {
		if ki.Enum.Type == en.Type && ki.Method == name {
			return true
		}
	}
	return false
}

// tblClauseOnlyPanics: the clause body is nothing but a panic.
func (m *tblModel) tblClauseOnlyPanics(info *types.Info, cc *ast.CaseClause) bool {
	return len(cc.Body) == 1 && m.tblIsPanicStmt(info, cc.Body[0])
}

func ruleEnumTotal(c *Ctx) []Obligation {
	m := tblModelOf(c)
	r := m.reach()
	var obs []Obligation
	seen := map[string]int{}
	var pkgs []string
	pkgs = append(pkgs, tblPipeline...)
	sort.Strings(pkgs)
	var licensed []string
	for _, rel := range pkgs {
		p := c.Pkg(rel)
		info := p.TypesInfo
		downstream := !strings.HasSuffix(rel, "homescript/analyzer") && !strings.HasSuffix(rel, "homescript/analyzer/ast")
		for _, fd := range AllFuncDecls(p) {
			f := m.fnByDecl[fd]
			if f == nil {
				continue
			}
			for _, ps := range m.tblPanickingSwitches(f) {
				sw := ps.sw
				en := m.enumOf(info.TypeOf(sw.Tag))
				key := f.name() + "|"
				if len(ps.context) > 0 {
					key += strings.Join(ps.context, "|") + "|"
				}
				// keyed by what is dispatched on: `k := x.Kind(); switch k` is `switch x.Kind()`
				key = tblUniq(seen, key+"switch "+exprStr(r.guard(f).defOf(sw.Tag)))
				pos := c.Pos(sw.Pos())
				g := r.guard(f)

				if why := m.tblLicensedByTyping(g, sw); why != "" && downstream && !strings.HasPrefix(rel, "homescript/parser") && !strings.HasPrefix(rel, "homescript/lexer") {
					licensed = append(licensed, key)
					continue
				}

				covered := map[string]bool{}
				panicking := map[string]bool{}
				nonConst := ""
				for _, cl := range sw.Body.List {
					cc := cl.(*ast.CaseClause)
					onlyPanics := m.tblClauseOnlyPanics(info, cc)
					for _, e := range cc.List {
						k := ConstOf(info, e)
						if k == nil {
							nonConst = exprStr(e)
							continue
						}
						if onlyPanics {
							panicking[k.Val().ExactString()] = true
						}
						covered[k.Val().ExactString()] = true
					}
				}
				if nonConst != "" {
					obs = append(obs, Obligation{Key: key, Pos: pos, Status: Undecided, Detail: "case label " + nonConst + " is not a constant"})
					continue
				}

				// compile-time constant tag / dead code
				if tv, ok := info.Types[sw.Tag]; ok && tv.Value != nil {
					run := &tblRun{g: g}
					run.factsTo(sw, nil)
					v := tv.Value.ExactString()
					switch {
					case run.dead:
						obs = append(obs, Obligation{Key: key, Pos: pos, Status: Discharged, Nontrivial: true,
							Detail: ps.how + "; the tag is the compile-time constant " + exprStr(sw.Tag) + " and the switch sits in a branch whose condition is constant false (dead code)"})
					case covered[v]:
						obs = append(obs, Obligation{Key: key, Pos: pos, Status: Discharged, Detail: ps.how + "; constant tag, its value is listed"})
					default:
						obs = append(obs, Obligation{Key: key, Pos: pos, Status: Violated, Nontrivial: true,
							Detail: ps.how + "; the tag is the compile-time constant " + exprStr(sw.Tag) + " whose value has no (non-panicking) case: the switch always panics"})
					}
					continue
				}

				// 1. base set
				base := tblAllOf(en)
				baseWhy := "arbitrary value of " + tblTypeName(en.Type) + ": all constants"
				class := "value"
				tp := g.pathOf(sw.Tag)
				// where the value comes from (`k := x.Kind(); switch k` is `switch x.Kind()`; a parameter: what
				// every call site passes)
				if b, why, cls, ok := m.tblBaseOf(f, g.defOf(sw.Tag), en, 0); ok {
					base, baseWhy, class = b, why, cls
				}
				// 2./3. guards and call sites
				required := base
				restrictWhy := ""
				if tp != nil {
					if ft := r.factsAt(f, sw).get(tp); ft != nil {
						required = map[string]bool{}
						for v := range ft.Allowed {
							if base[v] {
								required[v] = true
							}
						}
						restrictWhy = ft.Why
					}
				}
				var missingNames, panicNames, noted []string
				for _, k := range en.Consts {
					v := k.Val().ExactString()
					if en.ByVal[v][0] != k {
						continue
					}
					if required[v] && !covered[v] {
						missingNames = append(missingNames, k.Name())
					}
					if required[v] && panicking[v] {
						noted = append(noted, k.Name())
					}
				}
				detail := fmt.Sprintf("%s; %s; %d of %d constants handled", ps.how, baseWhy, len(covered), len(en.ByVal))
				if restrictWhy != "" {
					detail += "; restricted to {" + tblSetNames(en, required) + "} by " + tblTrunc(restrictWhy, 700)
				}
				if closed, why := r.isClosed(f.Obj); !closed && tp != nil {
					if _, isParam := tblParamIndex(f, tp.Root); isParam {
						detail += "; call sites not used (" + why + ")"
					}
				}
				if len(noted) > 0 {
					detail += "; note: listed with a clause that only panics (an explicit 'unsupported', not judged here): " + strings.Join(noted, ",")
				}
				nontrivial := class == "kind" || restrictWhy != ""
				if len(missingNames)+len(panicNames) == 0 {
					obs = append(obs, Obligation{Key: key, Pos: pos, Status: Discharged, Detail: detail, Nontrivial: nontrivial})
					continue
				}
				head := ""
				if len(missingNames) > 0 {
					head = "missing " + strings.Join(missingNames, ", ")
				}
				if len(panicNames) > 0 {
					if head != "" {
						head += "; "
					}
					head += "listed but the clause only panics: " + strings.Join(panicNames, ", ")
				}
				detail = head + ": " + detail
				// fmt-recovered Stringers
				if tblIsStringerLike(f.Obj) {
					direct, witness := m.directlyCalled(f.Obj)
					if !direct {
						obs = append(obs, Obligation{Key: key, Pos: pos, Status: Info,
							Detail: detail + "; the method is reached only through fmt's verb dispatch, which recovers the panic (garbled message, no crash): " + witness})
						continue
					}
					detail += "; called directly (not through fmt): " + witness
				}
				obs = append(obs, Obligation{Key: key, Pos: pos, Status: Violated, Detail: detail, Nontrivial: true})
			}
		}
	}
	sort.Strings(licensed)
	obs = append(obs, Obligation{Key: "summary|dispatches licensed by Homescript typing", Pos: "-", Status: Info,
		Detail: fmt.Sprintf("%d panicking switches dispatch on the kind of a runtime value / of an analysed node's static type (or on an operator inside such a clause); which constants reach them is decided by Homescript's type checker, i.e. by the analyzer-admission tables (R-optable, R-members), not here: %s", len(licensed), strings.Join(licensed, "; "))})
	return obs
}

func tblTrunc(s string, n int) string {
	if len(s) > n {
		return s[:n] + "…"
	}
	return s
}

func tblIsStringerLike(fn *types.Func) bool {
	sig := fn.Type().(*types.Signature)
	if sig.Recv() == nil {
		return false
	}
	switch fn.Name() {
	case "String", "Error", "GoString":
		return sig.Params().Len() == 0 && sig.Results().Len() == 1
	}
	return false
}

// directlyCalled: is there a call chain into fn from module code that does not
// pass through package fmt? Callers that are themselves String()/Error()
// methods propagate the question upwards (their panic unwinds into their own
// caller). Uses the VTA call graph for interface dispatch.
func (m *tblModel) directlyCalled(fn *types.Func) (bool, string) {
	prog := m.c.SSA()
	cg := m.c.CallGraph()
	start := prog.FuncValue(fn)
	if start == nil {
		return true, "no SSA function (treated as direct)"
	}
	seen := map[*ssa.Function]bool{}
	var fmtCallers []string
	var visit func(f *ssa.Function, chain string, depth int) (bool, string)
	visit = func(f *ssa.Function, chain string, depth int) (bool, string) {
		if seen[f] || depth > 12 {
			return false, ""
		}
		seen[f] = true
		n := cg.Nodes[f]
		if n == nil {
			return false, ""
		}
		type cand struct {
			f    *ssa.Function
			site string
		}
		var cs []cand
		for _, e := range n.In {
			site := ""
			if e.Site != nil {
				site = m.c.Pos(e.Site.Pos())
			}
			cs = append(cs, cand{e.Caller.Func, site})
		}
		sort.Slice(cs, func(i, j int) bool { return cs[i].f.String()+cs[i].site < cs[j].f.String()+cs[j].site })
		for _, cd := range cs {
			cf := cd.f
			if cf.Synthetic != "" && cf.Pkg == nil || (cf.Synthetic != "" && strings.Contains(cf.Synthetic, "wrapper")) || (cf.Synthetic != "" && strings.Contains(cf.Synthetic, "thunk")) || (cf.Synthetic != "" && strings.Contains(cf.Synthetic, "bound")) {
				if ok, w := visit(cf, chain, depth+1); ok {
					return true, w
				}
				continue
			}
			pkg := ""
			if cf.Pkg != nil {
				pkg = cf.Pkg.Pkg.Path()
			} else if cf.Parent() != nil && cf.Parent().Pkg != nil {
				pkg = cf.Parent().Pkg.Pkg.Path()
			}
			if !strings.HasPrefix(pkg, ModPath) {
				if len(fmtCallers) < 3 {
					fmtCallers = append(fmtCallers, cf.String())
				}
				continue
			}
			link := fmt.Sprintf("%s (%s) → %s", cf.String(), cd.site, chain)
			if obj, ok := cf.Object().(*types.Func); ok && tblIsStringerLike(obj) {
				if ok, w := visit(cf, link, depth+1); ok {
					return true, w
				}
				continue
			}
			return true, link
		}
		return false, ""
	}
	ok, w := visit(start, fn.FullName(), 0)
	if ok {
		return true, strings.ReplaceAll(w, ModPath+"/homescript/", "")
	}
	if len(fmtCallers) == 0 {
		return false, "no caller at all in the call graph (only reflection-based fmt dispatch can reach it)"
	}
	return false, "callers outside the module: " + strings.Join(fmtCallers, ", ")
}
