package main

// R-member-operators (C04, C18): the member operators of the language
// (`.`, `->`, `~>`) are implemented twice — the compiler lowers each operator
// to a sequence of opcodes whose VM handlers do the lookup, the interpreter
// branches on the operator. For every operator the two implementations must
// agree on where the name is looked up (member table / a value's storage) and
// on what is produced when the name is found and when it is missing
// (the entry, an option around it, none, an error of which class, a panic).
// Both sides are evaluated symbolically (path enumeration over the handler
// clauses resp. the interpreter function, with the operand stack threaded
// through the opcode sequence).

import (
	"fmt"
	"go/ast"
	"go/token"
	"go/types"
	"sort"
	"strings"
)

func init() {
	register(&Rule{ID: "R-member-operators", Floor: 6, Run: ruleMemberOperators,
		Doc: "C04/C18: for every member operator of the language the VM (the opcode sequence the compiler emits for the operator, evaluated through the handlers of the run loop) and the interpreter (its branch for that operator) produce the same thing: the same lookup source (the value's member table or the storage of the same value kind), the same result when the name is found (the stored entry itself / an option around the entry) and the same outcome when it is missing (none / an error of the same class / a panic). A branch that post-processes the entry in one engine only (a cast, a second wrapping) makes `obj->k` differ for entries that already are options: Some(Some(2)) in one engine, Some(2) in the other."})
}

// ---- symbolic executor ----

type r4mPath struct {
	vals    map[types.Object]string
	flags   map[types.Object]string // found-flag variable -> container it belongs to
	decided map[string]bool         // container -> found?
	stack   []string
	outcome string // "" while running; "value:…", "error:…", "panic"
	undec   string
}

func (p *r4mPath) clone() *r4mPath {
	q := &r4mPath{vals: map[types.Object]string{}, flags: map[types.Object]string{}, decided: map[string]bool{}, stack: append([]string(nil), p.stack...), outcome: p.outcome, undec: p.undec}
	for k, v := range p.vals {
		q.vals[k] = v
	}
	for k, v := range p.flags {
		q.flags[k] = v
	}
	for k, v := range p.decided {
		q.decided[k] = v
	}
	return q
}

type r4mExec struct {
	c        *Ctx
	l        *mbLib
	info     *types.Info
	vm       bool
	pops     map[*types.Func]bool
	pushes   map[*types.Func]bool
	opType   types.Type // the member operator enum
	opConsts map[*types.Const]bool
	inTable  map[string]bool // storage descriptors whose entries are members of the kind's table (own fields win)
	operator *types.Const    // interpreter: the operator under evaluation
	results  int             // interpreter: number of results of the function
}

func r4mInner(s string) string {
	if s == "ValueOption(none)" {
		return "nil"
	}
	if strings.HasPrefix(s, "ValueOption(") && strings.HasSuffix(s, ")") {
		return s[len("ValueOption(") : len(s)-1]
	}
	return "inner(" + s + ")"
}

func (x *r4mExec) eval(p *r4mPath, e ast.Expr) string {
	info := x.info
	e = ast.Unparen(e)
	if tv, ok := info.Types[e]; ok && tv.IsNil() {
		return "nil"
	}
	switch v := e.(type) {
	case *ast.Ident:
		if o := r2tObj(info, v); o != nil {
			if s, ok := p.vals[o]; ok {
				return s
			}
		}
		return "?" + v.Name
	case *ast.StarExpr:
		return x.eval(p, v.X)
	case *ast.UnaryExpr:
		if v.Op == token.AND {
			return x.eval(p, v.X)
		}
	case *ast.TypeAssertExpr:
		return x.eval(p, v.X)
	case *ast.IndexExpr:
		return "entry(" + x.eval(p, v.X) + ")"
	case *ast.SelectorExpr:
		if fv, ok := info.Uses[v.Sel].(*types.Var); ok && fv.IsField() {
			if im := x.l.implOfType(info.TypeOf(v.X)); im != nil {
				if _, isStorage := r2tStorageFields(im)[fv]; isStorage {
					return "storage(" + im.Name() + "." + fv.Name() + ")"
				}
				if im.Name() == "ValueOption" || strings.HasPrefix(x.eval(p, v.X), "ValueOption(") {
					return r4mInner(x.eval(p, v.X))
				}
				return "field(" + fv.Name() + " of " + x.eval(p, v.X) + ")"
			}
		}
		return "?" + exprStr(v)
	case *ast.CallExpr:
		if tv, ok := info.Types[v.Fun]; ok && tv.IsType() && len(v.Args) == 1 {
			return x.eval(p, v.Args[0])
		}
		fn := CalleeOf(info, v)
		if fn == nil {
			return "?call"
		}
		if x.vm && x.pops[fn] {
			if len(p.stack) == 0 {
				return "base"
			}
			top := p.stack[len(p.stack)-1]
			p.stack = p.stack[:len(p.stack)-1]
			return top
		}
		if sel, ok := ast.Unparen(v.Fun).(*ast.SelectorExpr); ok && sel.Sel.Name == "Fields" && len(v.Args) == 0 {
			if t := info.TypeOf(sel.X); x.l.isValueIface(t) || x.l.implOfType(t) != nil {
				return "table"
			}
		}
		if ct := x.l.ctorOf(fn); ct != nil {
			if ct.none {
				return ct.impl.Name() + "(none)"
			}
			var args []string
			for _, a := range v.Args {
				args = append(args, x.eval(p, a))
			}
			if len(args) == 1 && args[0] == "nil" {
				return ct.impl.Name() + "(none)"
			}
			return ct.impl.Name() + "(" + strings.Join(args, ", ") + ")"
		}
		if cls := x.l.errClassIn(info, v); cls != "" {
			return "error:" + mbTwin(cls)
		}
		var args []string
		for _, a := range v.Args {
			s := x.eval(p, a)
			if strings.HasPrefix(s, "?") {
				s = "_"
			}
			args = append(args, s)
		}
		return "call:" + fn.Name() + "(" + strings.Join(args, ", ") + ")"
	}
	return "?" + exprStr(e)
}

// cond evaluates a condition: 1 true, 0 false, -1 unknown; forkOn: a found-flag container to decide first.
func (x *r4mExec) cond(p *r4mPath, e ast.Expr) (val int, forkOn string) {
	info := x.info
	e = ast.Unparen(e)
	switch v := e.(type) {
	case *ast.Ident:
		if o := r2tObj(info, v); o != nil {
			if c, ok := p.flags[o]; ok {
				if d, ok := p.decided[c]; ok {
					if d {
						return 1, ""
					}
					return 0, ""
				}
				return -1, c
			}
		}
		if tv := info.Types[v]; tv.Value != nil {
			if tv.Value.ExactString() == "true" {
				return 1, ""
			}
			return 0, ""
		}
	case *ast.UnaryExpr:
		if v.Op == token.NOT {
			r, f := x.cond(p, v.X)
			if r < 0 {
				return r, f
			}
			return 1 - r, ""
		}
	case *ast.BinaryExpr:
		switch v.Op {
		case token.LOR, token.LAND:
			a, fa := x.cond(p, v.X)
			if a < 0 && fa != "" {
				return -1, fa
			}
			b, fb := x.cond(p, v.Y)
			if b < 0 && fb != "" {
				return -1, fb
			}
			if v.Op == token.LOR {
				if a == 1 || b == 1 {
					return 1, ""
				}
				if a == 0 && b == 0 {
					return 0, ""
				}
			} else {
				if a == 0 || b == 0 {
					return 0, ""
				}
				if a == 1 && b == 1 {
					return 1, ""
				}
			}
			return -1, ""
		case token.EQL, token.NEQ:
			res := -1
			// operator comparison (interpreter)
			if x.operator != nil {
				for _, pair := range [][2]ast.Expr{{v.X, v.Y}, {v.Y, v.X}} {
					if k := ConstOf(info, pair[1]); k != nil && x.opConsts[k] {
						if ConstOf(info, pair[0]) == nil {
							if k == x.operator {
								res = 1
							} else {
								res = 0
							}
						}
					}
				}
			}
			// nil tests
			if res < 0 {
				for _, pair := range [][2]ast.Expr{{v.X, v.Y}, {v.Y, v.X}} {
					if !mbIsNil(info, pair[1]) {
						continue
					}
					s := x.eval(p, pair[0])
					switch {
					case s == "nil":
						res = 1
					case strings.HasPrefix(s, "entry("):
						c := s[len("entry(") : len(s)-1]
						d, ok := p.decided[c]
						if !ok {
							return -1, c
						}
						if d {
							res = 0 // stored cells are non-nil
						} else {
							res = 1
						}
					case strings.HasPrefix(s, "?") || strings.HasPrefix(s, "inner(") || strings.HasPrefix(s, "call:"):
						// an error / interrupt result of an opaque call: assume the call succeeded
						if t := info.TypeOf(pair[0]); t != nil {
							if pt, ok := t.(*types.Pointer); ok && types.Identical(pt.Elem(), x.l.intrT) {
								res = 1
							} else if t.String() == "error" {
								res = 1
							}
						}
					default:
						res = 0
					}
				}
			}
			if res < 0 {
				return -1, ""
			}
			if v.Op == token.NEQ {
				return 1 - res, ""
			}
			return res, ""
		}
	}
	return -1, ""
}

func (x *r4mExec) run(list []ast.Stmt, in []*r4mPath) []*r4mPath {
	cur := in
	for _, st := range list {
		var next []*r4mPath
		for _, p := range cur {
			if p.outcome != "" || p.undec != "" {
				next = append(next, p)
				continue
			}
			next = append(next, x.stmt(st, p)...)
		}
		cur = next
		if len(cur) > 64 {
			for _, p := range cur {
				p.undec = "too many paths"
			}
			return cur
		}
	}
	return cur
}

func (x *r4mExec) assign(p *r4mPath, lhs []ast.Expr, rhs []ast.Expr) {
	info := x.info
	set := func(e ast.Expr, s string) {
		if o := r2tObj(info, e); o != nil {
			p.vals[o] = s
			delete(p.flags, o)
		}
	}
	if len(lhs) == 2 && len(rhs) == 1 {
		r := ast.Unparen(rhs[0])
		if ix, ok := r.(*ast.IndexExpr); ok {
			if _, isMap := info.TypeOf(ix.X).Underlying().(*types.Map); isMap {
				c := x.eval(p, ix.X)
				set(lhs[0], "entry("+c+")")
				if o := r2tObj(info, lhs[1]); o != nil {
					p.flags[o] = c
				}
				if c == "zero" || c == "nil" {
					p.decided[c] = false // a lookup in a nil map finds nothing
				}
				return
			}
		}
		if ta, ok := r.(*ast.TypeAssertExpr); ok {
			set(lhs[0], x.eval(p, ta.X))
			set(lhs[1], "?ok")
			return
		}
		s := x.eval(p, r)
		set(lhs[0], s)
		set(lhs[1], "nil") // the error / interrupt result: the call is assumed to succeed
		return
	}
	if len(lhs) == len(rhs) {
		for i := range lhs {
			set(lhs[i], x.eval(p, rhs[i]))
		}
	}
}

func (x *r4mExec) stmt(st ast.Stmt, p *r4mPath) []*r4mPath {
	info := x.info
	switch s := st.(type) {
	case *ast.BlockStmt:
		return x.run(s.List, []*r4mPath{p})
	case *ast.AssignStmt:
		x.assign(p, s.Lhs, s.Rhs)
		return []*r4mPath{p}
	case *ast.DeclStmt:
		if gd, ok := s.Decl.(*ast.GenDecl); ok {
			for _, sp := range gd.Specs {
				if vs, ok := sp.(*ast.ValueSpec); ok {
					for i, nm := range vs.Names {
						if o := info.Defs[nm]; o != nil {
							if i < len(vs.Values) {
								p.vals[o] = x.eval(p, vs.Values[i])
							} else {
								p.vals[o] = "zero"
							}
						}
					}
				}
			}
		}
		return []*r4mPath{p}
	case *ast.ExprStmt:
		if IsPanicCall(info, s) {
			p.outcome = "panic"
			return []*r4mPath{p}
		}
		if call, ok := s.X.(*ast.CallExpr); ok && x.vm && x.pushes[CalleeOf(info, call)] && len(call.Args) == 1 {
			p.stack = append(p.stack, x.eval(p, call.Args[0]))
		}
		return []*r4mPath{p}
	case *ast.IfStmt:
		paths := []*r4mPath{p}
		if s.Init != nil {
			paths = x.stmt(s.Init, p)
		}
		var out []*r4mPath
		for _, q := range paths {
			if q.outcome != "" || q.undec != "" {
				out = append(out, q)
				continue
			}
			work := []*r4mPath{q}
			for len(work) > 0 {
				w := work[0]
				work = work[1:]
				v, fork := x.cond(w, s.Cond)
				if v < 0 && fork != "" {
					a, b := w.clone(), w.clone()
					a.decided[fork], b.decided[fork] = true, false
					work = append(work, a, b)
					continue
				}
				switch v {
				case 1:
					out = append(out, x.run(s.Body.List, []*r4mPath{w})...)
				case 0:
					if s.Else != nil {
						out = append(out, x.stmt(s.Else, w)...)
					} else {
						out = append(out, w)
					}
				default:
					// a condition that is not about the lookup: both branches must agree, explore both
					a, b := w.clone(), w
					ra := x.run(s.Body.List, []*r4mPath{a})
					var rb []*r4mPath
					if s.Else != nil {
						rb = x.stmt(s.Else, b)
					} else {
						rb = []*r4mPath{b}
					}
					out = append(out, ra...)
					out = append(out, rb...)
				}
			}
		}
		return out
	case *ast.SwitchStmt:
		// a switch on the operator (interpreter) selects one clause
		if s.Tag != nil && x.operator != nil {
			isOp := false
			for _, cl := range s.Body.List {
				for _, e := range cl.(*ast.CaseClause).List {
					if k := ConstOf(info, e); k != nil && x.opConsts[k] {
						isOp = true
					}
				}
			}
			if isOp {
				var def *ast.CaseClause
				for _, cl := range s.Body.List {
					cc := cl.(*ast.CaseClause)
					if cc.List == nil {
						def = cc
					}
					for _, e := range cc.List {
						if ConstOf(info, e) == x.operator {
							return x.run(cc.Body, []*r4mPath{p})
						}
					}
				}
				if def != nil {
					return x.run(def.Body, []*r4mPath{p})
				}
				return []*r4mPath{p}
			}
		}
		if s.Tag == nil && s.Init == nil {
			// a tagless switch is an if / else-if chain over its clauses in source order
			var chain func(i int, w *r4mPath) []*r4mPath
			chain = func(i int, w *r4mPath) []*r4mPath {
				// the next clause with conditions; the default clause is taken when none holds
				for i < len(s.Body.List) && s.Body.List[i].(*ast.CaseClause).List == nil {
					i++
				}
				if i >= len(s.Body.List) {
					for _, cl := range s.Body.List {
						if cc := cl.(*ast.CaseClause); cc.List == nil {
							return x.switchBody(cc.Body, w)
						}
					}
					return []*r4mPath{w}
				}
				cc := s.Body.List[i].(*ast.CaseClause)
				var cond ast.Expr = cc.List[0]
				for _, e := range cc.List[1:] {
					cond = &ast.BinaryExpr{X: cond, Op: token.LOR, Y: e}
				}
				var out []*r4mPath
				work := []*r4mPath{w}
				for len(work) > 0 {
					q := work[0]
					work = work[1:]
					v, fork := x.cond(q, cond)
					if v < 0 && fork != "" {
						a, b := q.clone(), q.clone()
						a.decided[fork], b.decided[fork] = true, false
						work = append(work, a, b)
						continue
					}
					switch v {
					case 1:
						out = append(out, x.switchBody(cc.Body, q)...)
					case 0:
						out = append(out, chain(i+1, q)...)
					default:
						out = append(out, x.switchBody(cc.Body, q.clone())...)
						out = append(out, chain(i+1, q)...)
					}
				}
				return out
			}
			return chain(0, p)
		}
		p.undec = "switch at " + x.c.Pos(s.Pos())
		return []*r4mPath{p}
	case *ast.ReturnStmt:
		if x.vm {
			if len(s.Results) == 1 {
				if r := x.eval(p, s.Results[0]); r != "nil" {
					p.outcome = r
					if !strings.HasPrefix(r, "error:") {
						p.outcome = "error:?" + r
					}
					return []*r4mPath{p}
				}
			}
			p.outcome = "done"
			return []*r4mPath{p}
		}
		if len(s.Results) == 2 {
			if e := x.eval(p, s.Results[1]); e != "nil" {
				p.outcome = e
				if !strings.HasPrefix(e, "error:") {
					p.outcome = "error:?" + e
				}
			} else {
				p.outcome = "value:" + x.eval(p, s.Results[0])
			}
			return []*r4mPath{p}
		}
		if len(s.Results) == 1 {
			// `return f(…)`: the results of another function are handed on unchanged
			p.outcome = "value:" + x.eval(p, s.Results[0])
			return []*r4mPath{p}
		}
		p.undec = "return shape"
		return []*r4mPath{p}
	case *ast.BranchStmt:
		if s.Tok == token.BREAK && s.Label == nil {
			p.outcome = "done"
			return []*r4mPath{p}
		}
		p.undec = "jump at " + x.c.Pos(s.Pos())
		return []*r4mPath{p}
	case *ast.ForStmt, *ast.RangeStmt, *ast.SelectStmt, *ast.TypeSwitchStmt:
		p.undec = "control flow at " + x.c.Pos(st.Pos())
		return []*r4mPath{p}
	}
	return []*r4mPath{p}
}

// switchBody runs a clause body; a `break` ending it only leaves the switch.
func (x *r4mExec) switchBody(body []ast.Stmt, p *r4mPath) []*r4mPath {
	out := x.run(body, []*r4mPath{p})
	for _, q := range out {
		if q.outcome == "done" && len(body) > 0 {
			if br, ok := body[len(body)-1].(*ast.BranchStmt); ok && br.Tok == token.BREAK && br.Label == nil {
				q.outcome = ""
			}
		}
	}
	return out
}

// ---- rows ----

type r4mRow struct {
	found, missing map[string]bool
	undec          string
	pos            token.Pos
}

func r4mAdd(m map[string]bool, s string) {
	m[s] = true
}

func r4mRowStr(m map[string]bool) string {
	if len(m) == 0 {
		return "(no such path)"
	}
	return strings.Join(mbSortedKeys(m), " | ")
}

func (x *r4mExec) collect(paths []*r4mPath, row *r4mRow) {
	for _, p := range paths {
		for st := range x.inTable {
			p.outcome = strings.ReplaceAll(p.outcome, "entry("+st+")", "entry(table)")
			for i := range p.stack {
				p.stack[i] = strings.ReplaceAll(p.stack[i], "entry("+st+")", "entry(table)")
			}
		}
		if p.undec != "" {
			row.undec = p.undec
			continue
		}
		res := p.outcome
		if x.vm && (res == "done" || res == "") {
			if len(p.stack) == 0 {
				res = "value:(nothing pushed)"
			} else {
				res = "value:" + p.stack[len(p.stack)-1]
			}
		}
		if !x.vm && res == "" {
			res = "value:(falls off)"
		}
		// which lookup decisions were taken on this path
		if len(p.decided) == 0 {
			r4mAdd(row.found, res)
			r4mAdd(row.missing, res)
			continue
		}
		any := false
		for _, d := range p.decided {
			any = any || d
		}
		if any {
			r4mAdd(row.found, res)
		} else {
			r4mAdd(row.missing, res)
		}
	}
}

func ruleMemberOperators(c *Ctx) []Obligation {
	var obs []Obligation
	vm := mbLoadLib(c, mbRelVM, "vm")
	in := mbLoadLib(c, mbRelInterp, "interp")
	rt := c.Pkg(mbRelVMEngine)
	comp := c.Pkg("homescript/compiler")
	ip := c.Pkg(mbRelInEngine)
	undecided := func(key, why string) []Obligation {
		return append(obs, Obligation{Key: key, Status: Undecided, Pos: "?", Detail: why})
	}
	// ---- VM handlers: opcode constant -> clause; member opcodes call Value.Fields
	handlers := map[*types.Const]*ast.CaseClause{}
	var handlerFn *ast.FuncDecl
	memberOps := map[*types.Const]bool{}
	for _, fd := range AllFuncDecls(rt) {
		ast.Inspect(fd.Body, func(n ast.Node) bool {
			cc, ok := n.(*ast.CaseClause)
			if !ok {
				return true
			}
			callsFields := false
			ast.Inspect(cc, func(m ast.Node) bool {
				if call, ok := m.(*ast.CallExpr); ok {
					if sel, ok := ast.Unparen(call.Fun).(*ast.SelectorExpr); ok && sel.Sel.Name == "Fields" && len(call.Args) == 0 {
						if t := rt.TypesInfo.TypeOf(sel.X); vm.isValueIface(t) || vm.implOfType(t) != nil {
							callsFields = true
						}
					}
				}
				return true
			})
			for _, e := range cc.List {
				if k := ConstOf(rt.TypesInfo, e); k != nil && k.Pkg() == comp.Types {
					handlers[k] = cc
					if callsFields {
						memberOps[k] = true
						handlerFn = fd
					}
				}
			}
			return true
		})
	}
	if len(memberOps) == 0 {
		return undecided("memberop|vm handlers", "no opcode handler of the VM looks a member up in Value.Fields()")
	}
	// ---- the compiler's switch on the member operator
	var opSwitch *ast.SwitchStmt
	var opEnum *Enum
	for _, fd := range AllFuncDecls(comp) {
		ast.Inspect(fd.Body, func(n ast.Node) bool {
			sw, ok := n.(*ast.SwitchStmt)
			if !ok || sw.Tag == nil {
				return true
			}
			en := c.EnumOf(comp.TypesInfo.TypeOf(sw.Tag))
			if en == nil {
				return true
			}
			mentions := false
			ast.Inspect(sw.Body, func(m ast.Node) bool {
				if e, ok := m.(ast.Expr); ok {
					if k := ConstOf(comp.TypesInfo, e); k != nil && memberOps[k] {
						mentions = true
					}
				}
				return true
			})
			if mentions && (opSwitch == nil || sw.End()-sw.Pos() < opSwitch.End()-opSwitch.Pos()) {
				opSwitch, opEnum = sw, en
			}
			return true
		})
	}
	if opSwitch == nil {
		return undecided("memberop|compiler switch", "the compiler has no switch over an operator enum whose clauses select the member opcode")
	}
	// opcode sequence per operator: constants assigned to locals, ordered by the locals' first use after the switch
	var encl *ast.FuncDecl
	for _, fd := range AllFuncDecls(comp) {
		if fd.Body.Pos() <= opSwitch.Pos() && opSwitch.End() <= fd.Body.End() {
			encl = fd
		}
	}
	useOrder := map[types.Object]token.Pos{}
	ast.Inspect(encl.Body, func(n ast.Node) bool {
		if id, ok := n.(*ast.Ident); ok && id.Pos() > opSwitch.End() {
			if o := comp.TypesInfo.Uses[id]; o != nil {
				if _, seen := useOrder[o]; !seen {
					useOrder[o] = id.Pos()
				}
			}
		}
		return true
	})
	opcodeT := comp.Types.Scope().Lookup("Opcode")
	seqOf := map[*types.Const][]*types.Const{}
	for _, cl := range opSwitch.Body.List {
		cc := cl.(*ast.CaseClause)
		type item struct {
			k     *types.Const
			order token.Pos
		}
		var items []item
		ast.Inspect(cc, func(m ast.Node) bool {
			as, ok := m.(*ast.AssignStmt)
			if !ok {
				if es, ok := m.(*ast.ExprStmt); ok {
					// direct emission inside the clause
					ast.Inspect(es, func(q ast.Node) bool {
						if e, ok := q.(ast.Expr); ok {
							if k := ConstOf(comp.TypesInfo, e); k != nil && handlers[k] != nil {
								items = append(items, item{k, e.Pos() - token.Pos(1<<28)})
							}
						}
						return true
					})
					return false
				}
				return true
			}
			for i, lh := range as.Lhs {
				if i >= len(as.Rhs) {
					continue
				}
				ast.Inspect(as.Rhs[i], func(q ast.Node) bool {
					if e, ok := q.(ast.Expr); ok {
						if k := ConstOf(comp.TypesInfo, e); k != nil && handlers[k] != nil {
							ord := useOrder[r2tObj(comp.TypesInfo, lh)]
							if ord == 0 {
								ord = e.Pos()
							}
							items = append(items, item{k, ord})
						}
					}
					return true
				})
			}
			return true
		})
		sort.SliceStable(items, func(i, j int) bool { return items[i].order < items[j].order })
		var seq []*types.Const
		for _, it := range items {
			seq = append(seq, it.k)
		}
		for _, e := range cc.List {
			if k := ConstOf(comp.TypesInfo, e); k != nil {
				seqOf[k] = seq
			}
		}
	}
	_ = opcodeT
	// push / pop of the VM engine: the methods of the handler's receiver with the operand-stack
	// signatures (no parameter -> a value / one value parameter -> nothing) that the member handlers call
	pops, pushes := map[*types.Func]bool{}, map[*types.Func]bool{}
	if handlerFn.Recv != nil {
		recvT := rt.TypesInfo.TypeOf(handlerFn.Recv.List[0].Type)
		isVal := func(t types.Type) bool { return vm.isValuePtr(t) || vm.isValueIface(t) }
		called := map[*types.Func]bool{}
		relevant := map[*types.Const]bool{}
		for k := range memberOps {
			relevant[k] = true
		}
		for _, seq := range seqOf {
			for _, k := range seq {
				relevant[k] = true
			}
		}
		for k := range relevant {
			ast.Inspect(handlers[k], func(m ast.Node) bool {
				if call, ok := m.(*ast.CallExpr); ok {
					if fn := CalleeOf(rt.TypesInfo, call); fn != nil {
						called[fn] = true
					}
				}
				return true
			})
		}
		ms := types.NewMethodSet(recvT)
		for i := 0; i < ms.Len(); i++ {
			fn, ok := ms.At(i).Obj().(*types.Func)
			if !ok || !called[fn] {
				continue
			}
			sig := fn.Type().(*types.Signature)
			if sig.Params().Len() == 0 && sig.Results().Len() == 1 && isVal(sig.Results().At(0).Type()) {
				pops[fn] = true
			}
			if sig.Params().Len() == 1 && sig.Results().Len() == 0 && isVal(sig.Params().At(0).Type()) {
				pushes[fn] = true
			}
		}
	}
	if len(pops) == 0 || len(pushes) == 0 {
		return undecided("memberop|vm stack", fmt.Sprintf("cannot identify the operand stack push/pop of the VM (%d pop, %d push candidates)", len(pops), len(pushes)))
	}
	opSet := map[*types.Const]bool{}
	for _, k := range opEnum.Consts {
		opSet[k] = true
	}
	// ---- the interpreter function that branches on the operator and calls Value.Fields
	var ifn *ast.FuncDecl
	for _, fd := range AllFuncDecls(ip) {
		usesOp, callsFields := false, false
		ast.Inspect(fd.Body, func(n ast.Node) bool {
			switch v := n.(type) {
			case *ast.SelectorExpr:
				if k := ConstOf(ip.TypesInfo, v); k != nil && opSet[k] {
					usesOp = true
				}
			case *ast.CallExpr:
				if sel, ok := ast.Unparen(v.Fun).(*ast.SelectorExpr); ok && sel.Sel.Name == "Fields" && len(v.Args) == 0 {
					if t := ip.TypesInfo.TypeOf(sel.X); in.isValueIface(t) || in.implOfType(t) != nil {
						callsFields = true
					}
				}
			}
			return true
		})
		if usesOp && callsFields {
			ifn = fd
		}
	}
	if ifn == nil {
		return undecided("memberop|interpreter", "no interpreter function both branches on the member operator and looks a member up in Value.Fields()")
	}
	// storage whose entries the member table hands out unchanged (own fields win): reading it directly
	// is reading the table (R-member-precedence decides whether such a read is allowed at all)
	inTableOf := func(l *mbLib) map[string]bool {
		out := map[string]bool{}
		lp := r2tNewPkg(c, l.pkg)
		for _, im := range l.impls {
			fd := im.methods["Fields"]
			if fd == nil {
				continue
			}
			t := lp.tableOf(fd, 0)
			if !t.ok {
				continue
			}
			win, hasDyn, _ := r2tWinners(t)
			if !hasDyn {
				continue
			}
			ownWins := true
			for _, w := range win {
				ownWins = ownWins && w == "own field"
			}
			for _, e := range t.evs {
				if !e.static && e.srcField != nil && ownWins {
					out["storage("+im.Name()+"."+e.srcField.Name()+")"] = true
				}
			}
		}
		return out
	}
	vmInTable, inInTable := inTableOf(vm), inTableOf(in)
	// ---- evaluate
	for _, op := range opEnum.Consts {
		name := op.Name()
		// VM
		vrow := &r4mRow{found: map[string]bool{}, missing: map[string]bool{}}
		vx := &r4mExec{c: c, l: vm, info: rt.TypesInfo, vm: true, pops: pops, pushes: pushes, opType: opEnum.Type, opConsts: opSet, inTable: vmInTable}
		seq, has := seqOf[op]
		var seqNames []string
		if !has || len(seq) == 0 {
			vrow.undec = "the compiler emits no opcode for this operator"
		} else {
			paths := []*r4mPath{{vals: map[types.Object]string{}, flags: map[types.Object]string{}, decided: map[string]bool{}}}
			for _, k := range seq {
				seqNames = append(seqNames, k.Name())
				var next []*r4mPath
				for _, p := range paths {
					if p.undec != "" || strings.HasPrefix(p.outcome, "error:") || p.outcome == "panic" {
						next = append(next, p)
						continue
					}
					q := p.clone()
					q.outcome = ""
					q.vals = map[types.Object]string{}
					q.flags = map[types.Object]string{}
					next = append(next, vx.run(handlers[k].Body, []*r4mPath{q})...)
				}
				paths = next
			}
			vx.collect(paths, vrow)
			vrow.pos = handlers[seq[0]].Pos()
		}
		// interpreter
		irow := &r4mRow{found: map[string]bool{}, missing: map[string]bool{}, pos: ifn.Pos()}
		ix := &r4mExec{c: c, l: in, info: ip.TypesInfo, opType: opEnum.Type, operator: op, opConsts: opSet, inTable: inInTable}
		ix.collect(ix.run(ifn.Body.List, []*r4mPath{{vals: map[types.Object]string{}, flags: map[types.Object]string{}, decided: map[string]bool{}}}), irow)
		for _, part := range []struct {
			what string
			a, b map[string]bool
		}{{"name found", vrow.found, irow.found}, {"name missing", vrow.missing, irow.missing}} {
			o := Obligation{Key: "memberop|" + name + "|" + part.what, Pos: c.Pos(irow.pos), Nontrivial: true}
			sa, sb := r4mRowStr(part.a), r4mRowStr(part.b)
			desc := fmt.Sprintf("VM (%s): %s ‖ interpreter (%s): %s", strings.Join(seqNames, " ; "), sa, FuncName(ifn), sb)
			switch {
			case vrow.undec != "" || irow.undec != "":
				o.Status, o.Detail = Undecided, "cannot evaluate: "+vrow.undec+" "+irow.undec
			case strings.Contains(sa, "?") || strings.Contains(sb, "?"):
				o.Status, o.Detail = Undecided, "a produced value is not understood: "+desc
			case sa == sb:
				o.Status, o.Detail = Discharged, desc
			default:
				o.Status, o.Detail = Violated, "the two engines produce different things for operator "+name+" when the "+part.what+": "+desc
			}
			obs = append(obs, o)
		}
	}
	return obs
}
