package main

import (
	"fmt"
	"go/ast"
	"go/constant"
	"go/token"
	"go/types"
	"sort"
	"strings"
)

func init() {
	register(&Rule{ID: "R-exception-unwind", Floor: 10, Run: ruleVMUnwind,
		Doc: "exception dispatch: on the branch of Core.Run that handles a catchable exception with a handler installed, the execution context is restored FROM THE HANDLER RECORD (must-write on that branch): the current frame (function + instruction pointer), the call-stack depth, the memory pointer and the operand-stack height; with no handler installed the uncaught-throw fatal interrupt is signalled and the core returns; every other interrupt kind bypasses the handlers (is signalled and the core returns) — likewise in the interpreter, whose try evaluates the catch block only for the normal-exception kind and propagates everything else, and whose loop statements swallow exactly break/continue. Necessary for C11: a throw that crosses call frames must leave locals, frames and operand stack of the catching function intact; anything not restored from the record is wrong as soon as the throw happens deeper than the try"})
}

func ruleVMUnwind(c *Ctx) []Obligation {
	var obs []Obligation
	roles := vmRoles(c)
	// The branch is decided on the paths of one iteration of the run loop (the statements
	// around the call of the instruction dispatcher), helpers spliced in: what happens
	// after the kind of the interrupt is decided, and whether Core.Run itself returns.
	rk := vmRunKindPaths(c)
	fn, kindEnum, normal, res := rk.fn, rk.kindEnum, rk.normal, rk.res
	clPos := rk.pos[normal]
	if !clPos.IsValid() {
		clPos = fn.fd.Pos()
	}
	info := fn.info
	rt := c.Pkg("homescript/runtime")
	handlers := vmStructField(rt, "Core", "ExceptionCatchLabels")
	mp := vmStructField(rt, "Core", "MemoryPointer")
	signal := vmStructField(rt, "Core", "SignalHandle")
	stackF, callF := roles.stack.field, roles.callStack.field
	prefix := fn.name + "|exception branch|"

	// the handler record type and what SetTryLabel stores into it
	recDesc := "?"
	if sl, ok := handlers.Type().Underlying().(*types.Slice); ok {
		if st, ok := sl.Elem().Underlying().(*types.Struct); ok {
			var fs []string
			for i := 0; i < st.NumFields(); i++ {
				fs = append(fs, st.Field(i).Name()+" "+types.TypeString(st.Field(i).Type(), func(p *types.Package) string { return p.Name() }))
			}
			recDesc = types.TypeString(sl.Elem(), func(p *types.Package) string { return p.Name() }) + "{" + strings.Join(fs, "; ") + "}"
		}
	}
	setOp := vmConst(c, "homescript/compiler", "Opcode_SetTryLabel")
	stored := "no clause for Opcode_SetTryLabel"
	if scl, nodes := roles.handlerNodes(setOp); scl != nil {
		stored = "nothing"
		di := roles.dispatch.info
		for _, s := range nodes {
			ast.Inspect(s, func(n ast.Node) bool {
				if as, ok := n.(*ast.AssignStmt); ok {
					for i, l := range as.Lhs {
						if vmFieldOf(di, l) == handlers && i < len(as.Rhs) {
							var what []string
							for _, f := range []*types.Var{callF, mp, stackF} {
								if vmMentionsField(di, as.Rhs[i], f) {
									what = append(what, vmFieldName(f))
								}
							}
							stored = fmt.Sprintf("`%s` (captures of call-stack depth / memory pointer / operand-stack height: %v)", vmTrunc(exprStr(as.Rhs[i]), 160), what)
						}
					}
				}
				return true
			})
		}
	}
	obs = append(obs, Obligation{Key: prefix + "handler record", Pos: c.Pos(clPos), Status: Info,
		Detail: fmt.Sprintf("handler record type: %s; the SetTryLabel case stores %s; the VM's exception branch pops the handler itself: %v", recDesc, stored, vmRunPopsHandler(c))})

	if res.overflow {
		obs = append(obs, Obligation{Key: prefix + "<paths>", Pos: c.Pos(clPos), Status: Undecided, Detail: "path cap exceeded"})
	}
	// classify paths: handler installed?
	type what struct {
		name   string
		field  *types.Var
		pops   *vmStackRoles
		frame  bool
		bad    []string
		n      int
		detail []string
	}
	targets := []*what{
		{name: "current frame (function, instruction pointer) is set from the handler record", frame: true},
		{name: "call-stack depth is restored from the handler record", field: callF, pops: roles.callStack},
		{name: "memory pointer is restored from the handler record", field: mp},
		{name: "operand-stack height is restored from the handler record", field: stackF, pops: roles.stack},
	}
	var badUncaught []string
	nUncaught := 0
	isTopFrameLhs := func(e ast.Expr) bool {
		// *x.callFrame()  or  x.CallStack[len(x.CallStack)-1]
		e = ast.Unparen(e)
		if s, ok := e.(*ast.StarExpr); ok {
			if call, ok := ast.Unparen(s.X).(*ast.CallExpr); ok {
				g := vmDeclIndex(c).of(CalleeOf(info, call))
				if g != nil && len(g.fd.Body.List) == 1 {
					if ret, ok := g.fd.Body.List[0].(*ast.ReturnStmt); ok && len(ret.Results) == 1 && vmMentionsField(g.info, ret.Results[0], callF) {
						return true
					}
				}
			}
		}
		if ix, ok := e.(*ast.IndexExpr); ok && vmFieldOf(info, ix.X) == callF {
			return true
		}
		return false
	}
	// loops in the clause that pop until a depth taken from the record
	loopRestores := func(rec types.Object, w *what) bool {
		if w.pops == nil || rec == nil {
			return false
		}
		found := false
		scan := []ast.Node{fn.fd.Body}
		for _, g := range res.inlined {
			scan = append(scan, g.fd.Body)
		}
		for _, s := range scan {
			ast.Inspect(s, func(n ast.Node) bool {
				f, ok := n.(*ast.ForStmt)
				if !ok || f.Cond == nil {
					return true
				}
				if vmMentionsField(info, f.Cond, w.field) && vmMentionsObj(info, f.Cond, rec) {
					ast.Inspect(f.Body, func(m ast.Node) bool {
						if call, ok := m.(*ast.CallExpr); ok {
							if _, isPop := w.pops.pop[CalleeOf(info, call)]; isPop {
								found = true
							}
						}
						return true
					})
				}
				return true
			})
		}
		return found
	}
	for _, kp := range rk.byKind[normal] {
		p, j0 := kp.p, kp.j0
		if p.o.kind == cPanic {
			continue
		}
		pd := &vmPath{ev: p.ev[j0+1:], o: p.o} // the witness starts at the clause
		// "no handler installed" decision: len(handlers) == 0 true / != 0 false / > 0 false
		noHandler, decided := false, -1
		for j, e := range p.ev {
			if e.K != evCond || j < j0 {
				continue
			}
			empty, ok := vmLenIsZero(info, e.X, handlers)
			if !ok {
				continue
			}
			// the atom holds ⇔ (no handler installed == empty)
			noHandler, decided = e.Taken == empty, j
			break
		}
		if decided >= 0 && noHandler {
			nUncaught++
			if ok, why := vmSignalsAndReturns(c, fn, p, decided, signal, true); !ok {
				badUncaught = append(badUncaught, fmt.Sprintf("%s (path [%s])", why, pd.decisions()))
			}
			continue
		}
		// handler installed: the record variable
		var rec types.Object
		for k, e := range p.ev[j0:] {
			if e.K == evAssign && e.Rhs != nil {
				if ix, ok := ast.Unparen(e.Rhs).(*ast.IndexExpr); ok {
					// the handler stack itself or a local alias of it
					base, _, _ := vmResolveAt(info, p.binds, p.ev, j0+k, ix.X)
					if vmFieldOf(info, base) == handlers {
						rec = vmObjOf(info, e.Lhs)
					}
				}
			}
		}
		for _, w := range targets {
			w.n++
			restored := false
			var seen []string
			for _, e := range p.ev[j0:] {
				switch e.K {
				case evAssign:
					fromRec := e.Rhs != nil && ((rec != nil && vmMentionsObj(info, e.Rhs, rec)) || vmMentionsField(info, e.Rhs, handlers))
					if w.frame {
						if isTopFrameLhs(e.Lhs) {
							seen = append(seen, fmt.Sprintf("`%s = %s`", exprStr(e.Lhs), exprStr(e.Rhs)))
							if fromRec {
								restored = true
							}
						}
						continue
					}
					if vmFieldOf(info, e.Lhs) == w.field {
						seen = append(seen, fmt.Sprintf("`%s = %s`", exprStr(e.Lhs), vmTrunc(exprStr(e.Rhs), 60)))
						if fromRec {
							restored = true
						}
					}
				case evCall:
					if w.pops != nil && e.Fn != nil {
						if _, ok := w.pops.pop[e.Fn]; ok {
							seen = append(seen, "one "+e.Fn.Name()+"()")
						}
						if _, ok := w.pops.push[e.Fn]; ok {
							seen = append(seen, "one "+e.Fn.Name()+"(…)")
						}
					}
				}
			}
			if !restored && !w.frame && loopRestores(rec, w) {
				restored = true
			}
			if !restored {
				did := "nothing touches it"
				if len(seen) > 0 {
					did = "the branch only does " + strings.Join(seen, ", ")
				}
				w.bad = append(w.bad, fmt.Sprintf("not restored from the handler record: %s (path [%s])", did, pd.decisions()))
			} else {
				w.detail = append(w.detail, strings.Join(seen, ", "))
			}
		}
	}
	consequence := map[string]string{
		"call-stack depth is restored from the handler record":     "a throw two or more calls below the try leaves the intermediate frames on the call stack (the branch pops at most one frame, chosen by comparing function NAMES — a recursive function throwing into its own caller's try pops none); after the catch block the stale frames are resumed or the call stack underflows",
		"memory pointer is restored from the handler record":       "the frames of the functions that were unwound added their sizes to MemoryPointer (AddMempointer(+n)) and their epilogues never run, so after the catch the catching function reads and writes its locals at the wrong addresses and the memory limit is eventually hit",
		"operand-stack height is restored from the handler record": "operands pushed between SetTryLabel and the throw (arguments of the failing call, partially evaluated expressions) stay on the operand stack; the error object is pushed on top of them and the residue accumulates per caught exception",
	}
	for _, w := range targets {
		ok := fmt.Sprintf("%d handler-installed path(s): %s", w.n, strings.Join(vmUniq(w.detail), " | "))
		ob := vmOb(c, prefix+w.name, clPos, w.bad, ok)
		if ob.Status == Violated {
			ob.Detail += fmt.Sprintf("; handler record is %s, SetTryLabel stores %s", recDesc, stored)
			if cq := consequence[w.name]; cq != "" {
				ob.Detail += "; consequence: " + cq
			}
		}
		if w.n == 0 {
			ob.Status = Undecided
			ob.Detail = "no handler-installed path found in the clause"
		}
		obs = append(obs, ob)
	}
	if nUncaught == 0 {
		badUncaught = append(badUncaught, "the clause never tests whether a handler is installed")
	}
	obs = append(obs, vmOb(c, prefix+"no handler installed: the uncaught-throw fatal interrupt is signalled and the core returns", clPos, badUncaught, fmt.Sprintf("%d path(s)", nUncaught)))

	// ---- every other interrupt kind bypasses the handlers (VM)
	for _, k := range kindEnum.Consts {
		if k == normal {
			continue
		}
		how := rk.how[k]
		key := fn.name + "|interrupt kind " + k.Name() + "|bypasses the handlers: signalled and the core returns"
		if len(rk.byKind[k]) == 0 {
			obs = append(obs, Obligation{Key: key, Pos: c.Pos(clPos), Status: Violated, Detail: "no path of the run loop handles an interrupt of this kind (neither a clause for it nor a default): the interrupt is silently dropped and execution continues"})
			continue
		}
		var bad []string
		n := 0
		for _, kp := range rk.byKind[k] {
			p, j0 := kp.p, kp.j0
			if p.o.kind == cPanic {
				continue
			}
			pd := &vmPath{ev: p.ev[j0+1:], o: p.o}
			n++
			if ok, why := vmSignalsAndReturns(c, fn, p, j0, signal, false); !ok {
				bad = append(bad, fmt.Sprintf("%s (path [%s])", why, pd.decisions()))
			}
			for _, e := range p.ev[j0:] {
				if e.K == evAssign && e.Rhs != nil && vmMentionsField(info, e.Rhs, handlers) {
					bad = append(bad, "the clause reads the handler stack")
				}
			}
		}
		if n == 0 {
			bad = append(bad, "no path of the run loop enters the clause")
		}
		obs = append(obs, vmOb(c, key, rk.pos[k], bad, fmt.Sprintf("%s, %d path(s)", how, n)))
	}
	obs = append(obs, vmInterpUnwind(c)...)
	return obs
}

// vmLenIsZero: the atom compares len(x.F) with a constant such that it is
// equivalent to `len(x.F) == 0` (whenTrue=true) or to `len(x.F) != 0`
// (whenTrue=false): == 0, != 0, > 0, >= 1, < 1, <= 0 and the mirrored forms.
func vmLenIsZero(info *types.Info, atom ast.Expr, f *types.Var) (whenTrue, ok bool) {
	b, isB := ast.Unparen(atom).(*ast.BinaryExpr)
	if !isB {
		return false, false
	}
	x, y, op := b.X, b.Y, b.Op
	if !vmLenOfField(info, x, f) {
		if !vmLenOfField(info, y, f) {
			return false, false
		}
		// mirror: c OP len  ≡  len OP' c
		x, y = y, x
		switch op {
		case token.LSS:
			op = token.GTR
		case token.LEQ:
			op = token.GEQ
		case token.GTR:
			op = token.LSS
		case token.GEQ:
			op = token.LEQ
		}
	}
	tv := info.Types[y]
	if tv.Value == nil {
		return false, false
	}
	k, exact := constant.Int64Val(constant.ToInt(tv.Value))
	if !exact {
		return false, false
	}
	switch {
	case op == token.EQL && k == 0, op == token.LSS && k == 1, op == token.LEQ && k == 0:
		return true, true
	case op == token.NEQ && k == 0, op == token.GTR && k == 0, op == token.GEQ && k == 1:
		return false, true
	}
	return false, false
}

// ---------------------------------------------------------------- interpreter

func vmKindEq(info *types.Info, e vmEv, k *types.Const) (is, equal bool) {
	switch e.K {
	case evCond:
		b, ok := ast.Unparen(e.X).(*ast.BinaryExpr)
		if !ok || (b.Op != token.EQL && b.Op != token.NEQ) {
			return false, false
		}
		if ConstOf(info, b.Y) != k && ConstOf(info, b.X) != k {
			return false, false
		}
		return true, (b.Op == token.EQL) == e.Taken
	case evCase:
		if e.Select {
			return false, false
		}
		sw, _ := e.Sw.(*ast.SwitchStmt)
		if sw == nil || sw.Tag == nil || !types.Identical(info.TypeOf(sw.Tag), k.Type()) {
			return false, false
		}
		mine, other := false, false
		for _, v := range e.Vals {
			if ConstOf(info, v) == k {
				mine = true
			} else {
				other = true
			}
		}
		switch {
		case mine && !other:
			return true, true
		case mine:
			return false, false
		case e.Vals != nil:
			return true, false
		}
		// default clause: k is excluded iff another clause lists it
		for _, v := range e.Others {
			if ConstOf(info, v) == k {
				return true, false
			}
		}
	}
	return false, false
}

func vmInterpUnwind(c *Ctx) []Obligation {
	r := vmInterp(c)
	var obs []Obligation
	normal := vmConst(c, "homescript/interpreter/value", "NormalExceptionInterruptKind")
	brk := vmConst(c, "homescript/interpreter/value", "BreakInterruptKind")
	cont := vmConst(c, "homescript/interpreter/value", "ContinueInterruptKind")
	catchField := vmStructField(c.Pkg("homescript/analyzer/ast"), "AnalyzedTryExpression", "CatchBlock")
	if catchField == nil {
		fatalf("anchor unresolved: ast.AnalyzedTryExpression.CatchBlock")
	}
	found := 0
	for _, fn := range r.fns {
		info := fn.info
		uses := false
		ast.Inspect(fn.fd.Body, func(n ast.Node) bool {
			if call, ok := n.(*ast.CallExpr); ok {
				for _, a := range call.Args {
					if vmFieldOf(info, a) == catchField {
						uses = true
					}
				}
			}
			return true
		})
		if !uses {
			continue
		}
		found++
		res := vmWalk(vmWalkOpts{fn: fn})
		var badCatch, badProp []string
		nCatch, nProp := 0, 0
		for i := range res.paths {
			p := &res.paths[i]
			catchAt := -1
			for j, e := range p.ev {
				if e.K == evCall && !e.Deferred {
					for _, a := range e.Call.Args {
						if vmFieldOf(info, a) == catchField {
							catchAt = j
						}
					}
				}
			}
			isNormal, decided := false, false
			for j, e := range p.ev {
				if catchAt >= 0 && j > catchAt {
					break
				}
				if is, eq := vmKindEq(info, e, normal); is {
					isNormal, decided = eq, true
				}
			}
			if catchAt >= 0 {
				nCatch++
				if !decided || !isNormal {
					badCatch = append(badCatch, fmt.Sprintf("the catch block is evaluated on a path that has not established Kind() == NormalExceptionInterruptKind: fatal / terminate / return / break interrupts would be caught (path [%s])", p.decisions()))
				}
			}
			if decided && !isNormal {
				nProp++
				var last ast.Expr
				if p.o.ret != nil && len(p.o.ret.Results) > 0 {
					last = p.o.ret.Results[len(p.o.ret.Results)-1]
				}
				if p.o.kind != cReturn || last == nil || vmIsNil(info, last) {
					badProp = append(badProp, fmt.Sprintf("an interrupt of another kind is not propagated (%s; path [%s])", p.exitStr(c), p.decisions()))
				}
			}
		}
		if nCatch == 0 {
			badCatch = append(badCatch, "no path evaluates the catch block")
		}
		if nProp == 0 {
			badProp = append(badProp, "no path distinguishes the interrupt kind")
		}
		obs = append(obs, vmOb(c, fn.name+"|the catch block is evaluated only for the normal-exception kind", fn.fd.Pos(), badCatch, fmt.Sprintf("%d path(s) evaluate the catch block", nCatch)))
		obs = append(obs, vmOb(c, fn.name+"|interrupts of every other kind are propagated unchanged", fn.fd.Pos(), badProp, fmt.Sprintf("%d propagating path(s)", nProp)))
	}
	if found == 0 {
		obs = append(obs, Obligation{Key: "interpreter|try expression", Pos: "?", Status: Undecided, Detail: "no interpreter function evaluates AnalyzedTryExpression.CatchBlock: anchor lost"})
	}
	// loop statements swallow exactly break / continue. The decision on the interrupt kind may
	// be written in a helper shared by the loops: helpers that themselves decide on the kind
	// (and contain no loop) are spliced in.
	decidesKind := func(g *vmFn) bool {
		found, loops := false, false
		ast.Inspect(g.fd.Body, func(n ast.Node) bool {
			switch x := n.(type) {
			case *ast.ForStmt:
				if x.Cond == nil {
					loops = true
				}
			case *ast.SwitchStmt:
				if x.Tag != nil && g.info.TypeOf(x.Tag) != nil && types.Identical(g.info.TypeOf(x.Tag), brk.Type()) {
					found = true
				}
			case *ast.BinaryExpr:
				if x.Op == token.EQL || x.Op == token.NEQ {
					for _, y := range []ast.Expr{x.X, x.Y} {
						if k := ConstOf(g.info, ast.Unparen(y)); k != nil && types.Identical(k.Type(), brk.Type()) {
							found = true
						}
					}
				}
			}
			return true
		})
		return found && !loops
	}
	interpPkg := c.Pkg("homescript/interpreter")
	kindInline := func(callee *vmFn, call *ast.CallExpr) bool {
		return callee.pkg == interpPkg && decidesKind(callee)
	}
	for _, fn := range r.fns {
		info := fn.info
		var loops []*ast.ForStmt
		ast.Inspect(fn.fd.Body, func(n ast.Node) bool {
			if f, ok := n.(*ast.ForStmt); ok && f.Cond == nil {
				loops = append(loops, f)
			}
			return true
		})
		if len(loops) == 0 {
			continue
		}
		res := vmWalk(vmWalkOpts{fn: fn, inline: kindInline})
		var bad []string
		n := 0
		swallowed := map[string]bool{}
		check := func(p *vmPath, completesIteration bool) {
			for _, e := range p.ev {
				if e.K != evCase || e.Select {
					continue
				}
				sw, _ := e.Sw.(*ast.SwitchStmt)
				if sw == nil || sw.Tag == nil || !types.Identical(info.TypeOf(sw.Tag), brk.Type()) {
					continue
				}
				n++
				onlyLoopCtl := e.Vals != nil
				for _, v := range e.Vals {
					k := ConstOf(info, v)
					if k != brk && k != cont {
						onlyLoopCtl = false
					}
					if k != nil {
						swallowed[k.Name()] = true
					}
				}
				if onlyLoopCtl {
					continue
				}
				// any other kind (explicit clause or default): must be returned
				var last ast.Expr
				if p.o.ret != nil && len(p.o.ret.Results) > 0 {
					last = p.o.ret.Results[len(p.o.ret.Results)-1]
				}
				if completesIteration || p.o.kind != cReturn || last == nil || vmIsNil(info, last) {
					bad = append(bad, fmt.Sprintf("an interrupt that is neither break nor continue is swallowed by the loop (%s; path [%s])", p.exitStr(c), p.decisions()))
				}
			}
		}
		for i := range res.paths {
			check(&res.paths[i], false)
		}
		for i := range res.iters {
			p := &res.iters[i]
			last := p.ev[len(p.ev)-1]
			sub := vmPath{ev: p.ev[last.From:], o: p.o}
			// a completed iteration may only have gone through break/continue clauses
			for _, e := range sub.ev {
				if e.K != evCase || e.Select {
					continue
				}
				sw, _ := e.Sw.(*ast.SwitchStmt)
				if sw == nil || sw.Tag == nil || !types.Identical(info.TypeOf(sw.Tag), brk.Type()) {
					continue
				}
				n++
				if e.Vals == nil {
					bad = append(bad, fmt.Sprintf("the default clause of the interrupt-kind switch lets the loop continue (path [%s])", p.decisions()))
				}
				for _, v := range e.Vals {
					k := ConstOf(info, v)
					if k != nil {
						swallowed[k.Name()] = true
					}
					if k != brk && k != cont {
						bad = append(bad, fmt.Sprintf("the clause for %s lets the loop continue (path [%s])", exprStr(v), p.decisions()))
					}
				}
			}
		}
		if n == 0 {
			continue
		}
		var sw []string
		for k := range swallowed {
			sw = append(sw, k)
		}
		sort.Strings(sw)
		obs = append(obs, vmOb(c, fn.name+"|the loop swallows exactly break/continue and propagates every other interrupt", loops[0].Pos(), bad, fmt.Sprintf("explicit clauses: %v; every other kind is returned", sw)))
	}
	return obs
}
