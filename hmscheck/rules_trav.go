package main

// trav: R-traversal — every kind-dispatching traversal of the two ASTs reads
// every field of the node it handles that can make two programs differ.

import (
	"fmt"
	"go/ast"
	"go/constant"
	"go/token"
	"go/types"
	"sort"
	"strings"

	"golang.org/x/tools/go/packages"
)

func init() {
	register(&Rule{ID: "R-traversal", Floor: 600, Run: ruleTraversal,
		Doc: "For every traversal of the parser AST / analyzed AST — Kind()- or type-switch clauses, per-kind String()/Constant() methods, " +
			"and functions that receive a node struct and descend into its children (printers, analyzer over the parser AST, compiler, interpreter, optimizer, fuzzer Transformer, " +
			"the fuzzer's loop-control guard) — and for every node struct K handled there: each field of K that can make two programs differ is read in the code handling K " +
			"(reads are followed into callees that receive the node or one of its component structs by value; passing the node on as a whole counts as reading all of it; a clause ending in fallthrough includes the clause it falls into; " +
			"a switch over a local that holds x.Kind() is a switch over x.Kind(); a function that only hands the node to several step functions is the unit for all of them). " +
			"Which fields count depends on the role of the traversal, decided from types: children (anything containing expressions/statements/blocks) and identifiers always; " +
			"types and flags/operators/payloads for printers, the analyzer and rebuilders; for compiler/interpreter syntactic flags (types and analysis results only informational); " +
			"predicates (bool result) need the children only, may skip them in a clause that returns the absorbing value of the predicate's own fold (the safe answer), and a loop-control predicate " +
			"may skip blocks that open a new context (a callable's body; a loop body, as the analyzer's loop-depth bookkeeping shows). errors.Span fields are layout and exempt; fields of the analyzed AST without " +
			"counterpart in the parser twin struct are analysis results and exempt in printers. Rebuilders must additionally set every field in each literal of the node type they rebuild. " +
			"Necessary: two programs that differ only in an unread field are indistinguishable to the traversal, so it prints/compiles/guards one of them wrongly."})
}

type travRole int

const (
	rolePrint travRole = iota
	roleAnalyze
	roleConsume
	rolePredicate
	roleRebuild
	roleNone
)

func (r travRole) String() string {
	return [...]string{"print", "analyze", "consume", "predicate", "rebuild", "none"}[r]
}

type travUnit struct {
	pkg     *packages.Package
	fd      *ast.FuncDecl
	fn      *types.Func
	key     string // construct key prefix
	pos     token.Pos
	subject *travStruct
	scope   travScope
	role    travRole
	// clause units
	clause     *ast.CaseClause
	hostSwitch ast.Stmt
	// predicate: the body handling this kind is a single `return <const>`
	soleReturn string
	// rejects: the clause is a single `return <constructor call from another package>`: the
	// construct is refused at run time with a freshly built interrupt/error (a fragment
	// boundary of this engine), so its children are legitimately not evaluated
	rejects bool
	// shapeTest: a niladic bool method that is not part of a node interface and whose body is
	// `return <nil / length / flag test of receiver fields>` (HasElse, IsLiteral): an accessor
	// for the shape of the node, not a fold over its children
	shapeTest string
	ifc       *types.Named // dispatch units: the interface dispatched on
}

var travPkgs = []string{"homescript/analyzer", "homescript/compiler", "homescript/interpreter", "homescript/optimizer", "homescript/fuzzer"}

func travFuncKey(p *packages.Package, fd *ast.FuncDecl) string {
	return relPkg(p.PkgPath)[len("homescript/"):] + "." + FuncName(fd)
}

// need: how a field is required under a role. 2 = violated when unread, 1 = informational, 0 = exempt.
func travNeed(role travRole, f *travField) int {
	switch f.Class {
	case tfLayout:
		if role == roleRebuild {
			return 1
		}
		return 0
	case tfChild:
		return 2
	case tfName:
		if role == rolePredicate {
			return 0
		}
		if role == roleConsume {
			return 1 // binding names may reach an engine through analysis results (argument names), informational
		}
		if f.Derived && (role == rolePrint || role == roleRebuild) {
			return 0
		}
		return 2
	}
	// type / scalar / other
	switch role {
	case rolePrint, roleRebuild:
		if f.Derived {
			return 0
		}
		return 2
	case roleAnalyze:
		return 2
	case roleConsume:
		if f.Class == tfScalar && !f.Derived {
			return 3 // decided by the sibling engine: violated iff the other execution engine reads it
		}
		return 1
	}
	return 0
}

type travRun struct {
	c  *Ctx
	m  *travModel
	tc *travCollector
	// loop context learnt from the analyzer
	loopBody map[*travStruct]map[string]string // parser struct -> block field -> witness
	loopCtl  map[*travStruct]string            // parser struct of break/continue -> witness
	obs      []Obligation
	hasUnit  map[string]bool // pkgpath|role|struct -> a unit with that subject exists
	// consume role: fields read per execution engine (package) and struct
	engineReads map[string]map[*travStruct]map[string]bool
}

// executable: the type carries code that runs (an expression, statement list or block), not merely a declaration.
func (r *travRun) executable(t types.Type, depth int) bool {
	m := r.m
	cs := m.carrierStructs(t)
	if len(cs) == 0 {
		return true // behind a code interface
	}
	if depth > 4 {
		return false
	}
	for _, s := range cs {
		for _, f := range s.Fields {
			if f.Class != tfChild {
				continue
			}
			ft := types.Unalias(f.Var.Type())
			if sl, ok := ft.(*types.Slice); ok {
				ft = types.Unalias(sl.Elem())
			}
			if p, ok := ft.(*types.Pointer); ok {
				ft = types.Unalias(p.Elem())
			}
			if n, ok := ft.(*types.Named); ok && m.codeIfc[n] {
				return true
			}
			if m.isBlockType(f.Var.Type()) || r.executable(f.Var.Type(), depth+1) {
				return true
			}
		}
	}
	return false
}

func ruleTraversal(c *Ctx) []Obligation {
	m := travGetModel(c)
	r := &travRun{c: c, m: m, tc: newTravCollector(m), hasUnit: map[string]bool{}}
	r.learnLoopContext()
	units := r.enumerate()
	for _, u := range units {
		r.hasUnit[u.pkg.PkgPath+"|"+u.role.String()+"|"+u.subject.Name()] = true
	}
	r.engineReads = map[string]map[*travStruct]map[string]bool{}
	for _, u := range units {
		if u.role != roleConsume || !(strings.HasSuffix(u.pkg.PkgPath, "/compiler") || strings.HasSuffix(u.pkg.PkgPath, "/interpreter")) {
			continue
		}
		rd := r.tc.collect(u.scope)
		if r.engineReads[u.pkg.PkgPath] == nil {
			r.engineReads[u.pkg.PkgPath] = map[*travStruct]map[string]bool{}
		}
		for s, fs := range rd.fields {
			if r.engineReads[u.pkg.PkgPath][s] == nil {
				r.engineReads[u.pkg.PkgPath][s] = map[string]bool{}
			}
			for f := range fs {
				r.engineReads[u.pkg.PkgPath][s][f] = true
			}
		}
	}
	absorb := r.absorbing(units)
	loopPred := r.loopControlFamilies(units, absorb)
	for _, u := range units {
		r.decide(u, absorb, loopPred)
	}
	r.obs = append(r.obs, travValueObligations(c)...)
	r.antiVacuity(units)
	return r.obs
}

// ---- enumeration ----

func (r *travRun) roleOf(p *packages.Package, fd *ast.FuncDecl, subj *travStruct) travRole {
	m := r.m
	fn, _ := p.TypesInfo.Defs[fd.Name].(*types.Func)
	if fn == nil {
		return roleNone
	}
	sg := fn.Type().(*types.Signature)
	isBool := func(t types.Type) bool {
		b, ok := types.Unalias(t).Underlying().(*types.Basic)
		return ok && b.Kind() == types.Bool
	}
	if p == m.pP || p == m.pA {
		if sg.Recv() == nil {
			return roleNone
		}
		if fd.Name.Name == "String" && sg.Params().Len() == 0 && sg.Results().Len() == 1 {
			return rolePrint
		}
		if sg.Params().Len() == 0 && sg.Results().Len() == 1 && isBool(sg.Results().At(0).Type()) {
			return rolePredicate
		}
		return roleNone
	}
	if sg.Results().Len() == 1 && isBool(sg.Results().At(0).Type()) {
		return rolePredicate
	}
	if p.PkgPath == ModPath+"/homescript/analyzer" && m.inP(subj.T) {
		return roleAnalyze
	}
	if sg.Results().Len() >= 1 {
		rt := sg.Results().At(0).Type()
		same := func(n *types.Named) bool {
			return n != nil && ((m.inA(n) && m.inA(subj.T)) || (m.inP(n) && m.inP(subj.T)))
		}
		for _, s := range m.carrierStructs(rt) {
			if same(s.T) && !s.IsSem {
				return roleRebuild
			}
		}
		t := types.Unalias(rt)
		if sl, ok := t.(*types.Slice); ok {
			t = types.Unalias(sl.Elem())
		}
		if n, ok := t.(*types.Named); ok && m.codeIfc[n] && same(n) {
			return roleRebuild
		}
	}
	return roleConsume
}

type travDispatch struct {
	ifc      *types.Named
	sw       ast.Stmt
	subject  types.Object
	subjName string
	clauses  []*ast.CaseClause
	kinds    map[*ast.CaseClause][]*travStruct
	outer    []ast.Node // other clauses of enclosing dispatches (to skip)
}

// dispatches finds the kind dispatches of a function body.
func (r *travRun) dispatches(p *packages.Package, fd *ast.FuncDecl) []*travDispatch {
	m := r.m
	info := p.TypesInfo
	var out []*travDispatch
	var walk func(n ast.Node, outerSkip []ast.Node)
	nodeIfc := func(t types.Type) bool {
		n := travNamed(t)
		if n == nil || n == m.semType {
			return false
		}
		if _, ok := n.Underlying().(*types.Interface); !ok {
			return false
		}
		return n.Obj().Pkg() == m.pP.Types || n.Obj().Pkg() == m.pA.Types
	}
	walk = func(root ast.Node, outerSkip []ast.Node) {
		ast.Inspect(root, func(n ast.Node) bool {
			if n == nil {
				return true
			}
			var d *travDispatch
			var body *ast.BlockStmt
			switch x := n.(type) {
			case *ast.FuncLit:
				return true
			case *ast.SwitchStmt:
				if x.Tag == nil {
					return true
				}
				// the tag is x.Kind(), or a local that holds it (`switch k := x.Kind(); k`, `k := x.Kind(); switch k`)
				call, ok := ast.Unparen(travSoleDef(info, fd, x.Tag)).(*ast.CallExpr)
				if !ok || len(call.Args) != 0 {
					return true
				}
				se, ok := call.Fun.(*ast.SelectorExpr)
				if !ok || se.Sel.Name != "Kind" {
					return true
				}
				id, ok := ast.Unparen(se.X).(*ast.Ident)
				if !ok || !nodeIfc(info.TypeOf(id)) {
					return true
				}
				d = &travDispatch{sw: x, ifc: travNamed(info.TypeOf(id)), subject: info.Uses[id], subjName: id.Name, kinds: map[*ast.CaseClause][]*travStruct{}}
				body = x.Body
				for _, cs := range body.List {
					cc := cs.(*ast.CaseClause)
					d.clauses = append(d.clauses, cc)
					for _, e := range cc.List {
						if k := ConstOf(info, e); k != nil {
							// (normally one struct per kind; when two structs return the same kind constant the clause receives both)
							d.kinds[cc] = append(d.kinds[cc], m.byKindAll[k]...)
						}
					}
				}
			case *ast.TypeSwitchStmt:
				var x0 ast.Expr
				switch a := x.Assign.(type) {
				case *ast.AssignStmt:
					x0 = a.Rhs[0]
				case *ast.ExprStmt:
					x0 = a.X
				}
				ta, ok := ast.Unparen(x0).(*ast.TypeAssertExpr)
				if !ok || !nodeIfc(info.TypeOf(ta.X)) {
					return true
				}
				d = &travDispatch{sw: x, ifc: travNamed(info.TypeOf(ta.X)), subjName: exprStr(ta.X), kinds: map[*ast.CaseClause][]*travStruct{}}
				if id, ok := ast.Unparen(ta.X).(*ast.Ident); ok {
					d.subject = info.Uses[id]
				}
				body = x.Body
				for _, cs := range body.List {
					cc := cs.(*ast.CaseClause)
					d.clauses = append(d.clauses, cc)
					for _, e := range cc.List {
						if s := m.structs[travNamed(info.TypeOf(e))]; s != nil {
							d.kinds[cc] = append(d.kinds[cc], s)
						}
					}
				}
			default:
				return true
			}
			n0 := 0
			for _, ks := range d.kinds {
				n0 += len(ks)
			}
			if n0 == 0 {
				return true
			}
			d.outer = outerSkip
			out = append(out, d)
			// nested dispatches: inside clause cc skip the siblings of cc
			for _, cc := range d.clauses {
				var sk []ast.Node
				sk = append(sk, outerSkip...)
				for _, o := range d.clauses {
					if o != cc {
						sk = append(sk, o)
					}
				}
				for _, st := range cc.Body {
					walk(st, sk)
				}
			}
			return false
		})
	}
	walk(fd.Body, nil)
	return out
}

func (r *travRun) enumerate() []*travUnit {
	m := r.m
	var units []*travUnit
	// U2: per-kind methods in the AST packages
	for _, p := range []*packages.Package{m.pP, m.pA} {
		for _, fd := range AllFuncDecls(p) {
			if fd.Recv == nil || len(fd.Recv.List) == 0 {
				continue
			}
			fn, _ := p.TypesInfo.Defs[fd.Name].(*types.Func)
			if fn == nil {
				continue
			}
			s := m.structs[travNamed(fn.Type().(*types.Signature).Recv().Type())]
			if s == nil || s.IsSem || s.T == m.identT {
				continue
			}
			role := r.roleOf(p, fd, s)
			if role == roleNone {
				continue
			}
			u := &travUnit{pkg: p, fd: fd, fn: fn, pos: fd.Pos(), subject: s, role: role,
				key:   travFuncKey(p, fd),
				scope: travScope{pkg: p, root: fd.Body}}
			u.soleReturn = travSoleReturnC(p.TypesInfo, fd.Body.List)
			if role == rolePredicate && !r.isNodeInterfaceMethod(fd.Name.Name) {
				u.shapeTest = travShapeTest(p.TypesInfo, fd)
				if u.shapeTest == "" {
					u.shapeTest = travAccessor(p.TypesInfo, fd)
				}
			}
			units = append(units, u)
		}
	}
	// U1: dispatch clauses everywhere
	hosts := map[*types.Func]bool{}
	for _, rel := range append([]string{"homescript/parser/ast", "homescript/analyzer/ast"}, travPkgs...) {
		if !r.c.HasPkg(rel) {
			continue
		}
		p := r.c.Pkg(rel)
		for _, fd := range AllFuncDecls(p) {
			fn, _ := p.TypesInfo.Defs[fd.Name].(*types.Func)
			ds := r.dispatches(p, fd)
			seen := map[string]int{}
			for _, d := range ds {
				hosts[fn] = true
				sw := d.subjName + ".Kind()"
				if _, ok := d.sw.(*ast.TypeSwitchStmt); ok {
					sw = d.subjName + ".(type)"
				}
				seen[sw]++
				if seen[sw] > 1 {
					sw = fmt.Sprintf("%s#%d", sw, seen[sw])
				}
				r.missingKinds(p, fd, d, sw)
				for _, cc := range d.clauses {
					for _, s := range d.kinds[cc] {
						if s.IsSem {
							continue
						}
						role := r.roleOf(p, fd, s)
						if role == roleNone {
							role = roleConsume
						}
						// the code of a clause ending in `fallthrough` continues in the next clause
						chain, body := travFallChain(d.clauses, cc)
						skip := map[ast.Node]bool{}
						for _, o := range d.outer {
							skip[o] = true
						}
						for _, o := range d.clauses {
							if !chain[o] {
								skip[o] = true
							}
						}
						label := s.Short()
						if s.Kind != nil {
							label = s.Kind.Name()
						}
						u := &travUnit{pkg: p, fd: fd, fn: fn, pos: cc.Pos(), subject: s, role: role, clause: cc, hostSwitch: d.sw, ifc: d.ifc,
							key:   travFuncKey(p, fd) + "|" + sw + "|case " + label,
							scope: travScope{pkg: p, root: fd.Body, skip: skip, subject: d.subject, kind: s}}
						if _, ok := d.sw.(*ast.TypeSwitchStmt); ok {
							u.scope.subject = nil
						}
						if len(d.kinds[cc]) >= 1 {
							u.soleReturn = travSoleReturnC(p.TypesInfo, body)
							u.rejects = travRejects(p, body)
						}
						units = append(units, u)
					}
				}
			}
		}
	}
	// U3: functions receiving a node struct and descending into its children
	type cand struct {
		u       *travUnit
		shallow *travReads
		pidx    int
	}
	var cands []*cand
	for _, rel := range travPkgs {
		if !r.c.HasPkg(rel) {
			continue
		}
		p := r.c.Pkg(rel)
		for _, fd := range AllFuncDecls(p) {
			fn, _ := p.TypesInfo.Defs[fd.Name].(*types.Func)
			if fn == nil {
				continue
			}
			sg := fn.Type().(*types.Signature)
			seen := map[*travStruct]bool{}
			for i := 0; i < sg.Params().Len(); i++ {
				pv := sg.Params().At(i)
				for _, s := range m.carrierStructs(pv.Type()) {
					if s.IsSem || s.T == m.identT || seen[s] {
						continue
					}
					seen[s] = true
					role := r.roleOf(p, fd, s)
					u := &travUnit{pkg: p, fd: fd, fn: fn, pos: fd.Pos(), subject: s, role: role,
						key:   travFuncKey(p, fd) + "|param " + pv.Name() + " " + s.Short(),
						scope: travScope{pkg: p, root: fd.Body}}
					cands = append(cands, &cand{u: u, pidx: i})
				}
			}
		}
	}
	// a function whose node parameter only ever receives freshly built values (the output under
	// construction handed to a finishing helper: `self.copySingletonImplementations(&output)`) does not
	// traverse an input tree: "freshly built values are not the input" holds across the call
	{
		fresh := r.freshOnlyParams()
		kept := cands[:0]
		for _, cd := range cands {
			if fresh[cd.u.fn][cd.pidx] {
				continue
			}
			kept = append(kept, cd)
		}
		cands = kept
	}
	// descends: passes code onward (a call to a module function with a code-interface argument), or has a program parameter,
	// or calls a descending candidate with a node struct.
	descends := map[*types.Func]bool{}
	passesCode := func(cd *cand) bool {
		info := cd.u.pkg.TypesInfo
		found := false
		ast.Inspect(cd.u.fd.Body, func(n ast.Node) bool {
			call, ok := n.(*ast.CallExpr)
			if !ok || found {
				return !found
			}
			callee := CalleeOf(info, call)
			if callee == nil || m.decls[callee] == nil {
				return true
			}
			for _, a := range call.Args {
				t := types.Unalias(info.TypeOf(a))
				if sl, ok := t.(*types.Slice); ok {
					t = types.Unalias(sl.Elem())
				}
				if n, ok := t.(*types.Named); ok && m.codeIfc[n] {
					found = true
				}
			}
			if descends[callee] {
				for _, a := range call.Args {
					if len(m.carrierStructs(info.TypeOf(a))) > 0 {
						found = true
					}
				}
			}
			return true
		})
		return found
	}
	for changed := true; changed; {
		changed = false
		for _, cd := range cands {
			if descends[cd.u.fn] {
				continue
			}
			if cd.u.subject.T == m.progP || cd.u.subject.T == m.progA || passesCode(cd) {
				descends[cd.u.fn] = true
				changed = true
			}
		}
	}
	// delegation: a unit with subject S that hands an S to f(S) subsumes f; a pure forwarder (reads nothing of S itself) is dropped instead.
	delegated := map[string]bool{} // fn|struct
	dkey := func(fn *types.Func, s *travStruct) string { return fn.FullName() + "|" + s.Name() }
	forwarder := map[*cand]bool{}
	for _, cd := range cands {
		if !descends[cd.u.fn] {
			continue
		}
		sh := r.shallowReads(cd.u)
		own := 0
		for fname := range sh.fields[cd.u.subject] {
			if f := cd.u.subject.Field(fname); f != nil && f.Class != tfLayout {
				own++
			}
		}
		if own == 0 && len(sh.follows) > 0 {
			// a function that reads nothing of S itself and hands S to one traversal is a pure
			// forwarder (the callee is the unit). One that hands S to several functions has been
			// split into steps: it stays the unit (the steps together handle S) and subsumes them.
			receivers, descending := 0, 0
			for f, ss := range sh.follows {
				if ss[cd.u.subject] && f != cd.u.fn {
					receivers++
					if descends[f] {
						descending++
					}
				}
			}
			if descending > 0 && receivers == 1 {
				forwarder[cd] = true
			}
		}
	}
	mark := func(u *travUnit) {
		rd := r.tc.collect(u.scope)
		for f, ss := range rd.follows {
			if ss[u.subject] && f != u.fn {
				delegated[dkey(f, u.subject)] = true
			}
		}
	}
	for _, u := range units {
		mark(u)
	}
	for _, cd := range cands {
		if descends[cd.u.fn] && !forwarder[cd] {
			mark(cd.u)
		}
	}
	for _, cd := range cands {
		if !descends[cd.u.fn] || forwarder[cd] || delegated[dkey(cd.u.fn, cd.u.subject)] {
			continue
		}
		units = append(units, cd.u)
	}
	sort.SliceStable(units, func(i, j int) bool { return units[i].key < units[j].key })
	return units
}

// freshOnlyParams: fn -> parameter index -> true when the function has static call sites in the
// module and at every one of them the argument is a value built right there: a composite literal,
// the address of one, or a local that is only ever assigned such values (or left at its zero value).
func (r *travRun) freshOnlyParams() map[*types.Func]map[int]bool {
	m := r.m
	type tally struct{ sites, fresh int }
	count := map[*types.Func]map[int]*tally{}
	var fns []*types.Func
	for fn := range m.decls {
		fns = append(fns, fn)
	}
	sort.Slice(fns, func(i, j int) bool { return fns[i].Pos() < fns[j].Pos() })
	for _, fn := range fns {
		d := m.decls[fn]
		if d.Fd.Body == nil {
			continue
		}
		info := d.Pkg.TypesInfo
		// locals of this function and what they are assigned
		assigned := map[types.Object][]ast.Expr{}
		ast.Inspect(d.Fd.Body, func(n ast.Node) bool {
			switch x := n.(type) {
			case *ast.AssignStmt:
				for i, l := range x.Lhs {
					id, ok := ast.Unparen(l).(*ast.Ident)
					if !ok {
						continue
					}
					o := info.Defs[id]
					if o == nil {
						o = info.Uses[id]
					}
					if o == nil {
						continue
					}
					if len(x.Lhs) == len(x.Rhs) {
						assigned[o] = append(assigned[o], x.Rhs[i])
					} else if len(x.Rhs) == 1 {
						assigned[o] = append(assigned[o], x.Rhs[0])
					}
				}
			case *ast.ValueSpec:
				for i, id := range x.Names {
					if o := info.Defs[id]; o != nil {
						if len(x.Values) == len(x.Names) {
							assigned[o] = append(assigned[o], x.Values[i])
						} else if len(x.Values) == 0 {
							assigned[o] = append(assigned[o], &ast.CompositeLit{}) // zero value: built here
						}
					}
				}
			case *ast.RangeStmt:
				for _, kv := range []ast.Expr{x.Key, x.Value} {
					if id, ok := kv.(*ast.Ident); ok {
						if o := info.Defs[id]; o != nil {
							assigned[o] = append(assigned[o], x.X)
						}
					}
				}
			}
			return true
		})
		var isFresh func(e ast.Expr, depth int) bool
		isFresh = func(e ast.Expr, depth int) bool {
			if depth > 3 {
				return false
			}
			switch x := ast.Unparen(e).(type) {
			case *ast.UnaryExpr:
				return x.Op == token.AND && isFresh(x.X, depth)
			case *ast.CompositeLit:
				return true
			case *ast.CallExpr:
				if tv, ok := info.Types[x.Fun]; ok && tv.IsType() {
					return len(x.Args) == 1 && isFresh(x.Args[0], depth+1)
				}
				return false // a call result may be the output of an earlier phase, i.e. this phase's input
			case *ast.Ident:
				v, ok := info.Uses[x].(*types.Var)
				if !ok || v.IsField() || v.Pos() < d.Fd.Body.Pos() || v.Pos() > d.Fd.Body.End() {
					return false // parameters, package variables
				}
				as := assigned[v]
				if len(as) == 0 {
					return false
				}
				for _, a := range as {
					if !isFresh(a, depth+1) {
						return false
					}
				}
				return true
			}
			return false
		}
		ast.Inspect(d.Fd.Body, func(n ast.Node) bool {
			call, ok := n.(*ast.CallExpr)
			if !ok {
				return true
			}
			callee := CalleeOf(info, call)
			if callee == nil || m.decls[callee] == nil {
				return true
			}
			for i, a := range call.Args {
				if len(m.carrierStructs(info.TypeOf(a))) == 0 {
					continue
				}
				if count[callee] == nil {
					count[callee] = map[int]*tally{}
				}
				if count[callee][i] == nil {
					count[callee][i] = &tally{}
				}
				count[callee][i].sites++
				if isFresh(a, 0) {
					count[callee][i].fresh++
				}
			}
			return true
		})
	}
	out := map[*types.Func]map[int]bool{}
	for fn, byIdx := range count {
		for i, t := range byIdx {
			if t.sites > 0 && t.sites == t.fresh {
				if out[fn] == nil {
					out[fn] = map[int]bool{}
				}
				out[fn][i] = true
			}
		}
	}
	return out
}

// isNodeInterfaceMethod: a method of that name belongs to one of the AST interfaces (Constant,
// Kind, …): its per-kind implementations are the clauses of a dispatch over the kinds.
func (r *travRun) isNodeInterfaceMethod(name string) bool {
	m := r.m
	ifcs := []*types.Named{m.semType, m.hmsType}
	for ci := range m.codeIfc {
		ifcs = append(ifcs, ci)
	}
	for _, n := range ifcs {
		if it, ok := n.Underlying().(*types.Interface); ok {
			for i := 0; i < it.NumMethods(); i++ {
				if it.Method(i).Name() == name {
					return true
				}
			}
		}
	}
	return false
}

// travShapeTest: the body of fd is a single `return e` where e is built (with !, &&, ||) from
// tests of the receiver's own fields for nil / emptiness / a bool flag; returns the text of e, or "".
func travShapeTest(info *types.Info, fd *ast.FuncDecl) string {
	if fd.Body == nil || len(fd.Body.List) != 1 || fd.Recv == nil || len(fd.Recv.List) == 0 || len(fd.Recv.List[0].Names) == 0 {
		return ""
	}
	rs, ok := fd.Body.List[0].(*ast.ReturnStmt)
	if !ok || len(rs.Results) != 1 {
		return ""
	}
	recv := info.Defs[fd.Recv.List[0].Names[0]]
	if recv == nil {
		return ""
	}
	isField := func(e ast.Expr) bool {
		for {
			switch x := ast.Unparen(e).(type) {
			case *ast.StarExpr:
				e = x.X
				continue
			case *ast.SelectorExpr:
				if sel := info.Selections[x]; sel == nil || sel.Kind() != types.FieldVal {
					return false
				}
				if id, ok := ast.Unparen(x.X).(*ast.Ident); ok {
					return info.Uses[id] == recv
				}
				e = x.X
				continue
			}
			return false
		}
	}
	isZero := func(e ast.Expr) bool {
		switch x := ast.Unparen(e).(type) {
		case *ast.Ident:
			return x.Name == "nil"
		case *ast.BasicLit:
			return x.Value == "0" || x.Value == "1" || x.Value == `""`
		}
		return false
	}
	var atom func(e ast.Expr) bool
	atom = func(e ast.Expr) bool {
		switch x := ast.Unparen(e).(type) {
		case *ast.UnaryExpr:
			return x.Op == token.NOT && atom(x.X)
		case *ast.BinaryExpr:
			switch x.Op {
			case token.LAND, token.LOR:
				return atom(x.X) && atom(x.Y)
			case token.EQL, token.NEQ, token.GTR, token.LSS, token.GEQ, token.LEQ:
				operand := func(o ast.Expr) bool {
					if call, ok := ast.Unparen(o).(*ast.CallExpr); ok && len(call.Args) == 1 {
						if id, ok := ast.Unparen(call.Fun).(*ast.Ident); ok {
							if b, ok := info.Uses[id].(*types.Builtin); ok && b.Name() == "len" {
								return isField(call.Args[0])
							}
						}
						return false
					}
					return isField(o)
				}
				return (operand(x.X) && isZero(x.Y)) || (isZero(x.X) && operand(x.Y))
			}
		case *ast.SelectorExpr:
			if t := info.TypeOf(x); t != nil {
				if b, ok := types.Unalias(t).Underlying().(*types.Basic); ok && b.Kind() == types.Bool {
					return isField(x)
				}
			}
		}
		return false
	}
	if atom(rs.Results[0]) {
		return exprStr(rs.Results[0])
	}
	return ""
}

// travAccessor: a method that computes its answer from the receiver's own fields without ever
// looking into a child: it calls nothing (only len/cap and conversions), asserts no dynamic type,
// has no loop and no function literal, and reads at least one field of the receiver
// (IsCompound(): `if self.Operator == Std { return false }; return true`). Such a method cannot
// visit children — inspecting an expression / statement / block needs a call or a type
// assertion — so it is an accessor of the node, not a traversal of it. Returns a witness, or "".
func travAccessor(info *types.Info, fd *ast.FuncDecl) string {
	if fd.Body == nil || fd.Recv == nil || len(fd.Recv.List) == 0 || len(fd.Recv.List[0].Names) == 0 {
		return ""
	}
	recv := info.Defs[fd.Recv.List[0].Names[0]]
	if recv == nil {
		return ""
	}
	ok := true
	fields := map[string]bool{}
	ast.Inspect(fd.Body, func(n ast.Node) bool {
		switch x := n.(type) {
		case *ast.CallExpr:
			if tv, isT := info.Types[x.Fun]; isT && tv.IsType() {
				return true
			}
			if id, isId := ast.Unparen(x.Fun).(*ast.Ident); isId {
				if b, isB := info.Uses[id].(*types.Builtin); isB && (b.Name() == "len" || b.Name() == "cap") {
					return true
				}
			}
			ok = false
		case *ast.TypeAssertExpr, *ast.TypeSwitchStmt, *ast.ForStmt, *ast.RangeStmt, *ast.FuncLit, *ast.GoStmt, *ast.DeferStmt:
			ok = false
		case *ast.SelectorExpr:
			if sel := info.Selections[x]; sel != nil && sel.Kind() == types.FieldVal {
				if id, isId := ast.Unparen(x.X).(*ast.Ident); isId && info.Uses[id] == recv {
					fields[x.Sel.Name] = true
				}
			}
		}
		return ok
	})
	if !ok || len(fields) == 0 {
		return ""
	}
	return "a computation over its own fields " + travSortedKeys(fields) + " that calls nothing"
}

// travSoleDef: e itself, or — when e is a local variable that is assigned exactly once in
// fd and never has its address taken — the expression it is assigned from.
func travSoleDef(info *types.Info, fd *ast.FuncDecl, e ast.Expr) ast.Expr {
	id, ok := ast.Unparen(e).(*ast.Ident)
	if !ok {
		return e
	}
	o, _ := info.Uses[id].(*types.Var)
	if o == nil || o.IsField() || fd.Body == nil || o.Pos() < fd.Body.Pos() || o.Pos() > fd.Body.End() {
		return e
	}
	var rhs ast.Expr
	n := 0
	ast.Inspect(fd.Body, func(x ast.Node) bool {
		switch y := x.(type) {
		case *ast.AssignStmt:
			for i, l := range y.Lhs {
				lid, ok := ast.Unparen(l).(*ast.Ident)
				if !ok || (info.Defs[lid] != o && info.Uses[lid] != o) {
					continue
				}
				n++
				if len(y.Lhs) == len(y.Rhs) && (y.Tok == token.DEFINE || y.Tok == token.ASSIGN) {
					rhs = y.Rhs[i]
				} else {
					n++
				}
			}
		case *ast.ValueSpec:
			for i, nm := range y.Names {
				if info.Defs[nm] == o {
					n++
					if len(y.Names) == len(y.Values) {
						rhs = y.Values[i]
					} else {
						n++
					}
				}
			}
		case *ast.IncDecStmt:
			if lid, ok := ast.Unparen(y.X).(*ast.Ident); ok && info.Uses[lid] == o {
				n += 2
			}
		case *ast.UnaryExpr:
			if lid, ok := ast.Unparen(y.X).(*ast.Ident); ok && y.Op == token.AND && info.Uses[lid] == o {
				n += 2
			}
		case *ast.RangeStmt:
			for _, kv := range []ast.Expr{y.Key, y.Value} {
				if lid, ok := kv.(*ast.Ident); ok && (info.Defs[lid] == o || info.Uses[lid] == o) {
					n += 2
				}
			}
		}
		return true
	})
	if n == 1 && rhs != nil {
		return rhs
	}
	return e
}

// travFallChain: the clauses whose statements run when clause cc is selected — cc itself
// and, as long as the last statement is `fallthrough`, the clause that follows — and
// the statements executed (the fallthrough statements themselves left out).
func travFallChain(clauses []*ast.CaseClause, cc *ast.CaseClause) (map[*ast.CaseClause]bool, []ast.Stmt) {
	chain := map[*ast.CaseClause]bool{cc: true}
	idx := -1
	for i, o := range clauses {
		if o == cc {
			idx = i
		}
	}
	var body []ast.Stmt
	for i := idx; i >= 0 && i < len(clauses); i++ {
		cur := clauses[i]
		chain[cur] = true
		n := len(cur.Body)
		if n > 0 {
			if bs, ok := cur.Body[n-1].(*ast.BranchStmt); ok && bs.Tok == token.FALLTHROUGH {
				body = append(body, cur.Body[:n-1]...)
				continue
			}
		}
		body = append(body, cur.Body...)
		break
	}
	if len(chain) == 1 {
		return chain, cc.Body
	}
	return chain, body
}

// shallowReads: reads of the unit without following calls that receive the subject struct itself.
func (r *travRun) shallowReads(u *travUnit) *travReads {
	tc := newTravCollector(r.m)
	// poison the memo of every function so that nothing is followed
	rd := tc.collectShallow(u.scope)
	return rd
}

func (tc *travCollector) collectShallow(sc travScope) *travReads {
	// mark every declared function active: summary() then returns empty reads but follows are still recorded
	for fn := range tc.m.decls {
		tc.active[fn] = true
	}
	return tc.collect(sc)
}

// travRejects: body is exactly `return pkg.Constructor(...)` with the constructor declared
// in another package of the module and returning a pointer (an interrupt / error value).
func travRejects(p *packages.Package, body []ast.Stmt) bool {
	if len(body) != 1 {
		return false
	}
	rs, ok := body[0].(*ast.ReturnStmt)
	if !ok || len(rs.Results) == 0 {
		return false
	}
	call, ok := ast.Unparen(rs.Results[len(rs.Results)-1]).(*ast.CallExpr)
	if !ok {
		return false
	}
	fn := CalleeOf(p.TypesInfo, call)
	if fn == nil || fn.Pkg() == nil || fn.Pkg() == p.Types || !strings.HasPrefix(fn.Pkg().Path(), ModPath) {
		return false
	}
	sig := fn.Type().(*types.Signature)
	if sig.Recv() != nil || sig.Results().Len() != 1 {
		return false
	}
	_, isPtr := sig.Results().At(0).Type().(*types.Pointer)
	for _, r := range rs.Results[:len(rs.Results)-1] {
		if id, ok := ast.Unparen(r).(*ast.Ident); !ok || id.Name != "nil" {
			return false
		}
	}
	return isPtr
}

func travSoleReturn(body []ast.Stmt) string {
	if len(body) != 1 {
		return ""
	}
	rs, ok := body[0].(*ast.ReturnStmt)
	if !ok || len(rs.Results) != 1 {
		return ""
	}
	if id, ok := rs.Results[0].(*ast.Ident); ok && (id.Name == "true" || id.Name == "false") {
		return id.Name
	}
	return ""
}

// travSoleReturnC: like travSoleReturn, but decides by the constant value of the returned
// expression (a named bool constant, `!false`, … are the literal they evaluate to).
func travSoleReturnC(info *types.Info, body []ast.Stmt) string {
	if v := travSoleReturn(body); v != "" || len(body) != 1 {
		return v
	}
	rs, ok := body[0].(*ast.ReturnStmt)
	if !ok || len(rs.Results) != 1 {
		return ""
	}
	if tv, ok := info.Types[rs.Results[0]]; ok && tv.Value != nil && tv.Value.Kind() == constant.Bool {
		if constant.BoolVal(tv.Value) {
			return "true"
		}
		return "false"
	}
	return ""
}

// ---- predicates: absorbing value of the fold ----

// family key of a predicate unit: methods of the AST packages by method name, other functions by package.
func travFamily(u *travUnit) string {
	if u.clause == nil && u.fd.Recv != nil && (strings.HasSuffix(u.pkg.PkgPath, "/ast")) {
		return u.pkg.PkgPath + "." + u.fd.Name.Name
	}
	return u.pkg.PkgPath
}

// absorbing infers, per predicate family, the value at which the family's own
// recursion short-circuits (`a || b`, `if rec(x) { return true }` → true;
// `a && b`, `if !rec(x) { return false }` → false). A clause may return that
// value without looking at the children: it is the answer the fold gives as
// soon as any child says so.
func (r *travRun) absorbing(units []*travUnit) map[string]string {
	members := map[string]map[string]bool{} // family -> function/method names
	bodies := map[string][]*travUnit{}
	for _, u := range units {
		if u.role != rolePredicate {
			continue
		}
		f := travFamily(u)
		if members[f] == nil {
			members[f] = map[string]bool{}
		}
		members[f][u.fd.Name.Name] = true
		bodies[f] = append(bodies[f], u)
	}
	out := map[string]string{}
	for f, us := range bodies {
		votes := map[string]int{}
		isRec := func(info *types.Info, e ast.Expr) (bool, bool) { // (is family call, negated)
			neg := false
			e = ast.Unparen(e)
			if ue, ok := e.(*ast.UnaryExpr); ok && ue.Op == token.NOT {
				neg = true
				e = ast.Unparen(ue.X)
			}
			call, ok := e.(*ast.CallExpr)
			if !ok {
				return false, false
			}
			if c := CalleeOf(info, call); c != nil && members[f][c.Name()] {
				return true, neg
			}
			return false, false
		}
		seen := map[*ast.FuncDecl]bool{}
		for _, u := range us {
			if seen[u.fd] {
				continue
			}
			seen[u.fd] = true
			info := u.pkg.TypesInfo
			ast.Inspect(u.fd.Body, func(n ast.Node) bool {
				switch x := n.(type) {
				case *ast.BinaryExpr:
					if x.Op == token.LOR || x.Op == token.LAND {
						a, _ := isRec(info, x.X)
						b, _ := isRec(info, x.Y)
						if a && b {
							if x.Op == token.LOR {
								votes["true"]++
							} else {
								votes["false"]++
							}
						}
					}
				case *ast.IfStmt:
					if rec, neg := isRec(info, x.Cond); rec && x.Init == nil {
						if v := travSoleReturnC(info, x.Body.List); v != "" {
							if (v == "true") != neg {
								votes[v]++
							}
						}
					}
				}
				return true
			})
		}
		switch {
		case votes["true"] > 0 && votes["false"] == 0:
			out[f] = "true"
		case votes["false"] > 0 && votes["true"] == 0:
			out[f] = "false"
		}
	}
	return out
}

// learnLoopContext reads the analyzer's loop bookkeeping: a counter field that
// is incremented before a block of the handled node is analysed (loop body) and
// compared with zero in the handlers of the statements that are only legal
// inside a loop.
func (r *travRun) learnLoopContext() {
	m := r.m
	r.loopBody = map[*travStruct]map[string]string{}
	r.loopCtl = map[*travStruct]string{}
	an := r.c.Pkg("homescript/analyzer")
	info := an.TypesInfo
	type fnInfo struct {
		fd *ast.FuncDecl
		pv *types.Var
		ps *travStruct
	}
	var fns []fnInfo
	for _, fd := range AllFuncDecls(an) {
		fn, _ := info.Defs[fd.Name].(*types.Func)
		if fn == nil {
			continue
		}
		sg := fn.Type().(*types.Signature)
		for i := 0; i < sg.Params().Len(); i++ {
			if s := m.structs[travNamed(sg.Params().At(i).Type())]; s != nil && m.inP(s.T) {
				fns = append(fns, fnInfo{fd, sg.Params().At(i), s})
			}
		}
	}
	// raising helpers: a function that increments a counter field and does not decrement it again
	// (enterLoop()): calling it is the increment. incsOf: the increments of a body, direct or through such a helper.
	type incSite struct {
		field *types.Var
		pos   token.Pos
	}
	directIncs := func(body ast.Node, tok token.Token) []incSite {
		var out []incSite
		ast.Inspect(body, func(n ast.Node) bool {
			if x, ok := n.(*ast.IncDecStmt); ok && x.Tok == tok {
				if se, ok := x.X.(*ast.SelectorExpr); ok {
					if v, ok := info.Uses[se.Sel].(*types.Var); ok && v.IsField() {
						out = append(out, incSite{v, x.Pos()})
					}
				}
			}
			return true
		})
		return out
	}
	raising := map[*types.Func][]*types.Var{}
	for _, fd := range AllFuncDecls(an) {
		fn, _ := info.Defs[fd.Name].(*types.Func)
		if fn == nil || fd.Body == nil {
			continue
		}
		decs := map[*types.Var]bool{}
		for _, d := range directIncs(fd.Body, token.DEC) {
			decs[d.field] = true
		}
		seen := map[*types.Var]bool{}
		for _, ic := range directIncs(fd.Body, token.INC) {
			if !decs[ic.field] && !seen[ic.field] {
				seen[ic.field] = true
				raising[fn] = append(raising[fn], ic.field)
			}
		}
	}
	incsOf := func(body ast.Node) []incSite {
		out := directIncs(body, token.INC)
		ast.Inspect(body, func(n ast.Node) bool {
			if call, ok := n.(*ast.CallExpr); ok {
				for _, fv := range raising[CalleeOf(info, call)] {
					out = append(out, incSite{fv, call.Pos()})
				}
			}
			return true
		})
		sort.SliceStable(out, func(i, j int) bool { return out[i].pos < out[j].pos })
		return out
	}
	// pass 0: loop-entering helpers — a function that increments a counter field before it hands
	// one of its own parameters (a block) on: calling it with a block of the handled node is the
	// same bookkeeping, moved into a helper shared by several loop statements
	type enterer struct {
		param int
		field *types.Var
		pos   token.Pos
		fd    *ast.FuncDecl
	}
	enterers := map[*types.Func][]enterer{}
	for _, fd := range AllFuncDecls(an) {
		fn, _ := info.Defs[fd.Name].(*types.Func)
		if fn == nil {
			continue
		}
		sg := fn.Type().(*types.Signature)
		for i := 0; i < sg.Params().Len(); i++ {
			pv := sg.Params().At(i)
			_, isFunc := types.Unalias(pv.Type()).Underlying().(*types.Signature)
			if !m.isBlockType(pv.Type()) && !isFunc {
				continue
			}
			incs := incsOf(fd.Body)
			if len(incs) == 0 {
				continue
			}
			ast.Inspect(fd.Body, func(n ast.Node) bool {
				call, ok := n.(*ast.CallExpr)
				if !ok {
					return true
				}
				handsOn := false
				if isFunc {
					// the callback parameter is run: `analyzeBody()`
					if id, ok := ast.Unparen(call.Fun).(*ast.Ident); ok && info.Uses[id] == pv {
						handsOn = true
					}
				} else {
					for _, a := range call.Args {
						if id, ok := ast.Unparen(a).(*ast.Ident); ok && info.Uses[id] == pv {
							handsOn = true
						}
					}
				}
				if handsOn {
					for _, ic := range incs {
						if ic.pos < call.Pos() {
							enterers[fn] = append(enterers[fn], enterer{i, ic.field, ic.pos, fd})
						}
					}
				}
				return true
			})
		}
	}
	// pass 1: counters incremented before a block of the handled node is analysed
	counters := map[*types.Var]bool{}
	for _, f := range fns {
		if len(enterers) > 0 {
			ast.Inspect(f.fd.Body, func(n ast.Node) bool {
				call, ok := n.(*ast.CallExpr)
				if !ok {
					return true
				}
				for _, en := range enterers[CalleeOf(info, call)] {
					if en.param >= len(call.Args) {
						continue
					}
					// the block of the handled node that is handed over: the argument itself, or — for a
					// callback — every block of the node that the function literal passes to an analysis call
					var blocks []*ast.SelectorExpr
					isNodeBlock := func(e ast.Expr) *ast.SelectorExpr {
						se, ok := ast.Unparen(e).(*ast.SelectorExpr)
						if !ok {
							return nil
						}
						id, ok := ast.Unparen(se.X).(*ast.Ident)
						if !ok || info.Uses[id] != f.pv || !m.isBlockType(info.TypeOf(se)) {
							return nil
						}
						return se
					}
					switch a := ast.Unparen(call.Args[en.param]).(type) {
					case *ast.FuncLit:
						ast.Inspect(a.Body, func(y ast.Node) bool {
							if c2, ok := y.(*ast.CallExpr); ok {
								for _, a2 := range c2.Args {
									if se := isNodeBlock(a2); se != nil {
										blocks = append(blocks, se)
									}
								}
							}
							return true
						})
					default:
						if se := isNodeBlock(a); se != nil {
							blocks = append(blocks, se)
						}
					}
					for _, se := range blocks {
						counters[en.field] = true
						if r.loopBody[f.ps] == nil {
							r.loopBody[f.ps] = map[string]string{}
						}
						if r.loopBody[f.ps][se.Sel.Name] == "" {
							r.loopBody[f.ps][se.Sel.Name] = fmt.Sprintf("%s hands %s.%s to %s, which increments %s before analysing it (%s)", travFuncKey(an, f.fd), f.ps.Short(), se.Sel.Name, travFuncKey(an, en.fd), en.field.Name(), r.c.Pos(en.pos))
						}
					}
				}
				return true
			})
		}
		incs := incsOf(f.fd.Body)
		if len(incs) == 0 {
			continue
		}
		ast.Inspect(f.fd.Body, func(n ast.Node) bool {
			call, ok := n.(*ast.CallExpr)
			if !ok {
				return true
			}
			for _, a := range call.Args {
				se, ok := ast.Unparen(a).(*ast.SelectorExpr)
				if !ok {
					continue
				}
				id, ok := ast.Unparen(se.X).(*ast.Ident)
				if !ok || info.Uses[id] != f.pv || !m.isBlockType(info.TypeOf(se)) {
					continue
				}
				for _, ic := range incs {
					if ic.pos < call.Pos() {
						counters[ic.field] = true
						if r.loopBody[f.ps] == nil {
							r.loopBody[f.ps] = map[string]string{}
						}
						r.loopBody[f.ps][se.Sel.Name] = fmt.Sprintf("%s increments %s before analysing %s.%s (%s)", travFuncKey(an, f.fd), ic.field.Name(), f.ps.Short(), se.Sel.Name, r.c.Pos(ic.pos))
					}
				}
			}
			return true
		})
	}
	// pass 2: handlers that compare such a counter with zero: statements only legal inside a loop
	for _, f := range fns {
		ast.Inspect(f.fd.Body, func(n ast.Node) bool {
			x, ok := n.(*ast.BinaryExpr)
			if !ok {
				return true
			}
			se, ok := ast.Unparen(x.X).(*ast.SelectorExpr)
			if !ok {
				return true
			}
			v, ok := info.Uses[se.Sel].(*types.Var)
			if !ok || !counters[v] {
				return true
			}
			if bl, ok := ast.Unparen(x.Y).(*ast.BasicLit); ok && bl.Value == "0" {
				r.loopCtl[f.ps] = fmt.Sprintf("%s compares %s with 0 (%s)", travFuncKey(an, f.fd), v.Name(), r.c.Pos(x.Pos()))
			}
			return true
		})
	}
}

func (r *travRun) parserSide(s *travStruct) *travStruct {
	if r.m.inP(s.T) {
		return s
	}
	return s.Twin
}

// loopControlFamilies: predicate families whose unconditional absorbing answers
// are given exactly for the statements the analyzer only admits inside a loop.
func (r *travRun) loopControlFamilies(units []*travUnit, absorb map[string]string) map[string]bool {
	out := map[string]bool{}
	by := map[string][]*travUnit{}
	for _, u := range units {
		if u.role == rolePredicate {
			by[travFamily(u)] = append(by[travFamily(u)], u)
		}
	}
	for f, us := range by {
		a := absorb[f]
		if a == "" {
			continue
		}
		n, ok := 0, true
		for _, u := range us {
			if u.soleReturn == a && len(travRequiredChildren(r.m, u.subject)) == 0 {
				n++
				if p := r.parserSide(u.subject); p == nil || r.loopCtl[p] == "" {
					ok = false
				}
			}
		}
		if n > 0 && ok {
			out[f] = true
		}
	}
	return out
}

func travRequiredChildren(m *travModel, s *travStruct) []*travField {
	var out []*travField
	for _, f := range s.Fields {
		if f.Class == tfChild {
			out = append(out, f)
		}
	}
	return out
}

// ---- decision ----

func (r *travRun) decide(u *travUnit, absorb map[string]string, loopPred map[string]bool) {
	m := r.m
	rd := r.tc.collect(u.scope)
	fam := travFamily(u)
	conservative := u.role == rolePredicate && u.soleReturn != "" && absorb[fam] == u.soleReturn
	var infos []string
	siblingNote := ""
	done := map[*travStruct]bool{}
	var check func(s *travStruct, path string)
	check = func(s *travStruct, path string) {
		if done[s] {
			return
		}
		done[s] = true
		for _, f := range s.Fields {
			need := travNeed(u.role, f)
			if need == 0 {
				continue
			}
			if u.role == roleConsume && f.Class == tfChild && !r.executable(f.Var.Type(), 0) {
				need = 1 // a declaration without executable content (type definition, import): erased at run time
			}
			if need == 3 {
				need = 1
				for pkgPath, byS := range r.engineReads {
					if pkgPath != u.pkg.PkgPath && byS[s][f.Name] {
						need = 2
						siblingNote = fmt.Sprintf("; the sibling engine %s reads it, so the two engines disagree on programs that differ only here", relPkg(pkgPath))
					}
				}
			}
			key := u.key + "|" + s.Short() + "." + f.Name
			read := rd.fields[s][f.Name]
			esc, escaped := rd.escapes[s]
			ob := Obligation{Key: key, Pos: r.c.Pos(u.pos), Nontrivial: true}
			base := fmt.Sprintf("[%s] %s.%s (%s: %s)", u.role, s.Short(), f.Name, f.Class, f.Why)
			switch {
			case read:
				ob.Status, ob.Detail = Discharged, base+": read"
			case escaped:
				ob.Status, ob.Detail = Discharged, base+": the whole "+s.Short()+" value is passed on ("+esc+")"
			case conservative && f.Class == tfChild:
				ob.Status, ob.Detail = Discharged, fmt.Sprintf("%s: clause is `return %s`, the absorbing value of this predicate's fold — the safe answer needs no inspection", base, u.soleReturn)
			default:
				if u.role == rolePredicate && f.Class == tfChild {
					if why := r.contextOpening(s, f, loopPred[fam]); why != "" {
						ob.Status, ob.Detail = Discharged, base+": not inspected, legitimately — "+why
						break
					}
				}
				if u.role == rolePrint {
					if why := r.foldedInto(s, f, rd); why != "" {
						ob.Status, ob.Detail = Discharged, base+": not printed itself, but "+why
						break
					}
				}
				if f.Class == tfScalar && need == 2 {
					if why := r.coProduced(s, f, rd); why != "" {
						infos = append(infos, fmt.Sprintf("%s.%s unread; %s", s.Short(), f.Name, why))
						continue
					}
				}
				if need == 1 {
					infos = append(infos, fmt.Sprintf("%s.%s (%s%s) unread", s.Short(), f.Name, f.Class, map[bool]string{true: ", analysis result", false: ""}[f.Derived]))
					continue
				}
				if u.shapeTest != "" {
					infos = append(infos, fmt.Sprintf("%s.%s not inspected: the method is an accessor of the node (%s), not a traversal", s.Short(), f.Name, u.shapeTest))
					continue
				}
				if u.rejects && u.role != rolePrint && u.role != rolePredicate {
					infos = append(infos, fmt.Sprintf("%s.%s unread: the clause refuses the construct with a freshly built interrupt (fragment boundary of this engine)", s.Short(), f.Name))
					continue
				}
				ob.Status = Violated
				ob.Detail = fmt.Sprintf("%s is never read in the code handling %s%s (fields read: %s)", base, s.Short(), path, travSortedKeys(rd.fields[s]))
				ob.Detail += siblingNote
				if u.role == rolePredicate && u.soleReturn != "" {
					ob.Detail += fmt.Sprintf("; the clause is `return %s` but the absorbing (safe) value of this predicate is %q", u.soleReturn, absorb[fam])
				}
			}
			r.obs = append(r.obs, ob)
			// inline components of a field that is looked into
			if read && f.Class != tfLayout && f.Class != tfType && u.shapeTest == "" {
				for _, cs := range m.carrierStructs(f.Var.Type()) {
					if cs == s || cs.IsSem || cs.T == m.identT {
						continue
					}
					if r.hasUnit[u.pkg.PkgPath+"|"+u.role.String()+"|"+cs.Name()] {
						continue
					}
					check(cs, path+" via "+s.Short()+"."+f.Name)
				}
			}
		}
		if u.role == rolePrint {
			if p, ok := rd.fmtEsc[s]; ok && s != u.subject {
				if !travHasStringer(s.T) {
					r.obs = append(r.obs, Obligation{Key: u.key + "|" + s.Short() + "|formatted without Stringer", Pos: r.c.Pos(p), Status: Violated, Nontrivial: true,
						Detail: fmt.Sprintf("a %s value is handed to a formatting function but %s has no String() method: it prints as a Go struct dump", s.Short(), s.Short())})
				}
			}
		}
		if u.role == roleRebuild {
			r.literalCompleteness(u, s, rd)
		}
	}
	check(u.subject, "")
	if len(infos) > 0 {
		sort.Strings(infos)
		r.obs = append(r.obs, Obligation{Key: u.key + "|informational", Pos: r.c.Pos(u.pos), Status: Info,
			Detail: fmt.Sprintf("[%s] not required for this role, unread: %s", u.role, strings.Join(infos, "; "))})
	}
}

func travHasStringer(n *types.Named) bool {
	for i := 0; i < n.NumMethods(); i++ {
		if n.Method(i).Name() == "String" {
			return true
		}
	}
	return false
}

func travSortedKeys(mm map[string]bool) string {
	var ks []string
	for k := range mm {
		ks = append(ks, k)
	}
	sort.Strings(ks)
	if len(ks) == 0 {
		return "none"
	}
	return strings.Join(ks, ",")
}

// contextOpening: a block that opens a new control context is not inspected
// by a loop-control predicate: the body of a callable, and a loop body (the
// analyzer analyses it at loop depth + 1, so break/continue inside address that loop).
func (r *travRun) contextOpening(s *travStruct, f *travField, loopFamily bool) string {
	if !r.m.isBlockType(f.Var.Type()) {
		return ""
	}
	if bf, ok := r.m.isCallable(s); ok {
		for _, b := range bf {
			if b == f.Name {
				return s.Short() + " has a parameter list and this block is its body: a callable opens a new control context"
			}
		}
	}
	if loopFamily {
		if p := r.parserSide(s); p != nil {
			if w := r.loopBody[p][f.Name]; w != "" {
				return "loop body: " + w + ", so loop control inside it addresses this loop"
			}
		}
	}
	return ""
}

// foldedInto: an unprinted syntactic type annotation F of an analyzed node is
// harmless when the analyzer folds it into an analysis-result field D that the
// printer does read: in the analyzer function that builds the node the literal
// sets F: x and D: y and the function assigns y = x.
func (r *travRun) foldedInto(s *travStruct, f *travField, rd *travReads) string {
	m := r.m
	if f.Class != tfType || !m.inA(s.T) {
		return ""
	}
	an := r.c.Pkg("homescript/analyzer")
	info := an.TypesInfo
	for _, fd := range AllFuncDecls(an) {
		var res string
		ast.Inspect(fd.Body, func(n ast.Node) bool {
			lit, ok := n.(*ast.CompositeLit)
			if !ok || m.structs[travNamed(info.TypeOf(lit))] != s {
				return true
			}
			vals := map[string]types.Object{}
			for _, e := range lit.Elts {
				if kv, ok := e.(*ast.KeyValueExpr); ok {
					if k, ok := kv.Key.(*ast.Ident); ok {
						if id, ok := ast.Unparen(kv.Value).(*ast.Ident); ok {
							vals[k.Name] = info.Uses[id]
						}
					}
				}
			}
			x := vals[f.Name]
			if x == nil {
				return true
			}
			for _, d := range s.Fields {
				if d == f || d.Class != tfType || !rd.fields[s][d.Name] || vals[d.Name] == nil {
					continue
				}
				y := vals[d.Name]
				ast.Inspect(fd.Body, func(n2 ast.Node) bool {
					as, ok := n2.(*ast.AssignStmt)
					if !ok || len(as.Lhs) != 1 || len(as.Rhs) != 1 {
						return true
					}
					l, ok1 := ast.Unparen(as.Lhs[0]).(*ast.Ident)
					rr, ok2 := ast.Unparen(as.Rhs[0]).(*ast.Ident)
					if ok1 && ok2 && (info.Uses[l] == y || info.Defs[l] == y) && info.Uses[rr] == x {
						res = fmt.Sprintf("%s folds it into %s.%s, which is printed (`%s = %s` at %s)", travFuncKey(an, fd), s.Short(), d.Name, l.Name, rr.Name, r.c.Pos(as.Pos()))
					}
					return true
				})
			}
			return true
		})
		if res != "" {
			return res
		}
	}
	return ""
}

// coProduced: a parser-AST flag that every construction site obtains from the
// same multi-value call as a field the printer does read (the flag is encoded
// redundantly in that field). Reported as informational, not as a violation.
func (r *travRun) coProduced(s *travStruct, f *travField, rd *travReads) string {
	m := r.m
	orig := s
	if !m.inP(s.T) {
		// analyzed node: the flag is redundant when it is redundant in the parser twin and the same-named witness field is read here
		if s.Twin == nil || s.Twin.Field(f.Name) == nil {
			return ""
		}
		s = s.Twin
		f = s.Field(f.Name)
	}
	pp := r.c.Pkg("homescript/parser")
	info := pp.TypesInfo
	sites, okSites := 0, 0
	var witness string
	for _, fd := range AllFuncDecls(pp) {
		ast.Inspect(fd.Body, func(n ast.Node) bool {
			lit, ok := n.(*ast.CompositeLit)
			if !ok || m.structs[travNamed(info.TypeOf(lit))] != s || len(lit.Elts) == 0 {
				return true
			}
			vals := map[string]types.Object{}
			for _, e := range lit.Elts {
				if kv, ok := e.(*ast.KeyValueExpr); ok {
					if k, ok := kv.Key.(*ast.Ident); ok {
						if id, ok := ast.Unparen(kv.Value).(*ast.Ident); ok {
							vals[k.Name] = info.Uses[id]
						}
					}
				}
			}
			x := vals[f.Name]
			if x == nil {
				// the flag is left at its zero value here: a site that does not produce it
				keyed := false
				for _, e := range lit.Elts {
					if kv, ok := e.(*ast.KeyValueExpr); ok {
						if k, ok := kv.Key.(*ast.Ident); ok && k.Name == f.Name {
							keyed = true
						}
					}
				}
				if keyed {
					sites++ // set from something that is not a plain variable: cannot be shown redundant
				}
				return true
			}
			sites++
			// find the defining multi-value assignment of x
			ast.Inspect(fd.Body, func(n2 ast.Node) bool {
				as, ok := n2.(*ast.AssignStmt)
				if !ok || len(as.Rhs) != 1 || len(as.Lhs) < 2 {
					return true
				}
				call, ok := as.Rhs[0].(*ast.CallExpr)
				if !ok {
					return true
				}
				hasX := false
				var other string
				for _, l := range as.Lhs {
					id, ok := l.(*ast.Ident)
					if !ok {
						continue
					}
					o := info.Defs[id]
					if o == nil {
						o = info.Uses[id]
					}
					if o == x {
						hasX = true
					}
					for name, v := range vals {
						if v == o && name != f.Name && rd.fields[orig][name] {
							other = name
						}
					}
				}
				if hasX && other != "" {
					okSites++
					witness = fmt.Sprintf("every parser construction site takes it from the same call as the printed field %s (`%s` in %s): the flag is encoded redundantly there", other, exprStr(call.Fun), travFuncKey(pp, fd))
				}
				return true
			})
			return true
		})
	}
	if sites > 0 && sites == okSites {
		return witness
	}
	return ""
}

// literalCompleteness: a rebuilder that constructs a literal of the node type it handles must set every field.
func (r *travRun) literalCompleteness(u *travUnit, s *travStruct, rd *travReads) {
	lits := rd.lits[s]
	if len(lits) == 0 {
		return
	}
	for _, f := range s.Fields {
		var missing []string
		for _, l := range lits {
			if l.Positional || l.Keyed[f.Name] || len(l.Keyed) == 0 {
				continue
			}
			missing = append(missing, r.c.Pos(l.Pos))
		}
		ob := Obligation{Key: u.key + "|" + s.Short() + " literal sets " + f.Name, Pos: r.c.Pos(u.pos), Nontrivial: true}
		switch {
		case len(missing) == 0:
			ob.Status, ob.Detail = Discharged, fmt.Sprintf("[rebuild] all %d %s literals set %s", len(lits), s.Short(), f.Name)
		case rd.writes[s][f.Name]:
			ob.Status, ob.Detail = Discharged, fmt.Sprintf("[rebuild] %s literal at %s omits %s but the field is assigned afterwards", s.Short(), strings.Join(missing, ","), f.Name)
		case f.Class == tfLayout:
			ob.Status, ob.Detail = Info, fmt.Sprintf("[rebuild] %s literal at %s leaves layout field %s zero", s.Short(), strings.Join(missing, ","), f.Name)
		default:
			ob.Status = Violated
			ob.Detail = fmt.Sprintf("[rebuild] the rebuilt %s literal at %s does not set %s (%s: %s): the output node silently loses it", s.Short(), strings.Join(missing, ","), f.Name, f.Class, f.Why)
		}
		r.obs = append(r.obs, ob)
	}
}

// missingKinds: node kinds of the dispatched interface that no clause names (they reach the default clause). Informational here; exhaustiveness is R-enum-total's obligation.
func (r *travRun) missingKinds(p *packages.Package, fd *ast.FuncDecl, d *travDispatch, sw string) {
	if d.ifc == nil {
		return
	}
	it, ok := d.ifc.Underlying().(*types.Interface)
	if !ok {
		return
	}
	hasKindMethod := false
	for i := 0; i < it.NumMethods(); i++ {
		if it.Method(i).Name() == "Kind" {
			hasKindMethod = true
		}
	}
	if !hasKindMethod {
		return // structurally typed interface (Span/String only): "implementers" are not a closed set of kinds
	}
	have := map[*travStruct]bool{}
	hasDefault := false
	for _, cc := range d.clauses {
		if cc.List == nil {
			hasDefault = true
		}
		for _, s := range d.kinds[cc] {
			have[s] = true
		}
	}
	var missing []string
	for _, s := range r.m.sortedStructs() {
		if have[s] || s.IsSem {
			continue
		}
		if types.Implements(s.T, it) || types.Implements(types.NewPointer(s.T), it) {
			if s.Kind != nil {
				missing = append(missing, s.Kind.Name())
			} else {
				missing = append(missing, s.Short())
			}
		}
	}
	if len(missing) == 0 {
		return
	}
	def := "there is no default clause"
	if hasDefault {
		def = "they reach the default clause"
		for _, cc := range d.clauses {
			if cc.List == nil && BodyPanics(p.TypesInfo, cc.Body) {
				def = "they reach the default clause, which panics"
			}
		}
	}
	r.obs = append(r.obs, Obligation{Key: travFuncKey(p, fd) + "|" + sw + "|kinds without a clause", Pos: r.c.Pos(d.sw.Pos()), Status: Info,
		Detail: fmt.Sprintf("node kinds of %s not named by any case (%s): %s — no field obligation can be stated for them here (exhaustiveness: R-enum-total)", d.ifc.Obj().Name(), def, strings.Join(missing, ", "))})
}

// antiVacuity: the traversals the properties talk about must have been found, by role.
func (r *travRun) antiVacuity(units []*travUnit) {
	m := r.m
	type want struct {
		pkg  string
		ifc  *types.Named
		role travRole
	}
	have := map[string]bool{}
	subj := map[string]bool{}
	for _, u := range units {
		if u.ifc != nil {
			have[fmt.Sprintf("%s|%s|%s", u.pkg.PkgPath, u.ifc.Obj().Pkg().Name()+"."+u.ifc.Obj().Name(), u.role)] = true
		}
		subj[fmt.Sprintf("%s|%s|%s", u.pkg.PkgPath, u.subject.Name(), u.role)] = true
	}
	var wants []want
	for ifc := range m.codeIfc {
		if m.inA(ifc) {
			wants = append(wants, want{"homescript/compiler", ifc, roleConsume}, want{"homescript/interpreter", ifc, roleConsume},
				want{"homescript/fuzzer", ifc, roleRebuild}, want{"homescript/fuzzer", ifc, rolePredicate})
		} else {
			wants = append(wants, want{"homescript/analyzer", ifc, roleAnalyze})
		}
	}
	wants = append(wants, want{"homescript/analyzer", m.hmsType, roleAnalyze})
	sort.Slice(wants, func(i, j int) bool {
		a, b := wants[i], wants[j]
		if a.pkg != b.pkg {
			return a.pkg < b.pkg
		}
		if a.ifc.Obj().Name() != b.ifc.Obj().Name() {
			return a.ifc.Obj().Name() < b.ifc.Obj().Name()
		}
		return a.role < b.role
	})
	for _, w := range wants {
		k := fmt.Sprintf("%s|%s|%s", ModPath+"/"+w.pkg, w.ifc.Obj().Pkg().Name()+"."+w.ifc.Obj().Name(), w.role)
		ob := Obligation{Key: fmt.Sprintf("<coverage>|%s has a %s dispatch over %s", w.pkg[len("homescript/"):], w.role, w.ifc.Obj().Name())}
		if have[k] {
			ob.Status, ob.Detail = Discharged, "found"
		} else {
			ob.Status, ob.Detail = Undecided, "no Kind()/type switch of this role over this interface was found in the package: the traversal moved or changed shape; the rule cannot vouch for it"
		}
		r.obs = append(r.obs, ob)
	}
	type wantS struct {
		pkg  string
		s    *types.Named
		role travRole
	}
	for _, w := range []wantS{{"homescript/parser/ast", m.progP, rolePrint}, {"homescript/analyzer/ast", m.progA, rolePrint},
		{"homescript/optimizer", m.progA, roleRebuild}, {"homescript/fuzzer", m.progA, roleRebuild}, {"homescript/analyzer", m.progP, roleAnalyze}, {"homescript/compiler", m.progA, roleConsume}} {
		s := m.structs[w.s]
		k := fmt.Sprintf("%s|%s|%s", ModPath+"/"+w.pkg, s.Name(), w.role)
		ob := Obligation{Key: fmt.Sprintf("<coverage>|%s has a %s traversal of %s", w.pkg[len("homescript/"):], w.role, s.Short())}
		if subj[k] {
			ob.Status, ob.Detail = Discharged, "found"
		} else {
			ob.Status, ob.Detail = Undecided, "no function of this role with the whole program as its subject was found in the package"
		}
		r.obs = append(r.obs, ob)
	}
}
