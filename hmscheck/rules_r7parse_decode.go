package main

import (
	"go/ast"
	"go/token"
	"go/types"
	"sort"
	"strings"
)

// R-token-decode-unique (C19, C06; parser).
//
// A literal token kind has ONE value decoder: the text of an Int token is turned
// into a value by one strconv function, the text of a Float token by another one.
// Every strconv.Parse*/Atoi call in package parser whose operand is the Value of a
// parser token (current or previous) is attributed to the token kinds under which
// it runs (case clause of a switch over that token's Kind, or an if on
// `<token>.Kind == K`). Per kind the set of decoders applied is a singleton. A kind
// decoded by two functions depending on the spelling (`42f` through ParseInt, `4.2f`
// through ParseFloat) gives one literal kind two value domains: whole float literals
// beyond 2^63 are rejected or rounded differently, printing and re-parsing no longer
// round-trips (C19).

func init() {
	register(&Rule{ID: "R-token-decode-unique", Floor: 2, Run: ruleR7parseDecodeUnique,
		Doc: "every strconv.Parse*/Atoi call in package parser whose operand is the Value of the parser's current/previous token is attributed to the token kinds under which it executes (case clause of a switch over that token's Kind / if on <token>.Kind == K, innermost first); per token kind the set of decoding functions is a singleton (one literal kind, one decoder, hence one value domain), and a decoder call outside any kind test is Undecided. A Float token decoded by ParseInt for some spellings has a second, narrower value domain (whole float literals > 2^63 fail or change value; print/re-parse does not round-trip, C19)."})
}

func ruleR7parseDecodeUnique(c *Ctx) []Obligation {
	r := pxDiscover(c)
	info := r.info
	alias := map[*types.Var]*types.Var{}
	tokenOf := func(e ast.Expr) *types.Var { // any variable / field of the lexer's token type
		var v *types.Var
		switch x := ast.Unparen(e).(type) {
		case *ast.SelectorExpr:
			v, _ = info.Uses[x.Sel].(*types.Var)
		case *ast.Ident:
			v, _ = info.Uses[x].(*types.Var)
		}
		if v != nil && types.Identical(v.Type(), r.tokenT) {
			for i := 0; i < 4; i++ { // a local that only names another token variable (`number := self.PreviousToken`)
				a, ok := alias[v]
				if !ok || a == nil {
					break
				}
				v = a
			}
			return v
		}
		return nil
	}
	// single-definition locals of the token type whose defining expression is itself a token variable
	{
		ndef := map[*types.Var]int{}
		first := map[*types.Var]ast.Expr{}
		for _, fd := range AllFuncDecls(r.pkg) {
			ast.Inspect(fd.Body, func(n ast.Node) bool {
				as, ok := n.(*ast.AssignStmt)
				if !ok {
					return true
				}
				for i, l := range as.Lhs {
					li, ok := l.(*ast.Ident)
					if !ok {
						continue
					}
					o := info.Defs[li]
					if o == nil {
						o = info.Uses[li]
					}
					v, ok := o.(*types.Var)
					if !ok || v.IsField() || !types.Identical(v.Type(), r.tokenT) {
						continue
					}
					ndef[v]++
					if len(as.Lhs) == len(as.Rhs) {
						first[v] = as.Rhs[i]
					} else {
						first[v] = nil
					}
				}
				return true
			})
		}
		for v, n := range ndef {
			if n == 1 && first[v] != nil {
				if t := tokenOf(first[v]); t != nil && t != v {
					alias[v] = t
				}
			}
		}
	}
	kindOf := func(e ast.Expr) *types.Var { // self.<tok>.Kind -> tok
		sel, ok := ast.Unparen(e).(*ast.SelectorExpr)
		if !ok || info.Uses[sel.Sel] != types.Object(r.kindF) {
			return nil
		}
		return tokenOf(sel.X)
	}
	type use struct {
		dec string
		pos token.Pos
	}
	byKind := map[string][]use{}
	var loose []use
	for _, fd := range AllFuncDecls(r.pkg) {
		if fd.Body == nil {
			continue
		}
		parents := pxParents(fd.Body)
		ast.Inspect(fd.Body, func(n ast.Node) bool {
			call, ok := n.(*ast.CallExpr)
			if !ok || len(call.Args) == 0 {
				return true
			}
			fn := CalleeOf(info, call)
			if fn == nil || fn.Pkg() == nil || fn.Pkg().Path() != "strconv" || !(strings.HasPrefix(fn.Name(), "Parse") || fn.Name() == "Atoi") {
				return true
			}
			arg := ast.Unparen(call.Args[0])
			if id, isId := arg.(*ast.Ident); isId {
				// text := <token>.Value held in a local (single definition)
				var def ast.Expr
				ndef := 0
				ast.Inspect(fd.Body, func(m ast.Node) bool {
					if as, ok := m.(*ast.AssignStmt); ok && len(as.Lhs) == len(as.Rhs) {
						for i, l := range as.Lhs {
							if li, ok := l.(*ast.Ident); ok && (info.Defs[li] == info.Uses[id] || info.Uses[li] == info.Uses[id]) && info.Uses[id] != nil {
								def = as.Rhs[i]
								ndef++
							}
						}
					}
					return true
				})
				if ndef == 1 {
					arg = ast.Unparen(def)
				}
			}
			vsel, ok := arg.(*ast.SelectorExpr)
			if !ok {
				return true
			}
			tok := tokenOf(vsel.X)
			if tok == nil {
				return true
			}
			dec := fn.Name()
			for _, a := range call.Args[1:] {
				dec += "," + exprStr(a)
			}
			var kinds []string
			var child ast.Node = call
			for p := parents[call]; p != nil && kinds == nil; child, p = p, parents[p] {
				switch x := p.(type) {
				case *ast.CaseClause:
					if sw, ok := parents[parents[x]].(*ast.SwitchStmt); ok && sw.Tag != nil && kindOf(sw.Tag) == tok {
						for _, v := range x.List {
							if k := r.canonKind(info, v); k != "" {
								kinds = append(kinds, k)
							}
						}
					}
				case *ast.IfStmt:
					if child == ast.Node(x.Body) {
						pxAtoms(x.Cond, func(a ast.Expr) {
							if b, ok := ast.Unparen(a).(*ast.BinaryExpr); ok && b.Op == token.EQL {
								l, rr := b.X, b.Y
								if kindOf(l) == nil {
									l, rr = rr, l
								}
								if kindOf(l) == tok {
									if k := r.canonKind(info, rr); k != "" {
										kinds = append(kinds, k)
									}
								}
							}
						})
					}
				}
			}
			if kinds == nil {
				loose = append(loose, use{dec, call.Pos()})
				return true
			}
			for _, k := range kinds {
				byKind[k] = append(byKind[k], use{dec, call.Pos()})
			}
			return true
		})
	}
	var obs []Obligation
	var ks []string
	for k := range byKind {
		ks = append(ks, k)
	}
	sort.Strings(ks)
	for _, k := range ks {
		set := map[string]bool{}
		for _, u := range byKind[k] {
			set[strings.SplitN(u.dec, ",", 2)[0]] = true
		}
		var ds []string
		for d := range set {
			ds = append(ds, d)
		}
		sort.Strings(ds)
		o := Obligation{Key: "parser|token kind " + k + "|one value decoder", Pos: c.Pos(byKind[k][0].pos), Status: Discharged, Nontrivial: true, Detail: "strconv." + byKind[k][0].dec}
		if len(ds) > 1 {
			o.Status = Violated
			o.Detail = "the text of a " + k + " token is decoded by " + strings.Join(ds, " AND ") + " depending on the path: one literal kind with two value domains (a spelling routed through the integer decoder is limited to int64 and loses the float decoder's range/rounding)"
		}
		obs = append(obs, o)
	}
	for _, u := range loose {
		obs = append(obs, Obligation{Key: "parser|decoder outside a token-kind test|" + u.dec, Pos: c.Pos(u.pos), Status: Undecided, Detail: "strconv." + u.dec + " is applied to a token's Value outside any test of that token's Kind: the kind it decodes cannot be attributed"})
	}
	return obs
}
