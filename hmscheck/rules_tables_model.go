package main

import (
	"go/ast"
	"go/token"
	"go/types"
	"sort"
	"strings"
	"sync"

	"golang.org/x/tools/go/packages"
	"golang.org/x/tools/go/ssa"
)

// Shared model of the "tables" rule group (R-enum-total, R-kind-bijective,
// R-kind-assert, R-opcode-shape): the interfaces that carry a Kind() method,
// their implementers and the constant(s) each implementer's Kind() returns,
// the set of concrete types that are ever converted to such an interface
// (producer set, from go/ssa MakeInterface), and an index of the function
// declarations of the module with their call sites.
//
// Everything is discovered from types: nothing is looked up by a frozen name
// except the method name "Kind" and the pipeline package list.

// tblPipeline lists the packages whose non-test code the table rules inspect.
var tblPipeline = []string{
	"homescript/lexer", "homescript/parser", "homescript/parser/ast",
	"homescript/analyzer", "homescript/analyzer/ast", "homescript/compiler",
	"homescript/runtime", "homescript/runtime/value", "homescript/interpreter",
	"homescript/interpreter/value", "homescript/optimizer", "homescript/fuzzer",
	"homescript/errors", "homescript/diagnostic",
}

type tblKindIface struct {
	Name  string // pkg.Type
	Named *types.Named
	Iface *types.Interface
	Enum  *Enum
	Impls []*tblImpl
	// byKind: constant value → implementers whose Kind() can return it
	byKind map[string][]*tblImpl
}

type tblImpl struct {
	T        *types.Named
	ViaPtr   bool // only *T implements the interface
	Kinds    []*types.Const
	NonConst string // why the returned kind could not be reduced to constants
	Decl     *ast.FuncDecl
	DeclPkg  *packages.Package
}

func (i *tblImpl) name() string { return tblTypeName(i.T) }

func tblTypeName(t types.Type) string {
	return types.TypeString(t, func(p *types.Package) string {
		return strings.TrimPrefix(relPkg(p.Path()), "homescript/")
	})
}

type tblFn struct {
	Pkg  *packages.Package
	Decl *ast.FuncDecl
	Obj  *types.Func
}

func (f *tblFn) name() string {
	return strings.TrimPrefix(relPkg(f.Pkg.PkgPath), "homescript/") + "." + FuncName(f.Decl)
}

type tblUse struct {
	Pkg   *packages.Package
	In    *tblFn        // enclosing function declaration (nil at package level)
	Ident *ast.Ident    // the identifier that denotes the function
	Call  *ast.CallExpr // non-nil when the identifier is the callee of this call
}

type tblModel struct {
	c         *Ctx
	pipeline  map[*packages.Package]bool
	ifaces    []*tblKindIface
	ifaceByTN map[*types.TypeName]*tblKindIface
	fns       map[*types.Func]*tblFn
	fnByDecl  map[*ast.FuncDecl]*tblFn
	uses      map[*types.Func][]tblUse
	allNamed  []*types.Named
	// method names of module interfaces (any method with that name on a type
	// that implements the interface may be called dynamically)
	ifaceMethodNames map[string][]*types.Named

	prodOnce sync.Once
	produced map[*types.TypeName][]string // concrete type → where it is converted to an interface (sample positions)

	opModel      *tblOpModel
	reachCache   *tblReach
	recovery     map[*types.TypeName]string
	guardCache   map[*tblFn]*tblGuard
	writeCache   map[*ssa.Function]*tblWrites
	directWrites map[*ssa.Function]map[string]bool
	inlineBusy   map[*types.Func]bool

	looseOnce sync.Once
	loose     map[*types.TypeName]*Enum // enums declared as an untyped iota block (analyzer/ast.TypeKind)
	enumCache map[*types.TypeName]*Enum
}

// enumOf extends Ctx.EnumOf to enums whose constants are declared *untyped*
// (`const ( A = iota; B; … )` next to `type T uint8`): such a block belongs to
// T when its constants are used where a T is expected (go/types records the
// converted type of every untyped constant use). All constants of the block
// are members, used or not.
func (m *tblModel) enumOf(t types.Type) *Enum {
	if t == nil {
		return nil
	}
	n, ok := types.Unalias(t).(*types.Named)
	if !ok || n.Obj().Pkg() == nil {
		return nil
	}
	m.looseOnce.Do(m.findLooseEnums)
	if e, ok := m.enumCache[n.Obj()]; ok {
		return e
	}
	// an untyped iota block is taken whole (also its constants nobody uses yet)
	e := m.loose[n.Obj()]
	if e == nil {
		e = m.c.EnumOf(n)
	}
	m.enumCache[n.Obj()] = e
	return e
}

// tblTypedConsts counts the package-level constants declared with type tn.
func tblTypedConsts(tn *types.TypeName) int {
	n := 0
	sc := tn.Pkg().Scope()
	for _, name := range sc.Names() {
		if k, ok := sc.Lookup(name).(*types.Const); ok && types.Identical(k.Type(), tn.Type()) {
			n++
		}
	}
	return n
}

func (m *tblModel) findLooseEnums() {
	m.loose = map[*types.TypeName]*Enum{}
	m.enumCache = map[*types.TypeName]*Enum{}
	// converted type of every use of an untyped integer package constant
	conv := map[*types.Const]map[*types.TypeName]int{}
	note := func(info *types.Info, e ast.Expr, id *ast.Ident) {
		k, ok := info.Uses[id].(*types.Const)
		if !ok || k.Pkg() == nil || !strings.HasPrefix(k.Pkg().Path(), ModPath) {
			return
		}
		if b, ok := k.Type().(*types.Basic); !ok || b.Kind() != types.UntypedInt {
			return
		}
		tv, ok := info.Types[e]
		if !ok {
			return
		}
		nt, ok := types.Unalias(tv.Type).(*types.Named)
		if !ok {
			return
		}
		if conv[k] == nil {
			conv[k] = map[*types.TypeName]int{}
		}
		conv[k][nt.Obj()]++
	}
	for _, p := range m.c.All {
		for _, file := range p.Syntax {
			ast.Inspect(file, func(n ast.Node) bool {
				switch x := n.(type) {
				case *ast.SelectorExpr:
					note(p.TypesInfo, x, x.Sel)
					if _, isPkg := p.TypesInfo.Uses[tblSelOf(x.X)].(*types.PkgName); isPkg {
						return false
					}
				case *ast.Ident:
					note(p.TypesInfo, x, x)
				}
				return true
			})
		}
	}
	for _, p := range m.c.All {
		for _, file := range p.Syntax {
			for _, d := range file.Decls {
				gd, ok := d.(*ast.GenDecl)
				if !ok || gd.Tok != token.CONST || len(gd.Specs) < 2 {
					continue
				}
				var ks []*types.Const
				votes := map[*types.TypeName]int{}
				untyped := true
				for _, sp := range gd.Specs {
					vs := sp.(*ast.ValueSpec)
					if vs.Type != nil {
						untyped = false
					}
					for _, nm := range vs.Names {
						k, ok := p.TypesInfo.Defs[nm].(*types.Const)
						if !ok {
							continue
						}
						if b, ok := k.Type().(*types.Basic); !ok || b.Kind() != types.UntypedInt {
							untyped = false
							continue
						}
						ks = append(ks, k)
						for tn, n := range conv[k] {
							votes[tn] += n
						}
					}
				}
				if !untyped || len(ks) < 2 || len(votes) == 0 {
					continue
				}
				var best *types.TypeName
				for tn, n := range votes {
					if tn.Pkg() == p.Types && (best == nil || n > votes[best]) {
						best = tn
					}
				}
				if best == nil || tblTypedConsts(best) >= 2 {
					continue
				}
				e := &Enum{Type: best.Type().(*types.Named), Consts: ks, ByVal: map[string][]*types.Const{}}
				for _, k := range ks {
					e.ByVal[k.Val().ExactString()] = append(e.ByVal[k.Val().ExactString()], k)
				}
				m.loose[best] = e
			}
		}
	}
}

var (
	tblModelMu sync.Mutex
	tblModels  = map[*Ctx]*tblModel{}
)

func tblModelOf(c *Ctx) *tblModel {
	tblModelMu.Lock()
	defer tblModelMu.Unlock()
	if m := tblModels[c]; m != nil {
		return m
	}
	m := &tblModel{c: c, pipeline: map[*packages.Package]bool{}, ifaceByTN: map[*types.TypeName]*tblKindIface{},
		fns: map[*types.Func]*tblFn{}, fnByDecl: map[*ast.FuncDecl]*tblFn{}, uses: map[*types.Func][]tblUse{},
		ifaceMethodNames: map[string][]*types.Named{}}
	for _, rel := range tblPipeline {
		m.pipeline[c.Pkg(rel)] = true
	}
	// function index
	for _, p := range c.All {
		for _, fd := range AllFuncDecls(p) {
			if obj, ok := p.TypesInfo.Defs[fd.Name].(*types.Func); ok {
				f := &tblFn{Pkg: p, Decl: fd, Obj: obj}
				m.fns[obj] = f
				m.fnByDecl[fd] = f
			}
		}
	}
	// named types + interfaces
	for _, p := range c.All {
		sc := p.Types.Scope()
		for _, n := range sc.Names() {
			tn, ok := sc.Lookup(n).(*types.TypeName)
			if !ok || tn.IsAlias() {
				continue
			}
			nt, ok := tn.Type().(*types.Named)
			if !ok || nt.TypeParams().Len() > 0 {
				continue
			}
			m.allNamed = append(m.allNamed, nt)
			if it, ok := nt.Underlying().(*types.Interface); ok {
				for i := 0; i < it.NumMethods(); i++ {
					mn := it.Method(i).Name()
					m.ifaceMethodNames[mn] = append(m.ifaceMethodNames[mn], nt)
				}
			}
		}
	}
	for _, nt := range m.allNamed {
		it, ok := nt.Underlying().(*types.Interface)
		if !ok {
			continue
		}
		var km *types.Func
		for i := 0; i < it.NumMethods(); i++ {
			if it.Method(i).Name() == "Kind" {
				km = it.Method(i)
			}
		}
		if km == nil {
			continue
		}
		sig := km.Type().(*types.Signature)
		if sig.Params().Len() != 0 || sig.Results().Len() != 1 {
			continue
		}
		en := m.enumOf(sig.Results().At(0).Type())
		if en == nil {
			continue
		}
		ki := &tblKindIface{Name: tblTypeName(nt), Named: nt, Iface: it, Enum: en, byKind: map[string][]*tblImpl{}}
		m.ifaces = append(m.ifaces, ki)
		m.ifaceByTN[nt.Obj()] = ki
	}
	sort.Slice(m.ifaces, func(i, j int) bool { return m.ifaces[i].Name < m.ifaces[j].Name })
	for _, ki := range m.ifaces {
		for _, nt := range m.allNamed {
			if _, isI := nt.Underlying().(*types.Interface); isI {
				continue
			}
			val := types.Implements(nt, ki.Iface)
			ptr := !val && types.Implements(types.NewPointer(nt), ki.Iface)
			if !val && !ptr {
				continue
			}
			im := &tblImpl{T: nt, ViaPtr: ptr}
			m.resolveKind(im)
			ki.Impls = append(ki.Impls, im)
			for _, k := range im.Kinds {
				v := k.Val().ExactString()
				ki.byKind[v] = append(ki.byKind[v], im)
			}
		}
		sort.Slice(ki.Impls, func(i, j int) bool { return ki.Impls[i].name() < ki.Impls[j].name() })
	}
	// uses of functions
	for _, p := range c.All {
		for _, file := range p.Syntax {
			var stack []ast.Node
			ast.Inspect(file, func(n ast.Node) bool {
				if n == nil {
					stack = stack[:len(stack)-1]
					return true
				}
				stack = append(stack, n)
				id, ok := n.(*ast.Ident)
				if !ok {
					return true
				}
				fn, ok := p.TypesInfo.Uses[id].(*types.Func)
				if !ok {
					return true
				}
				fn = fn.Origin()
				if m.fns[fn] == nil {
					return true
				}
				u := tblUse{Pkg: p, Ident: id}
				// callee position?  stack: ... CallExpr, [SelectorExpr], Ident
				for i := len(stack) - 2; i >= 0; i-- {
					switch x := stack[i].(type) {
					case *ast.SelectorExpr:
						if x.Sel == id {
							continue
						}
					case *ast.ParenExpr:
						continue
					case *ast.CallExpr:
						if ast.Unparen(x.Fun) == stack[i+1] || tblSelOf(x.Fun) == id {
							u.Call = x
						}
					}
					break
				}
				for i := len(stack) - 1; i >= 0; i-- {
					if fd, ok := stack[i].(*ast.FuncDecl); ok {
						u.In = m.fnByDecl[fd]
						break
					}
				}
				m.uses[fn] = append(m.uses[fn], u)
				return true
			})
		}
	}
	tblModels[c] = m
	return m
}

func tblSelOf(e ast.Expr) *ast.Ident {
	switch x := ast.Unparen(e).(type) {
	case *ast.Ident:
		return x
	case *ast.SelectorExpr:
		return x.Sel
	}
	return nil
}

// resolveKind reduces the implementer's Kind() method to the constants it can
// return.
func (m *tblModel) resolveKind(im *tblImpl) {
	var recv types.Type = im.T
	if im.ViaPtr {
		recv = types.NewPointer(im.T)
	}
	sel := types.NewMethodSet(recv).Lookup(im.T.Obj().Pkg(), "Kind")
	if sel == nil {
		im.NonConst = "Kind method not found in the method set"
		return
	}
	fn, _ := sel.Obj().(*types.Func)
	f := m.fns[fn]
	if f == nil {
		im.NonConst = "Kind method has no body in the module"
		return
	}
	im.Decl, im.DeclPkg = f.Decl, f.Pkg
	seen := map[string]bool{}
	ast.Inspect(f.Decl.Body, func(n ast.Node) bool {
		switch x := n.(type) {
		case *ast.FuncLit:
			return false
		case *ast.ReturnStmt:
			if len(x.Results) != 1 {
				im.NonConst = "return without a single result"
				return true
			}
			k := ConstOf(f.Pkg.TypesInfo, x.Results[0])
			if k == nil {
				im.NonConst = "returns the non-constant expression " + exprStr(x.Results[0])
				return true
			}
			if !seen[k.Val().ExactString()] {
				seen[k.Val().ExactString()] = true
				im.Kinds = append(im.Kinds, k)
			}
		}
		return true
	})
	if len(im.Kinds) == 0 && im.NonConst == "" {
		im.NonConst = "no return statement"
	}
}

// ifaceOf returns the Kind-interface model of a static type, or nil.
func (m *tblModel) ifaceOf(t types.Type) *tblKindIface {
	if t == nil {
		return nil
	}
	nt, ok := types.Unalias(t).(*types.Named)
	if !ok {
		return nil
	}
	return m.ifaceByTN[nt.Obj()]
}

// implOf returns the implementer record of a concrete type in ki (accepting
// *T for T), or nil.
func (ki *tblKindIface) implOf(t types.Type) *tblImpl {
	t = types.Unalias(t)
	if p, ok := t.(*types.Pointer); ok {
		t = types.Unalias(p.Elem())
	}
	nt, ok := t.(*types.Named)
	if !ok {
		return nil
	}
	for _, im := range ki.Impls {
		if im.T.Obj() == nt.Obj() {
			return im
		}
	}
	return nil
}

// ---- producer sets (E7) ----

// producers computes, once, every concrete named module type that is
// converted to an interface anywhere in the non-test code of the module
// (ssa.MakeInterface). A value of interface type I can only hold a dynamic
// type that was converted to *some* interface somewhere (then possibly
// re-asserted to I), so this is a sound over-approximation of the dynamic
// types a Kind() dispatch can meet, independent of the call graph.
func (m *tblModel) producers() map[*types.TypeName][]string {
	m.prodOnce.Do(func() {
		m.produced = map[*types.TypeName][]string{}
		prog := m.c.SSA()
		_ = prog
		add := func(t types.Type, pos token.Pos, fn *ssa.Function) {
			t = types.Unalias(t)
			if p, ok := t.(*types.Pointer); ok {
				t = types.Unalias(p.Elem())
			}
			nt, ok := t.(*types.Named)
			if !ok || nt.Obj().Pkg() == nil || !strings.HasPrefix(nt.Obj().Pkg().Path(), ModPath) {
				return
			}
			tn := nt.Origin().Obj()
			if len(m.produced[tn]) < 3 {
				where := fn.String()
				if pos.IsValid() {
					where = m.c.Pos(pos)
				}
				m.produced[tn] = append(m.produced[tn], where)
			} else if len(m.produced[tn]) == 3 {
				m.produced[tn] = append(m.produced[tn], "…")
			}
		}
		var visit func(fn *ssa.Function)
		seen := map[*ssa.Function]bool{}
		visit = func(fn *ssa.Function) {
			if fn == nil || seen[fn] {
				return
			}
			seen[fn] = true
			for _, b := range fn.Blocks {
				for _, ins := range b.Instrs {
					if mi, ok := ins.(*ssa.MakeInterface); ok {
						add(mi.X.Type(), mi.Pos(), fn)
					}
				}
			}
			for _, an := range fn.AnonFuncs {
				visit(an)
			}
		}
		for _, sp := range m.c.SSAPkgs {
			if sp == nil || !strings.HasPrefix(sp.Pkg.Path(), ModPath) {
				continue
			}
			for _, mem := range sp.Members {
				switch x := mem.(type) {
				case *ssa.Function:
					visit(x)
				case *ssa.Type:
					for _, recv := range []types.Type{x.Type(), types.NewPointer(x.Type())} {
						ms := m.c.Prog.MethodSets.MethodSet(recv)
						for i := 0; i < ms.Len(); i++ {
							if f := m.c.Prog.MethodValue(ms.At(i)); f != nil && f.Synthetic == "" {
								visit(f)
							}
						}
					}
				}
			}
		}
	})
	return m.produced
}

// reachableKinds: the constants of ki's enum that a value of interface ki can
// report at run time = kinds of the implementers that are produced. When an
// implementer's kind is not constant, every constant is reachable.
func (m *tblModel) reachableKinds(ki *tblKindIface) (set map[string]bool, why map[string]string) {
	prod := m.producers()
	set, why = map[string]bool{}, map[string]string{}
	for _, im := range ki.Impls {
		where, ok := prod[im.T.Obj()]
		if !ok {
			continue
		}
		if im.NonConst != "" {
			for _, k := range ki.Enum.Consts {
				v := k.Val().ExactString()
				if !set[v] {
					set[v] = true
					why[v] = im.name() + " (kind not constant: " + im.NonConst + ")"
				}
			}
			continue
		}
		for _, k := range im.Kinds {
			v := k.Val().ExactString()
			if !set[v] {
				set[v] = true
				why[v] = im.name() + " converted to an interface at " + where[0]
			}
		}
	}
	return
}

// ---- small AST helpers ----

// tblParents maps every node below root to its parent.
func tblParents(root ast.Node) map[ast.Node]ast.Node {
	par := map[ast.Node]ast.Node{}
	var stack []ast.Node
	ast.Inspect(root, func(n ast.Node) bool {
		if n == nil {
			stack = stack[:len(stack)-1]
			return true
		}
		if len(stack) > 0 {
			par[n] = stack[len(stack)-1]
		}
		stack = append(stack, n)
		return true
	})
	return par
}

// tblIsPanicStmt: panic(...) or a call of a module function whose body
// unconditionally ends in panic (e.g. an abort helper).
func (m *tblModel) tblIsPanicStmt(info *types.Info, s ast.Stmt) bool {
	if IsPanicCall(info, s) {
		return true
	}
	es, ok := s.(*ast.ExprStmt)
	if !ok {
		return false
	}
	call, ok := es.X.(*ast.CallExpr)
	if !ok {
		return false
	}
	if fn := CalleeOf(info, call); fn != nil {
		if f := m.fns[fn.Origin()]; f != nil && len(f.Decl.Body.List) > 0 {
			straight := true
			for _, st := range f.Decl.Body.List[:len(f.Decl.Body.List)-1] {
				switch st.(type) {
				case *ast.AssignStmt, *ast.ExprStmt, *ast.DeclStmt:
				default:
					straight = false
				}
			}
			return straight && IsPanicCall(f.Pkg.TypesInfo, f.Decl.Body.List[len(f.Decl.Body.List)-1])
		}
	}
	return false
}

// tblTerminates: control never falls out of the end of the statement list.
func (m *tblModel) tblTerminates(info *types.Info, list []ast.Stmt) bool {
	if len(list) == 0 {
		return false
	}
	switch x := list[len(list)-1].(type) {
	case *ast.ReturnStmt:
		return true
	case *ast.BranchStmt:
		return x.Tok != token.FALLTHROUGH
	case *ast.BlockStmt:
		return m.tblTerminates(info, x.List)
	case *ast.IfStmt:
		if x.Else == nil {
			return false
		}
		if !m.tblTerminates(info, x.Body.List) {
			return false
		}
		switch e := x.Else.(type) {
		case *ast.BlockStmt:
			return m.tblTerminates(info, e.List)
		case *ast.IfStmt:
			return m.tblTerminates(info, []ast.Stmt{e})
		}
		return false
	case *ast.ExprStmt:
		if m.tblIsPanicStmt(info, x) {
			return true
		}
		if call, ok := x.X.(*ast.CallExpr); ok {
			if fn := CalleeOf(info, call); fn != nil && fn.Pkg() != nil && fn.Pkg().Path() == "os" && fn.Name() == "Exit" {
				return true
			}
		}
	}
	return false
}

func tblSortedKeys[V any](m map[string]V) []string {
	var out []string
	for k := range m {
		out = append(out, k)
	}
	sort.Strings(out)
	return out
}
