package main

import (
	"go/ast"
	"go/token"
	"go/types"
	"sort"
	"strings"
	"sync"

	"golang.org/x/tools/go/packages"
	"golang.org/x/tools/go/ssa"
)

// Shared model of the "tables" rule group (R-enum-total, R-kind-bijective,
// R-kind-assert, R-opcode-shape): the interfaces that carry a Kind() method,
// their implementers and the constant(s) each implementer's Kind() returns,
// the set of concrete types that are ever converted to such an interface
// (producer set, from go/ssa MakeInterface), and an index of the function
// declarations of the module with their call sites.
//
// Everything is discovered from types: nothing is looked up by a frozen name
// except the method name "Kind" and the pipeline package list.

// tblPipeline lists the packages whose non-test code the table rules inspect.
var tblPipeline = []string{
	"homescript/lexer", "homescript/parser", "homescript/parser/ast",
	"homescript/analyzer", "homescript/analyzer/ast", "homescript/compiler",
	"homescript/runtime", "homescript/runtime/value", "homescript/interpreter",
	"homescript/interpreter/value", "homescript/optimizer", "homescript/fuzzer",
	"homescript/errors", "homescript/diagnostic",
}

type tblKindIface struct {
	Name   string // pkg.Type
	Method string // the discriminator method ("Kind", or what plays its role)
	Named  *types.Named
	Iface  *types.Interface
	Enum   *Enum
	Impls  []*tblImpl
	// byKind: constant value → implementers whose Kind() can return it
	byKind map[string][]*tblImpl
}

type tblImpl struct {
	T        *types.Named
	ViaPtr   bool // only *T implements the interface
	Kinds    []*types.Const
	NonConst string // why the returned kind could not be reduced to constants
	Decl     *ast.FuncDecl
	DeclPkg  *packages.Package
}

func (i *tblImpl) name() string { return tblTypeName(i.T) }

func tblTypeName(t types.Type) string {
	return types.TypeString(t, func(p *types.Package) string {
		return strings.TrimPrefix(relPkg(p.Path()), "homescript/")
	})
}

type tblFn struct {
	Pkg  *packages.Package
	Decl *ast.FuncDecl
	Obj  *types.Func
}

func (f *tblFn) name() string {
	return strings.TrimPrefix(relPkg(f.Pkg.PkgPath), "homescript/") + "." + FuncName(f.Decl)
}

type tblUse struct {
	Pkg   *packages.Package
	In    *tblFn        // enclosing function declaration (nil at package level)
	Ident *ast.Ident    // the identifier that denotes the function
	Call  *ast.CallExpr // non-nil when the identifier is the callee of this call
}

type tblModel struct {
	c         *Ctx
	pipeline  map[*packages.Package]bool
	ifaces    []*tblKindIface
	ifaceByTN map[*types.TypeName]*tblKindIface
	fns       map[*types.Func]*tblFn
	fnByDecl  map[*ast.FuncDecl]*tblFn
	uses      map[*types.Func][]tblUse
	allNamed  []*types.Named
	// method names of module interfaces (any method with that name on a type
	// that implements the interface may be called dynamically)
	ifaceMethodNames map[string][]*types.Named

	prodOnce sync.Once
	produced map[*types.TypeName][]string // concrete type → where it is converted to an interface (sample positions)

	opModel      *tblOpModel
	reachCache   *tblReach
	recovery     map[*types.TypeName]string
	guardCache   map[*tblFn]*tblGuard
	writeCache   map[*ssa.Function]*tblWrites
	directWrites map[*ssa.Function]map[string]bool
	inlineBusy   map[*types.Func]bool
	originCache  *tblOrigin
	escOnce      sync.Once
	addrEsc      map[string]string

	looseOnce sync.Once
	loose     map[*types.TypeName]*Enum // enums declared as an untyped iota block (analyzer/ast.TypeKind)
	enumCache map[*types.TypeName]*Enum
}

// enumOf extends Ctx.EnumOf to enums whose constants are declared *untyped*
// (`const ( A = iota; B; … )` next to `type T uint8`): such a block belongs to
// T when its constants are used where a T is expected (go/types records the
// converted type of every untyped constant use). All constants of the block
// are members, used or not.
func (m *tblModel) enumOf(t types.Type) *Enum {
	if t == nil {
		return nil
	}
	n, ok := types.Unalias(t).(*types.Named)
	if !ok || n.Obj().Pkg() == nil {
		return nil
	}
	m.looseOnce.Do(m.findLooseEnums)
	if e, ok := m.enumCache[n.Obj()]; ok {
		return e
	}
	// an untyped iota block is taken whole (also its constants nobody uses yet)
	e := m.loose[n.Obj()]
	if e == nil {
		e = m.c.EnumOf(n)
	}
	m.enumCache[n.Obj()] = e
	return e
}

// tblTypedConsts counts the package-level constants declared with type tn.
func tblTypedConsts(tn *types.TypeName) int {
	n := 0
	sc := tn.Pkg().Scope()
	for _, name := range sc.Names() {
		if k, ok := sc.Lookup(name).(*types.Const); ok && types.Identical(k.Type(), tn.Type()) {
			n++
		}
	}
	return n
}

func (m *tblModel) findLooseEnums() {
	m.loose = map[*types.TypeName]*Enum{}
	m.enumCache = map[*types.TypeName]*Enum{}
	// converted type of every use of an untyped integer package constant
	conv := map[*types.Const]map[*types.TypeName]int{}
	note := func(info *types.Info, e ast.Expr, id *ast.Ident) {
		k, ok := info.Uses[id].(*types.Const)
		if !ok || k.Pkg() == nil || !strings.HasPrefix(k.Pkg().Path(), ModPath) {
			return
		}
		if b, ok := k.Type().(*types.Basic); !ok || b.Kind() != types.UntypedInt {
			return
		}
		tv, ok := info.Types[e]
		if !ok {
			return
		}
		nt, ok := types.Unalias(tv.Type).(*types.Named)
		if !ok {
			return
		}
		if conv[k] == nil {
			conv[k] = map[*types.TypeName]int{}
		}
		conv[k][nt.Obj()]++
	}
	for _, p := range m.c.All {
		for _, file := range p.Syntax {
			ast.Inspect(file, func(n ast.Node) bool {
				switch x := n.(type) {
				case *ast.SelectorExpr:
					note(p.TypesInfo, x, x.Sel)
					if _, isPkg := p.TypesInfo.Uses[tblSelOf(x.X)].(*types.PkgName); isPkg {
						return false
					}
				case *ast.Ident:
					note(p.TypesInfo, x, x)
				}
				return true
			})
		}
	}
	for _, p := range m.c.All {
		for _, file := range p.Syntax {
			for _, d := range file.Decls {
				gd, ok := d.(*ast.GenDecl)
				if !ok || gd.Tok != token.CONST || len(gd.Specs) < 2 {
					continue
				}
				var ks []*types.Const
				votes := map[*types.TypeName]int{}
				untyped := true
				for _, sp := range gd.Specs {
					vs := sp.(*ast.ValueSpec)
					if vs.Type != nil {
						untyped = false
					}
					for _, nm := range vs.Names {
						k, ok := p.TypesInfo.Defs[nm].(*types.Const)
						if !ok {
							continue
						}
						if b, ok := k.Type().(*types.Basic); !ok || b.Kind() != types.UntypedInt {
							untyped = false
							continue
						}
						ks = append(ks, k)
						for tn, n := range conv[k] {
							votes[tn] += n
						}
					}
				}
				if !untyped || len(ks) < 2 || len(votes) == 0 {
					continue
				}
				var best *types.TypeName
				for tn, n := range votes {
					if tn.Pkg() == p.Types && (best == nil || n > votes[best]) {
						best = tn
					}
				}
				if best == nil || tblTypedConsts(best) >= 2 {
					continue
				}
				e := &Enum{Type: best.Type().(*types.Named), Consts: ks, ByVal: map[string][]*types.Const{}}
				for _, k := range ks {
					e.ByVal[k.Val().ExactString()] = append(e.ByVal[k.Val().ExactString()], k)
				}
				m.loose[best] = e
			}
		}
	}
}

var (
	tblModelMu sync.Mutex
	tblModels  = map[*Ctx]*tblModel{}
)

func tblModelOf(c *Ctx) *tblModel {
	tblModelMu.Lock()
	defer tblModelMu.Unlock()
	if m := tblModels[c]; m != nil {
		return m
	}
	m := &tblModel{c: c, pipeline: map[*packages.Package]bool{}, ifaceByTN: map[*types.TypeName]*tblKindIface{},
		fns: map[*types.Func]*tblFn{}, fnByDecl: map[*ast.FuncDecl]*tblFn{}, uses: map[*types.Func][]tblUse{},
		ifaceMethodNames: map[string][]*types.Named{}}
	for _, rel := range tblPipeline {
		m.pipeline[c.Pkg(rel)] = true
	}
	// function index
	for _, p := range c.All {
		for _, fd := range AllFuncDecls(p) {
			if obj, ok := p.TypesInfo.Defs[fd.Name].(*types.Func); ok {
				f := &tblFn{Pkg: p, Decl: fd, Obj: obj}
				m.fns[obj] = f
				m.fnByDecl[fd] = f
			}
		}
	}
	// named types + interfaces
	for _, p := range c.All {
		sc := p.Types.Scope()
		for _, n := range sc.Names() {
			tn, ok := sc.Lookup(n).(*types.TypeName)
			if !ok || tn.IsAlias() {
				continue
			}
			nt, ok := tn.Type().(*types.Named)
			if !ok || nt.TypeParams().Len() > 0 {
				continue
			}
			m.allNamed = append(m.allNamed, nt)
			if it, ok := nt.Underlying().(*types.Interface); ok {
				for i := 0; i < it.NumMethods(); i++ {
					mn := it.Method(i).Name()
					m.ifaceMethodNames[mn] = append(m.ifaceMethodNames[mn], nt)
				}
			}
		}
	}
	// Kind-style interfaces, by role: an interface of the module with a zero-argument method that
	// returns a value of an enum type (the discriminator). A method called Kind is taken as it is (its
	// implementers may carry the kind in a field); any other method qualifies only when at least two
	// types implement the interface, every implementer's method reduces to exactly one constant and
	// the constants are not all the same - i.e. the method really tells the implementers apart.
	for _, nt := range m.allNamed {
		it, ok := nt.Underlying().(*types.Interface)
		if !ok {
			continue
		}
		var best *tblKindIface
		bestScore := -1
		for i := 0; i < it.NumMethods(); i++ {
			km := it.Method(i)
			sig := km.Type().(*types.Signature)
			if sig.Params().Len() != 0 || sig.Results().Len() != 1 {
				continue
			}
			en := m.enumOf(sig.Results().At(0).Type())
			if en == nil {
				continue
			}
			ki := &tblKindIface{Name: tblTypeName(nt), Named: nt, Iface: it, Enum: en, Method: km.Name(), byKind: map[string][]*tblImpl{}}
			m.fillImpls(ki)
			score := len(ki.byKind)
			if km.Name() == "Kind" {
				score = 1 << 20
			} else {
				allConst := len(ki.Impls) >= 2
				for _, im := range ki.Impls {
					if im.NonConst != "" || len(im.Kinds) != 1 {
						allConst = false
					}
				}
				if !allConst || len(ki.byKind) < 2 {
					continue
				}
			}
			if score > bestScore || (score == bestScore && best != nil && ki.Method < best.Method) {
				best, bestScore = ki, score
			}
		}
		if best == nil {
			continue
		}
		m.ifaces = append(m.ifaces, best)
		m.ifaceByTN[nt.Obj()] = best
	}
	sort.Slice(m.ifaces, func(i, j int) bool { return m.ifaces[i].Name < m.ifaces[j].Name })
	// uses of functions
	for _, p := range c.All {
		for _, file := range p.Syntax {
			var stack []ast.Node
			ast.Inspect(file, func(n ast.Node) bool {
				if n == nil {
					stack = stack[:len(stack)-1]
					return true
				}
				stack = append(stack, n)
				id, ok := n.(*ast.Ident)
				if !ok {
					return true
				}
				fn, ok := p.TypesInfo.Uses[id].(*types.Func)
				if !ok {
					return true
				}
				fn = fn.Origin()
				if m.fns[fn] == nil {
					return true
				}
				u := tblUse{Pkg: p, Ident: id}
				// callee position?  stack: ... CallExpr, [SelectorExpr], Ident
				for i := len(stack) - 2; i >= 0; i-- {
					switch x := stack[i].(type) {
					case *ast.SelectorExpr:
						if x.Sel == id {
							continue
						}
					case *ast.ParenExpr:
						continue
					case *ast.CallExpr:
						if ast.Unparen(x.Fun) == stack[i+1] || tblSelOf(x.Fun) == id {
							u.Call = x
						}
					}
					break
				}
				for i := len(stack) - 1; i >= 0; i-- {
					if fd, ok := stack[i].(*ast.FuncDecl); ok {
						u.In = m.fnByDecl[fd]
						break
					}
				}
				m.uses[fn] = append(m.uses[fn], u)
				return true
			})
		}
	}
	tblModels[c] = m
	return m
}

func tblSelOf(e ast.Expr) *ast.Ident {
	switch x := ast.Unparen(e).(type) {
	case *ast.Ident:
		return x
	case *ast.SelectorExpr:
		return x.Sel
	}
	return nil
}

// fillImpls finds the implementers of ki and the constants their discriminator
// method returns.
func (m *tblModel) fillImpls(ki *tblKindIface) {
	for _, nt := range m.allNamed {
		if _, isI := nt.Underlying().(*types.Interface); isI {
			continue
		}
		val := types.Implements(nt, ki.Iface)
		ptr := !val && types.Implements(types.NewPointer(nt), ki.Iface)
		if !val && !ptr {
			continue
		}
		im := &tblImpl{T: nt, ViaPtr: ptr}
		m.resolveKind(im, ki.Method)
		ki.Impls = append(ki.Impls, im)
		for _, k := range im.Kinds {
			v := k.Val().ExactString()
			ki.byKind[v] = append(ki.byKind[v], im)
		}
	}
	sort.Slice(ki.Impls, func(i, j int) bool { return ki.Impls[i].name() < ki.Impls[j].name() })
}

// resolveKind reduces the implementer's discriminator method to the constants
// it can return.
func (m *tblModel) resolveKind(im *tblImpl, method string) {
	var recv types.Type = im.T
	if im.ViaPtr {
		recv = types.NewPointer(im.T)
	}
	sel := types.NewMethodSet(recv).Lookup(im.T.Obj().Pkg(), method)
	if sel == nil {
		im.NonConst = "Kind method not found in the method set"
		return
	}
	fn, _ := sel.Obj().(*types.Func)
	f := m.fns[fn]
	if f == nil {
		im.NonConst = "Kind method has no body in the module"
		return
	}
	im.Decl, im.DeclPkg = f.Decl, f.Pkg
	im.Kinds, im.NonConst = m.constResults(f, 0)
	if len(im.Kinds) == 0 && im.NonConst == "" {
		im.NonConst = "no return statement"
	}
}

// tblLocalInit: the defining expression of a local variable that is defined
// once and never assigned, incremented or address-taken in body.
func tblLocalInit(info *types.Info, body ast.Node, obj types.Object) ast.Expr {
	var init ast.Expr
	defs, bad := 0, false
	ast.Inspect(body, func(n ast.Node) bool {
		switch x := n.(type) {
		case *ast.AssignStmt:
			for i, l := range x.Lhs {
				id, ok := ast.Unparen(l).(*ast.Ident)
				if !ok {
					if tblRootObj(info, l) == obj {
						bad = true
					}
					continue
				}
				if info.Defs[id] == obj {
					defs++
					if len(x.Lhs) == len(x.Rhs) {
						init = x.Rhs[i]
					}
				} else if info.Uses[id] == obj {
					bad = true
				}
			}
		case *ast.ValueSpec:
			for i, nm := range x.Names {
				if info.Defs[nm] == obj {
					defs++
					if len(x.Names) == len(x.Values) {
						init = x.Values[i]
					} else {
						bad = true
					}
				}
			}
		case *ast.IncDecStmt:
			if tblRootObj(info, x.X) == obj {
				bad = true
			}
		case *ast.UnaryExpr:
			if x.Op == token.AND && tblRootObj(info, x.X) == obj {
				bad = true
			}
		case *ast.RangeStmt:
			for _, e := range []ast.Expr{x.Key, x.Value} {
				if e != nil && tblRootObj(info, e) == obj {
					bad = true
				}
			}
		}
		return true
	})
	if bad || defs != 1 {
		return nil
	}
	return init
}

// tblCommaOkLookup: local v is defined exactly once, by `v, ok := table[k]`, and
// never written otherwise: the index expression, and whether ok is a named
// variable (the code can tell a missing key from a stored zero).
func tblCommaOkLookup(info *types.Info, body ast.Node, obj types.Object) (*ast.IndexExpr, bool) {
	var ix *ast.IndexExpr
	okNamed := false
	defs, bad := 0, false
	ast.Inspect(body, func(n ast.Node) bool {
		switch x := n.(type) {
		case *ast.AssignStmt:
			for i, l := range x.Lhs {
				id, ok := ast.Unparen(l).(*ast.Ident)
				if !ok {
					if tblRootObj(info, l) == obj {
						bad = true
					}
					continue
				}
				if info.Defs[id] == obj {
					defs++
					if i == 0 && len(x.Lhs) == 2 && len(x.Rhs) == 1 {
						if e, ok := ast.Unparen(x.Rhs[0]).(*ast.IndexExpr); ok {
							ix = e
							if oid, ok := x.Lhs[1].(*ast.Ident); ok && oid.Name != "_" {
								okNamed = true
							}
						}
					}
				} else if info.Uses[id] == obj {
					bad = true
				}
			}
		case *ast.IncDecStmt:
			if tblRootObj(info, x.X) == obj {
				bad = true
			}
		case *ast.UnaryExpr:
			if x.Op == token.AND && tblRootObj(info, x.X) == obj {
				bad = true
			}
		}
		return true
	})
	if bad || defs != 1 {
		return nil, false
	}
	return ix, okNamed
}

// constResults reduces the single result of f to the enum constants it can
// return: a constant, a constant expression of the enum type, a local bound
// once to such a value, or the result of another module function that reduces
// the same way. nonConst says why the reduction failed.
func (m *tblModel) constResults(f *tblFn, depth int) (consts []*types.Const, nonConst string) {
	return m.constResultsAt(f, 0, depth)
}

// constResultsAt: the same for the idx-th result of a function with several results.
func (m *tblModel) constResultsAt(f *tblFn, idx, depth int) (consts []*types.Const, nonConst string) {
	nres := f.Obj.Type().(*types.Signature).Results().Len()
	info := f.Pkg.TypesInfo
	seen := map[string]bool{}
	add := func(k *types.Const) {
		if !seen[k.Val().ExactString()] {
			seen[k.Val().ExactString()] = true
			consts = append(consts, k)
		}
	}
	var reduce func(e ast.Expr, d int) string
	reduce = func(e ast.Expr, d int) string {
		e = ast.Unparen(e)
		if k := ConstOf(info, e); k != nil {
			add(k)
			return ""
		}
		if tv, ok := info.Types[e]; ok && tv.Value != nil {
			if en := m.enumOf(tv.Type); en != nil {
				if ks := en.ByVal[tv.Value.ExactString()]; len(ks) > 0 {
					add(ks[0])
					return ""
				}
			}
		}
		addTable := func(ix *ast.IndexExpr, withZero bool) bool {
			// (in `v, ok := t[k]` the index expression has a tuple type: take the element type of the table)
			var et types.Type
			switch u := types.Unalias(info.TypeOf(ix.X)).Underlying().(type) {
			case *types.Map:
				et = u.Elem()
			case *types.Slice:
				et = u.Elem()
			case *types.Array:
				et = u.Elem()
			}
			en := m.enumOf(et)
			if en == nil {
				return false
			}
			vals, _ := m.tableValues(f, ix.X, 0)
			if vals == nil {
				return false
			}
			if _, isMap := types.Unalias(info.TypeOf(ix.X)).Underlying().(*types.Map); isMap && withZero {
				vals["0"] = true
			}
			for v := range vals {
				ks := en.ByVal[v]
				if len(ks) == 0 {
					return false
				}
				add(ks[0])
			}
			return true
		}
		if d < 3 {
			switch x := e.(type) {
			case *ast.IndexExpr:
				// a lookup in a constant table (a missing map key yields the zero value)
				if addTable(x, true) {
					return ""
				}
			case *ast.Ident:
				if v, ok := info.Uses[x].(*types.Var); ok && !v.IsField() && v.Parent() != nil && v.Pkg() != nil && v.Parent() != v.Pkg().Scope() {
					if _, isParam := tblParamIndex(f, v); !isParam {
						if init := tblLocalInit(info, f.Decl.Body, v); init != nil {
							return reduce(init, d+1)
						}
						// v, ok := table[k] with ok tested by the code: only table entries are returned
						if ix, okVar := tblCommaOkLookup(info, f.Decl.Body, v); ix != nil {
							if addTable(ix, !okVar) {
								return ""
							}
						}
					}
				}
			case *ast.CallExpr:
				// a conversion K(expr)
				if tv, ok := info.Types[x.Fun]; ok && tv.IsType() && len(x.Args) == 1 {
					return reduce(x.Args[0], d+1)
				}
				if fn := CalleeOf(info, x); fn != nil && depth < 2 {
					if cf := m.fns[fn.Origin()]; cf != nil && cf != f {
						if sig := fn.Type().(*types.Signature); sig.Results().Len() == 1 {
							if _, isI := tblSigRecvIface(sig); !isI {
								ks, why := m.constResults(cf, depth+1)
								if why == "" && len(ks) > 0 {
									for _, k := range ks {
										add(k)
									}
									return ""
								}
							}
						}
					}
				}
			}
		}
		return "returns the non-constant expression " + exprStr(e)
	}
	ast.Inspect(f.Decl.Body, func(n ast.Node) bool {
		switch x := n.(type) {
		case *ast.FuncLit:
			return false
		case *ast.ReturnStmt:
			if len(x.Results) != nres || idx >= nres {
				nonConst = "return without a single result"
				return true
			}
			if why := reduce(x.Results[idx], 0); why != "" {
				nonConst = why
			}
		}
		return true
	})
	return consts, nonConst
}

// tableValues: e denotes a lookup table (map / slice / array) that holds only
// constants and is never modified after it is built: a variable whose only
// definition is a composite literal with constant values, or the result of a
// function that returns such a literal or a local map/slice it fills with
// `t[k] = Const` / `t = append(t, Const)`. Returns the set of constant values
// (by value); why != "" explains a table that could not be reduced.
func (m *tblModel) tableValues(f *tblFn, e ast.Expr, depth int) (map[string]bool, string) {
	info := f.Pkg.TypesInfo
	e = ast.Unparen(e)
	if depth > 5 {
		return nil, ""
	}
	litValues := func(info *types.Info, cl *ast.CompositeLit) (map[string]bool, string) {
		set := map[string]bool{}
		for _, el := range cl.Elts {
			v := el
			if kv, ok := el.(*ast.KeyValueExpr); ok {
				v = kv.Value
			}
			tv, ok := info.Types[v]
			if !ok || tv.Value == nil {
				return nil, "table entry " + exprStr(v) + " is not a constant"
			}
			set[tv.Value.ExactString()] = true
		}
		if len(set) == 0 {
			return nil, "empty table"
		}
		return set, ""
	}
	switch x := e.(type) {
	case *ast.CompositeLit:
		return litValues(info, x)
	case *ast.CallExpr:
		fn := CalleeOf(info, x)
		if fn == nil {
			return nil, ""
		}
		cf := m.fns[fn.Origin()]
		if cf == nil || cf == f {
			return nil, ""
		}
		if sig := fn.Type().(*types.Signature); sig.Results().Len() != 1 {
			return nil, ""
		}
		var out map[string]bool
		why := ""
		ast.Inspect(cf.Decl.Body, func(n ast.Node) bool {
			switch y := n.(type) {
			case *ast.FuncLit:
				return false
			case *ast.ReturnStmt:
				if len(y.Results) != 1 {
					why = "table builder " + cf.name() + " has a bare return"
					return true
				}
				set, w := m.tableValues(cf, y.Results[0], depth+1)
				if set == nil {
					if w == "" {
						w = "table builder " + cf.name() + " returns " + exprStr(y.Results[0])
					}
					why = w
					return true
				}
				if out == nil {
					out = map[string]bool{}
				}
				for v := range set {
					out[v] = true
				}
			}
			return true
		})
		if why != "" {
			return nil, why
		}
		return out, ""
	case *ast.Ident, *ast.SelectorExpr:
		id := tblSelOf(x)
		v, ok := info.Uses[id].(*types.Var)
		if !ok || v.IsField() || v.Pkg() == nil || !strings.HasPrefix(v.Pkg().Path(), ModPath) {
			return nil, ""
		}
		switch types.Unalias(v.Type()).Underlying().(type) {
		case *types.Map, *types.Slice, *types.Array:
		default:
			return nil, ""
		}
		// every definition of / store into the variable, in the whole module for a package-level
		// variable, in the function for a local
		var scopes []struct {
			info *types.Info
			root ast.Node
			fn   *tblFn
		}
		if v.Parent() == v.Pkg().Scope() {
			for _, p := range m.c.All {
				for _, file := range p.Syntax {
					scopes = append(scopes, struct {
						info *types.Info
						root ast.Node
						fn   *tblFn
					}{p.TypesInfo, file, nil})
				}
			}
		} else {
			if _, isParam := tblParamIndex(f, v); isParam {
				return nil, ""
			}
			scopes = append(scopes, struct {
				info *types.Info
				root ast.Node
				fn   *tblFn
			}{info, f.Decl.Body, f})
		}
		set := map[string]bool{}
		why := ""
		defs := 0
		fail := func(w string) {
			if why == "" {
				why = "table " + v.Name() + ": " + w
			}
		}
		addConst := func(inf *types.Info, val ast.Expr) {
			tv, ok := inf.Types[val]
			if !ok || tv.Value == nil {
				fail("stored value " + exprStr(val) + " is not a constant")
				return
			}
			set[tv.Value.ExactString()] = true
		}
		initBy := func(inf *types.Info, in *tblFn, val ast.Expr) {
			defs++
			val = ast.Unparen(val)
			if call, ok := val.(*ast.CallExpr); ok {
				if bid, ok := ast.Unparen(call.Fun).(*ast.Ident); ok {
					if b, isB := inf.Uses[bid].(*types.Builtin); isB && b.Name() == "make" {
						return // empty table, filled by the stores below
					}
				}
			}
			host := in
			if host == nil {
				host = f
			}
			if host.Pkg.TypesInfo != inf {
				// an initialiser in another package: evaluate it with that package's type information
				for _, p := range m.c.All {
					if p.TypesInfo == inf {
						host = &tblFn{Pkg: p, Decl: host.Decl, Obj: host.Obj}
					}
				}
			}
			s2, w := m.tableValues(host, val, depth+1)
			if s2 == nil {
				if w == "" {
					w = "initialised by " + exprStr(val)
				}
				fail(w)
				return
			}
			for k := range s2 {
				set[k] = true
			}
		}
		for _, sc := range scopes {
			inf := sc.info
			ast.Inspect(sc.root, func(n ast.Node) bool {
				switch y := n.(type) {
				case *ast.ValueSpec:
					for i, nm := range y.Names {
						if inf.Defs[nm] == types.Object(v) {
							if len(y.Values) == len(y.Names) {
								initBy(inf, sc.fn, y.Values[i])
							} else if len(y.Values) == 0 {
								defs++ // nil table filled by stores
							} else {
								fail("initialised from a multi-value expression")
							}
						}
					}
				case *ast.AssignStmt:
					for i, l := range y.Lhs {
						l = ast.Unparen(l)
						if lid := tblSelOf(l); lid != nil {
							if _, isIdx := l.(*ast.IndexExpr); !isIdx && (inf.Defs[lid] == types.Object(v) || inf.Uses[lid] == types.Object(v)) {
								if len(y.Lhs) != len(y.Rhs) {
									fail("assigned from a multi-value expression")
									continue
								}
								// t = append(t, C…)
								if call, ok := ast.Unparen(y.Rhs[i]).(*ast.CallExpr); ok {
									if bid, ok := ast.Unparen(call.Fun).(*ast.Ident); ok {
										if b, isB := inf.Uses[bid].(*types.Builtin); isB && b.Name() == "append" && len(call.Args) >= 1 && !call.Ellipsis.IsValid() {
											if aid := tblSelOf(call.Args[0]); aid != nil && inf.Uses[aid] == types.Object(v) {
												for _, a := range call.Args[1:] {
													addConst(inf, a)
												}
												continue
											}
										}
									}
								}
								initBy(inf, sc.fn, y.Rhs[i])
							}
						}
						if ix, ok := l.(*ast.IndexExpr); ok {
							if lid := tblSelOf(ix.X); lid != nil && inf.Uses[lid] == types.Object(v) {
								if len(y.Lhs) == len(y.Rhs) && y.Tok == token.ASSIGN {
									addConst(inf, y.Rhs[i])
								} else {
									fail("element updated in place")
								}
							}
						}
					}
				case *ast.IncDecStmt:
					if r := tblRootObj(inf, y.X); r == types.Object(v) {
						fail("element updated in place")
					}
				case *ast.UnaryExpr:
					if y.Op == token.AND {
						if r := tblRootObj(inf, y.X); r == types.Object(v) {
							fail("address taken")
						}
					}
				case *ast.CallExpr:
					// the table handed to a function that could modify it (delete, clear, any callee)
					if bid, ok := ast.Unparen(y.Fun).(*ast.Ident); ok {
						if b, isB := inf.Uses[bid].(*types.Builtin); isB {
							switch b.Name() {
							case "len", "cap", "append", "make":
								return true
							}
						}
					}
					for _, a := range y.Args {
						if aid, ok := ast.Unparen(a).(*ast.Ident); ok && inf.Uses[aid] == types.Object(v) {
							fail("passed to " + exprStr(y.Fun))
						}
					}
				}
				return true
			})
		}
		if why != "" {
			return nil, why
		}
		if defs == 0 || len(set) == 0 {
			return nil, ""
		}
		return set, ""
	}
	return nil, ""
}

func tblSigRecvIface(sig *types.Signature) (*types.Interface, bool) {
	if sig.Recv() == nil {
		return nil, false
	}
	it, ok := types.Unalias(sig.Recv().Type()).Underlying().(*types.Interface)
	return it, ok
}

// ifaceOf returns the Kind-interface model of a static type, or nil.
func (m *tblModel) ifaceOf(t types.Type) *tblKindIface {
	if t == nil {
		return nil
	}
	nt, ok := types.Unalias(t).(*types.Named)
	if !ok {
		return nil
	}
	return m.ifaceByTN[nt.Obj()]
}

// implOf returns the implementer record of a concrete type in ki (accepting
// *T for T), or nil.
func (ki *tblKindIface) implOf(t types.Type) *tblImpl {
	t = types.Unalias(t)
	if p, ok := t.(*types.Pointer); ok {
		t = types.Unalias(p.Elem())
	}
	nt, ok := t.(*types.Named)
	if !ok {
		return nil
	}
	for _, im := range ki.Impls {
		if im.T.Obj() == nt.Obj() {
			return im
		}
	}
	return nil
}

// ---- producer sets (E7) ----

// producers computes, once, every concrete named module type that is
// converted to an interface anywhere in the non-test code of the module
// (ssa.MakeInterface). A value of interface type I can only hold a dynamic
// type that was converted to *some* interface somewhere (then possibly
// re-asserted to I), so this is a sound over-approximation of the dynamic
// types a Kind() dispatch can meet, independent of the call graph.
func (m *tblModel) producers() map[*types.TypeName][]string {
	m.prodOnce.Do(func() {
		m.produced = map[*types.TypeName][]string{}
		prog := m.c.SSA()
		_ = prog
		add := func(t types.Type, pos token.Pos, fn *ssa.Function) {
			t = types.Unalias(t)
			if p, ok := t.(*types.Pointer); ok {
				t = types.Unalias(p.Elem())
			}
			nt, ok := t.(*types.Named)
			if !ok || nt.Obj().Pkg() == nil || !strings.HasPrefix(nt.Obj().Pkg().Path(), ModPath) {
				return
			}
			tn := nt.Origin().Obj()
			if len(m.produced[tn]) < 3 {
				where := fn.String()
				if pos.IsValid() {
					where = m.c.Pos(pos)
				}
				m.produced[tn] = append(m.produced[tn], where)
			} else if len(m.produced[tn]) == 3 {
				m.produced[tn] = append(m.produced[tn], "…")
			}
		}
		var visit func(fn *ssa.Function)
		seen := map[*ssa.Function]bool{}
		visit = func(fn *ssa.Function) {
			if fn == nil || seen[fn] {
				return
			}
			seen[fn] = true
			for _, b := range fn.Blocks {
				for _, ins := range b.Instrs {
					if mi, ok := ins.(*ssa.MakeInterface); ok {
						add(mi.X.Type(), mi.Pos(), fn)
					}
				}
			}
			for _, an := range fn.AnonFuncs {
				visit(an)
			}
		}
		for _, sp := range m.c.SSAPkgs {
			if sp == nil || !strings.HasPrefix(sp.Pkg.Path(), ModPath) {
				continue
			}
			for _, mem := range sp.Members {
				switch x := mem.(type) {
				case *ssa.Function:
					visit(x)
				case *ssa.Type:
					for _, recv := range []types.Type{x.Type(), types.NewPointer(x.Type())} {
						ms := m.c.Prog.MethodSets.MethodSet(recv)
						for i := 0; i < ms.Len(); i++ {
							if f := m.c.Prog.MethodValue(ms.At(i)); f != nil && f.Synthetic == "" {
								visit(f)
							}
						}
					}
				}
			}
		}
	})
	return m.produced
}

// reachableKinds: the constants of ki's enum that a value of interface ki can
// report at run time = kinds of the implementers that are produced. When an
// implementer's kind is not constant, every constant is reachable.
func (m *tblModel) reachableKinds(ki *tblKindIface) (set map[string]bool, why map[string]string) {
	prod := m.producers()
	set, why = map[string]bool{}, map[string]string{}
	for _, im := range ki.Impls {
		where, ok := prod[im.T.Obj()]
		if !ok {
			continue
		}
		if im.NonConst != "" {
			for _, k := range ki.Enum.Consts {
				v := k.Val().ExactString()
				if !set[v] {
					set[v] = true
					why[v] = im.name() + " (kind not constant: " + im.NonConst + ")"
				}
			}
			continue
		}
		for _, k := range im.Kinds {
			v := k.Val().ExactString()
			if !set[v] {
				set[v] = true
				why[v] = im.name() + " converted to an interface at " + where[0]
			}
		}
	}
	return
}

// ---- small AST helpers ----

// tblParents maps every node below root to its parent.
func tblParents(root ast.Node) map[ast.Node]ast.Node {
	par := map[ast.Node]ast.Node{}
	var stack []ast.Node
	ast.Inspect(root, func(n ast.Node) bool {
		if n == nil {
			stack = stack[:len(stack)-1]
			return true
		}
		if len(stack) > 0 {
			par[n] = stack[len(stack)-1]
		}
		stack = append(stack, n)
		return true
	})
	return par
}

// tblIsPanicStmt: panic(...) or a call of a module function that never returns
// (every way through its body ends in a panic, e.g. an abort helper).
func (m *tblModel) tblIsPanicStmt(info *types.Info, s ast.Stmt) bool {
	if IsPanicCall(info, s) {
		return true
	}
	es, ok := s.(*ast.ExprStmt)
	if !ok {
		return false
	}
	call, ok := ast.Unparen(es.X).(*ast.CallExpr)
	if !ok {
		return false
	}
	if fn := CalleeOf(info, call); fn != nil {
		return m.neverReturns(fn.Origin(), 0)
	}
	return false
}

// neverReturns: a module function (not an interface method) without any return
// statement whose body cannot fall off its end: the last statement is a panic,
// a call of another such function, or an if/else (switch with default) whose
// every branch ends that way. log.Panic*/log.Fatal*/os.Exit count as well.
func (m *tblModel) neverReturns(fn *types.Func, depth int) bool {
	if fn.Pkg() != nil && !strings.HasPrefix(fn.Pkg().Path(), ModPath) {
		switch fn.Pkg().Path() + "." + fn.Name() {
		case "os.Exit", "log.Panic", "log.Panicf", "log.Panicln", "log.Fatal", "log.Fatalf", "log.Fatalln", "runtime.Goexit":
			return true
		}
		return false
	}
	f := m.fns[fn]
	if f == nil || depth > 3 || len(f.Decl.Body.List) == 0 {
		return false
	}
	if sig, ok := fn.Type().(*types.Signature); ok && sig.Recv() != nil {
		if _, isI := types.Unalias(sig.Recv().Type()).Underlying().(*types.Interface); isI {
			return false
		}
	}
	hasReturn := false
	ast.Inspect(f.Decl.Body, func(n ast.Node) bool {
		switch n.(type) {
		case *ast.FuncLit:
			return false
		case *ast.ReturnStmt:
			hasReturn = true
		}
		return true
	})
	if hasReturn {
		return false
	}
	info := f.Pkg.TypesInfo
	var diverges func(list []ast.Stmt) bool
	diverges = func(list []ast.Stmt) bool {
		if len(list) == 0 {
			return false
		}
		switch x := list[len(list)-1].(type) {
		case *ast.ExprStmt:
			if IsPanicCall(info, x) {
				return true
			}
			if call, ok := ast.Unparen(x.X).(*ast.CallExpr); ok {
				if cf := CalleeOf(info, call); cf != nil && cf.Origin() != fn {
					return m.neverReturns(cf.Origin(), depth+1)
				}
			}
		case *ast.BlockStmt:
			return diverges(x.List)
		case *ast.IfStmt:
			if x.Else == nil || !diverges(x.Body.List) {
				return false
			}
			switch e := x.Else.(type) {
			case *ast.BlockStmt:
				return diverges(e.List)
			case *ast.IfStmt:
				return diverges([]ast.Stmt{e})
			}
		case *ast.SwitchStmt:
			hasDefault := false
			for _, c := range x.Body.List {
				cc := c.(*ast.CaseClause)
				if cc.List == nil {
					hasDefault = true
				}
				if !diverges(cc.Body) {
					return false
				}
			}
			return hasDefault
		}
		return false
	}
	// a break/goto inside could leave a diverging construct early: keep to bodies without them
	plain := true
	ast.Inspect(f.Decl.Body, func(n ast.Node) bool {
		switch x := n.(type) {
		case *ast.FuncLit:
			return false
		case *ast.BranchStmt:
			if x.Tok == token.BREAK || x.Tok == token.GOTO {
				plain = false
			}
		}
		return true
	})
	return plain && diverges(f.Decl.Body.List)
}

// tblTerminates: control never falls out of the end of the statement list.
func (m *tblModel) tblTerminates(info *types.Info, list []ast.Stmt) bool {
	if len(list) == 0 {
		return false
	}
	switch x := list[len(list)-1].(type) {
	case *ast.ReturnStmt:
		return true
	case *ast.BranchStmt:
		return x.Tok != token.FALLTHROUGH
	case *ast.BlockStmt:
		return m.tblTerminates(info, x.List)
	case *ast.IfStmt:
		if x.Else == nil {
			return false
		}
		if !m.tblTerminates(info, x.Body.List) {
			return false
		}
		switch e := x.Else.(type) {
		case *ast.BlockStmt:
			return m.tblTerminates(info, e.List)
		case *ast.IfStmt:
			return m.tblTerminates(info, []ast.Stmt{e})
		}
		return false
	case *ast.ExprStmt:
		if m.tblIsPanicStmt(info, x) {
			return true
		}
		if call, ok := x.X.(*ast.CallExpr); ok {
			if fn := CalleeOf(info, call); fn != nil && fn.Pkg() != nil && fn.Pkg().Path() == "os" && fn.Name() == "Exit" {
				return true
			}
		}
	}
	return false
}

func tblSortedKeys[V any](m map[string]V) []string {
	var out []string
	for k := range m {
		out = append(out, k)
	}
	sort.Strings(out)
	return out
}
