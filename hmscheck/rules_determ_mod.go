package main

// determ: interprocedural MOD summaries over go/ssa (which non-local memory a
// function may write, expressed relative to its parameters / package
// variables), "returns nil always" summaries, and call-site callee resolution
// through the VTA call graph. Shared by R-map-order, R-lockset, R-host-call.

import (
	"fmt"
	"go/token"
	"go/types"
	"sort"
	"strconv"
	"strings"

	"golang.org/x/tools/go/ssa"
	"golang.org/x/tools/go/ssa/ssautil"
)

// dmOrigin: where a reference-like SSA value may point to.
type dmOrigin struct {
	Root  string     // "local" | "param:<i>" | "free:<i>" | "global:<pkg.Name>" | "unknown:<why>"
	Path  string     // access path below the root (".f[]…"), truncated
	First *types.Var // first struct field on the path (nil when none)
	Last  *types.Var // last struct field on the path
}

// dmEffect: one non-local write (or other order-relevant effect) of a function.
type dmEffect struct {
	Root     string // as dmOrigin.Root, plus "io:<callee>", "clock:<callee>", "random:<callee>", "go", "chan"
	Path     string
	First    *types.Var
	Last     *types.Var
	Op       string // store | append | mapupdate | mapdelete | sort | send | call
	KeyParam int    // mapupdate/mapdelete: the parameter index supplying the key, else -1
	Pos      token.Pos
}

func (e dmEffect) key() string {
	return fmt.Sprintf("%s|%s|%s|%d", e.Root, e.Path, e.Op, e.KeyParam)
}

func (e dmEffect) String() string {
	s := e.Root + e.Path + " (" + e.Op
	if e.KeyParam >= 0 {
		s += fmt.Sprintf(", key=param:%d", e.KeyParam)
	}
	return s + ")"
}

type dmSummary struct {
	Effects map[string]dmEffect
	Ret     map[string]dmOrigin // origins of reference-like results
	// KeyedMaps: map origins (root+path) for which every update and lookup in
	// the function body uses the same parameter as key.
	mapKeys map[string]map[int]bool // origin key -> set of key params used (-1 = other)
}

type dmAnalysis struct {
	c        *Ctx
	prog     *ssa.Program
	sums     map[*ssa.Function]*dmSummary
	site     map[ssa.CallInstruction][]*ssa.Function
	sitePos  map[token.Pos][]*ssa.Function // by Lparen of the call expression
	funcs    []*ssa.Function
	nilRes   map[*ssa.Function][]bool // result index -> always nil
	storesTo map[*ssa.Alloc][]ssa.Value
	changed  bool
	memo     map[ssa.Value]dmOriginSet
	inprog   map[ssa.Value]bool
	cuts     int
	callers  map[*ssa.Function]map[*ssa.Function]bool
}

const dmMaxPath = 96

var dmCache = map[*Ctx]*dmAnalysis{}

func determMod(c *Ctx) *dmAnalysis {
	if a := dmCache[c]; a != nil {
		return a
	}
	a := &dmAnalysis{c: c, prog: c.SSA(), sums: map[*ssa.Function]*dmSummary{},
		site: map[ssa.CallInstruction][]*ssa.Function{}, sitePos: map[token.Pos][]*ssa.Function{},
		storesTo: map[*ssa.Alloc][]ssa.Value{}}
	dmCache[c] = a
	cg := c.CallGraph()
	for fn, n := range cg.Nodes {
		if fn == nil || !dmInModule(fn) {
			continue
		}
		for _, e := range n.Out {
			if e.Site == nil || e.Callee == nil || e.Callee.Func == nil {
				continue
			}
			a.site[e.Site] = append(a.site[e.Site], e.Callee.Func)
		}
	}
	for s, fs := range a.site {
		if p := s.Pos(); p.IsValid() {
			a.sitePos[p] = append(a.sitePos[p], fs...)
		}
	}
	// callee lists in a fixed order (they are built from map iterations): every
	// consumer walks them, and the order of what it reports must not vary
	for s, fs := range a.site {
		a.site[s] = dmSortFuncs(fs)
	}
	for p, fs := range a.sitePos {
		a.sitePos[p] = dmSortFuncs(fs)
	}
	for fn := range ssautil.AllFunctions(a.prog) {
		if dmInModule(fn) && len(fn.Blocks) > 0 {
			a.funcs = append(a.funcs, fn)
		}
	}
	sort.Slice(a.funcs, func(i, j int) bool { return a.funcs[i].String() < a.funcs[j].String() })
	for _, fn := range a.funcs {
		a.sums[fn] = &dmSummary{Effects: map[string]dmEffect{}, Ret: map[string]dmOrigin{}, mapKeys: map[string]map[int]bool{}}
		for _, b := range fn.Blocks {
			for _, in := range b.Instrs {
				if st, ok := in.(*ssa.Store); ok {
					if al := dmAllocRoot(st.Addr); al != nil {
						a.storesTo[al] = append(a.storesTo[al], st.Val)
					}
				}
			}
		}
	}
	a.callers = map[*ssa.Function]map[*ssa.Function]bool{}
	for _, fn := range a.funcs {
		for _, b := range fn.Blocks {
			for _, in := range b.Instrs {
				if ci, ok := in.(ssa.CallInstruction); ok {
					for _, callee := range a.callees(ci) {
						if a.callers[callee] == nil {
							a.callers[callee] = map[*ssa.Function]bool{}
						}
						a.callers[callee][fn] = true
					}
				}
			}
		}
	}
	work := append([]*ssa.Function(nil), a.funcs...)
	queued := map[*ssa.Function]bool{}
	for _, fn := range work {
		queued[fn] = true
	}
	for steps := 0; len(work) > 0 && steps < 200000; steps++ {
		fn := work[0]
		work = work[1:]
		queued[fn] = false
		a.changed = false
		a.memo = map[ssa.Value]dmOriginSet{}
		a.inprog = map[ssa.Value]bool{}
		a.summarise(fn)
		if a.changed {
			var cs []*ssa.Function
			for c := range a.callers[fn] {
				if !queued[c] && a.sums[c] != nil {
					cs = append(cs, c)
				}
			}
			sort.Slice(cs, func(i, j int) bool { return cs[i].String() < cs[j].String() })
			for _, c := range cs {
				queued[c] = true
				work = append(work, c)
			}
		}
	}
	a.memo = nil
	a.computeNilResults()
	return a
}

func dmSortFuncs(fs []*ssa.Function) []*ssa.Function {
	sort.SliceStable(fs, func(i, j int) bool { return fs[i].String() < fs[j].String() })
	return fs
}

// sortedCallers: the callers of fn in a fixed order.
func (a *dmAnalysis) sortedCallers(fn *ssa.Function) []*ssa.Function {
	var out []*ssa.Function
	for c := range a.callers[fn] {
		out = append(out, c)
	}
	return dmSortFuncs(out)
}

// dmPosLess orders two positions by file name and offset. token.Pos values of
// different files must not be compared directly: files are parsed
// concurrently, so their bases in the FileSet differ from run to run.
func dmPosLess(c *Ctx, x, y token.Pos) bool {
	px, py := c.Fset.Position(x), c.Fset.Position(y)
	if px.Filename != py.Filename {
		return px.Filename < py.Filename
	}
	return px.Offset < py.Offset
}

func dmInModule(fn *ssa.Function) bool {
	if fn.Pkg != nil {
		return strings.HasPrefix(fn.Pkg.Pkg.Path(), ModPath)
	}
	// synthetic wrappers / instantiations: decide by the object they wrap
	if o := fn.Object(); o != nil && o.Pkg() != nil {
		return strings.HasPrefix(o.Pkg().Path(), ModPath)
	}
	if fn.Parent() != nil {
		return dmInModule(fn.Parent())
	}
	if fn.Origin() != nil {
		return dmInModule(fn.Origin())
	}
	return false
}

// dmAllocRoot: the local Alloc an address is rooted at through FieldAddr /
// IndexAddr chains (nil when the address is not inside a local cell).
func dmAllocRoot(v ssa.Value) *ssa.Alloc {
	for i := 0; i < 16; i++ {
		switch x := v.(type) {
		case *ssa.Alloc:
			return x
		case *ssa.FieldAddr:
			v = x.X
		case *ssa.IndexAddr:
			// only arrays live inside the cell; a slice element lives elsewhere
			if _, ok := x.X.Type().Underlying().(*types.Pointer); ok {
				v = x.X
			} else {
				return nil
			}
		default:
			return nil
		}
	}
	return nil
}

func dmPointerLike(t types.Type) bool { return dmPointerLikeD(t, 0) }

func dmPointerLikeD(t types.Type, d int) bool {
	if d > 6 {
		return true
	}
	switch u := t.Underlying().(type) {
	case *types.Pointer, *types.Map, *types.Slice, *types.Chan, *types.Interface, *types.Signature:
		return true
	case *types.Struct:
		for i := 0; i < u.NumFields(); i++ {
			if dmPointerLikeD(u.Field(i).Type(), d+1) {
				return true
			}
		}
	case *types.Array:
		return dmPointerLikeD(u.Elem(), d+1)
	case *types.Tuple:
		for i := 0; i < u.Len(); i++ {
			if dmPointerLikeD(u.At(i).Type(), d+1) {
				return true
			}
		}
	}
	return false
}

func dmExt(o dmOrigin, seg string, f *types.Var) dmOrigin {
	if len(o.Path) < dmMaxPath {
		if !(seg == "[]" && strings.HasSuffix(o.Path, "[][]")) {
			o.Path += seg
		}
	} else if !strings.HasSuffix(o.Path, "…") {
		o.Path += "…"
	}
	if f != nil {
		if o.First == nil {
			o.First = f
		}
		o.Last = f
	}
	return o
}

func dmParamIndex(fn *ssa.Function, p *ssa.Parameter) int {
	for i, q := range fn.Params {
		if q == p {
			return i
		}
	}
	return -1
}

type dmOriginSet map[string]dmOrigin

func (s dmOriginSet) add(o dmOrigin) {
	if len(s) > 24 {
		s["unknown:too many origins"] = dmOrigin{Root: "unknown:too many origins"}
		return
	}
	s[o.Root+"|"+o.Path] = o
}

func (s dmOriginSet) sorted() []dmOrigin {
	var ks []string
	for k := range s {
		ks = append(ks, k)
	}
	sort.Strings(ks)
	var out []dmOrigin
	for _, k := range ks {
		out = append(out, s[k])
	}
	return out
}

// origin computes where v may point, relative to fn's parameters. Results
// are memoised per summarise pass (a.memo is reset when a pass starts).
func (a *dmAnalysis) origin(fn *ssa.Function, v ssa.Value) dmOriginSet {
	return a.originOf(fn, v, 0)
}

func dmExtSet(s dmOriginSet, seg string, f *types.Var) dmOriginSet {
	out := dmOriginSet{}
	for _, o := range s {
		out.add(dmExt(o, seg, f))
	}
	return out
}

func (s dmOriginSet) addAll(t dmOriginSet) {
	for _, o := range t {
		s.add(o)
	}
}

var dmLocalSet = dmOriginSet{"local|": dmOrigin{Root: "local"}}

func (a *dmAnalysis) originOf(fn *ssa.Function, v ssa.Value, depth int) dmOriginSet {
	if v == nil {
		return dmOriginSet{}
	}
	if a.memo == nil {
		a.memo = map[ssa.Value]dmOriginSet{}
		a.inprog = map[ssa.Value]bool{}
	}
	if r, ok := a.memo[v]; ok {
		return r
	}
	if a.inprog[v] {
		a.cuts++
		return dmOriginSet{}
	}
	if depth > 60 {
		return dmOriginSet{"unknown:origin too deep|": dmOrigin{Root: "unknown:origin too deep"}}
	}
	a.inprog[v] = true
	c0 := a.cuts
	r := a.originCompute(fn, v, depth)
	delete(a.inprog, v)
	if a.cuts == c0 || len(a.inprog) == 0 {
		a.memo[v] = r // only cache results that were not cut by a cycle in progress
	}
	return r
}

func (a *dmAnalysis) originCompute(fn *ssa.Function, v ssa.Value, depth int) dmOriginSet {
	rec := func(x ssa.Value) dmOriginSet { return a.originOf(fn, x, depth+1) }
	one := func(root string) dmOriginSet { return dmOriginSet{root + "|": dmOrigin{Root: root}} }
	switch x := v.(type) {
	case *ssa.Parameter:
		return one(fmt.Sprintf("param:%d", dmParamIndex(x.Parent(), x)))
	case *ssa.FreeVar:
		idx := -1
		for i, fv := range x.Parent().FreeVars {
			if fv == x {
				idx = i
			}
		}
		return one(fmt.Sprintf("free:%d", idx))
	case *ssa.Alloc:
		return dmLocalSet
	case *ssa.Global:
		name := x.Name()
		if x.Pkg != nil {
			name = relPkg(x.Pkg.Pkg.Path()) + "." + name
		}
		return one("global:" + name)
	case *ssa.Const, *ssa.Function, *ssa.Builtin:
		return dmOriginSet{}
	case *ssa.MakeMap, *ssa.MakeSlice, *ssa.MakeChan, *ssa.MakeClosure:
		return dmLocalSet
	case *ssa.MakeInterface:
		if dmPointerLike(x.X.Type()) {
			return rec(x.X)
		}
		return dmLocalSet
	case *ssa.FieldAddr:
		f := dmFieldOf(x.X.Type(), x.Field)
		return dmExtSet(rec(x.X), "."+dmFieldName(f, x.Field), f)
	case *ssa.Field:
		f := dmFieldOf(x.X.Type(), x.Field)
		return dmExtSet(rec(x.X), "."+dmFieldName(f, x.Field), f)
	case *ssa.IndexAddr:
		return dmExtSet(rec(x.X), "[]", nil)
	case *ssa.Index:
		return dmExtSet(rec(x.X), "[]", nil)
	case *ssa.Lookup:
		return dmExtSet(rec(x.X), "[]", nil)
	case *ssa.Extract:
		switch t := x.Tuple.(type) {
		case *ssa.Next:
			if r, ok := t.Iter.(*ssa.Range); ok {
				return dmExtSet(rec(r.X), "[]", nil)
			}
			return dmOriginSet{}
		default:
			return rec(x.Tuple)
		}
	case *ssa.UnOp:
		switch x.Op {
		case token.MUL:
			if al := dmAllocRoot(x.X); al != nil {
				vals := a.storesTo[al]
				out := dmOriginSet{}
				if len(vals) == 0 {
					out.addAll(dmLocalSet)
				}
				for _, sv := range vals {
					if dmPointerLike(sv.Type()) {
						r := rec(sv)
						if fa, ok := x.X.(*ssa.FieldAddr); ok && !types.Identical(sv.Type(), x.Type()) {
							f := dmFieldOf(fa.X.Type(), fa.Field)
							r = dmExtSet(r, "."+dmFieldName(f, fa.Field), f)
						}
						out.addAll(r)
					} else {
						out.addAll(dmLocalSet)
					}
				}
				return out
			}
			return rec(x.X)
		case token.ARROW:
			return one("unknown:value received from a channel")
		}
		return dmOriginSet{}
	case *ssa.Phi:
		out := dmOriginSet{}
		for _, e := range x.Edges {
			out.addAll(rec(e))
		}
		return out
	case *ssa.Slice:
		return rec(x.X)
	case *ssa.ChangeType:
		return rec(x.X)
	case *ssa.ChangeInterface:
		return rec(x.X)
	case *ssa.Convert:
		return dmLocalSet
	case *ssa.SliceToArrayPointer:
		return rec(x.X)
	case *ssa.TypeAssert:
		return rec(x.X)
	case *ssa.BinOp:
		return dmLocalSet
	case *ssa.Call:
		return a.callResultOrigin(fn, x, depth)
	}
	return one("unknown:" + fmt.Sprintf("%T", v))
}

func dmFieldOf(t types.Type, idx int) *types.Var {
	if p, ok := t.Underlying().(*types.Pointer); ok {
		t = p.Elem()
	}
	if s, ok := t.Underlying().(*types.Struct); ok && idx < s.NumFields() {
		return s.Field(idx)
	}
	return nil
}

func dmFieldName(f *types.Var, idx int) string {
	if f != nil {
		return f.Name()
	}
	return fmt.Sprintf("#%d", idx)
}

// callees of a call instruction: static callee, else the VTA edges of the site.
func (a *dmAnalysis) callees(ci ssa.CallInstruction) []*ssa.Function {
	if f := ci.Common().StaticCallee(); f != nil {
		return []*ssa.Function{f}
	}
	return a.site[ci]
}

// argFor maps a callee parameter index to the caller's operand.
func dmArgFor(common *ssa.CallCommon, callee *ssa.Function, i int) ssa.Value {
	if common.IsInvoke() {
		if i == 0 {
			return common.Value
		}
		if i-1 < len(common.Args) {
			return common.Args[i-1]
		}
		return nil
	}
	// bound method closure / function value with receiver already applied: the
	// VTA callee may have more params than the call has args (closure free vars
	// are separate), so plain positional mapping is right.
	if i < len(common.Args) {
		return common.Args[i]
	}
	return nil
}

func (a *dmAnalysis) callResultOrigin(fn *ssa.Function, call *ssa.Call, depth int) dmOriginSet {
	common := call.Common()
	out := dmOriginSet{}
	if b, ok := common.Value.(*ssa.Builtin); ok {
		out.addAll(dmLocalSet)
		if b.Name() == "append" && len(common.Args) > 0 {
			out.addAll(a.originOf(fn, common.Args[0], depth+1))
		}
		return out
	}
	if !dmPointerLike(call.Type()) {
		return dmLocalSet
	}
	cs := a.callees(call)
	if len(cs) == 0 {
		out.add(dmOrigin{Root: "unknown:result of unresolved call " + dmCallName(common)})
		return out
	}
	for _, callee := range cs {
		sum := a.sums[callee]
		if sum == nil {
			if dmExternFresh(callee) {
				out.addAll(dmLocalSet)
			} else {
				out.add(dmOrigin{Root: "unknown:result of external " + callee.String()})
			}
			continue
		}
		if len(sum.Ret) == 0 {
			out.addAll(dmLocalSet)
		}
		for _, ro := range dmOriginSet(sum.Ret).sorted() {
			out.addAll(a.translateOrigin(fn, common, callee, ro, depth))
		}
	}
	return out
}

func dmCallName(common *ssa.CallCommon) string {
	if common.IsInvoke() {
		return common.Method.FullName()
	}
	if f := common.StaticCallee(); f != nil {
		return f.String()
	}
	return common.Value.String()
}

// translateOrigin rewrites a callee-relative origin into the caller's frame.
func (a *dmAnalysis) translateOrigin(fn *ssa.Function, common *ssa.CallCommon, callee *ssa.Function, ro dmOrigin, depth int) dmOriginSet {
	suffix := func(set dmOriginSet) dmOriginSet {
		out := dmOriginSet{}
		for _, o := range set {
			if o.Root == "local" {
				out.add(o)
				continue
			}
			o2 := o
			if len(o2.Path)+len(ro.Path) <= dmMaxPath {
				o2.Path += ro.Path
			} else if !strings.HasSuffix(o2.Path, "…") {
				o2.Path += "…"
			}
			if o2.First == nil {
				o2.First = ro.First
			}
			if ro.Last != nil {
				o2.Last = ro.Last
			}
			out.add(o2)
		}
		return out
	}
	rootIdx := func(prefix string) int {
		n, err := strconv.Atoi(strings.TrimPrefix(ro.Root, prefix))
		if err != nil {
			return -1
		}
		return n
	}
	switch {
	case strings.HasPrefix(ro.Root, "param:"):
		arg := dmArgFor(common, callee, rootIdx("param:"))
		if arg == nil {
			return suffix(dmOriginSet{"x": dmOrigin{Root: "unknown:argument of " + callee.Name()}})
		}
		return suffix(a.originOf(fn, arg, depth+1))
	case strings.HasPrefix(ro.Root, "free:"):
		i := rootIdx("free:")
		if mc, ok := common.Value.(*ssa.MakeClosure); ok && i >= 0 && i < len(mc.Bindings) {
			return suffix(a.originOf(fn, mc.Bindings[i], depth+1))
		}
		return suffix(dmOriginSet{"x": dmOrigin{Root: "unknown:variable captured by " + callee.Name()}})
	case ro.Root == "local":
		return dmLocalSet
	}
	return suffix(dmOriginSet{"x": dmOrigin{Root: ro.Root}})
}

func (a *dmAnalysis) addEffect(fn *ssa.Function, e dmEffect) {
	s := a.sums[fn]
	if len(s.Effects) > 400 {
		e = dmEffect{Root: "unknown:too many effects", Op: "call", KeyParam: -1}
	}
	k := e.key()
	if _, ok := s.Effects[k]; !ok {
		s.Effects[k] = e
		a.changed = true
	}
}

func (a *dmAnalysis) addWrite(fn *ssa.Function, target ssa.Value, op string, keyParam int, pos token.Pos) {
	for _, o := range a.origin(fn, target).sorted() {
		if o.Root == "local" {
			continue
		}
		a.addEffect(fn, dmEffect{Root: o.Root, Path: o.Path, First: o.First, Last: o.Last, Op: op, KeyParam: keyParam, Pos: pos})
	}
}

func dmKeyParam(fn *ssa.Function, k ssa.Value) int {
	for i := 0; i < 4; i++ {
		switch x := k.(type) {
		case *ssa.Parameter:
			return dmParamIndex(fn, x)
		case *ssa.ChangeType:
			k = x.X
		case *ssa.MakeInterface:
			k = x.X
		default:
			return -1
		}
	}
	return -1
}

func (a *dmAnalysis) noteMapKey(fn *ssa.Function, m ssa.Value, key ssa.Value) {
	kp := dmKeyParam(fn, key)
	s := a.sums[fn]
	for _, o := range a.origin(fn, m).sorted() {
		if o.Root == "local" {
			continue
		}
		k := o.Root + "|" + o.Path
		if s.mapKeys[k] == nil {
			s.mapKeys[k] = map[int]bool{}
		}
		s.mapKeys[k][kp] = true
	}
}

// KeyedOnly: every update/lookup of the map at this origin inside fn uses
// parameter kp as key.
func (s *dmSummary) KeyedOnly(e dmEffect) bool {
	ks := s.mapKeys[e.Root+"|"+e.Path]
	return e.KeyParam >= 0 && len(ks) == 1 && ks[e.KeyParam]
}

func (a *dmAnalysis) summarise(fn *ssa.Function) {
	s := a.sums[fn]
	for _, b := range fn.Blocks {
		for _, in := range b.Instrs {
			switch x := in.(type) {
			case *ssa.Store:
				op := "store"
				if call, ok := x.Val.(*ssa.Call); ok {
					if bi, ok := call.Common().Value.(*ssa.Builtin); ok && bi.Name() == "append" && len(call.Common().Args) > 0 {
						if ld, ok := call.Common().Args[0].(*ssa.UnOp); ok && ld.Op == token.MUL && dmSameAddr(ld.X, x.Addr) {
							op = "append"
						}
					}
				}
				a.addWrite(fn, x.Addr, op, -1, x.Pos())
			case *ssa.MapUpdate:
				a.noteMapKey(fn, x.Map, x.Key)
				a.addWrite(fn, x.Map, "mapupdate", dmKeyParam(fn, x.Key), x.Pos())
			case *ssa.Lookup:
				if _, ok := x.X.Type().Underlying().(*types.Map); ok {
					a.noteMapKey(fn, x.X, x.Index)
				}
			case *ssa.Send:
				a.addEffect(fn, dmEffect{Root: "chan", Path: ":" + types.TypeString(x.Chan.Type(), func(p *types.Package) string { return p.Name() }), Op: "send", KeyParam: -1, Pos: x.Pos()})
			case *ssa.Go:
				a.addEffect(fn, dmEffect{Root: "go", Path: ":" + dmCallName(x.Common()), Op: "call", KeyParam: -1, Pos: x.Pos()})
				a.callEffects(fn, x)
			case *ssa.Defer:
				a.callEffects(fn, x)
			case *ssa.Call:
				a.callEffects(fn, x)
			case *ssa.Return:
				for _, r := range x.Results {
					if !dmPointerLike(r.Type()) {
						continue
					}
					for _, o := range a.origin(fn, r).sorted() {
						if o.Root == "local" {
							continue
						}
						k := o.Root + "|" + o.Path
						if _, ok := s.Ret[k]; !ok {
							if len(s.Ret) > 24 {
								o = dmOrigin{Root: "unknown:too many result origins"}
								k = o.Root
							}
							if _, ok := s.Ret[k]; !ok {
								s.Ret[k] = o
								a.changed = true
							}
						}
					}
				}
			}
		}
	}
}

func dmSameAddr(x, y ssa.Value) bool {
	for i := 0; i < 12; i++ {
		if x == y {
			return true
		}
		switch p := x.(type) {
		case *ssa.FieldAddr:
			q, ok := y.(*ssa.FieldAddr)
			if !ok || p.Field != q.Field {
				return false
			}
			x, y = p.X, q.X
		case *ssa.IndexAddr:
			q, ok := y.(*ssa.IndexAddr)
			if !ok || !dmSameAddr(p.Index, q.Index) {
				return false
			}
			x, y = p.X, q.X
		case *ssa.UnOp:
			q, ok := y.(*ssa.UnOp)
			if !ok || p.Op != q.Op {
				return false
			}
			x, y = p.X, q.X
		case *ssa.Const:
			q, ok := y.(*ssa.Const)
			return ok && p.Value == q.Value
		default:
			return false
		}
	}
	return false
}

func (a *dmAnalysis) callEffects(fn *ssa.Function, ci ssa.CallInstruction) {
	common := ci.Common()
	if b, ok := common.Value.(*ssa.Builtin); ok {
		switch b.Name() {
		case "delete":
			a.noteMapKey(fn, common.Args[0], common.Args[1])
			a.addWrite(fn, common.Args[0], "mapdelete", dmKeyParam(fn, common.Args[1]), ci.Pos())
		case "copy":
			a.addWrite(fn, common.Args[0], "store", -1, ci.Pos())
		case "clear":
			a.addWrite(fn, common.Args[0], "store", -1, ci.Pos())
		case "print", "println":
			a.addEffect(fn, dmEffect{Root: "io:" + b.Name(), Op: "call", KeyParam: -1, Pos: ci.Pos()})
		case "close":
			a.addEffect(fn, dmEffect{Root: "chan", Path: ":close", Op: "send", KeyParam: -1, Pos: ci.Pos()})
		}
		return
	}
	cs := a.callees(ci)
	if len(cs) == 0 {
		a.addEffect(fn, dmEffect{Root: "unknown:unresolved call " + dmCallName(common), Op: "call", KeyParam: -1, Pos: ci.Pos()})
		return
	}
	for _, callee := range cs {
		sum := a.sums[callee]
		if sum == nil {
			for _, e := range dmExternEffects(callee) {
				e.Pos = ci.Pos()
				a.translateEffect(fn, common, callee, e)
			}
			continue
		}
		var ks []string
		for k := range sum.Effects {
			ks = append(ks, k)
		}
		sort.Strings(ks)
		for _, k := range ks {
			a.translateEffect(fn, common, callee, sum.Effects[k])
		}
	}
}

func (a *dmAnalysis) translateEffect(fn *ssa.Function, common *ssa.CallCommon, callee *ssa.Function, e dmEffect) {
	kp := -1
	if e.KeyParam >= 0 {
		if sum := a.sums[callee]; sum == nil || sum.KeyedOnly(e) {
			if arg := dmArgFor(common, callee, e.KeyParam); arg != nil {
				kp = dmKeyParam(fn, arg)
			}
		}
	}
	isParam := strings.HasPrefix(e.Root, "param:")
	isFree := strings.HasPrefix(e.Root, "free:")
	if !isParam && !isFree {
		e.KeyParam = -1
		a.addEffect(fn, e)
		return
	}
	out := a.translateOrigin(fn, common, callee, dmOrigin{Root: e.Root, Path: e.Path, First: e.First, Last: e.Last}, 0)
	for _, o := range out.sorted() {
		if o.Root == "local" {
			continue
		}
		ne := dmEffect{Root: o.Root, Path: o.Path, First: o.First, Last: o.Last, Op: e.Op, KeyParam: kp, Pos: e.Pos}
		if ne.Last == nil {
			ne.Last = e.Last
		}
		a.addEffect(fn, ne)
		if kp >= 0 {
			s := a.sums[fn]
			k := o.Root + "|" + o.Path
			if s.mapKeys[k] == nil {
				s.mapKeys[k] = map[int]bool{}
			}
			s.mapKeys[k][kp] = true
		} else if e.Op == "mapupdate" || e.Op == "mapdelete" {
			s := a.sums[fn]
			k := o.Root + "|" + o.Path
			if s.mapKeys[k] == nil {
				s.mapKeys[k] = map[int]bool{}
			}
			s.mapKeys[k][-1] = true
		}
	}
}

// ---- functions without SSA bodies (standard library, third party) ----

var dmPurePkgs = map[string]bool{
	"strings": true, "strconv": true, "math": true, "math/bits": true, "unicode": true, "unicode/utf8": true,
	"errors": true, "bytes": true, "reflect": true, "context": true, "regexp": true, "path": true, "path/filepath": true,
	"unicode/utf16": true, "math/big": true, "cmp": true, "maps": true, "html": true, "net/url": true, "encoding/hex": true,
	"encoding/base64": true, "hash/fnv": true, "text/tabwriter": false,
}

// dmMutableStdTypes: standard-library types whose pointer-receiver methods
// change the receiver in a way a caller can observe.
var dmMutableStdTypes = map[string]bool{"Builder": true, "Buffer": true, "Reader": true, "Scanner": true, "Writer": true, "Rand": true, "Int": true, "Float": true, "Rat": true}

func dmExternRecvName(fn *ssa.Function) string {
	if sig := fn.Signature; sig != nil && sig.Recv() != nil {
		t := sig.Recv().Type()
		if p, ok := t.(*types.Pointer); ok {
			t = p.Elem()
		}
		if n, ok := t.(*types.Named); ok {
			return n.Obj().Name()
		}
	}
	return ""
}

func dmExternPkgName(fn *ssa.Function) (pkg, name string, recvPtr bool) {
	if o := fn.Object(); o != nil && o.Pkg() != nil {
		pkg = o.Pkg().Path()
	} else if fn.Pkg != nil {
		pkg = fn.Pkg.Pkg.Path()
	}
	name = fn.Name()
	if sig := fn.Signature; sig != nil && sig.Recv() != nil {
		_, recvPtr = sig.Recv().Type().(*types.Pointer)
	}
	return
}

func dmExternFresh(fn *ssa.Function) bool {
	pkg, _, _ := dmExternPkgName(fn)
	return dmPurePkgs[pkg] || strings.HasPrefix(pkg, "golang.org/x/text/") || pkg == "fmt" || pkg == "sort" || pkg == "slices" || pkg == "encoding/json" || pkg == "time" || strings.Contains(pkg, "go-spew")
}

// dmExternEffects: the order-relevant effects of a function whose body is not
// analysed. Unknown packages are reported as unknown effects.
func dmExternEffects(fn *ssa.Function) []dmEffect {
	pkg, name, recvPtr := dmExternPkgName(fn)
	none := []dmEffect(nil)
	recvWrite := []dmEffect{{Root: "param:0", Op: "store", KeyParam: -1}}
	switch {
	case pkg == "sync" || pkg == "sync/atomic":
		return none // synchronisation itself is order-neutral for this analysis
	case pkg == "fmt":
		if strings.HasPrefix(name, "Sprint") || name == "Errorf" || strings.HasPrefix(name, "Append") {
			return none
		}
		if strings.HasPrefix(name, "Sscan") {
			return none
		}
		return []dmEffect{{Root: "io:fmt." + name, Op: "call", KeyParam: -1}}
	case pkg == "sort":
		switch name {
		case "Strings", "Ints", "Float64s", "Slice", "SliceStable", "Sort", "Stable":
			return []dmEffect{{Root: "param:0", Op: "sort", KeyParam: -1}}
		}
		return none
	case pkg == "slices":
		if strings.HasPrefix(name, "Sort") || name == "Reverse" {
			return []dmEffect{{Root: "param:0", Op: "sort", KeyParam: -1}}
		}
		return none
	case pkg == "encoding/json":
		if name == "Unmarshal" {
			return []dmEffect{{Root: "param:1", Op: "store", KeyParam: -1}}
		}
		if recvPtr {
			return recvWrite
		}
		return none
	case pkg == "time":
		switch name {
		case "Now", "Since", "Until", "After", "Tick", "NewTimer", "NewTicker", "AfterFunc":
			return []dmEffect{{Root: "clock:time." + name, Op: "call", KeyParam: -1}}
		}
		return none
	case pkg == "math/rand" || pkg == "math/rand/v2" || pkg == "crypto/rand":
		return []dmEffect{{Root: "random:" + pkg + "." + name, Op: "call", KeyParam: -1}}
	case pkg == "os" || pkg == "log" || pkg == "io" || pkg == "bufio" || pkg == "net" || pkg == "net/http" || pkg == "os/exec":
		return []dmEffect{{Root: "io:" + pkg + "." + name, Op: "call", KeyParam: -1}}
	case strings.Contains(pkg, "go-spew"):
		if strings.HasPrefix(name, "S") {
			return none
		}
		return []dmEffect{{Root: "io:spew." + name, Op: "call", KeyParam: -1}}
	case dmPurePkgs[pkg]:
		if recvPtr && dmMutableStdTypes[dmExternRecvName(fn)] {
			switch name {
			case "String", "Len", "Cap", "Error", "Err", "Done", "Value", "Deadline":
				return none
			}
			return recvWrite
		}
		return none
	case strings.HasPrefix(pkg, "golang.org/x/text/"):
		return none
	case pkg == "runtime" || pkg == "runtime/debug":
		return none
	}
	return []dmEffect{{Root: "unknown:external " + pkg + "." + name, Op: "call", KeyParam: -1}}
}

// ---- "this result is always nil" (greatest fixpoint) ----

func (a *dmAnalysis) computeNilResults() {
	a.nilRes = map[*ssa.Function][]bool{}
	for _, fn := range a.funcs {
		res := fn.Signature.Results()
		v := make([]bool, res.Len())
		for i := 0; i < res.Len(); i++ {
			switch res.At(i).Type().Underlying().(type) {
			case *types.Pointer, *types.Interface, *types.Map, *types.Slice:
				v[i] = true
			}
		}
		a.nilRes[fn] = v
	}
	for changed := true; changed; {
		changed = false
		for _, fn := range a.funcs {
			v := a.nilRes[fn]
			for i := range v {
				if !v[i] {
					continue
				}
				if !a.resultAlwaysNil(fn, i) {
					v[i] = false
					changed = true
				}
			}
		}
	}
}

func (a *dmAnalysis) resultAlwaysNil(fn *ssa.Function, idx int) bool {
	for _, b := range fn.Blocks {
		for _, in := range b.Instrs {
			r, ok := in.(*ssa.Return)
			if !ok || idx >= len(r.Results) {
				continue
			}
			if !a.valueAlwaysNil(r.Results[idx], map[ssa.Value]bool{}) {
				return false
			}
		}
	}
	return true
}

func (a *dmAnalysis) valueAlwaysNil(v ssa.Value, seen map[ssa.Value]bool) bool {
	if seen[v] {
		return true
	}
	seen[v] = true
	switch x := v.(type) {
	case *ssa.Const:
		return x.IsNil()
	case *ssa.Phi:
		for _, e := range x.Edges {
			if !a.valueAlwaysNil(e, seen) {
				return false
			}
		}
		return true
	case *ssa.Extract:
		if call, ok := x.Tuple.(*ssa.Call); ok {
			return a.callResultAlwaysNil(call, x.Index)
		}
	case *ssa.Call:
		return a.callResultAlwaysNil(x, 0)
	case *ssa.ChangeInterface:
		return a.valueAlwaysNil(x.X, seen)
	case *ssa.ChangeType:
		return a.valueAlwaysNil(x.X, seen)
	case *ssa.UnOp:
		// load of a local cell: every stored value is nil
		if x.Op == token.MUL {
			if al, ok := x.X.(*ssa.Alloc); ok {
				vals := a.storesTo[al]
				for _, sv := range vals {
					if !a.valueAlwaysNil(sv, seen) {
						return false
					}
				}
				return true
			}
		}
	}
	return false
}

func (a *dmAnalysis) callResultAlwaysNil(call *ssa.Call, idx int) bool {
	if _, ok := call.Common().Value.(*ssa.Builtin); ok {
		return false
	}
	cs := a.callees(call)
	if len(cs) == 0 {
		return false
	}
	for _, c := range cs {
		v, ok := a.nilRes[c]
		if !ok || idx >= len(v) || !v[idx] {
			return false
		}
	}
	return true
}

// AlwaysNilAt: result idx of the call whose '(' is at pos is nil for every
// resolved callee.
func (a *dmAnalysis) AlwaysNilAt(lparen token.Pos, idx int) (bool, []*ssa.Function) {
	cs := a.sitePos[lparen]
	if len(cs) == 0 {
		return false, nil
	}
	for _, c := range cs {
		v, ok := a.nilRes[c]
		if !ok || idx >= len(v) || !v[idx] {
			return false, cs
		}
	}
	return true, cs
}

func (s *dmSummary) sortedEffects() []dmEffect {
	var ks []string
	for k := range s.Effects {
		ks = append(ks, k)
	}
	sort.Strings(ks)
	var out []dmEffect
	for _, k := range ks {
		out = append(out, s.Effects[k])
	}
	return out
}
