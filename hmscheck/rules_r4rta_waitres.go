package main

// R-host-call, part 3 (round 4): what the consumers of VM.Wait do with the
// interrupt it returns.
//
// General condition: a non-nil interrupt returned by VM.Wait must reach the host
// on every path. For every function that receives the interrupt — as a result
// of a call of Wait (or of a wrapper that returns Wait's interrupt unchanged),
// or as a parameter that a caller feeds from it — the function is evaluated on
// go/ssa under the assumption "the interrupt is non-nil": branches decided by
// comparing the interrupt with nil are pruned, everything else stays open. On
// the remaining part every reachable `return` must return a value that is
// built from the interrupt (the result struct holds an exception made from it,
// an error / diagnostic derived from it, the interrupt itself, or the result of
// a module function that was handed the interrupt and itself satisfies the
// condition); a path may also end in panic. A reachable return whose values do
// not depend on the interrupt is the success-shaped result: the host is told
// that the invocation succeeded although Wait reported a termination. It does
// not matter how the source spells the branch (if / switch / early return of
// the success case / helper that builds the exception): only reachability
// under the assumption and data flow into the returned values count.

import (
	"fmt"
	"go/ast"
	"go/constant"
	"go/token"
	"go/types"
	"sort"
	"strings"

	"golang.org/x/tools/go/ssa"
)

type r4aFwd struct {
	callee *ssa.Function
	idx    int
	pos    token.Pos
}

type r4aBadRet struct {
	pos   token.Pos
	conds []string
}

type r4aCarryRes struct {
	undecided string
	returns   int // returns reachable under the assumption
	panics    int // panics reachable under the assumption
	bad       []r4aBadRet
	fwd       []r4aFwd // the interrupt itself is handed to these module functions
	passUp    []int    // result indices that return the interrupt itself
	viaCallee []string // names of the callees whose result carried the interrupt into a return
}

func (r *r4aCarryRes) ok() bool { return r.undecided == "" && len(r.bad) == 0 }

type r4aCarry struct {
	c      *Ctx
	a      *dmAnalysis
	memo   map[string]*r4aCarryRes
	active map[string]bool
}

func r4aFnName(fn *ssa.Function) string {
	if fn == nil {
		return "?"
	}
	if p := fn.Parent(); p != nil {
		suffix := strings.TrimPrefix(fn.Name(), p.Name())
		return r4aFnName(p) + suffix
	}
	if o, ok := fn.Object().(*types.Func); ok && o.Pkg() != nil {
		name := o.Name()
		if sig, ok := o.Type().(*types.Signature); ok && sig.Recv() != nil {
			name = dfOwnerName(sig.Recv().Type()) + "." + name
		}
		return relPkgShort(o.Pkg().Path()) + "." + name
	}
	return fn.String()
}

func r4aIsNilConst(v ssa.Value) bool {
	k, ok := hcStrip(v).(*ssa.Const)
	return ok && k.IsNil()
}

// r4aEval is one evaluation of fn under "src != nil".
type r4aEval struct {
	z        *r4aCarry
	fn       *ssa.Function
	src      ssa.Value
	depth    int
	edges    map[hcEdge]bool
	feasible map[*ssa.BasicBlock]bool
	dead     map[*ssa.BasicBlock]bool // the block calls a function that does not return: its end is never reached
	tv       map[ssa.Value]bool
	res      *r4aCarryRes
	fwdSeen  map[string]bool
	via      map[string]bool
}

// isSrc: v is the interrupt itself (the pointer, not something derived from it).
func (e *r4aEval) isSrc(v ssa.Value, d int) bool {
	v = hcStrip(v)
	if v == e.src {
		return true
	}
	if d > 4 {
		return false
	}
	switch x := v.(type) {
	case *ssa.UnOp:
		// a local cell (captured variable / named result) that only ever holds the interrupt
		if al, ok := x.X.(*ssa.Alloc); ok && x.Op == token.MUL {
			st := e.z.a.storesTo[al]
			if len(st) == 0 {
				return false
			}
			for _, s := range st {
				if !e.isSrc(s, d+1) {
					return false
				}
			}
			return true
		}
	case *ssa.Phi:
		n := 0
		for i, ed := range x.Edges {
			if !e.edges[hcEdge{x.Block().Preds[i], x.Block()}] {
				continue
			}
			if !e.isSrc(ed, d+1) {
				return false
			}
			n++
		}
		return n > 0
	}
	return false
}

func (e *r4aEval) boolValue(v ssa.Value, d int) (val, known bool) {
	if d > 8 {
		return false, false
	}
	switch x := v.(type) {
	case *ssa.Const:
		if x.Value != nil && x.Value.Kind() == constant.Bool {
			return constant.BoolVal(x.Value), true
		}
	case *ssa.UnOp:
		if x.Op == token.NOT {
			if b, ok := e.boolValue(x.X, d+1); ok {
				return !b, true
			}
		}
	case *ssa.BinOp:
		if x.Op != token.EQL && x.Op != token.NEQ {
			return false, false
		}
		if (e.isSrc(x.X, 0) && r4aIsNilConst(x.Y)) || (e.isSrc(x.Y, 0) && r4aIsNilConst(x.X)) {
			return x.Op == token.NEQ, true
		}
	case *ssa.Phi:
		first, have := false, false
		for i, ed := range x.Edges {
			if !e.edges[hcEdge{x.Block().Preds[i], x.Block()}] {
				continue
			}
			b, ok := e.boolValue(ed, d+1)
			if !ok || (have && b != first) {
				return false, false
			}
			first, have = b, true
		}
		return first, have
	}
	return false, false
}

// noReturn: the call never returns normally — a module function all of whose
// paths panic (under the assumption, when it is handed the interrupt), or one
// of the usual process-ending library functions.
func (e *r4aEval) noReturn(call *ssa.Call) bool {
	cm := call.Common()
	callee := cm.StaticCallee()
	if callee == nil || cm.IsInvoke() {
		return false
	}
	if !dmInModule(callee) {
		if o := callee.Object(); o != nil && o.Pkg() != nil {
			switch o.Pkg().Path() + "." + o.Name() {
			case "os.Exit", "log.Fatal", "log.Fatalf", "log.Fatalln", "log.Panic", "log.Panicf", "log.Panicln", "runtime.Goexit":
				return true
			}
		}
		return false
	}
	if len(callee.Blocks) == 0 {
		return false
	}
	for i := range callee.Params {
		if arg := dmArgFor(cm, callee, i); arg != nil && e.isSrc(arg, 0) {
			if e.depth >= 3 {
				return false
			}
			cr := e.z.eval(callee, callee.Params[i], e.depth+1)
			return cr.undecided == "" && cr.returns == 0
		}
	}
	// not handed the interrupt: no return instruction reachable at all
	seen := map[*ssa.BasicBlock]bool{callee.Blocks[0]: true}
	work := []*ssa.BasicBlock{callee.Blocks[0]}
	for len(work) > 0 {
		b := work[0]
		work = work[1:]
		for _, in := range b.Instrs {
			if _, ok := in.(*ssa.Return); ok {
				return false
			}
		}
		for _, s := range b.Succs {
			if !seen[s] {
				seen[s] = true
				work = append(work, s)
			}
		}
	}
	return true
}

func (e *r4aEval) reach() {
	e.edges = map[hcEdge]bool{}
	e.feasible = map[*ssa.BasicBlock]bool{e.fn.Blocks[0]: true}
	e.dead = map[*ssa.BasicBlock]bool{}
	for _, blk := range e.fn.Blocks {
		for _, in := range blk.Instrs {
			if call, ok := in.(*ssa.Call); ok && e.noReturn(call) {
				e.dead[blk] = true
			}
		}
	}
	for changed := true; changed; {
		changed = false
		for _, blk := range e.fn.Blocks {
			if !e.feasible[blk] || len(blk.Instrs) == 0 || e.dead[blk] {
				continue
			}
			var next []*ssa.BasicBlock
			switch t := blk.Instrs[len(blk.Instrs)-1].(type) {
			case *ssa.If:
				v, known := e.boolValue(t.Cond, 0)
				if !known || v {
					next = append(next, blk.Succs[0])
				}
				if !known || !v {
					next = append(next, blk.Succs[1])
				}
			case *ssa.Jump:
				next = append(next, blk.Succs[0])
			}
			for _, s := range next {
				if !e.edges[hcEdge{blk, s}] {
					e.edges[hcEdge{blk, s}] = true
					changed = true
				}
				if !e.feasible[s] {
					e.feasible[s] = true
					changed = true
				}
			}
		}
	}
}

type r4aCells map[*ssa.Alloc]bool

func (c r4aCells) clone() r4aCells {
	o := r4aCells{}
	for k, v := range c {
		if v {
			o[k] = true
		}
	}
	return o
}

func r4aCellsEqual(a, b r4aCells) bool {
	if (a == nil) != (b == nil) || len(a) != len(b) {
		return false
	}
	for k := range a {
		if !b[k] {
			return false
		}
	}
	return true
}

// taint of an operand at the current program point.
func (e *r4aEval) taint(v ssa.Value, cur r4aCells) bool {
	if v == nil {
		return false
	}
	if e.isSrc(v, 0) {
		return true
	}
	switch x := v.(type) {
	case *ssa.Alloc:
		return cur[x]
	case *ssa.FieldAddr, *ssa.IndexAddr:
		if al := dmAllocRoot(x); al != nil {
			return cur[al]
		}
	}
	return e.tv[v]
}

// compute: the taint of the value defined by instruction x.
func (e *r4aEval) compute(x ssa.Value, cur r4aCells) bool {
	if e.isSrc(x, 0) {
		return true
	}
	switch y := x.(type) {
	case *ssa.Alloc:
		return false
	case *ssa.Phi:
		n := 0
		for i, ed := range y.Edges {
			if !e.edges[hcEdge{y.Block().Preds[i], y.Block()}] {
				continue
			}
			n++
			if e.isSrc(ed, 0) {
				continue
			}
			if _, isInstr := ed.(ssa.Instruction); isInstr {
				if _, isAlloc := ed.(*ssa.Alloc); !isAlloc {
					if t, seen := e.tv[ed]; seen && !t {
						return false
					}
					continue // tainted, or not yet computed (back edge): optimistic
				}
			}
			if !e.taint(ed, cur) {
				return false
			}
		}
		return n > 0
	case *ssa.UnOp:
		if y.Op == token.MUL {
			if al := dmAllocRoot(y.X); al != nil {
				return cur[al]
			}
		}
		return e.taint(y.X, cur)
	case *ssa.Call:
		return e.callTaint(y, cur)
	}
	in, ok := x.(ssa.Instruction)
	if !ok {
		return false
	}
	for _, op := range in.Operands(nil) {
		if op != nil && *op != nil && e.taint(*op, cur) {
			return true
		}
	}
	return false
}

func (e *r4aEval) callTaint(call *ssa.Call, cur r4aCells) bool {
	cm := call.Common()
	callee := cm.StaticCallee()
	if callee != nil && len(callee.Blocks) > 0 && dmInModule(callee) && !cm.IsInvoke() {
		handed := false
		carried := false
		for i := range callee.Params {
			arg := dmArgFor(cm, callee, i)
			if arg == nil || !e.isSrc(arg, 0) {
				continue
			}
			handed = true
			k := fmt.Sprintf("%s|%d", callee.String(), i)
			if !e.fwdSeen[k] {
				e.fwdSeen[k] = true
				e.res.fwd = append(e.res.fwd, r4aFwd{callee, i, call.Pos()})
			}
			if e.depth < 3 {
				cr := e.z.eval(callee, callee.Params[i], e.depth+1)
				if cr.ok() {
					carried = true
					e.via[r4aFnName(callee)] = true
				}
			}
		}
		if handed {
			return carried
		}
	}
	if cm.IsInvoke() && e.taint(cm.Value, cur) {
		return true
	}
	if !cm.IsInvoke() && callee == nil && e.taint(cm.Value, cur) {
		return true
	}
	for _, a := range cm.Args {
		if e.taint(a, cur) {
			return true
		}
	}
	return false
}

// eval: does fn carry a non-nil src (a value of fn: a parameter or the
// extracted result of a call) into everything it returns?
func (z *r4aCarry) eval(fn *ssa.Function, src ssa.Value, depth int) *r4aCarryRes {
	key := fn.String() + "|" + src.Name()
	if r, ok := z.memo[key]; ok {
		return r
	}
	res := &r4aCarryRes{}
	if z.active[key] {
		res.undecided = "recursive hand-over of the interrupt"
		return res
	}
	if len(fn.Blocks) == 0 {
		res.undecided = "no SSA body for " + r4aFnName(fn)
		z.memo[key] = res
		return res
	}
	z.active[key] = true
	defer delete(z.active, key)
	e := &r4aEval{z: z, fn: fn, src: src, depth: depth, res: res, fwdSeen: map[string]bool{}, via: map[string]bool{}}
	e.reach()
	e.tv = map[ssa.Value]bool{}
	out := map[*ssa.BasicBlock]r4aCells{}
	retOK := map[*ssa.BasicBlock]bool{}
	passUp := map[int]bool{}
	for iter := 0; iter < 40; iter++ {
		changed := false
		for bi, blk := range fn.Blocks {
			if !e.feasible[blk] {
				continue
			}
			var in r4aCells
			if bi == 0 {
				in = r4aCells{}
			}
			for _, p := range blk.Preds {
				if !e.edges[hcEdge{p, blk}] {
					continue
				}
				po, done := out[p]
				if !done {
					continue
				}
				if in == nil {
					in = po.clone()
					continue
				}
				for k := range in {
					if !po[k] {
						delete(in, k)
					}
				}
			}
			if in == nil {
				continue // no feasible predecessor evaluated yet
			}
			cur := in
			for _, instr := range blk.Instrs {
				switch x := instr.(type) {
				case *ssa.Store:
					if al := dmAllocRoot(x.Addr); al != nil {
						if e.taint(x.Val, cur) {
							cur[al] = true
						} else if x.Addr == ssa.Value(al) {
							delete(cur, al)
						}
					}
				case *ssa.Return:
					good := false
					for ri, r := range x.Results {
						if e.taint(r, cur) {
							good = true
						}
						if e.isSrc(r, 0) {
							passUp[ri] = true
						}
					}
					retOK[blk] = good
				default:
					if v, ok := instr.(ssa.Value); ok {
						t := e.compute(v, cur)
						if old, seen := e.tv[v]; !seen || old != t {
							e.tv[v] = t
							changed = true
						}
					}
				}
			}
			if old, done := out[blk]; !done || !r4aCellsEqual(old, cur) {
				out[blk] = cur
				changed = true
			}
		}
		if !changed {
			break
		}
	}
	sig := fn.Signature
	for _, blk := range fn.Blocks {
		if !e.feasible[blk] || len(blk.Instrs) == 0 {
			continue
		}
		if e.dead[blk] {
			res.panics++
			continue
		}
		switch t := blk.Instrs[len(blk.Instrs)-1].(type) {
		case *ssa.Panic:
			res.panics++
		case *ssa.Return:
			res.returns++
			if sig.Results().Len() == 0 {
				continue
			}
			if !retOK[blk] {
				res.bad = append(res.bad, r4aBadRet{t.Pos(), e.condsOf(blk)})
			}
		}
	}
	if sig.Results().Len() == 0 && res.returns > 0 {
		res.undecided = r4aFnName(fn) + " returns normally with a non-nil interrupt but has no result values: the rule cannot see how the interrupt reaches the host"
	}
	for i := range passUp {
		res.passUp = append(res.passUp, i)
	}
	sort.Ints(res.passUp)
	for k := range e.via {
		res.viaCallee = append(res.viaCallee, k)
	}
	sort.Strings(res.viaCallee)
	sort.SliceStable(res.bad, func(i, j int) bool { return dmPosLess(z.c, res.bad[i].pos, res.bad[j].pos) })
	z.memo[key] = res
	return res
}

// condsOf: the open branch decisions (conditions that the assumption does not
// decide, evaluated after the interrupt is available) of which only one outcome
// leads to blk — the extra conditions a non-nil interrupt has to meet to end up
// in the success-shaped return.
func (e *r4aEval) condsOf(blk *ssa.BasicBlock) []string {
	// blocks from which blk is reachable along feasible edges
	anc := map[*ssa.BasicBlock]bool{blk: true}
	for changed := true; changed; {
		changed = false
		for _, b := range e.fn.Blocks {
			if anc[b] || !e.feasible[b] {
				continue
			}
			for _, s := range b.Succs {
				if anc[s] && e.edges[hcEdge{b, s}] {
					anc[b] = true
					changed = true
					break
				}
			}
		}
	}
	var srcBlk *ssa.BasicBlock
	if in, ok := e.src.(ssa.Instruction); ok {
		srcBlk = in.Block()
	}
	var out []string
	for _, d := range e.fn.Blocks {
		if !anc[d] || d == blk || len(d.Instrs) == 0 {
			continue
		}
		if srcBlk != nil && !srcBlk.Dominates(d) {
			continue
		}
		t, ok := d.Instrs[len(d.Instrs)-1].(*ssa.If)
		if !ok {
			continue
		}
		txt := r4aExprAt(e.fn, t.Cond)
		if txt == "" {
			continue
		}
		txt = fmt.Sprintf("%s` (line %d)", txt, e.z.c.Fset.Position(t.Cond.Pos()).Line)
		if v, known := e.boolValue(t.Cond, 0); known {
			out = append(out, fmt.Sprintf("`%s = %v (given)", txt, v))
			continue
		}
		r0 := anc[d.Succs[0]] && e.edges[hcEdge{d, d.Succs[0]}]
		r1 := anc[d.Succs[1]] && e.edges[hcEdge{d, d.Succs[1]}]
		switch {
		case r0 && !r1:
			out = append(out, fmt.Sprintf("`%s = true", txt))
		case r1 && !r0:
			out = append(out, fmt.Sprintf("`%s = false", txt))
		}
	}
	return out
}

// r4aExprAt: source text of the expression an SSA condition value was built from.
func r4aExprAt(fn *ssa.Function, v ssa.Value) string {
	pos := v.Pos()
	if !pos.IsValid() {
		if ph, ok := v.(*ssa.Phi); ok && ph.Comment != "" {
			return "(" + ph.Comment + ")"
		}
		return ""
	}
	syn := fn.Syntax()
	if syn == nil {
		return ""
	}
	txt := ""
	ast.Inspect(syn, func(n ast.Node) bool {
		if txt != "" || n == nil {
			return false
		}
		switch x := n.(type) {
		case *ast.BinaryExpr:
			if x.OpPos == pos {
				txt = exprStr(x)
			}
		case *ast.UnaryExpr:
			if x.OpPos == pos {
				txt = exprStr(x)
			}
		case *ast.CallExpr:
			if x.Lparen == pos {
				txt = exprStr(x)
			}
		case *ast.Ident:
			if x.Pos() == pos {
				txt = x.Name
			}
		}
		return true
	})
	return txt
}

// r4aWaitConsumers: the obligations of R-host-call about Wait's interrupt.
func r4aWaitConsumers(c *Ctx) []Obligation {
	rt := c.Pkg("homescript/runtime")
	a := determMod(c)
	wait := c.MustFunc("homescript/runtime", "VM", "Wait")
	waitObj, _ := rt.TypesInfo.Defs[wait.Name].(*types.Func)
	waitFn := a.prog.FuncValue(waitObj)
	if waitFn == nil {
		return []Obligation{{Key: "runtime.VM.Wait|consumers of the interrupt", Status: Undecided, Pos: c.Pos(wait.Pos()), Detail: "no SSA function for VM.Wait"}}
	}
	// the interrupt: the one result of Wait that can be nil (pointer / interface)
	idx := -1
	rs := waitFn.Signature.Results()
	for i := 0; i < rs.Len(); i++ {
		switch rs.At(i).Type().Underlying().(type) {
		case *types.Pointer, *types.Interface:
			if idx >= 0 {
				return []Obligation{{Key: "runtime.VM.Wait|consumers of the interrupt", Status: Undecided, Pos: c.Pos(wait.Pos()), Detail: "VM.Wait has more than one nil-able result: cannot tell which one is the interrupt"}}
			}
			idx = i
		}
	}
	if idx < 0 {
		return []Obligation{{Key: "runtime.VM.Wait|consumers of the interrupt", Status: Undecided, Pos: c.Pos(wait.Pos()), Detail: "VM.Wait has no nil-able result"}}
	}
	z := &r4aCarry{c: c, a: a, memo: map[string]*r4aCarryRes{}, active: map[string]bool{}}
	type source struct {
		fn    *ssa.Function
		idx   int
		label string
		depth int
	}
	sources := []source{{waitFn, idx, "VM.Wait", 0}}
	seenSrc := map[string]bool{waitFn.String(): true}
	var obs []Obligation
	keyCount := map[string]int{}
	uniq := func(k string) string {
		keyCount[k]++
		if keyCount[k] > 1 {
			return fmt.Sprintf("%s #%d", k, keyCount[k])
		}
		return k
	}
	type pfwd struct {
		callee *ssa.Function
		idx    int
		from   []string
	}
	fwds := map[string]*pfwd{}
	var fwdOrder []string
	noteFwd := func(res *r4aCarryRes, from string) {
		for _, f := range res.fwd {
			k := fmt.Sprintf("%s|%d", f.callee.String(), f.idx)
			if fwds[k] == nil {
				fwds[k] = &pfwd{callee: f.callee, idx: f.idx}
				fwdOrder = append(fwdOrder, k)
			}
			fwds[k].from = append(fwds[k].from, from)
		}
	}
	describe := func(res *r4aCarryRes, what string) (Status, string) {
		switch {
		case res.undecided != "":
			return Undecided, res.undecided
		case len(res.bad) > 0:
			var p []string
			for _, b := range res.bad {
				s := "return at " + c.Pos(b.pos)
				if len(b.conds) > 0 {
					s += " (reached under " + strings.Join(b.conds, ", ") + ")"
				}
				p = append(p, s)
			}
			handed := ""
			if len(res.fwd) > 0 {
				var hs []string
				for _, f := range res.fwd {
					hs = append(hs, r4aFnName(f.callee))
				}
				sort.Strings(hs)
				handed = " The interrupt is handed to " + strings.Join(hs, ", ") + ", which does not turn every non-nil interrupt into an exception (see its own obligation)."
			}
			return Violated, fmt.Sprintf("with a non-nil %s the success-shaped result stays reachable: %s returns values that are not built from the interrupt."+handed+" Wait reports the first interrupt of ANY core (and cancels the others); a consumer that lets it fall through tells the host that the invocation succeeded (Exception == nil, null result) although the run was terminated. The branch that builds the exception must be controlled by `interrupt != nil` alone.", what, strings.Join(p, "; "))
		case res.returns == 0:
			return Discharged, fmt.Sprintf("with a non-nil %s no return is reachable: every path ends in panic (%d)", what, res.panics)
		default:
			via := ""
			if len(res.viaCallee) > 0 {
				via = " (through " + strings.Join(res.viaCallee, ", ") + ", which is handed the interrupt)"
			}
			return Discharged, fmt.Sprintf("with a non-nil %s every reachable return (%d) returns a value built from the interrupt%s", what, res.returns, via)
		}
	}
	nConsumers := 0
	for si := 0; si < len(sources); si++ {
		s := sources[si]
		for _, fn := range a.funcs {
			for _, b := range fn.Blocks {
				for _, in := range b.Instrs {
					ci, ok := in.(ssa.CallInstruction)
					if !ok || ci.Common().StaticCallee() != s.fn {
						continue
					}
					nConsumers++
					name := r4aFnName(fn)
					key := uniq(fmt.Sprintf("%s|interrupt returned by %s|reaches the host as an exception on every path", name, s.label))
					ob := Obligation{Key: key, Pos: c.Pos(ci.Pos()), Nontrivial: true}
					call, isCall := in.(*ssa.Call)
					var ext ssa.Value
					if isCall {
						if rs := s.fn.Signature.Results(); rs.Len() == 1 {
							ext = call
						} else if refs := call.Referrers(); refs != nil {
							for _, r := range *refs {
								if ex, ok := r.(*ssa.Extract); ok && ex.Index == s.idx {
									ext = ex
								}
							}
						}
					}
					if ext == nil {
						ob.Status, ob.Detail = Violated, fmt.Sprintf("the interrupt returned by %s is discarded (never bound): a termination reported by a core cannot reach the host", s.label)
						obs = append(obs, ob)
						continue
					}
					res := z.eval(fn, ext, 0)
					ob.Status, ob.Detail = describe(res, "interrupt from "+s.label)
					obs = append(obs, ob)
					noteFwd(res, name)
					if len(res.passUp) == 1 && s.depth < 3 && !seenSrc[fn.String()] {
						seenSrc[fn.String()] = true
						sources = append(sources, source{fn, res.passUp[0], s.label + " via " + name, s.depth + 1})
					}
				}
			}
		}
	}
	if nConsumers == 0 {
		obs = append(obs, Obligation{Key: "runtime.VM.Wait|consumers of the interrupt", Status: Undecided, Pos: c.Pos(wait.Pos()), Detail: "no call of VM.Wait in the module: the anchor of the rule moved"})
	}
	// parameters fed from the interrupt (transitively)
	for i := 0; i < len(fwdOrder) && i < 16; i++ {
		f := fwds[fwdOrder[i]]
		if f.idx >= len(f.callee.Params) {
			continue
		}
		res := z.eval(f.callee, f.callee.Params[f.idx], 1)
		name := r4aFnName(f.callee)
		from := append([]string(nil), f.from...)
		sort.Strings(from)
		ob := Obligation{Key: uniq(fmt.Sprintf("%s|interrupt parameter fed from VM.Wait|a non-nil interrupt becomes the exception of the result on every path", name)), Pos: c.Pos(f.callee.Pos()), Nontrivial: true}
		ob.Status, ob.Detail = describe(res, fmt.Sprintf("parameter `%s` (fed by %s)", f.callee.Params[f.idx].Name(), strings.Join(from, ", ")))
		obs = append(obs, ob)
		noteFwd(res, name)
	}
	return obs
}
