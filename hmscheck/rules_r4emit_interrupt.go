package main

// R-interrupt-passthrough (r4emit): an interrupt received from a callee
// leaves the receiving function unchanged unless its kind was tested.

import (
	"fmt"
	"go/ast"
	"go/token"
	"go/types"
	"sort"
	"strings"
)

func init() {
	register(&Rule{ID: "R-interrupt-passthrough", Floor: 60, Run: ruleR4InterruptPass,
		Doc: "interrupt pass-through in both engines: in every function of the runtime and runtime/value packages that returns a *value.VmInterrupt, and of the interpreter and interpreter/value packages that returns a *value.Interrupt (termination kind TerminateInterruptKind; the loop / call constructs that swallow break, continue and return do so under a test of exactly those kinds), and receives one from a callee (builtin callback, host call, equality / display / fields / index helpers, …): on every path on which the received interrupt is non-nil, the function returns that very value, unless the path tested the interrupt's kind in a way that excludes the termination kind (`Kind() == <other kind>`, `Kind() != Vm_TerminateInterruptKind`, a switch clause that does not list it); replacing it by a freshly built interrupt, or returning nil, without such a test converts a cancellation into something else (a fatal host error) or swallows it. An interrupt that is received but neither tested nor returned on a normally ending path is dropped. Necessary for C10/C16: a termination interrupt raised inside a blocking builtin that noticed the cancel must reach Core.Run as a termination, so the host observes `terminated` and not a fatal exception"})
}

func ruleR4InterruptPass(c *Ctx) []Obligation {
	r2LoopCtx = c
	var obs []Obligation
	// the VM's interrupts, and (round 5) the tree-walking interpreter's
	obs = append(obs, r4emInterruptPass(c, []string{"homescript/runtime", "homescript/runtime/value"}, "homescript/runtime/value", "VmInterrupt", "Vm_TerminateInterruptKind")...)
	obs = append(obs, r4emInterruptPass(c, []string{"homescript/interpreter", "homescript/interpreter/value"}, "homescript/interpreter/value", "Interrupt", "TerminateInterruptKind")...)
	return obs
}

func r4emInterruptPass(c *Ctx, pkgs []string, valuePkg, intrName, termName string) []Obligation {
	vp := c.Pkg(valuePkg)
	intrObj := vp.Types.Scope().Lookup(intrName)
	if intrObj == nil {
		fatalf("anchor unresolved: %s.%s", valuePkg, intrName)
	}
	isIntr := func(t types.Type) bool {
		p, ok := t.(*types.Pointer)
		if !ok {
			return false
		}
		n, ok := types.Unalias(p.Elem()).(*types.Named)
		return ok && n.Obj() == intrObj
	}
	termK := vmConst(c, valuePkg, termName)
	var obs []Obligation
	var fns []*vmFn
	for _, rel := range pkgs {
		fns = append(fns, vmFuncs(c, rel)...)
	}
	sort.Slice(fns, func(i, j int) bool { return fns[i].name < fns[j].name })
	for _, fn := range fns {
		info := fn.info
		obj, _ := info.Defs[fn.fd.Name].(*types.Func)
		if obj == nil {
			continue
		}
		sig := obj.Type().(*types.Signature)
		ri := -1
		for i := 0; i < sig.Results().Len(); i++ {
			if isIntr(sig.Results().At(i).Type()) {
				ri = i
			}
		}
		if ri < 0 {
			continue
		}
		// receive sites: assignments of an interrupt-typed variable from a call that may return nil
		type site struct {
			call *ast.CallExpr
			obj  types.Object
			name string
		}
		var sites []*site
		siteOf := map[*ast.CallExpr]*site{}
		ast.Inspect(fn.fd.Body, func(n ast.Node) bool {
			if _, isLit := n.(*ast.FuncLit); isLit {
				return false
			}
			as, ok := n.(*ast.AssignStmt)
			if !ok || len(as.Rhs) != 1 {
				return true
			}
			call, ok := ast.Unparen(as.Rhs[0]).(*ast.CallExpr)
			if !ok {
				return true
			}
			for _, l := range as.Lhs {
				o := vmObjOf(info, l)
				if o == nil || !isIntr(o.Type()) {
					continue
				}
				if g := CalleeOf(info, call); g != nil && len(as.Lhs) == 1 && vmNeverNil(c, g, map[*types.Func]bool{}) {
					continue // a constructor: the interrupt is created here, not received
				}
				s := &site{call: call, obj: o, name: vmTrunc(exprStr(call.Fun), 40)}
				sites = append(sites, s)
				siteOf[call] = s
			}
			return true
		})
		if len(sites) == 0 {
			continue
		}
		relevant := func(n ast.Node) bool {
			switch x := n.(type) {
			case *ast.CallExpr:
				if siteOf[x] != nil {
					return true
				}
				if id, ok := x.Fun.(*ast.Ident); ok {
					if b, isB := info.Uses[id].(*types.Builtin); isB && b.Name() == "panic" {
						return true
					}
				}
				g := CalleeOf(info, x)
				return g != nil && vmAlwaysPanics(c, g)
			case *ast.Ident:
				if o := info.Uses[x]; o != nil {
					for _, s := range sites {
						if s.obj == o {
							return true
						}
					}
				}
			}
			return false
		}
		// helpers that receive the interrupt as a parameter (the merged `switch (*i).Kind()` behind a
		// loop body, `handle(i)`) are spliced into the walk: their kind tests and returns are the caller's
		inPkgs := map[*types.Package]bool{}
		for _, rel := range pkgs {
			inPkgs[c.Pkg(rel).Types] = true
		}
		takesIntr := func(callee *vmFn, call *ast.CallExpr) bool {
			if callee.fd == fn.fd || !inPkgs[callee.pkg.Types] || len(callee.fd.Body.List) > 12 {
				return false
			}
			for _, po := range vmParamObjs(callee) {
				if po != nil && isIntr(po.Type()) {
					return true
				}
			}
			return false
		}
		relevant0 := relevant
		relevant = func(n ast.Node) bool {
			if relevant0(n) {
				return true
			}
			if call, ok := n.(*ast.CallExpr); ok {
				if callee := vmDeclIndex(c).of(CalleeOf(info, call)); callee != nil && takesIntr(callee, call) {
					return true
				}
			}
			return false
		}
		res := vmWalk(vmWalkOpts{fn: fn, correlate: true, replace: vmSlicer(relevant), inline: takesIntr})
		type verdict struct {
			bad    []string
			latent []string // violating paths that no input reaches today (see rules_r5emit_latent.go)
			paths  int
		}
		verdicts := map[*site]*verdict{}
		for _, s := range sites {
			verdicts[s] = &verdict{}
		}
		if res.overflow {
			obs = append(obs, Obligation{Key: fn.name + "|<paths>", Pos: c.Pos(fn.fd.Pos()), Status: Undecided, Detail: "path cap exceeded"})
			continue
		}
		var rootOf func(o types.Object) types.Object
		kindOf := func(e ast.Expr, o types.Object) bool {
			// (*o).Kind(), also through a parameter of a spliced helper that is bound to o
			call, ok := ast.Unparen(e).(*ast.CallExpr)
			if !ok || len(call.Args) != 0 {
				return false
			}
			sel, ok := ast.Unparen(call.Fun).(*ast.SelectorExpr)
			if !ok || sel.Sel.Name != "Kind" {
				return false
			}
			hit := false
			ast.Inspect(sel.X, func(n ast.Node) bool {
				if id, ok := n.(*ast.Ident); ok {
					if io := info.Uses[id]; io != nil && (io == o || (rootOf != nil && rootOf(io) == o)) {
						hit = true
					}
				}
				return !hit
			})
			return hit
		}
		for i := range res.paths {
			p := &res.paths[i]
			if p.o.kind == cPanic {
				continue
			}
			type st struct {
				s       *site
				nonNil  int // 0 unknown, 1 non-nil, -1 nil
				tested  bool
				exclude bool // termination excluded by a kind test
				isTerm  bool // decided to BE a termination
				eqKind  *types.Const
			}
			infeasible := false
			live := map[types.Object]*st{}
			alias := map[types.Object]types.Object{} // parameter / result variable of a spliced helper → received variable
			root := func(o types.Object) types.Object {
				for hop := 0; o != nil && hop < 6; hop++ {
					n, ok := alias[o]
					if !ok {
						break
					}
					o = n
				}
				return o
			}
			objOf := func(e ast.Expr) types.Object { return root(vmObjOf(info, e)) }
			rootOf = root
			for _, e := range p.ev {
				switch e.K {
				case evAssign:
					if e.Rhs == nil {
						continue
					}
					if call, ok := ast.Unparen(e.Rhs).(*ast.CallExpr); ok && siteOf[call] != nil {
						if o := vmObjOf(info, e.Lhs); o == siteOf[call].obj {
							live[o] = &st{s: siteOf[call]}
							delete(alias, o)
						}
						continue
					}
					if lo := vmObjOf(info, e.Lhs); lo != nil && isIntr(lo.Type()) {
						if ro := objOf(e.Rhs); ro != nil && live[ro] != nil && ro != lo {
							alias[lo] = ro
						} else if live[lo] == nil {
							delete(alias, lo)
						}
					}
				case evCond:
					x := ast.Unparen(e.X)
					be, ok := x.(*ast.BinaryExpr)
					if !ok {
						continue
					}
					for o, s := range live {
						if objOf(be.X) == o && vmIsNil(info, be.Y) || objOf(be.Y) == o && vmIsNil(info, be.X) {
							s.tested = true
							isNil := (be.Op == token.EQL) == e.Taken
							if isNil {
								s.nonNil = -1
							} else {
								s.nonNil = 1
							}
						}
						var k *types.Const
						if kindOf(be.X, o) {
							k = ConstOf(info, be.Y)
						} else if kindOf(be.Y, o) {
							k = ConstOf(info, be.X)
						}
						if k != nil {
							isEq := (be.Op == token.EQL) == e.Taken
							if be.Op != token.EQL && be.Op != token.NEQ {
								continue
							}
							if (isEq && k != termK) || (!isEq && k == termK) {
								s.exclude = true
							}
							if isEq && k == termK {
								s.isTerm = true
							}
							if isEq {
								// two different kinds decided for one value: not a real path
								if s.eqKind != nil && s.eqKind != k {
									infeasible = true
								}
								s.eqKind = k
							}
						}
					}
				case evCase:
					sw, ok := e.Sw.(*ast.SwitchStmt)
					if !ok || sw.Tag == nil {
						continue
					}
					for o, s := range live {
						if !kindOf(sw.Tag, o) {
							continue
						}
						lists := e.Vals
						if e.Vals == nil {
							// default clause: termination excluded iff another clause lists it
							for _, v := range e.Others {
								if ConstOf(info, v) == termK {
									s.exclude = true
								}
							}
							continue
						}
						hasTerm := false
						for _, v := range lists {
							if ConstOf(info, v) == termK {
								hasTerm = true
							}
						}
						if !hasTerm {
							s.exclude = true
						}
					}
				}
			}
			if infeasible || p.o.kind != cReturn || p.o.ret == nil || ri >= len(p.o.ret.Results) {
				continue
			}
			r := ast.Unparen(p.o.ret.Results[ri])
			for o, s := range live {
				v := verdicts[s.s]
				v.paths++
				if objOf(r) == o {
					continue // passed through (possibly via the result of a spliced helper)
				}
				// another received interrupt that the path decided to be a termination is returned
				// instead (the kill handler's own interrupt is dropped in favour of the termination
				// that started it): the run still ends as terminated
				if other := live[objOf(r)]; other != nil && other.isTerm {
					continue
				}
				if s.nonNil == -1 || s.exclude {
					continue
				}
				what := "replaced by `" + vmTrunc(exprStr(r), 60) + "`"
				if vmIsNil(info, r) {
					what = "swallowed (nil is returned)"
				}
				if why, latent := r5emLatentLookup(c, fn, p); latent {
					v.latent = append(v.latent, fmt.Sprintf("path [%s]: %s", vmTrunc(p.decisions(), 220), why))
					continue
				}
				switch {
				case s.nonNil == 1:
					v.bad = append(v.bad, fmt.Sprintf("path [%s]: the non-nil interrupt received from %s @%s is %s @%s and no kind test on the path excludes %s: a termination raised inside the callee (a blocking builtin that noticed the cancel) reaches the run loop as something else, the host does not observe `terminated`", vmTrunc(p.decisions(), 220), s.s.name, c.Pos(s.s.call.Pos()), what, c.Pos(p.o.at), termK.Name()))
				case !s.tested:
					v.bad = append(v.bad, fmt.Sprintf("path [%s]: the interrupt received from %s @%s is neither tested nor returned before the return @%s: it is dropped", vmTrunc(p.decisions(), 220), s.s.name, c.Pos(s.s.call.Pos()), c.Pos(p.o.at)))
				}
			}
		}
		count := map[string]int{}
		for _, s := range sites {
			base := r2UnitKey(c, fn, s.call.Pos()) + "|interrupt from " + s.name
			count[base]++
			if count[base] > 1 {
				base += fmt.Sprintf(" #%d", count[base])
			}
			v := verdicts[s]
			ob := Obligation{Key: base + "|a termination passes through unchanged", Pos: c.Pos(s.call.Pos()), Nontrivial: true}
			switch {
			case len(v.bad) > 0:
				bad := vmUniq(v.bad)
				sort.Slice(bad, func(i, j int) bool { return len(bad[i]) < len(bad[j]) })
				if len(bad) > 2 {
					bad = bad[:2]
				}
				ob.Status, ob.Detail = Violated, strings.Join(bad, " | ")
			case len(v.latent) > 0:
				lat := vmUniq(v.latent)
				sort.Slice(lat, func(i, j int) bool { return len(lat[i]) < len(lat[j]) })
				ob.Status = Info
				ob.Detail = "latent: the interrupt would be replaced / dropped without a kind test, but only on path(s) that are unreachable today — " + lat[0] + ". The obligation becomes a violation as soon as that producer gets a caller"
			case v.paths == 0:
				ob.Status, ob.Detail = Discharged, "no returning path carries the interrupt (the paths through a non-nil interrupt end in a panic)"
			default:
				ob.Status, ob.Detail = Discharged, fmt.Sprintf("%d returning path(s): the received value itself is returned whenever it is non-nil (or its kind was tested excluding %s)", v.paths, termK.Name())
			}
			obs = append(obs, ob)
		}
	}
	if len(obs) == 0 {
		obs = append(obs, Obligation{Key: pkgs[0] + "|interrupt receive sites", Status: Undecided, Detail: "no function of the package receives an interrupt from a callee and returns one: re-anchor the rule"})
	}
	return obs
}
