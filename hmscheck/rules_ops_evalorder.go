package main

import (
	"fmt"
	"go/ast"
	"go/constant"
	"go/token"
	"go/types"
	"sort"
	"strings"
)

// R-eval-order — children of an AST node are compiled (VM) / evaluated
// (interpreter) in source order.
//
// A "child evaluation" is a call of a method of the engine (Compiler /
// Interpreter) that receives a part of the AST node the enclosing function
// works on (an argument whose access path starts at an AST-typed parameter
// and passes through at least one field, or an element of an AST list).
// Source order of the fields of a node comes from the node's own printer
// (opsEng.fieldOrder).

func init() {
	register(&Rule{ID: "R-eval-order", Floor: 32, Run: ruleEvalOrder,
		Doc: "in every compile case of the compiler and every evaluation case of the interpreter that evaluates >= 2 children of an AST node, the children are evaluated in source order on every path (source order of the fields = print order of the node's String()); every loop that evaluates the elements of an AST list runs first-to-last; for every such list the compiler's loop direction equals the interpreter's. Necessary for C01 (side effects in program order) and C04 (the engines agree on the order of side effects)"})
}

type eoRef struct {
	root  types.Object
	owner *types.TypeName // struct owning path[0]
	path  []string
	loops []ast.Stmt
}

func (r *eoRef) clone() *eoRef {
	n := *r
	n.path = append([]string(nil), r.path...)
	n.loops = append([]ast.Stmt(nil), r.loops...)
	return &n
}

func (r *eoRef) origin() string {
	if r.owner != nil {
		return r.owner.Name() + "." + strings.Join(r.path, ".")
	}
	if len(r.path) > 0 {
		return "(param " + r.root.Name() + ")." + strings.Join(r.path, ".")
	}
	return "(param " + r.root.Name() + ")"
}

type eoEvent struct {
	ref    *eoRef
	callee string
	pos    token.Pos
}

type eoSt struct {
	env map[types.Object]*eoRef
	ev  []eoEvent
}

// eoMarker: at this point the parameters of a spliced piece helper are bound to the caller's arguments.
type eoMarker struct {
	params []types.Object
	args   []ast.Expr
}

type eoLoop struct {
	fn    *ast.FuncDecl
	stmt  ast.Stmt
	list  *eoRef
	dir   string // "ascending" | "descending" | "?"
	isMap bool
	evals bool
}

type eoEngine struct {
	name   string
	rel    string
	recv   *types.TypeName
	loops  map[ast.Stmt]*eoLoop
	orig   map[types.Object][]string // slice parameter -> origins of the lists passed at call sites
	origFn map[types.Object][]string // ... and the functions containing those call sites (parallel to orig)
	// non-slice AST parameter (a part of the caller's node handed to a helper, e.g. node.Arguments) ->
	// origins of the parts passed at call sites / the calling functions
	partOrig, partFn map[types.Object][]string
	// piece helpers: methods that receive the very node the calling function works on (same concrete node
	// type, passed as the caller's own parameter) in a statement call. Their body is analysed in place of the
	// call, as part of the caller's case: the case keeps its key and its children keep their order.
	pieces  map[*types.Func]*ast.FuncDecl
	markers map[ast.Stmt]*eoMarker
	cases   []Obligation
	counts  int
}

func eoIsAST(t types.Type, astPkg *types.Package) bool {
	for {
		switch x := types.Unalias(t).(type) {
		case *types.Pointer:
			t = x.Elem()
			continue
		case *types.Slice:
			t = x.Elem()
			continue
		case *types.Named:
			if x.Obj().Pkg() != astPkg {
				return false
			}
			// evaluable parts only: nodes (structs) and node interfaces, not operator / kind enums
			switch x.Underlying().(type) {
			case *types.Struct, *types.Interface:
				return true
			}
			return false
		}
		return false
	}
}

func eoLoopDir(info *types.Info, f *ast.ForStmt) (v types.Object, dir string) {
	as, ok := f.Init.(*ast.AssignStmt)
	if !ok || as.Tok != token.DEFINE || len(as.Lhs) != 1 {
		return nil, "?"
	}
	id, ok := as.Lhs[0].(*ast.Ident)
	if !ok {
		return nil, "?"
	}
	v = info.Defs[id]
	// step: i++ / i-- / i += c / i -= c / i = i + c / i = i - c (c a positive constant)
	step := 0
	isV := func(e ast.Expr) bool {
		id, ok := ast.Unparen(e).(*ast.Ident)
		return ok && info.Uses[id] == v
	}
	posConst := func(e ast.Expr) bool {
		tv, ok := info.Types[e]
		return ok && tv.Value != nil && constant.Sign(tv.Value) > 0
	}
	switch post := f.Post.(type) {
	case *ast.IncDecStmt:
		if isV(post.X) {
			if post.Tok == token.INC {
				step = 1
			} else {
				step = -1
			}
		}
	case *ast.AssignStmt:
		if len(post.Lhs) == 1 && len(post.Rhs) == 1 && isV(post.Lhs[0]) {
			switch post.Tok {
			case token.ADD_ASSIGN:
				if posConst(post.Rhs[0]) {
					step = 1
				}
			case token.SUB_ASSIGN:
				if posConst(post.Rhs[0]) {
					step = -1
				}
			case token.ASSIGN:
				if be, ok := ast.Unparen(post.Rhs[0]).(*ast.BinaryExpr); ok && isV(be.X) && posConst(be.Y) {
					if be.Op == token.ADD {
						step = 1
					} else if be.Op == token.SUB {
						step = -1
					}
				}
			}
		}
	}
	if step == 0 {
		return v, "?"
	}
	cond, ok := ast.Unparen(f.Cond).(*ast.BinaryExpr)
	if !ok {
		return v, "?"
	}
	op := cond.Op
	switch {
	case isV(cond.X):
	case isV(cond.Y):
		op = opsFlip(op) // n > i
	default:
		return v, "?"
	}
	switch {
	case step > 0 && (op == token.LSS || op == token.LEQ || op == token.NEQ):
		return v, "ascending"
	case step < 0 && (op == token.GEQ || op == token.GTR || op == token.NEQ):
		return v, "descending"
	}
	return v, "?"
}

func (en *eoEngine) walkFunc(c *Ctx, g *opsEng, fd *ast.FuncDecl, astPkg *types.Package) {
	info := g.info(fd)
	fn, _ := info.Defs[fd.Name].(*types.Func)
	if fn == nil {
		return
	}
	sig := fn.Type().(*types.Signature)
	if sig.Recv() == nil || opsTypeName(sig.Recv().Type()) != en.recv {
		return
	}
	roots := map[types.Object]bool{}
	for i := 0; i < sig.Params().Len(); i++ {
		if eoIsAST(sig.Params().At(i).Type(), astPkg) {
			roots[sig.Params().At(i)] = true
		}
	}
	if len(roots) == 0 {
		return
	}
	if en.pieces[fn] != nil {
		return // analysed inside its callers
	}
	body := en.splicePieces(info, fd.Body, 0)
	// index-loop variables: the counter of a for loop, the key of a range loop
	loopVar := map[types.Object]ast.Stmt{}
	ast.Inspect(body, func(n ast.Node) bool {
		switch f := n.(type) {
		case *ast.ForStmt:
			if v, dir := eoLoopDir(info, f); v != nil {
				loopVar[v] = f
				if en.loops[f] == nil {
					en.loops[f] = &eoLoop{fn: fd, stmt: f, dir: dir}
				}
			}
		case *ast.RangeStmt:
			if id, ok := f.Key.(*ast.Ident); ok && f.Tok == token.DEFINE && id.Name != "_" {
				if v := info.Defs[id]; v != nil {
					loopVar[v] = f
				}
			}
		}
		return true
	})
	var eval func(st *eoSt, e ast.Expr) *eoRef
	eval = func(st *eoSt, e ast.Expr) *eoRef {
		switch x := e.(type) {
		case *ast.ParenExpr:
			return eval(st, x.X)
		case *ast.StarExpr:
			return eval(st, x.X)
		case *ast.UnaryExpr:
			if x.Op == token.AND {
				return eval(st, x.X)
			}
		case *ast.Ident:
			obj := info.Uses[x]
			if obj == nil {
				obj = info.Defs[x]
			}
			if r, ok := st.env[obj]; ok {
				return r
			}
			if roots[obj] {
				return &eoRef{root: obj}
			}
		case *ast.TypeAssertExpr:
			return eval(st, x.X)
		case *ast.CallExpr:
			// an accessor of the node: a nullary method whose body is `return recv.F.G`
			if len(x.Args) != 0 {
				return nil
			}
			fsel, ok := ast.Unparen(x.Fun).(*ast.SelectorExpr)
			if !ok {
				return nil
			}
			if s := info.Selections[fsel]; s == nil || s.Kind() != types.MethodVal {
				return nil
			}
			path := eoAccessorPath(g, CalleeOf(info, x))
			if len(path) == 0 {
				return nil
			}
			b := eval(st, fsel.X)
			if b == nil {
				return nil
			}
			r := b.clone()
			if len(r.path) == 0 {
				r.owner = opsTypeName(info.TypeOf(fsel.X))
			}
			r.path = append(r.path, path...)
			return r
		case *ast.SelectorExpr:
			sel := info.Selections[x]
			if sel == nil || sel.Kind() != types.FieldVal {
				return nil
			}
			b := eval(st, x.X)
			if b == nil {
				return nil
			}
			r := b.clone()
			if len(r.path) == 0 {
				r.owner = opsTypeName(info.TypeOf(x.X))
			}
			r.path = append(r.path, x.Sel.Name)
			return r
		case *ast.IndexExpr:
			b := eval(st, x.X)
			if b == nil {
				return nil
			}
			r := b.clone()
			// the index is (computed from) a loop variable: xs[i], xs[i-1], xs[len(xs)-1-i] is not distinguished
			// from xs[i] — the direction of the loop is what is judged
			var f ast.Stmt
			ast.Inspect(x.Index, func(n ast.Node) bool {
				if id, ok := n.(*ast.Ident); ok && f == nil {
					if lf := loopVar[info.Uses[id]]; lf != nil {
						f = lf
					}
				}
				return f == nil
			})
			if f != nil {
				r.loops = append(r.loops, f)
				if l := en.loops[f]; l != nil && l.list == nil {
					l.list = b
				}
			}
			return r
		}
		return nil
	}
	scan := func(st *eoSt, n ast.Node) {
		if n == nil {
			return
		}
		// post-order: arguments are evaluated before the call that receives them
		var calls []*ast.CallExpr
		ast.Inspect(n, func(x ast.Node) bool {
			if _, ok := x.(*ast.FuncLit); ok {
				return false
			}
			if call, ok := x.(*ast.CallExpr); ok {
				calls = append(calls, call)
			}
			return true
		})
		sort.SliceStable(calls, func(i, j int) bool { return calls[i].End() < calls[j].End() })
		for _, call := range calls {
			cal := CalleeOf(info, call)
			if cal == nil {
				continue
			}
			csig, _ := cal.Type().(*types.Signature)
			if csig == nil || csig.Recv() == nil || opsTypeName(csig.Recv().Type()) != en.recv {
				continue
			}
			for i, a := range call.Args {
				if !eoIsAST(info.TypeOf(a), astPkg) {
					continue
				}
				r := eval(st, a)
				if r == nil {
					continue
				}
				// list handed to a helper: remember where the helper's parameter comes from
				if i < csig.Params().Len() {
					if _, isSlice := types.Unalias(csig.Params().At(i).Type()).(*types.Slice); isSlice && (len(r.path) > 0) {
						p := csig.Params().At(i)
						o := r.origin()
						dup := false
						for _, x := range en.orig[p] {
							if x == o {
								dup = true
							}
						}
						if !dup {
							en.orig[p] = append(en.orig[p], o)
							en.origFn[p] = append(en.origFn[p], fd.Name.Name)
						}
					} else if !isSlice && len(r.path) > 0 && len(r.loops) == 0 {
						p := csig.Params().At(i)
						o := r.origin()
						dup := false
						for _, x := range en.partOrig[p] {
							if x == o {
								dup = true
							}
						}
						if !dup {
							en.partOrig[p] = append(en.partOrig[p], o)
							en.partFn[p] = append(en.partFn[p], fd.Name.Name)
						}
					}
				}
				if len(r.path) == 0 && len(r.loops) == 0 {
					continue // the node itself: delegation, not a child
				}
				st.ev = append(st.ev, eoEvent{ref: r, callee: cal.Name(), pos: call.Pos()})
				for _, l := range r.loops {
					if lp := en.loops[l]; lp != nil {
						lp.evals = true
					}
				}
			}
		}
	}
	bind := func(st *eoSt, l ast.Expr, r *eoRef) {
		id, ok := l.(*ast.Ident)
		if !ok || id.Name == "_" {
			return
		}
		obj := info.Defs[id]
		if obj == nil {
			obj = info.Uses[id]
		}
		if obj == nil {
			return
		}
		if r == nil {
			delete(st.env, obj)
		} else {
			st.env[obj] = r
		}
	}
	type pathRes struct{ ev []eoEvent }
	var paths []pathRes
	w := &Walker[*eoSt]{
		MaxPaths: 20000,
		Clone: func(s *eoSt) *eoSt {
			n := &eoSt{env: make(map[types.Object]*eoRef, len(s.env)), ev: append([]eoEvent(nil), s.ev...)}
			for k, v := range s.env {
				n.env[k] = v
			}
			return n
		},
		IsPanic: func(s ast.Stmt) bool { return IsPanicCall(info, s) },
		OnStmt: func(st *eoSt, s ast.Stmt) (*eoSt, bool) {
			if mk := en.markers[s]; mk != nil {
				refs := make([]*eoRef, len(mk.args))
				for i, a := range mk.args {
					refs[i] = eval(st, a)
				}
				for i, p := range mk.params {
					if p == nil {
						continue
					}
					if refs[i] == nil {
						delete(st.env, p)
					} else {
						st.env[p] = refs[i]
					}
				}
				return st, true
			}
			switch x := s.(type) {
			case *ast.AssignStmt:
				for _, r := range x.Rhs {
					scan(st, r)
				}
				if len(x.Lhs) == len(x.Rhs) {
					for i, l := range x.Lhs {
						bind(st, l, eval(st, x.Rhs[i]))
					}
				} else {
					for i, l := range x.Lhs {
						if i == 0 && len(x.Rhs) == 1 {
							if ta, ok := ast.Unparen(x.Rhs[0]).(*ast.TypeAssertExpr); ok {
								bind(st, l, eval(st, ta))
								continue
							}
						}
						bind(st, l, nil)
					}
				}
			case *ast.DeclStmt:
				scan(st, x)
			default:
				scan(st, s)
			}
			return st, true
		},
		OnCond: func(st *eoSt, cond ast.Expr, taken bool) (*eoSt, bool) {
			scan(st, cond)
			return st, true
		},
		OnCase: func(st *eoSt, sw *ast.SwitchStmt, vals, others []ast.Expr) (*eoSt, bool) {
			scan(st, sw.Tag)
			return st, true
		},
		OnRange: func(st *eoSt, r *ast.RangeStmt) (*eoSt, bool) {
			scan(st, r.X)
			lst := eval(st, r.X)
			lp := en.loops[r]
			if lp == nil {
				lp = &eoLoop{fn: fd, stmt: r, dir: "ascending"}
				if _, isMap := info.TypeOf(r.X).Underlying().(*types.Map); isMap {
					lp.isMap = true
					lp.dir = "map order"
				}
				en.loops[r] = lp
			}
			if lst != nil && lp.list == nil {
				lp.list = lst
			}
			if r.Key != nil {
				bind(st, r.Key, nil)
			}
			if r.Value != nil {
				if lst != nil {
					v := lst.clone()
					v.loops = append(v.loops, r)
					bind(st, r.Value, v)
				} else {
					bind(st, r.Value, nil)
				}
			}
			return st, true
		},
	}
	w.Exit = func(st *eoSt, o outcome) {
		if o.kind == cPanic {
			return
		}
		paths = append(paths, pathRes{ev: st.ev})
	}
	w.Run(body, &eoSt{env: map[types.Object]*eoRef{}})
	fname := en.name + "." + fd.Name.Name
	if w.Overflow {
		en.cases = append(en.cases, Obligation{Key: fname + "|<paths>", Pos: c.Pos(fd.Pos()), Status: Undecided, Detail: "path enumeration overflow"})
		return
	}
	// group by owner type
	type caseAcc struct {
		owner   *types.TypeName
		fields  map[string]bool
		viol    string
		violPos token.Pos
		example string
		pos     token.Pos
		unknown []string
	}
	accs := map[*types.TypeName]*caseAcc{}
	for _, p := range paths {
		perOwner := map[*types.TypeName][]eoEvent{}
		for _, e := range p.ev {
			if e.ref.owner == nil || len(e.ref.path) == 0 {
				continue
			}
			perOwner[e.ref.owner] = append(perOwner[e.ref.owner], e)
		}
		for owner, evs := range perOwner {
			a := accs[owner]
			if a == nil {
				a = &caseAcc{owner: owner, fields: map[string]bool{}, pos: evs[0].pos}
				accs[owner] = a
			}
			var first []eoEvent
			seen := map[string]bool{}
			for _, e := range evs {
				f := e.ref.path[0]
				a.fields[f] = true
				if !seen[f] {
					seen[f] = true
					first = append(first, e)
				}
			}
			if len(first) >= 2 && (a.example == "" || len(first) > strings.Count(a.example, ",")+1) {
				var fs []string
				for _, e := range first {
					fs = append(fs, e.ref.path[0])
				}
				a.example = strings.Join(fs, ", ")
			}
			ord := g.fieldOrder(owner)
			for i := 0; i+1 < len(first); i++ {
				for j := i + 1; j < len(first); j++ {
					fi, fj := first[i].ref.path[0], first[j].ref.path[0]
					before, known := ord.before(fj, fi)
					if !known {
						u := fi + "/" + fj
						dup := false
						for _, x := range a.unknown {
							if x == u {
								dup = true
							}
						}
						if !dup {
							a.unknown = append(a.unknown, u)
						}
						continue
					}
					if before && a.viol == "" {
						a.viol = fmt.Sprintf("%s (%s at %s) is evaluated before %s (%s at %s) although %s precedes %s in source order (%s)",
							fi, first[i].callee, c.Pos(first[i].pos), fj, first[j].callee, c.Pos(first[j].pos), fj, fi, ord.how)
						a.violPos = first[j].pos
					}
				}
			}
		}
	}
	var owners []*types.TypeName
	for o, a := range accs {
		if len(a.fields) >= 2 {
			owners = append(owners, o)
		}
	}
	sort.Slice(owners, func(i, j int) bool { return owners[i].Name() < owners[j].Name() })
	for _, o := range owners {
		a := accs[o]
		ob := Obligation{Key: fmt.Sprintf("%s|%s", fname, o.Name()), Pos: c.Pos(a.pos), Nontrivial: true}
		switch {
		case a.viol != "":
			ob.Status, ob.Detail, ob.Pos = Violated, a.viol, c.Pos(a.violPos)
		case len(a.unknown) > 0 && a.example == "":
			ob.Status, ob.Detail = Discharged, "children on disjoint paths only"
		default:
			ob.Status = Discharged
			ob.Detail = fmt.Sprintf("children evaluated in the order %s on every path (%s)", a.example, g.fieldOrder(o).how)
			if len(a.unknown) > 0 {
				ob.Detail += "; not ordered by the printer (no constraint): " + strings.Join(a.unknown, " ")
			}
		}
		en.cases = append(en.cases, ob)
	}
}

// eoAccessorPath: the field path a nullary method returns (`return self.A.B` -> [A B]); nil for any other body.
func eoAccessorPath(g *opsEng, fn *types.Func) []string {
	fd := g.decls[fn]
	if fn == nil || fd == nil || fd.Recv == nil || len(fd.Recv.List) != 1 || len(fd.Recv.List[0].Names) != 1 || len(fd.Body.List) != 1 {
		return nil
	}
	rs, ok := fd.Body.List[0].(*ast.ReturnStmt)
	if !ok || len(rs.Results) != 1 {
		return nil
	}
	info := g.info(fd)
	recv := info.Defs[fd.Recv.List[0].Names[0]]
	var path []string
	e := ast.Unparen(rs.Results[0])
	for {
		switch x := e.(type) {
		case *ast.SelectorExpr:
			if s := info.Selections[x]; s == nil || s.Kind() != types.FieldVal {
				return nil
			}
			path = append([]string{x.Sel.Name}, path...)
			e = ast.Unparen(x.X)
			continue
		case *ast.StarExpr:
			e = ast.Unparen(x.X)
			continue
		case *ast.Ident:
			if recv != nil && info.Uses[x] == recv {
				return path
			}
		}
		return nil
	}
}

// findPieces determines the piece helpers of the engine (see eoEngine.pieces).
func (en *eoEngine) findPieces(c *Ctx, g *opsEng, astPkg *types.Package) {
	en.pieces = map[*types.Func]*ast.FuncDecl{}
	en.markers = map[ast.Stmt]*eoMarker{}
	p := c.Pkg(en.rel)
	info := p.TypesInfo
	isNodeStruct := func(t types.Type) bool {
		n, ok := types.Unalias(t).(*types.Named)
		if !ok || n.Obj().Pkg() != astPkg {
			return false
		}
		_, isStruct := n.Underlying().(*types.Struct)
		return isStruct
	}
	cand := map[*types.Func]*ast.FuncDecl{}
	for _, fd := range AllFuncDecls(p) {
		fn, _ := info.Defs[fd.Name].(*types.Func)
		if fn == nil || fd.Body == nil {
			continue
		}
		sig := fn.Type().(*types.Signature)
		if sig.Recv() == nil || opsTypeName(sig.Recv().Type()) != en.recv || sig.Results().Len() != 0 || sig.Variadic() {
			continue
		}
		hasNode := false
		for i := 0; i < sig.Params().Len(); i++ {
			if isNodeStruct(sig.Params().At(i).Type()) {
				hasNode = true
			}
		}
		if !hasNode {
			continue
		}
		clean := true
		ast.Inspect(fd.Body, func(n ast.Node) bool {
			switch n.(type) {
			case *ast.FuncLit:
				return false
			case *ast.ReturnStmt, *ast.DeferStmt:
				clean = false
			}
			return clean
		})
		if clean {
			cand[fn] = fd
		}
	}
	if len(cand) == 0 {
		return
	}
	// every call of a candidate must be a statement call inside an engine method that passes one of its own
	// parameters, of the identical node type
	called := map[*types.Func]bool{}
	for _, fd := range AllFuncDecls(p) {
		fn, _ := info.Defs[fd.Name].(*types.Func)
		if fn == nil || fd.Body == nil {
			continue
		}
		sig := fn.Type().(*types.Signature)
		isParam := map[types.Object]bool{}
		if sig.Recv() != nil && opsTypeName(sig.Recv().Type()) == en.recv {
			for i := 0; i < sig.Params().Len(); i++ {
				isParam[sig.Params().At(i)] = true
			}
		}
		stmtCalls := map[*ast.CallExpr]bool{}
		ast.Inspect(fd.Body, func(n ast.Node) bool {
			if es, ok := n.(*ast.ExprStmt); ok {
				if call, ok := ast.Unparen(es.X).(*ast.CallExpr); ok {
					stmtCalls[call] = true
				}
			}
			return true
		})
		ast.Inspect(fd.Body, func(n ast.Node) bool {
			call, ok := n.(*ast.CallExpr)
			if !ok {
				return true
			}
			cal := CalleeOf(info, call)
			if cal == nil || cand[cal] == nil {
				return true
			}
			okSite := stmtCalls[call] && cal != fn && !call.Ellipsis.IsValid()
			if okSite {
				csig := cal.Type().(*types.Signature)
				passes := false
				for i, a := range call.Args {
					if i >= csig.Params().Len() || !isNodeStruct(csig.Params().At(i).Type()) {
						continue
					}
					id, isId := ast.Unparen(a).(*ast.Ident)
					if isId && isParam[info.Uses[id]] && types.Identical(info.TypeOf(a), csig.Params().At(i).Type()) {
						passes = true
					}
				}
				okSite = passes
			}
			if !okSite {
				delete(cand, cal)
			} else {
				called[cal] = true
			}
			return true
		})
	}
	for fn, fd := range cand {
		if called[fn] {
			en.pieces[fn] = fd
		}
	}
	// method values / other references: any use of the method object outside a call position disqualifies
	for _, fd := range AllFuncDecls(p) {
		if fd.Body == nil {
			continue
		}
		callFun := map[ast.Expr]bool{}
		ast.Inspect(fd.Body, func(n ast.Node) bool {
			if call, ok := n.(*ast.CallExpr); ok {
				callFun[ast.Unparen(call.Fun)] = true
			}
			return true
		})
		ast.Inspect(fd.Body, func(n ast.Node) bool {
			if sel, ok := n.(*ast.SelectorExpr); ok && !callFun[sel] {
				if cal, ok := info.Uses[sel.Sel].(*types.Func); ok {
					delete(en.pieces, cal)
				}
			}
			return true
		})
	}
}

// splicePieces: body with every statement call of a piece helper replaced by a marker (binding the helper's
// parameters to the arguments) followed by the helper's body.
func (en *eoEngine) splicePieces(info *types.Info, body *ast.BlockStmt, depth int) *ast.BlockStmt {
	if len(en.pieces) == 0 || depth > 3 {
		return body
	}
	return opsRewriteStmts(body, true, func(s ast.Stmt) []ast.Stmt {
		es, ok := s.(*ast.ExprStmt)
		if !ok {
			return nil
		}
		call, ok := ast.Unparen(es.X).(*ast.CallExpr)
		if !ok {
			return nil
		}
		cal := CalleeOf(info, call)
		pd := en.pieces[cal]
		if pd == nil {
			return nil
		}
		mk := &eoMarker{}
		i := 0
		for _, f := range pd.Type.Params.List {
			for _, nm := range f.Names {
				if i < len(call.Args) {
					mk.params = append(mk.params, info.Defs[nm])
					mk.args = append(mk.args, call.Args[i])
				}
				i++
			}
		}
		m := opsMarker()
		en.markers[m] = mk
		inner := en.splicePieces(info, pd.Body, depth+1)
		return []ast.Stmt{m, &ast.BlockStmt{Lbrace: pd.Body.Lbrace, List: inner.List, Rbrace: pd.Body.Rbrace}}
	})
}

func (en *eoEngine) resolveOrigin(l *eoLoop) string {
	if l.list == nil {
		return ""
	}
	if l.list.owner == nil && len(l.list.path) == 0 {
		if os := en.orig[l.list.root]; len(os) == 1 {
			return os[0]
		} else if len(os) > 1 {
			return strings.Join(os, " / ")
		}
	}
	return l.list.origin()
}

func ruleEvalOrder(c *Ctx) []Obligation {
	m := opsModelOf(c)
	if obs := opsAnchorObs(m); len(obs) > 0 {
		return obs
	}
	g := m.g
	astPkg := c.Pkg("homescript/analyzer/ast").Types
	engines := []*eoEngine{
		{name: "compiler", rel: "homescript/compiler", recv: m.cmpRecv},
		{name: "interpreter", rel: "homescript/interpreter", recv: m.intRecv},
	}
	var obs []Obligation
	type loopRow struct {
		en     *eoEngine
		l      *eoLoop
		origin string
	}
	byOrigin := map[string]map[string][]loopRow{} // origin -> engine -> loops
	for _, en := range engines {
		en.loops = map[ast.Stmt]*eoLoop{}
		en.orig = map[types.Object][]string{}
		en.origFn = map[types.Object][]string{}
		en.partOrig = map[types.Object][]string{}
		en.partFn = map[types.Object][]string{}
		en.findPieces(c, g, astPkg)
		for _, fd := range AllFuncDecls(c.Pkg(en.rel)) {
			en.walkFunc(c, g, fd, astPkg)
		}
		obs = append(obs, en.cases...)
		var ls []*eoLoop
		for _, l := range en.loops {
			if l.evals && !l.isMap {
				ls = append(ls, l)
			}
		}
		sort.Slice(ls, func(i, j int) bool { return ls[i].stmt.Pos() < ls[j].stmt.Pos() })
		seenKey := map[string]int{}
		for _, l := range ls {
			origin := en.resolveOrigin(l)
			// where the obligation is keyed and which lists it concerns. A loop is keyed by the function it
			// stands in. A loop over a bare slice parameter that does NOT run first-to-last is reported once per
			// call site instead, under the key it would have if it were written in the calling function: the
			// finding keeps its key when the loop is extracted into (or merged with another one in) a helper.
			type site struct{ fn, origin string }
			sites := []site{{l.fn.Name.Name, origin}}
			perOrigin := []string{origin}
			if l.list != nil && l.list.owner == nil && len(l.list.path) == 0 {
				if os := en.orig[l.list.root]; len(os) > 0 {
					perOrigin = os
					if l.dir != "ascending" {
						sites = sites[:0]
						for i, o := range os {
							sites = append(sites, site{en.origFn[l.list.root][i], o})
						}
					}
				}
			} else if l.list != nil && len(l.list.path) > 0 && l.dir != "ascending" {
				// the list is a field of a part of the caller's node that was handed over whole
				// (compileArgs(node.Arguments) looping over args.List): same attribution
				if os := en.partOrig[l.list.root]; len(os) > 0 {
					sites, perOrigin = sites[:0], nil
					for i, o := range os {
						full := o + "." + strings.Join(l.list.path, ".")
						sites = append(sites, site{en.partFn[l.list.root][i], full})
						perOrigin = append(perOrigin, full)
					}
				}
			}
			for _, sc := range sites {
				key := fmt.Sprintf("%s.%s|loop over %s", en.name, sc.fn, sc.origin)
				seenKey[key]++
				if seenKey[key] > 1 {
					key += fmt.Sprintf("#%d", seenKey[key])
				}
				o := Obligation{Key: key, Pos: c.Pos(l.stmt.Pos()), Nontrivial: true}
				switch l.dir {
				case "ascending":
					o.Status, o.Detail = Discharged, "elements evaluated first-to-last"
				case "descending":
					o.Status = Violated
					o.Detail = fmt.Sprintf("the loop runs from the last element of %s down to the first and evaluates each element in its body: the elements' side effects happen in reverse source order", sc.origin)
				default:
					o.Status, o.Detail = Undecided, "direction of the index loop not recognised (init/cond/post shape)"
				}
				if sc.fn != l.fn.Name.Name {
					o.Detail += fmt.Sprintf(" (loop in %s.%s, called from %s with this list)", en.name, l.fn.Name.Name, sc.fn)
				}
				obs = append(obs, o)
			}
			for _, og := range perOrigin {
				if byOrigin[og] == nil {
					byOrigin[og] = map[string][]loopRow{}
				}
				byOrigin[og][en.name] = append(byOrigin[og][en.name], loopRow{en, l, og})
			}
		}
	}
	// sibling agreement of loop directions
	var origins []string
	for o := range byOrigin {
		origins = append(origins, o)
	}
	sort.Strings(origins)
	for _, o := range origins {
		cl, il := byOrigin[o]["compiler"], byOrigin[o]["interpreter"]
		if len(cl) == 0 {
			continue
		}
		ob := Obligation{Key: "sibling|" + o, Pos: c.Pos(cl[0].l.stmt.Pos()), Nontrivial: true}
		if len(il) == 0 {
			ob.Status = Info
			ob.Detail = "the interpreter has no loop evaluating this list (fragment boundary); compiler direction: " + cl[0].l.dir
			obs = append(obs, ob)
			continue
		}
		dirs := func(rs []loopRow) string {
			set := map[string]bool{}
			for _, r := range rs {
				set[r.l.dir] = true
			}
			var s []string
			for d := range set {
				s = append(s, d)
			}
			sort.Strings(s)
			return strings.Join(s, "/")
		}
		cd, id := dirs(cl), dirs(il)
		if cd == id {
			ob.Status, ob.Detail = Discharged, fmt.Sprintf("compiler and interpreter both evaluate the list %s", cd)
		} else {
			ob.Status = Violated
			ob.Detail = fmt.Sprintf("the compiler (%s) emits the evaluation of the list elements %s, the interpreter (%s.%s, %s) evaluates them %s: the two engines run the elements' side effects in different orders",
				c.Pos(cl[0].l.stmt.Pos()), cd, "interpreter", il[0].l.fn.Name.Name, c.Pos(il[0].l.stmt.Pos()), id)
		}
		obs = append(obs, ob)
	}
	// field orders used (evidence)
	var used []string
	for tn, o := range g.ordMemo {
		if tn.Pkg() == astPkg && len(o.rank) >= 2 {
			type kv struct {
				f string
				r int
			}
			var fs []kv
			for f, r := range o.rank {
				fs = append(fs, kv{f, r})
			}
			sort.Slice(fs, func(i, j int) bool { return fs[i].r < fs[j].r })
			var names []string
			for _, f := range fs {
				names = append(names, f.f)
			}
			used = append(used, tn.Name()+": "+strings.Join(names, " < "))
		}
	}
	sort.Strings(used)
	obs = append(obs, Obligation{Key: "<tables>", Status: Info, Detail: "source order of node fields (from the nodes' String()):\n  " + strings.Join(used, "\n  ")})
	return obs
}
