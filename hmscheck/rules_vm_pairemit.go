package main

import (
	"fmt"
	"go/ast"
	"go/token"
	"go/types"
	"sort"
	"strings"
)

// vmRunKinds: the paths of one iteration of the VM's run loop (the statements
// around the call of the instruction dispatcher in Core.Run, helpers spliced
// in), classified by the interrupt kind they handle. The kind is decided
// wherever the code decides it — a switch over (*i).Kind(), an if-chain, in
// Core.Run or in a helper it calls: a path handles kind k when it contains a
// decision on the kind and none of its decisions contradicts kind == k.
type vmKindPath struct {
	p  *vmPath
	j0 int // index of the first decision on the interrupt kind
}

type vmRunKinds struct {
	fn       *vmFn
	res      *vmWalkResult
	kindEnum *Enum
	normal   *types.Const
	byKind   map[*types.Const][]vmKindPath
	pos      map[*types.Const]token.Pos
	how      map[*types.Const]string
}

var vmRunKindsCache = map[*Ctx]*vmRunKinds{}

func vmIsKindDecision(info *types.Info, e vmEv, kindT types.Type) bool {
	switch e.K {
	case evCase:
		sw, _ := e.Sw.(*ast.SwitchStmt)
		return !e.Select && sw != nil && sw.Tag != nil && info.TypeOf(sw.Tag) != nil && types.Identical(info.TypeOf(sw.Tag), kindT)
	case evCond:
		b, ok := ast.Unparen(e.X).(*ast.BinaryExpr)
		if !ok || (b.Op != token.EQL && b.Op != token.NEQ) {
			return false
		}
		for _, x := range []ast.Expr{b.X, b.Y} {
			if k := ConstOf(info, ast.Unparen(x)); k != nil && types.Identical(k.Type(), kindT) {
				return true
			}
		}
	}
	return false
}

func vmRunKindPaths(c *Ctx) *vmRunKinds {
	if r := vmRunKindsCache[c]; r != nil {
		return r
	}
	roles := vmRoles(c)
	rk := &vmRunKinds{fn: roles.run, byKind: map[*types.Const][]vmKindPath{}, pos: map[*types.Const]token.Pos{}, how: map[*types.Const]string{}}
	rk.normal = vmConst(c, "homescript/runtime/value", "Vm_NormalExceptionInterruptKind")
	rk.kindEnum = c.EnumOf(rk.normal.Type())
	if rk.kindEnum == nil {
		fatalf("anchor unresolved: the type of value.Vm_NormalExceptionInterruptKind is not an enum")
	}
	rl := vmRunOuter(c)
	loopBody := rl.outer.Body
	if rl.inner != nil {
		loopBody = rl.inner.Body
	}
	rk.res = vmWalk(vmWalkOpts{fn: rk.fn, body: loopBody, inline: vmRunInline(c)})
	info := rk.fn.info
	any := false
	for _, k := range rk.kindEnum.Consts {
		as := &vmAssume{info: info, k: k}
		for i := range rk.res.paths {
			p := &rk.res.paths[i]
			j0 := -1
			for j, e := range p.ev {
				if vmIsKindDecision(info, e, rk.normal.Type()) {
					j0 = j
					break
				}
			}
			if j0 < 0 || !as.feasible(p) {
				continue
			}
			any = true
			rk.byKind[k] = append(rk.byKind[k], vmKindPath{p: p, j0: j0})
			if _, ok := rk.pos[k]; !ok {
				e := p.ev[j0]
				rk.pos[k] = e.Pos
				switch {
				case e.K == evCase && e.Vals != nil:
					rk.pos[k], rk.how[k] = vmClausePos(e), "explicit clause"
				case e.K == evCase:
					rk.how[k] = "default clause"
					if sw, ok := e.Sw.(*ast.SwitchStmt); ok {
						// position of the default clause (the rewritten switch keeps the clause positions)
						for _, cl := range sw.Body.List {
							if cc := cl.(*ast.CaseClause); cc.List == nil {
								rk.pos[k] = cc.Pos()
							}
						}
					}
				default:
					rk.how[k] = "if-chain"
				}
			}
		}
	}
	if !any {
		fatalf("anchor unresolved: no path of the run loop of Core.Run decides on the kind of the interrupt returned by the instruction dispatcher")
	}
	vmRunKindsCache[c] = rk
	return rk
}

// vmRunPopsHandler: does the VM's exception branch itself remove the handler
// record it dispatches to? (Today it only peeks; the emitted PopTryLabel at
// the handler entry removes it.)
func vmRunPopsHandler(c *Ctx) bool {
	rk := vmRunKindPaths(c)
	hf := vmStructField(rk.fn.pkg, "Core", "ExceptionCatchLabels")
	if hf == nil {
		fatalf("anchor unresolved: runtime.Core.ExceptionCatchLabels")
	}
	for _, kp := range rk.byKind[rk.normal] {
		for _, e := range kp.p.ev[kp.j0:] {
			if e.K == evAssign && e.Rhs != nil {
				if d, ok := vmSliceWrite(rk.fn.info, e.Lhs, e.Rhs, hf); ok && d < 0 {
					return true
				}
			}
		}
	}
	return false
}

type vmPE struct {
	c   *Ctx
	r   *vmCompilerRoles
	w   *vmCompWalk
	obs []Obligation
}

func (pe *vmPE) add(key string, pos token.Pos, bad []string, ok string) {
	ob := Obligation{Key: key, Pos: pe.c.Pos(pos), Status: Discharged, Detail: ok, Nontrivial: true}
	if bad = vmUniq(bad); len(bad) > 0 {
		ob.Status = Violated
		if len(bad) > 3 {
			bad = append(bad[:3], fmt.Sprintf("… %d more", len(bad)-3))
		}
		ob.Detail = strings.Join(bad, " || ")
	}
	pe.obs = append(pe.obs, ob)
}

func vmEmits(tr []vmEm) []int {
	var out []int
	for i, e := range tr {
		if e.kind == emEmit {
			out = append(out, i)
		}
	}
	return out
}

func vmHasOp(tr []vmEm, name string) bool {
	for _, e := range tr {
		if e.is(name) {
			return true
		}
	}
	return false
}

func vmArgObj(info *types.Info, e vmEm, i int) types.Object {
	if i >= len(e.args) {
		return nil
	}
	return vmObjOf(info, e.args[i])
}

func ruleVMPairEmit(c *Ctx) []Obligation {
	pe := &vmPE{c: c, r: vmCompRoles(c), w: vmCompUnits(c)}
	pe.obs = append(pe.obs, pe.w.problems...)
	pe.try()
	pe.frames()
	pe.controlLowering()
	pe.loopRecords()
	pe.labelsOnce()
	pe.nonLocalExits()
	return pe.obs
}

// ---- try / catch

func (pe *vmPE) try() {
	vmPops := vmRunPopsHandler(pe.c)
	found := 0
	for _, u := range pe.w.units {
		has := false
		for _, tr := range u.trs {
			if vmHasOp(tr, "Opcode_SetTryLabel") {
				has = true
			}
		}
		if !has {
			continue
		}
		found++
		info := u.fn.info
		var badNormal, badHandler, badJump []string
		n := 0
		for pi, tr := range u.trs {
			p := u.paths[pi]
			if !vmNormalExit(p) {
				continue
			}
			n++
			w := fmt.Sprintf("emitted: %s (path [%s])", vmTraceStr(tr), p.decisions())
			var sets []int
			for i, e := range tr {
				if e.is("Opcode_SetTryLabel") {
					sets = append(sets, i)
				}
			}
			if len(sets) != 1 {
				badNormal = append(badNormal, fmt.Sprintf("%d SetTryLabel emissions on one path; %s", len(sets), w))
				continue
			}
			set := sets[0]
			// the handler label: the SetTryLabel argument that is also emitted as a Label
			lab := -1
			for i := set + 1; i < len(tr) && lab < 0; i++ {
				if !tr[i].is("Opcode_Label") {
					continue
				}
				lo := vmArgObj(info, tr[i], 0)
				for k := range tr[set].args {
					if o := vmArgObj(info, tr[set], k); o != nil && o == lo {
						lab = i
					}
				}
			}
			if lab < 0 {
				badHandler = append(badHandler, "the handler label passed to SetTryLabel is never emitted after it; "+w)
				continue
			}
			// normal continuation: (set, lab)
			pops, lastCompile, popAt := 0, -1, -1
			for i := set + 1; i < lab; i++ {
				if tr[i].is("Opcode_PopTryLabel") {
					pops++
					popAt = i
				}
				if tr[i].kind == emCompile {
					lastCompile = i
				}
			}
			if pops != 1 {
				badNormal = append(badNormal, fmt.Sprintf("%d PopTryLabel between SetTryLabel and the handler label (want exactly 1); %s", pops, w))
			} else if popAt < lastCompile {
				badNormal = append(badNormal, "PopTryLabel on the normal continuation is emitted before the try block is compiled; "+w)
			} else if lastCompile < 0 {
				badNormal = append(badNormal, "no try block is compiled between SetTryLabel and its PopTryLabel; "+w)
			}
			// the instruction before the handler label is an unconditional jump to a label emitted after all handler code
			prev := -1
			for i := lab - 1; i > set; i-- {
				if tr[i].kind == emEmit {
					prev = i
					break
				}
			}
			if prev < 0 || !tr[prev].is("Opcode_Jump") {
				badJump = append(badJump, "the normal continuation does not end in an unconditional Jump before the handler label (it would fall into the handler); "+w)
			} else {
				to := vmArgObj(info, tr[prev], 0)
				at := -1
				for i := lab + 1; i < len(tr); i++ {
					if tr[i].is("Opcode_Label") && vmArgObj(info, tr[i], 0) == to && to != nil {
						at = i
					}
				}
				lastH := -1
				for i := lab + 1; i < len(tr); i++ {
					if tr[i].kind == emCompile {
						lastH = i
					}
				}
				if at < 0 || at < lastH {
					badJump = append(badJump, "the jump that ends the normal continuation does not target a label emitted after the handler code; "+w)
				}
			}
			// handler continuation: (lab, end)
			hp, firstCompile, hpAt := 0, -1, -1
			for i := lab + 1; i < len(tr); i++ {
				if tr[i].is("Opcode_PopTryLabel") {
					hp++
					if hpAt < 0 {
						hpAt = i
					}
				}
				if tr[i].kind == emCompile && firstCompile < 0 {
					firstCompile = i
				}
			}
			if vmPops {
				if hp != 0 {
					badHandler = append(badHandler, fmt.Sprintf("the VM's exception branch pops the handler record itself, but the handler continuation emits %d PopTryLabel; %s", hp, w))
				}
			} else {
				switch {
				case hp != 1:
					badHandler = append(badHandler, fmt.Sprintf("%d PopTryLabel on the handler continuation (want exactly 1: the VM's exception branch only peeks at the handler stack); %s", hp, w))
				case firstCompile >= 0 && hpAt > firstCompile:
					badHandler = append(badHandler, "PopTryLabel on the handler continuation is emitted AFTER catch code is compiled: while the catch block runs, its own try's handler is still installed, so a throw inside the catch block re-enters the same catch block; "+w)
				}
			}
		}
		ok := fmt.Sprintf("%d normal path(s) checked (VM exception branch pops the handler itself: %v)", n, vmPops)
		pe.add(u.key()+"|try: SetTryLabel matched by one PopTryLabel after the try block on the normal continuation", u.pos, badNormal, ok)
		pe.add(u.key()+"|try: normal continuation jumps over the handler", u.pos, badJump, ok)
		pe.add(u.key()+"|try: handler continuation pops the handler before any catch code is compiled", u.pos, badHandler, ok)
	}
	if found == 0 {
		pe.obs = append(pe.obs, Obligation{Key: "compiler|try lowering", Pos: "?", Status: Undecided, Detail: "no compile path emits Opcode_SetTryLabel: anchor lost"})
	}
}

// ---- frames, epilogue, Opcode_Return sites

func vmNegOf(e ast.Expr) (ast.Expr, bool) {
	u, ok := ast.Unparen(e).(*ast.UnaryExpr)
	if !ok || u.Op != token.SUB {
		return nil, false
	}
	return u.X, true
}

func vmSameValue(info *types.Info, a, b ast.Expr) bool {
	oa, ob := vmObjOf(info, a), vmObjOf(info, b)
	if oa != nil || ob != nil {
		return oa == ob
	}
	return exprStr(a) == exprStr(b)
}

func (pe *vmPE) frames() {
	pkg := pe.c.Pkg("homescript/compiler")
	cleanupField := vmStructField(pkg, "Function", "CleanupLabel")
	if cleanupField == nil {
		fatalf("anchor unresolved: compiler.Function.CleanupLabel")
	}
	frameFns := map[*types.Func]bool{}
	for _, u := range pe.w.units {
		for _, tr := range u.trs {
			if vmHasOp(tr, "Opcode_AddMempointer") {
				if obj, ok := u.fn.info.Defs[u.fn.fd.Name].(*types.Func); ok {
					frameFns[obj] = true
				}
			}
		}
	}
	if len(frameFns) == 0 {
		pe.obs = append(pe.obs, Obligation{Key: "compiler|function frame", Pos: "?", Status: Undecided, Detail: "no compile path emits Opcode_AddMempointer: anchor lost"})
	}
	inFrame := map[*types.Func]bool{}
	for f := range frameFns {
		for g := range pe.r.reachableFrom(f) {
			inFrame[g] = true
		}
	}
	for _, u := range pe.w.units {
		obj, _ := u.fn.info.Defs[u.fn.fd.Name].(*types.Func)
		info := u.fn.info
		if frameFns[obj] {
			var badPair, badEpi []string
			n := 0
			for pi, tr := range u.trs {
				p := u.paths[pi]
				if !vmNormalExit(p) {
					continue
				}
				n++
				w := fmt.Sprintf("emitted: %s (path [%s])", vmTraceStr(tr), p.decisions())
				var mps []int
				for i, e := range tr {
					if e.is("Opcode_AddMempointer") {
						mps = append(mps, i)
					}
				}
				if len(mps) != 2 {
					badPair = append(badPair, fmt.Sprintf("%d AddMempointer emissions on one path (want prologue + epilogue); %s", len(mps), w))
					continue
				}
				a, b := mps[0], mps[1]
				// effective prologue value: a later in-place patch of the instruction inserted at a
				var plus ast.Expr
				if len(tr[a].args) > 0 {
					plus = tr[a].args[0]
				}
				patchAt := -1
				for i, e := range tr {
					if e.kind == emPatch && e.op != nil && e.op.Name() == "Opcode_AddMempointer" && e.patchIdx != nil && e.patchIdx == tr[a].resultObj && len(e.args) > 0 {
						plus, patchAt = e.args[0], i
					}
				}
				minus, isNeg := vmNegOf(tr[b].args[0])
				switch {
				case plus == nil || len(tr[b].args) == 0:
					badPair = append(badPair, "AddMempointer without value; "+w)
				case !isNeg:
					badPair = append(badPair, fmt.Sprintf("the epilogue AddMempointer value `%s` is not the negation of the prologue value `%s`; %s", exprStr(tr[b].args[0]), exprStr(plus), w))
				case !vmSameValue(info, plus, minus):
					badPair = append(badPair, fmt.Sprintf("prologue adds `%s`, epilogue subtracts `%s`: not the same n; %s", exprStr(plus), exprStr(minus), w))
				default:
					// n must be read after the body has been compiled (it counts the body's variables)
					lastCompile := -1
					for i := a + 1; i < b; i++ {
						if tr[i].kind == emCompile {
							lastCompile = i
						}
					}
					if o := vmObjOf(info, plus); o != nil && lastCompile >= 0 {
						def := -1
						for i, e := range p.ev {
							if e.K == evAssign && vmObjOf(info, e.Lhs) == o {
								def = i
							}
						}
						if def >= 0 && def < tr[lastCompile].evIdx {
							badPair = append(badPair, fmt.Sprintf("the frame size `%s` is read before the function body is compiled; %s", exprStr(plus), w))
						}
					}
					if patchAt < 0 {
						if tv := info.Types[plus]; tv.Value != nil {
							badPair = append(badPair, fmt.Sprintf("the prologue AddMempointer keeps its placeholder value %s (never patched); %s", tv.Value, w))
						}
					}
				}
				// epilogue shape: Label(cleanup) ; AddMempointer(-n) ; Return ; end
				em := vmEmits(tr)
				pos := -1
				for k, i := range em {
					if i == b {
						pos = k
					}
				}
				if pos < 1 || !tr[em[pos-1]].is("Opcode_Label") {
					badEpi = append(badEpi, "the epilogue AddMempointer is not immediately preceded by the cleanup label; "+w)
				} else {
					lo := vmArgObj(info, tr[em[pos-1]], 0)
					pubAt := -1
					for i, e := range p.ev {
						if e.K == evAssign && vmFieldOf(info, e.Lhs) == cleanupField && e.Rhs != nil && vmObjOf(info, e.Rhs) == lo && lo != nil {
							pubAt = i
						}
					}
					firstCompile := -1
					for i := a + 1; i < b; i++ {
						if tr[i].kind == emCompile {
							firstCompile = tr[i].evIdx
							break
						}
					}
					if pubAt < 0 {
						badEpi = append(badEpi, "the label emitted before the epilogue is not the one stored in Function.CleanupLabel (return statements jump to that field); "+w)
					} else if firstCompile >= 0 && pubAt > firstCompile {
						badEpi = append(badEpi, "Function.CleanupLabel is published after the body is compiled (return statements inside the body would read a stale label); "+w)
					}
				}
				if pos < 0 || pos+1 >= len(em) || !tr[em[pos+1]].is("Opcode_Return") || pos+2 != len(em) {
					badEpi = append(badEpi, "the epilogue AddMempointer(-n) is not followed by exactly one final Opcode_Return; "+w)
				}
			}
			ok := fmt.Sprintf("%d normal path(s) checked", n)
			pe.add(u.key()+"|frame: AddMempointer(+n) matched by AddMempointer(-n) with the same n", u.pos, badPair, ok)
			pe.add(u.key()+"|frame: epilogue is cleanup label, AddMempointer(-n), Return", u.pos, badEpi, ok)
		}
		// Opcode_Return sites
		type site struct {
			pos   token.Pos
			bad   []string
			paths int
		}
		sites := map[token.Pos]*site{}
		var order []token.Pos
		for pi, tr := range u.trs {
			p := u.paths[pi]
			em := vmEmits(tr)
			for k, i := range em {
				if !tr[i].is("Opcode_Return") {
					continue
				}
				s := sites[tr[i].pos]
				if s == nil {
					s = &site{pos: tr[i].pos}
					sites[tr[i].pos] = s
					order = append(order, tr[i].pos)
				}
				s.paths++
				epi := false
				if k > 0 && tr[em[k-1]].is("Opcode_AddMempointer") && len(tr[em[k-1]].args) > 0 {
					if _, neg := vmNegOf(tr[em[k-1]].args[0]); neg {
						epi = true
						for j := em[k-1] + 1; j < i; j++ {
							if tr[j].kind == emCompile || tr[j].kind == emHelper {
								epi = false
							}
						}
					}
				}
				if !epi && (inFrame[obj] || frameFns[obj]) {
					s.bad = append(s.bad, fmt.Sprintf("Opcode_Return is emitted at %s without the frame epilogue (cleanup label, AddMempointer(-n)) directly before it, in a function that runs between a frame's prologue and epilogue: the frame's +n is never undone on this path; emitted: %s (path [%s])", pe.c.Pos(tr[i].pos), vmTraceStr(tr), p.decisions()))
				}
			}
		}
		sort.Slice(order, func(i, j int) bool { return order[i] < order[j] })
		for k, ps := range order {
			s := sites[ps]
			where := "frame epilogue"
			if !inFrame[obj] && !frameFns[obj] {
				where = "outside any frame (function not reachable from a frame-opening function)"
			}
			pe.add(fmt.Sprintf("%s|Opcode_Return #%d is emitted only as a frame epilogue", u.key(), k+1), s.pos, s.bad, fmt.Sprintf("%d path(s): %s", s.paths, where))
		}
	}
}

// ---- return / break / continue lowering

func (pe *vmPE) unitByCase(constName string) []*vmCompUnit {
	var out []*vmCompUnit
	for _, u := range pe.w.units {
		if u.name == "case "+constName {
			// the clause may hand its node to a per-statement method: decide on the spliced paths
			out = append(out, vmExpandUnit(pe.c, pe.r, pe.w, u))
		}
	}
	return out
}

func (pe *vmPE) controlLowering() {
	astRel := "homescript/analyzer/ast"
	pkg := pe.c.Pkg("homescript/compiler")
	cleanupField := vmStructField(pkg, "Function", "CleanupLabel")
	// return
	vmConst(pe.c, astRel, "ReturnStatementKind")
	us := pe.unitByCase("ReturnStatementKind")
	if len(us) == 0 {
		pe.obs = append(pe.obs, Obligation{Key: "compiler|case ReturnStatementKind", Pos: "?", Status: Undecided, Detail: "no compile clause for ReturnStatementKind found"})
	}
	for _, u := range us {
		var bad []string
		n := 0
		for pi, tr := range u.trs {
			p := u.paths[pi]
			if !vmNormalExit(p) {
				continue
			}
			n++
			w := fmt.Sprintf("emitted: %s (path [%s])", vmTraceStr(tr), p.decisions())
			em := vmEmits(tr)
			if len(em) != 1 || !tr[em[0]].is("Opcode_Jump") || len(tr[em[0]].args) == 0 || !vmMentionsField(u.fn.info, tr[em[0]].args[0], cleanupField) {
				bad = append(bad, "the return statement does not lower to exactly one Jump to Function.CleanupLabel; "+w)
				continue
			}
			for i := em[0] + 1; i < len(tr); i++ {
				if tr[i].kind == emCompile {
					bad = append(bad, "code is compiled after the jump to the cleanup label; "+w)
				}
			}
		}
		pe.add(u.key()+"|return lowers to a jump to the function's cleanup label", u.pos, bad, fmt.Sprintf("%d normal path(s): [return value] ; Jump(CleanupLabel)", n))
	}
	// break / continue
	for _, bc := range []struct{ konst, word string }{{"BreakStatementKind", "break"}, {"ContinueStatementKind", "continue"}} {
		vmConst(pe.c, astRel, bc.konst)
		us := pe.unitByCase(bc.konst)
		if len(us) == 0 {
			pe.obs = append(pe.obs, Obligation{Key: "compiler|case " + bc.konst, Pos: "?", Status: Undecided, Detail: "no compile clause found"})
		}
		for _, u := range us {
			var bad []string
			n := 0
			for pi, tr := range u.trs {
				p := u.paths[pi]
				if !vmNormalExit(p) {
					continue
				}
				n++
				w := fmt.Sprintf("emitted: %s (path [%s])", vmTraceStr(tr), p.decisions())
				em := vmEmits(tr)
				if len(tr) != 1 || len(em) != 1 || !tr[em[0]].is("Opcode_Jump") || len(tr[em[0]].args) == 0 {
					bad = append(bad, "does not lower to exactly one Jump; "+w)
					continue
				}
				sel, ok := ast.Unparen(tr[em[0]].args[0]).(*ast.SelectorExpr)
				f := vmFieldOf(u.fn.info, tr[em[0]].args[0])
				if !ok || f == nil || !strings.Contains(strings.ToLower(f.Name()), bc.word) {
					bad = append(bad, fmt.Sprintf("the jump target `%s` is not the %s label of a loop record; %s", exprStr(tr[em[0]].args[0]), bc.word, w))
					continue
				}
				rec, _, _ := vmResolveAt(u.fn.info, p.binds, p.ev, tr[em[0]].evIdx, sel.X)
				if !pe.isInnermostLoop(u.fn, rec) {
					bad = append(bad, fmt.Sprintf("the loop record `%s` is not the top of the compiler's loop stack; %s", exprStr(sel.X), w))
				}
			}
			pe.add(u.key()+"|"+bc.word+" lowers to a jump to the innermost loop's "+bc.word+" label", u.pos, bad, fmt.Sprintf("%d normal path(s)", n))
		}
	}
}

// isInnermostLoop: e is a call of a method returning loops[len(loops)-1], or
// that index expression itself.
func (pe *vmPE) isInnermostLoop(fn *vmFn, e ast.Expr) bool {
	lf := pe.r.loops.field
	isTop := func(info *types.Info, x ast.Expr) bool {
		ix, ok := ast.Unparen(x).(*ast.IndexExpr)
		if !ok || vmFieldOf(info, ix.X) != lf {
			return false
		}
		b, ok := ast.Unparen(ix.Index).(*ast.BinaryExpr)
		if !ok || b.Op != token.SUB {
			return false
		}
		lc, ok := ast.Unparen(b.X).(*ast.CallExpr)
		if !ok || len(lc.Args) != 1 || vmFieldOf(info, lc.Args[0]) != lf {
			return false
		}
		tv := info.Types[b.Y]
		return tv.Value != nil && tv.Value.ExactString() == "1"
	}
	if isTop(fn.info, e) {
		return true
	}
	call, ok := ast.Unparen(e).(*ast.CallExpr)
	if !ok {
		return false
	}
	g := pe.r.byObj[CalleeOf(fn.info, call)]
	if g == nil || len(g.fd.Body.List) != 1 {
		return false
	}
	ret, ok := g.fd.Body.List[0].(*ast.ReturnStmt)
	return ok && len(ret.Results) == 1 && isTop(g.info, ret.Results[0])
}

// ---- loop records

func (pe *vmPE) loopRecords() {
	found := 0
	for _, u := range pe.w.units {
		info := u.fn.info
		var bad []string
		n := 0
		for pi, tr := range u.trs {
			p := u.paths[pi]
			if !vmNormalExit(p) {
				continue
			}
			// the loop record pushed on this path
			var lit *ast.CompositeLit
			litAt := 0
			for j, e := range p.ev {
				if e.K == evCall && e.Fn != nil && !e.Deferred {
					if _, ok := pe.r.loops.push[e.Fn]; ok && len(e.Call.Args) == 1 {
						lit, _ = ast.Unparen(e.Call.Args[0]).(*ast.CompositeLit)
						litAt = j
					}
				}
			}
			if lit == nil {
				continue
			}
			n++
			w := fmt.Sprintf("emitted: %s (path [%s])", vmTraceStr(tr), p.decisions())
			var lb, lc types.Object
			for _, el := range lit.Elts {
				kv, ok := el.(*ast.KeyValueExpr)
				if !ok {
					continue
				}
				name := strings.ToLower(exprStr(kv.Key))
				if strings.Contains(name, "break") {
					lb = vmPathObj(info, p, litAt, kv.Value)
				}
				if strings.Contains(name, "continue") {
					lc = vmPathObj(info, p, litAt, kv.Value)
				}
			}
			if lb == nil || lc == nil {
				bad = append(bad, "the loop record does not name a break and a continue label variable; "+w)
				continue
			}
			count := func(o types.Object) (cnt, at int) {
				at = -1
				for i, e := range tr {
					if e.is("Opcode_Label") && vmArgObj(info, e, 0) == o {
						cnt++
						at = i
					}
				}
				return
			}
			nb, atB := count(lb)
			nc, atC := count(lc)
			lastCompile := -1
			for i, e := range tr {
				if e.kind == emCompile {
					lastCompile = i
				}
			}
			switch {
			case lb == lc:
				bad = append(bad, "break and continue share one label; "+w)
			case nb != 1:
				bad = append(bad, fmt.Sprintf("the break label is emitted %d times (want 1); %s", nb, w))
			case nc != 1:
				bad = append(bad, fmt.Sprintf("the continue label is emitted %d times (want 1); %s", nc, w))
			case atB < lastCompile:
				bad = append(bad, "the break label is emitted before the loop body is compiled; "+w)
			default:
				// the instruction before the break label is the back edge: an unconditional jump to an earlier label
				prev := -1
				for i := atB - 1; i >= 0; i-- {
					if tr[i].kind == emEmit {
						prev = i
						break
					}
				}
				back := -1
				if prev >= 0 && tr[prev].is("Opcode_Jump") {
					to := vmArgObj(info, tr[prev], 0)
					for i := 0; i < prev; i++ {
						if tr[i].is("Opcode_Label") && vmArgObj(info, tr[i], 0) == to && to != nil {
							back = i
						}
					}
				}
				if back < 0 {
					bad = append(bad, "the break label is not directly preceded by the loop's back edge (an unconditional jump to an earlier label); "+w)
				} else if atC > prev {
					bad = append(bad, "the continue label is emitted after the back edge; "+w)
				}
			}
		}
		if n == 0 {
			continue
		}
		found++
		pe.add(u.key()+"|loop record: break label after the back edge, continue label before it, each emitted once", u.pos, bad, fmt.Sprintf("%d normal path(s)", n))
	}
	if found == 0 {
		pe.obs = append(pe.obs, Obligation{Key: "compiler|loop records", Pos: "?", Status: Undecided, Detail: "no compile path pushes a loop record: anchor lost"})
	}
}

// ---- every referenced label is emitted exactly once

func (pe *vmPE) labelsOnce() {
	infoDone := map[string]bool{}
	for _, u := range pe.w.units {
		info := u.fn.info
		// label variables that escape into containers are not tracked
		escaped := map[types.Object]string{}
		ast.Inspect(u.fn.fd.Body, func(n ast.Node) bool {
			if as, ok := n.(*ast.AssignStmt); ok {
				for i, l := range as.Lhs {
					if _, isIdx := ast.Unparen(l).(*ast.IndexExpr); isIdx && i < len(as.Rhs) {
						if o := vmObjOf(info, as.Rhs[i]); o != nil {
							escaped[o] = exprStr(l)
						}
					}
				}
			}
			return true
		})
		type acc struct {
			pos   token.Pos
			bad   []string
			paths int
			name  string
		}
		accs := map[types.Object]*acc{}
		for pi, tr := range u.trs {
			p := u.paths[pi]
			if !vmNormalExit(p) {
				continue
			}
			refs, defs := map[types.Object]int{}, map[types.Object]int{}
			first := map[types.Object]token.Pos{}
			note := func(m map[types.Object]int, o types.Object, pos token.Pos) {
				if o == nil {
					return
				}
				if _, isVar := o.(*types.Var); !isVar {
					return
				}
				m[o]++
				if _, ok := first[o]; !ok {
					first[o] = pos
				}
			}
			for _, e := range tr {
				if e.kind != emEmit || e.op == nil {
					continue
				}
				switch e.op.Name() {
				case "Opcode_Label":
					note(defs, vmArgObj(info, e, 0), e.pos)
				case "Opcode_Jump", "Opcode_JumpIfFalse":
					note(refs, vmArgObj(info, e, 0), e.pos)
				case "Opcode_SetTryLabel":
					for k := range e.args {
						if o := vmArgObj(info, e, k); o != nil && defsAnywhere(u, info, o) {
							note(refs, o, e.pos)
						}
					}
				}
			}
			for j, e := range p.ev {
				if e.K == evCall && e.Fn != nil && !e.Deferred {
					if _, ok := pe.r.loops.push[e.Fn]; ok && len(e.Call.Args) == 1 {
						if lit, ok := ast.Unparen(e.Call.Args[0]).(*ast.CompositeLit); ok {
							for _, el := range lit.Elts {
								if kv, ok := el.(*ast.KeyValueExpr); ok {
									note(refs, vmPathObj(info, p, j, kv.Value), e.Pos)
								}
							}
						}
					}
				}
			}
			seen := map[types.Object]bool{}
			for o := range refs {
				seen[o] = true
			}
			for o := range defs {
				seen[o] = true
			}
			for o := range seen {
				if _, esc := escaped[o]; esc {
					continue
				}
				a := accs[o]
				if a == nil {
					a = &acc{pos: o.Pos(), name: o.Name()}
					accs[o] = a
				}
				a.paths++
				if defs[o] > 1 || (refs[o] > 0 && defs[o] != 1) {
					a.bad = append(a.bad, fmt.Sprintf("label `%s` is referenced %d time(s) and emitted %d time(s) on path [%s]; emitted: %s", o.Name(), refs[o], defs[o], p.decisions(), vmTraceStr(tr)))
				}
			}
		}
		var objs []types.Object
		for o := range accs {
			objs = append(objs, o)
		}
		sort.Slice(objs, func(i, j int) bool { return objs[i].Pos() < objs[j].Pos() })
		dup := map[string]int{}
		for _, o := range objs {
			a := accs[o]
			dup[a.name]++
			name := a.name
			if dup[a.name] > 1 {
				name = fmt.Sprintf("%s#%d", a.name, dup[a.name])
			}
			pe.add(u.key()+"|label "+name+" is emitted exactly once on every path that references it", a.pos, a.bad, fmt.Sprintf("%d path(s)", a.paths))
		}
		var esc []string
		for o, where := range escaped {
			if _, isVar := o.(*types.Var); isVar && vmUsedAsLabel(u, info, o) {
				esc = append(esc, o.Name()+" → "+where)
			}
		}
		key := u.fn.name + "|labels stored in containers are not tracked"
		if len(esc) > 0 && !infoDone[key] {
			infoDone[key] = true
			sort.Strings(esc)
			pe.obs = append(pe.obs, Obligation{Key: key, Pos: pe.c.Pos(u.fn.fd.Pos()), Status: Info, Detail: strings.Join(esc, ", ") + ": jumps to / emissions of these labels go through a container and are outside the exactly-once check"})
		}
	}
}

// vmUsedAsLabel: o is an operand of a Label / Jump / JumpIfFalse emission in the unit.
func vmUsedAsLabel(u *vmCompUnit, info *types.Info, o types.Object) bool {
	for _, tr := range u.trs {
		for _, e := range tr {
			if e.kind == emEmit && e.op != nil {
				switch e.op.Name() {
				case "Opcode_Label", "Opcode_Jump", "Opcode_JumpIfFalse":
					if vmArgObj(info, e, 0) == o {
						return true
					}
				}
			}
		}
	}
	return false
}

// defsAnywhere: object o is used as a Label operand somewhere in the unit.
func defsAnywhere(u *vmCompUnit, info *types.Info, o types.Object) bool {
	for _, tr := range u.trs {
		for _, e := range tr {
			if e.is("Opcode_Label") && vmArgObj(info, e, 0) == o {
				return true
			}
		}
	}
	return false
}

// ---- non-local exits out of a try block

// nonLocalExits: a return / break / continue compiled inside a try block leaves
// the block without passing the PopTryLabel of the normal continuation. Unless
// the VM trims the handler stack itself when a frame is left, the lowering of
// these statements must emit the pops, which requires the compiler to keep
// try-nesting state that the try lowering maintains and these lowerings read.
func (pe *vmPE) nonLocalExits() {
	c := pe.c
	roles := vmRoles(c)
	rt := c.Pkg("homescript/runtime")
	handlers := vmStructField(rt, "Core", "ExceptionCatchLabels")
	compT := c.Pkg("homescript/compiler").Types.Scope().Lookup("Compiler")
	if handlers == nil || compT == nil {
		fatalf("anchor unresolved: Core.ExceptionCatchLabels / compiler.Compiler")
	}
	compFields := map[*types.Var]bool{}
	if st, ok := compT.Type().Underlying().(*types.Struct); ok {
		for i := 0; i < st.NumFields(); i++ {
			compFields[st.Field(i)] = true
		}
	}
	writesOf := func(fn *vmFn, n ast.Node, out map[*types.Var]bool) {
		ast.Inspect(n, func(m ast.Node) bool {
			switch x := m.(type) {
			case *ast.AssignStmt:
				for _, l := range x.Lhs {
					if f := vmFieldOf(fn.info, vmBaseOfIndex(l)); compFields[f] {
						out[f] = true
					}
				}
			case *ast.IncDecStmt:
				if f := vmFieldOf(fn.info, vmBaseOfIndex(x.X)); compFields[f] {
					out[f] = true
				}
			}
			return true
		})
	}
	// try-nesting state: Compiler fields written between SetTryLabel and the compilation of the try block
	tryState := map[*types.Var]bool{}
	for _, u := range pe.w.units {
		for pi, tr := range u.trs {
			p := u.paths[pi]
			set, comp := -1, -1
			for i, e := range tr {
				if e.is("Opcode_SetTryLabel") && set < 0 {
					set = i
				}
				if e.kind == emCompile && set >= 0 && comp < 0 {
					comp = i
				}
			}
			if set < 0 || comp < 0 {
				continue
			}
			// a window of events around the SetTryLabel emission up to the try block
			from := tr[set].evIdx - 6
			if from < 0 {
				from = 0
			}
			for j := from; j < tr[comp].evIdx; j++ {
				e := p.ev[j]
				switch e.K {
				case evAssign:
					if e.Tok != token.DEFINE {
						if f := vmFieldOf(u.fn.info, vmBaseOfIndex(e.Lhs)); compFields[f] {
							tryState[f] = true
						}
					}
				case evIncDec:
					if f := vmFieldOf(u.fn.info, vmBaseOfIndex(e.X)); compFields[f] {
						tryState[f] = true
					}
				case evCall:
					if g := pe.r.byObj[e.Fn]; g != nil && !pe.r.emitters[e.Fn] && j > tr[set].evIdx {
						writesOf(g, g.fd.Body, tryState)
					}
				}
			}
		}
	}
	var stateNames []string
	for f := range tryState {
		stateNames = append(stateNames, vmFieldName(f))
	}
	sort.Strings(stateNames)
	// does the VM trim the handler stack when it leaves a frame / on jumps?
	vmTrims := func(opName string) bool {
		k := vmConst(c, "homescript/compiler", opName)
		cl, nodes := roles.handlerNodes(k)
		if cl == nil {
			return false
		}
		for _, s := range nodes {
			if vmWritesField(roles.dispatch.info, s, handlers) {
				return true
			}
		}
		return false
	}
	for _, x := range []struct{ konst, what, vmOp string }{
		{"ReturnStatementKind", "return", "Opcode_Return"},
		{"BreakStatementKind", "break", "Opcode_Jump"},
		{"ContinueStatementKind", "continue", "Opcode_Jump"},
	} {
		for _, u := range pe.unitByCase(x.konst) {
			var bad []string
			ok := ""
			pops, readsState := false, false
			for _, tr := range u.trs {
				if vmHasOp(tr, "Opcode_PopTryLabel") {
					pops = true
				}
			}
			for _, p := range u.paths {
				for _, e := range p.ev {
					var n ast.Node
					switch e.K {
					case evCond:
						n = e.X
					case evAssign:
						n = e.Rhs
					case evRange:
						n = e.X
					case evCall:
						n = e.Call
						if g := pe.r.byObj[e.Fn]; g != nil && !pe.r.emitters[e.Fn] {
							for f := range tryState {
								if vmMentionsField(g.info, g.fd.Body, f) {
									readsState = true
								}
							}
						}
					}
					if n != nil {
						for f := range tryState {
							if vmMentionsField(u.fn.info, n, f) {
								readsState = true
							}
						}
					}
				}
			}
			switch {
			case vmTrims(x.vmOp):
				ok = "the VM's " + x.vmOp + " clause trims the handler stack itself"
			case pops && readsState:
				ok = fmt.Sprintf("the lowering emits PopTryLabel driven by the compiler's try-nesting state %v", stateNames)
			default:
				bad = append(bad, fmt.Sprintf("a `%s` inside a try block jumps out of the block past the PopTryLabel of the normal continuation, and nothing else removes the handler: the %s lowering emits no PopTryLabel (emits PopTryLabel: %v, reads try-nesting state: %v; state maintained by the try lowering: %v) and the VM's %s clause does not trim Core.ExceptionCatchLabels. The handler stays installed after the block is left, so a later throw — even in a caller, after this function has returned — is delivered to the dead catch block (`for i in 0..3 { try { %s } catch e { … } } throw(\"late\")` runs the catch block for the late throw)", x.what, x.what, pops, readsState, stateNames, x.vmOp, map[string]string{"return": "return;", "break": "break;", "continue": "continue;"}[x.what]))
			}
			pe.add(u.key()+"|"+x.what+" out of a try block removes the handlers it leaves behind", u.pos, bad, ok)
		}
	}
}
