package main

import (
	"fmt"
	"go/ast"
	"go/token"
	"go/types"
	"regexp"
	"sort"
	"strings"

	"golang.org/x/tools/go/packages"
)

// r4sib — recursive getters (part of R-single-visit).
//
// A *recursive getter* is found by shape: a method M whose body calls a method of the same name M on a value it
// reaches from its receiver (a field, an element of a field: `self.Inner.M()`, `field.Expression.M()` in a loop
// over self.Fields), or a function / method that calls itself. Nothing is cached in these structures (the
// analysed tree computes Type(), Constant(), String() … from its children on every call), so the cost of one
// call is the product of the numbers of recursive calls per level: a method that asks the SAME child twice on
// one path costs 2^depth. Helpers are not re-rooted here: the engine cannot substitute the receiver of a method,
// so the events of `self.TryBlock.String()` and `self.CatchBlock.String()` would both read "self.…" and look
// like one child asked twice; every getter is judged on its own body.

func r4sibGetterObligations(c *Ctx) []Obligation {
	e := r2sibEngineOf(c)
	var out []Obligation
	pkgs := append([]*packages.Package(nil), c.All...)
	sort.Slice(pkgs, func(i, j int) bool { return pkgs[i].PkgPath < pkgs[j].PkgPath })
	res := map[string]*regexp.Regexp{}
	type cand struct {
		rel     string
		fd      *ast.FuncDecl
		f       *r2sibFunc
		sum     *r2sibSummary
		evs     []*r2sibEvent
		callees []*types.Func
	}
	var cands []*cand
	recursive := map[*types.Func]bool{}
	for _, p := range pkgs {
		if !strings.HasPrefix(p.PkgPath, ModPath) {
			continue
		}
		rel := relPkg(p.PkgPath)
		for _, fd := range AllFuncDecls(p) {
			if fd.Body == nil {
				continue
			}
			f := r2sibFuncOf(c, p, fd)
			if f.fn == nil {
				continue
			}
			name := fd.Name.Name
			// cheap pre-filter: the body mentions a call of a method / function of this name
			mentions := false
			ast.Inspect(fd.Body, func(n ast.Node) bool {
				if call, ok := n.(*ast.CallExpr); ok {
					switch fun := ast.Unparen(call.Fun).(type) {
					case *ast.SelectorExpr:
						mentions = mentions || fun.Sel.Name == name
					case *ast.Ident:
						mentions = mentions || fun.Name == name
					}
				}
				return !mentions
			})
			if !mentions {
				continue
			}
			re := res[name]
			if re == nil {
				re = regexp.MustCompile(`(^|\.)` + regexp.QuoteMeta(name) + `$`)
				res[name] = re
			}
			e.busy[f.fn] = true
			sum := e.extract(f, fd.Body.List, r2sibOpts{Calls: re, NoInline: true, Only: map[string]bool{"call": true}}, 0)
			delete(e.busy, f.fn)
			cd := &cand{rel: rel, fd: fd, f: f, sum: sum}
			var recvT types.Type
			if r := f.fn.Type().(*types.Signature).Recv(); r != nil {
				recvT = r.Type()
			}
			for _, ev := range sum.events {
				if ev.Kind != "call" || ev.Call == nil {
					continue
				}
				callee := CalleeOf(f.info, ev.Call)
				if callee == nil || callee.Name() != name {
					continue
				}
				if callee == f.fn {
					if r2sibDescent(f.fn) && (rel == "homescript/analyzer" || rel == "homescript/interpreter" || rel == "homescript/compiler") {
						continue // the walkers' own recursion is decided by the descent part of the rule
					}
					recursive[f.fn] = true
				} else {
					// the same getter of another value: a method call whose receiver is not the receiver itself
					sel, ok := ast.Unparen(ev.Call.Fun).(*ast.SelectorExpr)
					if !ok || recvT == nil {
						continue
					}
					if ev.Via == "" && f.norm(sel.X) == "self" {
						continue
					}
					if !strings.Contains(ev.Attrs["callterm"], "self") && !strings.Contains(ev.Attrs["callterm"], "$") {
						continue
					}
					// dynamic dispatch through an interface this receiver implements: the call can come back here
					if cr := callee.Type().(*types.Signature).Recv(); cr != nil {
						if it, ok := cr.Type().Underlying().(*types.Interface); ok {
							if types.Implements(recvT, it) || types.Implements(types.NewPointer(recvT), it) {
								recursive[f.fn] = true
							}
						}
					}
				}
				cd.evs = append(cd.evs, ev)
				cd.callees = append(cd.callees, callee)
			}
			if len(cd.evs) > 0 {
				cands = append(cands, cd)
			}
		}
	}
	// a getter that asks a concrete child whose getter is recursive is recursive too
	for changed := true; changed; {
		changed = false
		for _, cd := range cands {
			if recursive[cd.f.fn] {
				continue
			}
			for _, cl := range cd.callees {
				if recursive[cl] {
					recursive[cd.f.fn] = true
					changed = true
				}
			}
		}
	}
	for _, cd := range cands {
		if !recursive[cd.f.fn] {
			continue
		}
		fd, f, sum, evs, rel := cd.fd, cd.f, cd.sum, cd.evs, cd.rel
		key := fmt.Sprintf("%s.%s|recursive getter asks each child once", rel, FuncName(fd))
		ob := Obligation{Key: key, Pos: c.Pos(fd.Pos()), Nontrivial: true}
		if !sum.ok {
			// decide without path conditions
			seen := map[string]bool{}
			clash := ""
			for _, ev := range evs {
				if seen[ev.Attrs["callterm"]] {
					clash = f.pretty(ev.Attrs["callterm"])
				}
				seen[ev.Attrs["callterm"]] = true
			}
			if clash != "" {
				ob.Status = Undecided
				ob.Detail = "paths not enumerated (" + sum.why + ") and " + clash + " occurs twice in the method"
			} else {
				ob.Detail = fmt.Sprintf("%d recursive calls, all on different children (decided without path conditions: %s)", len(evs), sum.why)
			}
			out = append(out, ob)
			continue
		}
		var problems []string
		for i := 0; i < len(evs); i++ {
			for j := i + 1; j < len(evs); j++ {
				a, b := evs[i], evs[j]
				if a.Attrs["callterm"] != b.Attrs["callterm"] || (a.Pos == b.Pos && a.Via == b.Via) {
					continue
				}
				if !r3svCoOccur(a, b) {
					continue
				}
				if r4sibExclusive(fd.Body, r4sibSitePos(a), r4sibSitePos(b)) {
					continue
				}
				problems = append(problems, fmt.Sprintf("%s is evaluated at %s and again at %s on one path", f.pretty(a.Attrs["callterm"]), c.Pos(a.Pos), c.Pos(b.Pos)))
			}
		}
		sort.Strings(problems)
		if len(problems) > 0 {
			ob.Status = Violated
			ob.Detail = "child asked twice: " + strings.Join(problems, "; ") + " — the getter is recursive and nothing is cached, so the cost doubles at every nesting level (2^depth)"
		} else {
			var terms []string
			for _, ev := range evs {
				terms = append(terms, f.pretty(ev.Attrs["callterm"]))
			}
			ob.Detail = fmt.Sprintf("%d recursive calls, no child is asked twice on one path: %s", len(evs), strings.Join(r3usUniq(terms), ", "))
		}
		out = append(out, ob)
	}
	sort.SliceStable(out, func(i, j int) bool { return out[i].Key < out[j].Key })
	return out
}

// r4sibExclusive: the two positions lie in different clauses of one switch / type switch / select, or in the
// then- and the else-branch of one if statement: no single pass through the statement reaches both.
func r4sibExclusive(body ast.Node, a, b token.Pos) bool {
	chain := func(p token.Pos) []ast.Node {
		var out []ast.Node
		ast.Inspect(body, func(n ast.Node) bool {
			if n == nil || p < n.Pos() || p >= n.End() {
				return false
			}
			out = append(out, n)
			return true
		})
		return out
	}
	ca, cb := chain(a), chain(b)
	i := 0
	for i < len(ca) && i < len(cb) && ca[i] == cb[i] {
		i++
	}
	if i == 0 || i >= len(ca) || i >= len(cb) {
		return false
	}
	switch lca := ca[i-1].(type) {
	case *ast.BlockStmt:
		// the body of a switch: its children are the clauses
		_, ac := ca[i].(*ast.CaseClause)
		_, bc := cb[i].(*ast.CaseClause)
		if ac && bc {
			return true
		}
		_, ac = ca[i].(*ast.CommClause)
		_, bc = cb[i].(*ast.CommClause)
		return ac && bc
	case *ast.IfStmt:
		inThen := func(n ast.Node) bool { return n == ast.Node(lca.Body) }
		inElse := func(n ast.Node) bool { return lca.Else != nil && n == ast.Node(lca.Else) }
		return inThen(ca[i]) && inElse(cb[i]) || inElse(ca[i]) && inThen(cb[i])
	}
	return false
}

// r4sibSitePos: where the event happens in the function under analysis — its own position, or, for an event
// re-rooted from a helper, the position of the (outermost) helper call.
func r4sibSitePos(ev *r2sibEvent) token.Pos {
	if ev.Via == "" {
		return ev.Pos
	}
	first := ev.Via
	if i := strings.Index(first, ">"); i >= 0 {
		first = first[:i]
	}
	if i := strings.LastIndex(first, "@"); i >= 0 {
		n := 0
		for _, ch := range first[i+1:] {
			if ch < '0' || ch > '9' {
				return ev.Pos
			}
			n = n*10 + int(ch-'0')
		}
		return token.Pos(n)
	}
	return ev.Pos
}
