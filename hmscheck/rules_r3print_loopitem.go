package main

// r3print: R-loop-item-fresh — an item built in a loop iteration and appended
// to a list does not read a variable that the iteration (re)assigns on some of
// its paths only.

import (
	"fmt"
	"go/ast"
	"go/token"
	"go/types"
	"sort"
	"strings"
)

func init() {
	register(&Rule{ID: "R-loop-item-fresh", Floor: 1, Run: ruleR3pLoopItem,
		Doc: "Module-wide: for every loop whose body appends an item to a list (`xs = append(xs, item)`, also through a field) and every local variable v that is declared outside the loop body, read by the appended item and " +
			"plainly assigned inside the body before the append on at least one path of an iteration (an assignment whose right-hand side does not read v — counters, accumulators and clamps such as `i++`, `span = span.merge(..)`, `v = append(v, ..)`, `if x < v { v = x }` are exempt): " +
			"v is assigned on EVERY path of the iteration that reaches the append. Otherwise the item of this iteration silently inherits the value an earlier iteration chose (a modifier recognised for the first element of a list sticks to all " +
			"following ones). Necessary for the per-item semantics of every list the parser / analyzer builds: `import { type T, f } from m;` must give `f` its own kind (C15), and likewise for argument, field and arm lists."})
}

type r3pItemState struct {
	assigned map[types.Object]bool
	trace    []string
}

func ruleR3pLoopItem(c *Ctx) []Obligation {
	type agg struct {
		pos            token.Pos
		set, unset     int
		unsetTrace     string
		setTrace       string
		overflow       bool
		fn, target, vn string
	}
	aggs := map[string]*agg{}
	nloops := 0
	for _, p := range c.All {
		info := p.TypesInfo
		for _, fd := range AllFuncDecls(p) {
			var loops []ast.Stmt
			ast.Inspect(fd.Body, func(n ast.Node) bool {
				switch n.(type) {
				case *ast.ForStmt, *ast.RangeStmt:
					loops = append(loops, n.(ast.Stmt))
				}
				return true
			})
			for _, loop := range loops {
				var body *ast.BlockStmt
				switch x := loop.(type) {
				case *ast.ForStmt:
					body = x.Body
				case *ast.RangeStmt:
					body = x.Body
				}
				// plain assignments inside the body to variables declared outside of it
				plain := map[types.Object]bool{}
				enclosing := r2pEnclosing(body)
				ast.Inspect(body, func(n ast.Node) bool {
					as, ok := n.(*ast.AssignStmt)
					if !ok || as.Tok != token.ASSIGN || len(as.Lhs) != len(as.Rhs) {
						return true
					}
					for i, l := range as.Lhs {
						id, ok := ast.Unparen(l).(*ast.Ident)
						if !ok {
							continue
						}
						v, ok := info.Uses[id].(*types.Var)
						if !ok || v.IsField() || v.Parent() == nil || v.Parent() == p.Types.Scope() {
							continue
						}
						if v.Pos() >= body.Pos() && v.Pos() <= body.End() {
							continue
						}
						reads := false
						ast.Inspect(as.Rhs[i], func(z ast.Node) bool {
							if rid, ok := z.(*ast.Ident); ok && info.Uses[rid] == v {
								reads = true
							}
							return !reads
						})
						// an update decided by a test of v itself (clamp: `if x < v { v = x }`) depends on the old value like `v = min(v, x)`
						for _, cnd := range enclosing[as] {
							ast.Inspect(cnd, func(z ast.Node) bool {
								if rid, ok := z.(*ast.Ident); ok && info.Uses[rid] == v {
									reads = true
								}
								return !reads
							})
						}
						if !reads {
							plain[v] = true
						}
					}
					return true
				})
				hasAppend := false
				ast.Inspect(body, func(n ast.Node) bool {
					if call, ok := n.(*ast.CallExpr); ok && r2pIsBuiltin(info, call, "append") {
						hasAppend = true
					}
					return !hasAppend
				})
				if hasAppend {
					nloops++
				}
				if len(plain) == 0 {
					continue
				}
				// appends of items that read such a variable
				type site struct {
					call   *ast.CallExpr
					target string
					vars   []types.Object
				}
				sites := map[*ast.CallExpr]*site{}
				ast.Inspect(body, func(n ast.Node) bool {
					call, ok := n.(*ast.CallExpr)
					if !ok || !r2pIsBuiltin(info, call, "append") || len(call.Args) < 2 {
						return true
					}
					seen := map[types.Object]bool{}
					var vs []types.Object
					for _, a := range call.Args[1:] {
						ast.Inspect(a, func(z ast.Node) bool {
							if _, isLit := z.(*ast.FuncLit); isLit {
								return false
							}
							if id, ok := z.(*ast.Ident); ok {
								if v := info.Uses[id]; v != nil && plain[v] && !seen[v] {
									seen[v] = true
									vs = append(vs, v)
								}
							}
							return true
						})
					}
					// the list itself is no item
					if id, ok := ast.Unparen(call.Args[0]).(*ast.Ident); ok {
						for i, v := range vs {
							if info.Uses[id] == v {
								vs = append(vs[:i], vs[i+1:]...)
								break
							}
						}
					}
					if len(vs) > 0 {
						sites[call] = &site{call, exprStr(call.Args[0]), vs}
					}
					return true
				})
				if len(sites) == 0 {
					continue
				}
				w := &Walker[*r3pItemState]{
					Clone: func(s *r3pItemState) *r3pItemState {
						return &r3pItemState{r2pCopyMap(s.assigned), append([]string(nil), s.trace...)}
					},
					OnStmt: func(st *r3pItemState, s ast.Stmt) (*r3pItemState, bool) {
						// appends are evaluated before the assignment of the same statement takes effect
						ast.Inspect(s, func(n ast.Node) bool {
							if _, isLit := n.(*ast.FuncLit); isLit {
								return false
							}
							call, ok := n.(*ast.CallExpr)
							if !ok {
								return true
							}
							si := sites[call]
							if si == nil {
								return true
							}
							for _, v := range si.vars {
								k := fmt.Sprintf("%s|item appended to %s|%s is set on every path of the iteration", travFuncKeyAny(p, fd), si.target, v.Name())
								a := aggs[k]
								if a == nil {
									a = &agg{pos: call.Pos(), fn: FuncName(fd), target: si.target, vn: v.Name()}
									aggs[k] = a
								}
								if st.assigned[v] {
									a.set++
									if a.setTrace == "" {
										a.setTrace = strings.Join(st.trace, "; ")
									}
								} else {
									a.unset++
									if a.unsetTrace == "" {
										a.unsetTrace = strings.Join(st.trace, "; ")
									}
								}
							}
							return true
						})
						if as, ok := s.(*ast.AssignStmt); ok && as.Tok == token.ASSIGN {
							for _, l := range as.Lhs {
								if id, ok := ast.Unparen(l).(*ast.Ident); ok {
									if v := info.Uses[id]; v != nil && plain[v] {
										st.assigned[v] = true
									}
								}
							}
						}
						return st, true
					},
					OnCond: func(st *r3pItemState, cond ast.Expr, taken bool) (*r3pItemState, bool) {
						if len(st.trace) < 12 {
							st.trace = append(st.trace, fmt.Sprintf("%s is %v (line %d)", exprStr(cond), taken, c.Fset.Position(cond.Pos()).Line))
						}
						return st, true
					},
					OnCase: func(st *r3pItemState, sw *ast.SwitchStmt, vals []ast.Expr, others []ast.Expr) (*r3pItemState, bool) {
						if len(st.trace) < 12 && sw.Tag != nil {
							if vals == nil {
								st.trace = append(st.trace, fmt.Sprintf("%s matches no listed case (line %d)", exprStr(sw.Tag), c.Fset.Position(sw.Pos()).Line))
							} else {
								st.trace = append(st.trace, fmt.Sprintf("%s is %s (line %d)", exprStr(sw.Tag), exprStr(vals[0]), c.Fset.Position(vals[0].Pos()).Line))
							}
						}
						return st, true
					},
					IsPanic:  func(s ast.Stmt) bool { return IsPanicCall(info, s) },
					MaxPaths: 50000,
				}
				w.Run(body, &r3pItemState{assigned: map[types.Object]bool{}})
				if w.Overflow {
					for _, si := range sites {
						for _, v := range si.vars {
							k := fmt.Sprintf("%s|item appended to %s|%s is set on every path of the iteration", travFuncKeyAny(p, fd), si.target, v.Name())
							if aggs[k] == nil {
								aggs[k] = &agg{pos: si.call.Pos(), fn: FuncName(fd), target: si.target, vn: v.Name()}
							}
							aggs[k].overflow = true
						}
					}
				}
			}
		}
	}
	var keys []string
	for k := range aggs {
		keys = append(keys, k)
	}
	sort.Strings(keys)
	var obs []Obligation
	cov := Obligation{Key: "<coverage>|loops that append items were examined"}
	if nloops >= 20 {
		cov.Status, cov.Detail = Discharged, fmt.Sprintf("%d loops of the module append to a list; %d of them build the item from a variable that is declared outside the loop and plainly assigned inside it", nloops, len(keys))
	} else {
		cov.Status, cov.Detail = Undecided, fmt.Sprintf("only %d loops with an append were found in the module: the enumeration is broken", nloops)
	}
	obs = append(obs, cov)
	for _, k := range keys {
		a := aggs[k]
		ob := Obligation{Key: k, Pos: c.Pos(a.pos), Nontrivial: true}
		switch {
		case a.set > 0 && a.unset > 0:
			ob.Status = Violated
			ob.Detail = fmt.Sprintf("%s: the item appended to %s reads %s; an iteration assigns %s before the append on some paths (e.g. [%s]) but not on others (e.g. [%s]): on those the item inherits the value chosen for an earlier item of the list",
				a.fn, a.target, a.vn, a.vn, a.setTrace, a.unsetTrace)
		case a.overflow:
			ob.Status, ob.Detail = Undecided, "path enumeration of the loop body gave up"
		case a.set > 0:
			ob.Status, ob.Detail = Discharged, fmt.Sprintf("%s is assigned on all %d paths of an iteration that reach the append to %s", a.vn, a.set, a.target)
		default:
			ob.Status, ob.Detail = Discharged, fmt.Sprintf("%s is only assigned after the append to %s (a value deliberately carried into the next iteration), never on a part of the paths before it", a.vn, a.target)
		}
		obs = append(obs, ob)
	}
	return obs
}
