package main

import (
	"fmt"
	"go/ast"
	"go/token"
	"go/types"
	"sort"
	"strings"

	"golang.org/x/tools/go/packages"
)

// R-two-sided: set equality written as two inclusion loops must use the same
// two collections in both directions.

func init() {
	register(&Rule{ID: "R-two-sided", Floor: 3, Run: ruleTwoSided,
		Doc: "an *inclusion check* is a loop over a collection A whose body tests, for the current element, membership of its key in a collection B (inner search loop with an equality between a term of the outer element and a term of the inner element, or a comma-ok map lookup keyed by a term of the outer element). Two inclusion checks of one function that share a collection in swapped position (the outer collection of one is the searched collection of the other) are the two halves of a set-equality test ('every expected field is present' / 'no unexpected field'; 'every required method is implemented' / 'no excess method'): both halves must use exactly the same two collections — complete, not sliced — and compare the same key terms. A second half that searches a different collection, or ranges over a slice of the first, accepts exactly the programs the first half was written to reject (or the reverse); without a specification the agreement of the two halves is the decidable part of C03."})
}

type r2sibIncl struct {
	fd       *ast.FuncDecl
	pkg      *packages.Package
	loop     ast.Stmt
	outer    string // role term of the collection ranged over
	inner    string // role term of the collection searched
	keys     [2]string
	form     string
	reaction string
}

func r2sibStripSlice(s string) string {
	for strings.HasPrefix(s, "slice(") {
		// slice(X,lo:hi) → X (X may contain commas inside parentheses)
		depth := 0
		cut := -1
		for i := 6; i < len(s); i++ {
			switch s[i] {
			case '(', '[', '{':
				depth++
			case ')', ']', '}':
				depth--
			case ',':
				if depth == 0 && cut < 0 {
					cut = i
				}
			}
			if cut >= 0 {
				break
			}
		}
		if cut < 0 {
			return s
		}
		s = s[6:cut]
	}
	return s
}

// mentions reports whether e uses one of the objects.
func r2sibMentions(info *types.Info, e ast.Node, objs map[types.Object]bool) bool {
	hit := false
	ast.Inspect(e, func(n ast.Node) bool {
		if id, ok := n.(*ast.Ident); ok {
			if o := info.Uses[id]; o != nil && objs[o] {
				hit = true
			}
		}
		return !hit
	})
	return hit
}

func r2sibLoopVars(info *types.Info, r *ast.RangeStmt) map[types.Object]bool {
	out := map[types.Object]bool{}
	for _, e := range []ast.Expr{r.Key, r.Value} {
		if id, ok := e.(*ast.Ident); ok && id.Name != "_" {
			if o := info.Defs[id]; o != nil {
				out[o] = true
			} else if o := info.Uses[id]; o != nil {
				out[o] = true
			}
		}
	}
	return out
}

// derived extends the variable set with locals of the body defined from them
// (gotParam := filteredMethod[idx] is not derived; x := outer.Field is).
func r2sibDerived(f *r2sibFunc, body *ast.BlockStmt, vars map[types.Object]bool) {
	for changed := true; changed; {
		changed = false
		ast.Inspect(body, func(n ast.Node) bool {
			as, ok := n.(*ast.AssignStmt)
			if !ok || as.Tok != token.DEFINE || len(as.Lhs) != len(as.Rhs) {
				return true
			}
			for i, l := range as.Lhs {
				id, ok := l.(*ast.Ident)
				if !ok {
					continue
				}
				o := f.info.Defs[id]
				if o == nil || vars[o] {
					continue
				}
				if r2sibMentions(f.info, as.Rhs[i], vars) {
					vars[o] = true
					changed = true
				}
			}
			return true
		})
	}
}

func r2sibInclusions(c *Ctx, p *packages.Package, fd *ast.FuncDecl) []r2sibIncl {
	f := r2sibFuncOf(c, p, fd)
	info := f.info
	var out []r2sibIncl
	ast.Inspect(fd.Body, func(n ast.Node) bool {
		outer, ok := n.(*ast.RangeStmt)
		if !ok {
			return true
		}
		ov := r2sibLoopVars(info, outer)
		if len(ov) == 0 {
			return true
		}
		r2sibDerived(f, outer.Body, ov)
		A := f.norm(outer.X)
		reaction := r2sibReaction(f, outer.Body)
		// form 1: inner search loops (not nested in a further loop)
		var scan func(n ast.Node)
		scan = func(n ast.Node) {
			ast.Inspect(n, func(n ast.Node) bool {
				switch x := n.(type) {
				case *ast.FuncLit:
					return false
				case *ast.ForStmt:
					return false
				case *ast.RangeStmt:
					iv := r2sibLoopVars(info, x)
					if len(iv) == 0 {
						return false
					}
					r2sibDerived(f, x.Body, iv)
					// the membership equality is the condition of an `if` that is a direct statement of the search loop
					for _, st := range x.Body.List {
						ifs, ok := st.(*ast.IfStmt)
						if !ok {
							continue
						}
						hit := false
						for _, leaf := range r2sibCondLeaves(ifs.Cond) {
							y, ok := ast.Unparen(leaf).(*ast.BinaryExpr)
							if !ok || y.Op != token.EQL && y.Op != token.NEQ {
								continue
							}
							lo, li := r2sibMentions(info, y.X, ov), r2sibMentions(info, y.X, iv)
							ro, ri := r2sibMentions(info, y.Y, ov), r2sibMentions(info, y.Y, iv)
							var ko, ki ast.Expr
							switch {
							case lo && !li && ri && !ro:
								ko, ki = y.X, y.Y
							case ro && !ri && li && !lo:
								ko, ki = y.Y, y.X
							default:
								continue
							}
							keys := [2]string{f.norm(ko), f.norm(ki)}
							sort.Strings(keys[:])
							out = append(out, r2sibIncl{fd: fd, pkg: p, loop: outer, outer: A, inner: f.norm(x.X), keys: keys, form: "search loop", reaction: reaction})
							hit = true
							break
						}
						if hit {
							break
						}
					}
					return false
				case *ast.AssignStmt:
					// form 2: _, ok := B[k(outer)]
					if len(x.Lhs) == 2 && len(x.Rhs) == 1 {
						if ix, ok := ast.Unparen(x.Rhs[0]).(*ast.IndexExpr); ok {
							if tv, ok := info.Types[ix.X]; ok && tv.Type != nil {
								if _, isMap := tv.Type.Underlying().(*types.Map); isMap && r2sibMentions(info, ix.Index, ov) && !r2sibMentions(info, ix.X, ov) {
									B := f.norm(ix.X)
									otherKey := "key(" + B + ")"
									// a lookup set built from a collection (names[x.Name] = … for x in X) stands for X keyed by x.Name
									if coll, key, ok := r2sibDerivedSet(f, fd, ix.X); ok {
										B, otherKey = coll, key
									}
									keys := [2]string{f.norm(ix.Index), otherKey}
									sort.Strings(keys[:])
									out = append(out, r2sibIncl{fd: fd, pkg: p, loop: outer, outer: A, inner: B, keys: keys, form: "map lookup", reaction: reaction})
								}
							}
						}
					}
				}
				return true
			})
		}
		scan(outer.Body)
		return true
	})
	return out
}

// r2sibReaction describes what the loop body does about a missing element
// (diagnostic, error return, `return false`); "" when nothing of the kind is seen.
func r2sibReaction(f *r2sibFunc, body *ast.BlockStmt) string {
	r := ""
	ast.Inspect(body, func(n ast.Node) bool {
		switch x := n.(type) {
		case *ast.FuncLit:
			return false
		case *ast.ReturnStmt:
			if r == "" {
				r = "return"
			}
		case *ast.CallExpr:
			if fn := CalleeOf(f.info, x); fn != nil {
				ro := r2sibEngineOf(f.c).roles
				switch {
				case ro.diagPrim[fn] != "":
					r = ro.diagPrim[fn]
				case ro.errCtor[fn]:
					r = "compatibility error"
				}
			}
		}
		return true
	})
	return r
}

func ruleTwoSided(c *Ctx) []Obligation {
	var out []Obligation
	npairs := 0
	for _, p := range c.All {
		for _, fd := range AllFuncDecls(p) {
			incl := r2sibInclusions(c, p, fd)
			if len(incl) == 0 {
				continue
			}
			// drop duplicates (several equalities in one inner loop)
			seen := map[string]bool{}
			var uniq []r2sibIncl
			for _, i := range incl {
				k := fmt.Sprintf("%d|%s|%s|%s|%s", i.loop.Pos(), i.outer, i.inner, i.keys[0], i.keys[1])
				if !seen[k] {
					seen[k] = true
					uniq = append(uniq, i)
				}
			}
			incl = uniq
			pf := r2sibFuncOf(c, p, fd)
			for i := range incl {
				incl[i].outer, incl[i].inner = pf.pretty(incl[i].outer), pf.pretty(incl[i].inner)
				incl[i].keys[0], incl[i].keys[1] = pf.pretty(incl[i].keys[0]), pf.pretty(incl[i].keys[1])
			}
			paired := map[int]bool{}
			fname := relPkg(p.PkgPath) + "." + FuncName(fd)
			for i := 0; i < len(incl); i++ {
				for j := i + 1; j < len(incl); j++ {
					a, b := incl[i], incl[j]
					if a.loop == b.loop {
						continue
					}
					// both halves of a set-equality test react to a missing element (diagnostic, error, return)
					if a.reaction == "" || b.reaction == "" {
						continue
					}
					// nested loops are not two halves
					if a.loop.Pos() <= b.loop.Pos() && b.loop.End() <= a.loop.End() || b.loop.Pos() <= a.loop.Pos() && a.loop.End() <= b.loop.End() {
						continue
					}
					ao, ai, bo, bi := r2sibStripSlice(a.outer), r2sibStripSlice(a.inner), r2sibStripSlice(b.outer), r2sibStripSlice(b.inner)
					if !(ao == bi || ai == bo) {
						continue
					}
					if ao == bo && ai == bi && ao != ai {
						continue // same direction twice
					}
					paired[i], paired[j] = true, true
					npairs++
					key := fmt.Sprintf("%s|%s ~ %s", fname, ao, ai)
					ob := Obligation{Key: key, Pos: c.Pos(a.loop.Pos()), Nontrivial: true}
					var problems []string
					if a.outer != b.inner {
						problems = append(problems, fmt.Sprintf("the first half (%s) ranges over %s, the second half (%s) searches %s", c.Pos(a.loop.Pos()), a.outer, c.Pos(b.loop.Pos()), b.inner))
					}
					if a.inner != b.outer {
						problems = append(problems, fmt.Sprintf("the first half (%s) searches %s, the second half (%s) ranges over %s", c.Pos(a.loop.Pos()), a.inner, c.Pos(b.loop.Pos()), b.outer))
					}
					for _, s := range []string{a.outer, a.inner, b.outer, b.inner} {
						if strings.HasPrefix(s, "slice(") {
							problems = append(problems, "a half works on the sliced collection "+s+" instead of the complete one")
						}
					}
					if len(problems) == 0 && a.keys != b.keys {
						// key terms must agree once the collections do
						problems = append(problems, fmt.Sprintf("the halves compare different keys: {%s, %s} vs {%s, %s}", a.keys[0], a.keys[1], b.keys[0], b.keys[1]))
					}
					if len(problems) > 0 {
						ob.Status = Violated
						ob.Pos = c.Pos(b.loop.Pos())
						ob.Detail = "two-sided inclusion test uses different collections in its two halves: " + strings.Join(problems, "; ")
					} else {
						ob.Detail = fmt.Sprintf("%s ⊆ %s (%s, %s) and %s ⊆ %s (%s, %s) use the same complete collections and keys {%s, %s}", a.outer, a.inner, c.Pos(a.loop.Pos()), a.form, b.outer, b.inner, c.Pos(b.loop.Pos()), b.form, a.keys[0], a.keys[1])
					}
					out = append(out, ob)
				}
			}
			for i, x := range incl {
				if !paired[i] && x.reaction != "" {
					out = append(out, Obligation{Key: fmt.Sprintf("%s|single %s in %s", fname, x.outer, x.inner), Pos: c.Pos(x.loop.Pos()), Status: Info,
						Detail: fmt.Sprintf("one-sided inclusion check %s ⊆ %s (%s; reaction %q): no second half in this function", x.outer, x.inner, x.form, x.reaction)})
				}
			}
		}
	}
	// keys must be unique
	cnt := map[string]int{}
	for i := range out {
		cnt[out[i].Key]++
		if n := cnt[out[i].Key]; n > 1 {
			out[i].Key = fmt.Sprintf("%s #%d", out[i].Key, n)
		}
	}
	return out
}

// r2sibDerivedSet: e is a local map/slice that is filled only inside one range
// loop over a collection X, keyed by (or holding) a term of the loop variable:
// it stands for X under that key.
func r2sibDerivedSet(f *r2sibFunc, fd *ast.FuncDecl, e ast.Expr) (coll, key string, ok bool) {
	id, isId := ast.Unparen(e).(*ast.Ident)
	if !isId {
		return "", "", false
	}
	obj, _ := f.info.Uses[id].(*types.Var)
	if obj == nil || obj.IsField() {
		return "", "", false
	}
	if _, isParam := f.params[obj]; isParam {
		return "", "", false
	}
	type fill struct {
		rng *ast.RangeStmt
		key ast.Expr
	}
	var fills []fill
	bad := false
	var stack []ast.Node
	ast.Inspect(fd.Body, func(n ast.Node) bool {
		if n == nil {
			stack = stack[:len(stack)-1]
			return true
		}
		stack = append(stack, n)
		as, isAs := n.(*ast.AssignStmt)
		if !isAs {
			return true
		}
		for i, l := range as.Lhs {
			var keyExpr ast.Expr
			switch x := ast.Unparen(l).(type) {
			case *ast.IndexExpr:
				if bid, ok := ast.Unparen(x.X).(*ast.Ident); ok && f.info.Uses[bid] == obj {
					keyExpr = x.Index
				}
			case *ast.Ident:
				if f.objOf(x) == obj && as.Tok == token.ASSIGN && i < len(as.Rhs) {
					if call, ok := ast.Unparen(as.Rhs[i]).(*ast.CallExpr); ok {
						if fid, ok := call.Fun.(*ast.Ident); ok && fid.Name == "append" && len(call.Args) == 2 {
							keyExpr = call.Args[1]
						} else {
							bad = true
						}
					} else {
						bad = true
					}
				}
			}
			if keyExpr == nil {
				continue
			}
			// innermost enclosing range loop
			var rng *ast.RangeStmt
			for j := len(stack) - 1; j >= 0; j-- {
				if r, ok := stack[j].(*ast.RangeStmt); ok {
					rng = r
					break
				}
			}
			if rng == nil || !r2sibMentions(f.info, keyExpr, r2sibLoopVars(f.info, rng)) {
				bad = true
				continue
			}
			fills = append(fills, fill{rng, keyExpr})
		}
		return true
	})
	if bad || len(fills) != 1 {
		return "", "", false
	}
	return f.norm(fills[0].rng.X), f.norm(fills[0].key), true
}
