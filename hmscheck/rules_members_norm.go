package main

// mbNorm renders expressions of one function in a canonical form that is
// insensitive to local names and temporaries: a local with a single
// definition is replaced by its definition, range variables by elem(X)/key(X),
// the receiver by `self`, parameters by p<i>, value constructors by
// mk<Struct>, interrupt constructors by error:<class>, self-recursion by
// rec(arg). Two functions whose canonical tables are equal compute the same
// table; a rename or an introduced temporary does not change the form.

import (
	"fmt"
	"go/ast"
	"go/constant"
	"go/token"
	"go/types"
	"sort"
	"strconv"
	"strings"
)

type mbDef struct {
	rhs      ast.Expr
	tupleIdx int // -1: plain
	zero     bool
	setKey   ast.Expr // X[k] = rhs
	isSet    bool
	guard    string
}

type mbRangeDef struct {
	x     ast.Expr
	isKey bool
}

type mbNorm struct {
	l       *mbLib
	info    *types.Info
	defs    map[types.Object][]mbDef
	ranges  map[types.Object]mbRangeDef
	implic  map[types.Object]ast.Expr // type-switch implicit -> subject
	roles   map[types.Object]string
	selfFn  *types.Func
	busy    map[types.Object]bool
	recArgs func(call *ast.CallExpr) string
	inlineD int // helper-inlining depth
	// symbolic execution (rules_members_sym.go): values of helper calls already
	// executed on the current path, formulas of bool locals, options
	callVals map[*ast.CallExpr]mbCallVal
	boolEnv  map[types.Object]*mbB
	noIntr   bool
	symMode  bool
	reg      *mbAtomReg
}

// fork: a copy with its own environment (roles, bool formulas, call values).
func (n *mbNorm) fork() *mbNorm {
	c := *n
	c.roles = make(map[types.Object]string, len(n.roles)+4)
	for k, v := range n.roles {
		c.roles[k] = v
	}
	c.boolEnv = make(map[types.Object]*mbB, len(n.boolEnv))
	for k, v := range n.boolEnv {
		c.boolEnv[k] = v
	}
	c.callVals = make(map[*ast.CallExpr]mbCallVal, len(n.callVals))
	for k, v := range n.callVals {
		c.callVals[k] = v
	}
	c.busy = map[types.Object]bool{}
	return &c
}

func mbNewNorm(l *mbLib, fd *ast.FuncDecl) *mbNorm {
	n := &mbNorm{l: l, info: l.info, defs: map[types.Object][]mbDef{}, ranges: map[types.Object]mbRangeDef{},
		implic: map[types.Object]ast.Expr{}, roles: map[types.Object]string{}, busy: map[types.Object]bool{},
		callVals: map[*ast.CallExpr]mbCallVal{}, boolEnv: map[types.Object]*mbB{}}
	if fn, ok := l.info.Defs[fd.Name].(*types.Func); ok {
		n.selfFn = fn
	}
	if fd.Recv != nil && len(fd.Recv.List[0].Names) > 0 {
		n.roles[l.info.Defs[fd.Recv.List[0].Names[0]]] = "self"
	}
	n.addParams(fd.Type)
	n.collect(fd.Body)
	return n
}

// mbNewNormLit: normaliser for a function literal inside method enc (the
// receiver of enc keeps the role `self`).
func mbNewNormLit(l *mbLib, enc *ast.FuncDecl, lit *ast.FuncLit) *mbNorm {
	n := &mbNorm{l: l, info: l.info, defs: map[types.Object][]mbDef{}, ranges: map[types.Object]mbRangeDef{},
		implic: map[types.Object]ast.Expr{}, roles: map[types.Object]string{}, busy: map[types.Object]bool{},
		callVals: map[*ast.CallExpr]mbCallVal{}, boolEnv: map[types.Object]*mbB{}}
	if enc != nil && enc.Recv != nil && len(enc.Recv.List[0].Names) > 0 {
		n.roles[l.info.Defs[enc.Recv.List[0].Names[0]]] = "self"
	}
	if enc != nil {
		// parameters of an enclosing helper (e.g. the marshal helpers take `self Value`)
		n.addParams(enc.Type)
	}
	n.addParams(lit.Type)
	n.collect(lit.Body)
	return n
}

func (n *mbNorm) addParams(ft *ast.FuncType) {
	// parameters are named by their type so that twins with a different
	// parameter order / extra parameters still agree
	cnt := map[string]int{}
	for _, f := range ft.Params.List {
		for _, nm := range f.Names {
			ts := types.TypeString(n.info.TypeOf(f.Type), func(p *types.Package) string { return "" })
			ts = strings.ReplaceAll(mbTwin(ts), "VmInterrupt", "Interrupt")
			cnt[ts]++
			role := "p:" + ts
			if cnt[ts] > 1 {
				role = fmt.Sprintf("p:%s#%d", ts, cnt[ts])
			}
			n.roles[n.info.Defs[nm]] = role
		}
	}
}

func (n *mbNorm) obj(id *ast.Ident) types.Object {
	if o := n.info.Defs[id]; o != nil {
		return o
	}
	return n.info.Uses[id]
}

func (n *mbNorm) collect(body *ast.BlockStmt) {
	if body == nil {
		return
	}
	mbVisitStmts(body.List, nil, func(s ast.Stmt, stack []mbCondCtx) {
		switch x := s.(type) {
		case *ast.AssignStmt:
			for i, lhs := range x.Lhs {
				switch lx := lhs.(type) {
				case *ast.Ident:
					if lx.Name == "_" {
						continue
					}
					o := n.obj(lx)
					if o == nil {
						continue
					}
					if len(x.Lhs) == len(x.Rhs) {
						d := mbDef{rhs: x.Rhs[i], tupleIdx: -1}
						if x.Tok != token.ASSIGN && x.Tok != token.DEFINE {
							// compound assignment x op= y: x = x op y
							op := token.Token(int(x.Tok) - int(token.ADD_ASSIGN) + int(token.ADD))
							d.rhs = &ast.BinaryExpr{X: lx, Op: op, Y: x.Rhs[i]}
						}
						if mbIsAppendTo(n.info, x.Rhs[i], o) {
							d.guard = n.guardStr(stack)
						}
						n.defs[o] = append(n.defs[o], d)
					} else if len(x.Rhs) == 1 {
						n.defs[o] = append(n.defs[o], mbDef{rhs: x.Rhs[0], tupleIdx: i})
					}
				case *ast.IndexExpr:
					if id, ok := ast.Unparen(lx.X).(*ast.Ident); ok && len(x.Lhs) == len(x.Rhs) {
						if o := n.obj(id); o != nil {
							n.defs[o] = append(n.defs[o], mbDef{rhs: x.Rhs[i], tupleIdx: -1, isSet: true, setKey: lx.Index, guard: n.guardStr(stack)})
						}
					}
				}
			}
		case *ast.IncDecStmt:
			if id, ok := ast.Unparen(x.X).(*ast.Ident); ok {
				if o := n.obj(id); o != nil {
					op := token.ADD
					if x.Tok == token.DEC {
						op = token.SUB
					}
					n.defs[o] = append(n.defs[o], mbDef{rhs: &ast.BinaryExpr{X: id, Op: op, Y: &ast.BasicLit{Kind: token.INT, Value: "1"}}, tupleIdx: -1})
				}
			}
		case *ast.DeclStmt:
			gd, ok := x.Decl.(*ast.GenDecl)
			if !ok {
				return
			}
			for _, sp := range gd.Specs {
				vs, ok := sp.(*ast.ValueSpec)
				if !ok {
					continue
				}
				for i, nm := range vs.Names {
					o := n.info.Defs[nm]
					if o == nil {
						continue
					}
					if i < len(vs.Values) {
						n.defs[o] = append(n.defs[o], mbDef{rhs: vs.Values[i], tupleIdx: -1})
					} else {
						n.defs[o] = append(n.defs[o], mbDef{zero: true, tupleIdx: -1})
					}
				}
			}
		case *ast.RangeStmt:
			if id, ok := x.Key.(*ast.Ident); ok && id.Name != "_" {
				if o := n.obj(id); o != nil {
					n.ranges[o] = mbRangeDef{x: x.X, isKey: true}
				}
			}
			if id, ok := x.Value.(*ast.Ident); ok && id.Name != "_" {
				if o := n.obj(id); o != nil {
					n.ranges[o] = mbRangeDef{x: x.X}
				}
			}
		case *ast.TypeSwitchStmt:
			var subj ast.Expr
			switch a := x.Assign.(type) {
			case *ast.AssignStmt:
				if ta, ok := ast.Unparen(a.Rhs[0]).(*ast.TypeAssertExpr); ok {
					subj = ta.X
				}
			case *ast.ExprStmt:
				if ta, ok := ast.Unparen(a.X).(*ast.TypeAssertExpr); ok {
					subj = ta.X
				}
			}
			for _, c := range x.Body.List {
				if o := n.info.Implicits[c]; o != nil && subj != nil {
					n.implic[o] = subj
				}
			}
		}
	})
}

func mbIsAppendTo(info *types.Info, e ast.Expr, o types.Object) bool {
	call, ok := ast.Unparen(e).(*ast.CallExpr)
	if !ok || len(call.Args) == 0 {
		return false
	}
	id, ok := call.Fun.(*ast.Ident)
	if !ok {
		return false
	}
	if b, ok := info.Uses[id].(*types.Builtin); !ok || b.Name() != "append" {
		return false
	}
	a0, ok := ast.Unparen(call.Args[0]).(*ast.Ident)
	return ok && info.Uses[a0] == o
}

// guardStr: the conditions enclosing a statement inside its innermost loop.
func (n *mbNorm) guardStr(stack []mbCondCtx) string {
	last := -1
	for i, g := range stack {
		if g.loop != nil {
			last = i
		}
	}
	if last < 0 {
		return ""
	}
	var parts []string
	for _, g := range stack[last+1:] {
		if g.cond != nil {
			parts = append(parts, n.strB(g.cond, 0, g.neg))
		}
	}
	return strings.Join(parts, " && ")
}

func (n *mbNorm) str(e ast.Expr) string { return n.strD(e, 0) }

func mbFlipCmp(op token.Token) (token.Token, bool) {
	switch op {
	case token.EQL:
		return token.NEQ, true
	case token.NEQ:
		return token.EQL, true
	case token.LSS:
		return token.GEQ, true
	case token.GEQ:
		return token.LSS, true
	case token.GTR:
		return token.LEQ, true
	case token.LEQ:
		return token.GTR, true
	}
	return op, false
}

// strB renders a boolean expression in negation normal form (negations are
// pushed through !, &&, ||, comparisons, single-definition locals and inlined
// helpers), so that `!(a >= 0 && a < n)` and `a < 0 || a >= n` read alike.
func (n *mbNorm) strB(e ast.Expr, depth int, neg bool) string {
	if depth > 12 {
		return "…"
	}
	if tv, ok := n.info.Types[e]; ok && tv.Value != nil {
		s := tv.Value.ExactString()
		if neg {
			switch s {
			case "true":
				return "false"
			case "false":
				return "true"
			}
			return "!" + s
		}
		return s
	}
	switch x := e.(type) {
	case *ast.ParenExpr:
		return n.strB(x.X, depth, neg)
	case *ast.UnaryExpr:
		if x.Op == token.NOT {
			return n.strB(x.X, depth, !neg)
		}
	case *ast.BinaryExpr:
		switch x.Op {
		case token.LAND, token.LOR:
			op := x.Op
			if neg {
				if op == token.LAND {
					op = token.LOR
				} else {
					op = token.LAND
				}
			}
			return "(" + n.strB(x.X, depth, neg) + " " + op.String() + " " + n.strB(x.Y, depth, neg) + ")"
		}
		if fl, ok := mbFlipCmp(x.Op); ok {
			op := x.Op
			if neg {
				op = fl
			}
			return n.strD(x.X, depth) + " " + op.String() + " " + n.strD(x.Y, depth)
		}
	case *ast.Ident:
		o := n.info.Uses[x]
		if o == nil {
			o = n.info.Defs[x]
		}
		if o != nil {
			if _, isRole := n.roles[o]; !isRole && !n.busy[o] {
				if ds := n.defs[o]; len(ds) == 1 && !ds[0].zero && !ds[0].isSet {
					d := ds[0]
					n.busy[o] = true
					res, ok := "", false
					if d.tupleIdx >= 0 {
						if call, isCall := ast.Unparen(d.rhs).(*ast.CallExpr); isCall {
							res, ok = n.inline(call, d.tupleIdx, depth+1, neg)
						}
					} else {
						res, ok = n.strB(d.rhs, depth+1, neg), true
					}
					delete(n.busy, o)
					if ok {
						return res
					}
				}
			}
		}
	case *ast.CallExpr:
		if s, ok := n.inline(x, -1, depth+1, neg); ok {
			return s
		}
	}
	if neg {
		return "!" + n.strD(e, depth)
	}
	return n.strD(e, depth)
}

// inlineTarget: call is a call of a single-return helper of the same package
// (not a constructor, not the function itself); returns a normaliser for the
// helper's body with receiver and parameters bound to the call's operands, and
// the returned expression (result idx; -1 = the only result).
func (n *mbNorm) inlineTarget(call *ast.CallExpr, idx int, depth int) (*mbNorm, ast.Expr) {
	if n.l == nil || n.inlineD >= 2 {
		return nil, nil
	}
	fn := CalleeOf(n.info, call)
	if fn == nil || fn == n.selfFn {
		return nil, nil
	}
	fd := n.l.decls[fn]
	if fd == nil || fd.Body == nil {
		return nil, nil
	}
	if n.l.ctorOf(fn) != nil || n.l.errClass(call) != "" {
		return nil, nil
	}
	var ret *ast.ReturnStmt
	cnt := 0
	mbInspectNoLit(fd.Body, func(x ast.Node) bool {
		if r, ok := x.(*ast.ReturnStmt); ok {
			cnt++
			ret = r
		}
		return true
	})
	if cnt != 1 {
		return nil, nil
	}
	if idx < 0 {
		if len(ret.Results) != 1 {
			return nil, nil
		}
		idx = 0
	}
	if idx >= len(ret.Results) {
		return nil, nil
	}
	sub := n.subNorm(call, fd, depth)
	sub.selfFn = fn
	return sub, ret.Results[idx]
}

// subNorm: a normaliser for the body of helper fd as called by `call`:
// receiver and parameters are bound to the (rendered) operands of the call.
func (n *mbNorm) subNorm(call *ast.CallExpr, fd *ast.FuncDecl, depth int) *mbNorm {
	sub := &mbNorm{l: n.l, info: n.info, defs: map[types.Object][]mbDef{}, ranges: map[types.Object]mbRangeDef{},
		implic: map[types.Object]ast.Expr{}, roles: map[types.Object]string{}, busy: map[types.Object]bool{}, inlineD: n.inlineD + 1,
		callVals: map[*ast.CallExpr]mbCallVal{}, boolEnv: map[types.Object]*mbB{}, noIntr: n.noIntr, symMode: n.symMode, recArgs: n.recArgs, reg: n.reg}
	if fd.Recv != nil && len(fd.Recv.List[0].Names) > 0 {
		if sel, ok := call.Fun.(*ast.SelectorExpr); ok {
			sub.roles[n.info.Defs[fd.Recv.List[0].Names[0]]] = n.strD(sel.X, depth)
		}
	}
	i := 0
	for _, f := range fd.Type.Params.List {
		for _, nm := range f.Names {
			if i < len(call.Args) {
				o := n.info.Defs[nm]
				sub.roles[o] = n.argStr(call.Args[i], depth)
				if n.symMode {
					if b, ok := n.info.TypeOf(call.Args[i]).Underlying().(*types.Basic); ok && b.Info()&types.IsBoolean != 0 {
						sub.boolEnv[o] = n.formula(call.Args[i], depth)
					}
				}
			}
			i++
		}
	}
	sub.collect(fd.Body)
	return sub
}

// argStr: an operand that will be substituted into other expressions.
func (n *mbNorm) argStr(e ast.Expr, depth int) string {
	s := n.strD(e, depth)
	if n.symMode {
		if be, ok := ast.Unparen(e).(*ast.BinaryExpr); ok && be.Op != token.LAND && be.Op != token.LOR {
			if _, isCmp := mbFlipCmp(be.Op); !isCmp {
				return "(" + s + ")"
			}
		}
	}
	return s
}

// inline substitutes a call of a single-return helper of the same package by
// the returned expression (result idx; -1 = the only result), with the
// helper's receiver and parameters bound to the call's operands.
func (n *mbNorm) inline(call *ast.CallExpr, idx int, depth int, neg bool) (string, bool) {
	if cv, ok := n.callVals[call]; ok {
		k := idx
		if k < 0 {
			k = 0
		}
		if k < len(cv.vals) && (idx >= 0 || len(cv.vals) == 1) {
			if neg {
				if k < len(cv.bvals) && cv.bvals[k] != nil {
					return mbCanonB(mbNotB(cv.bvals[k])), true
				}
				return "!" + cv.vals[k], true
			}
			return cv.vals[k], true
		}
	}
	sub, res := n.inlineTarget(call, idx, depth)
	if sub == nil {
		return "", false
	}
	if b, ok := n.info.TypeOf(res).Underlying().(*types.Basic); ok && b.Info()&types.IsBoolean != 0 {
		return sub.strB(res, 0, neg), true
	}
	if neg {
		return "!" + sub.strD(res, 0), true
	}
	return sub.strD(res, 0), true
}

// binStr: X op Y; the operands of a commutative arithmetic operator are
// ordered so that `a + b` and `b + a` read alike (not for strings).
func (n *mbNorm) binStr(op token.Token, a, b string, t types.Type) string {
	if op == token.ADD || op == token.MUL {
		if t != nil {
			if bt, ok := t.Underlying().(*types.Basic); ok && bt.Info()&types.IsNumeric != 0 && b < a {
				a, b = b, a
			}
		}
	}
	return a + " " + op.String() + " " + b
}

func (n *mbNorm) strD(e ast.Expr, depth int) string {
	if e == nil {
		return ""
	}
	if depth > 12 {
		return "…"
	}
	if tv, ok := n.info.Types[e]; ok && tv.Value != nil {
		// constants by value, except the constants of a named constant type
		// (kind enumerations), which are compared by name; a named constant of
		// a basic type (`const firstIndex = 0`) is just its value
		if k := ConstOf(n.info, e); k != nil && k.Pkg() != nil {
			if _, named := types.Unalias(k.Type()).(*types.Named); named {
				return mbTwin(k.Name())
			}
		}
		return tv.Value.ExactString()
	}
	switch x := e.(type) {
	case *ast.ParenExpr:
		return n.strD(x.X, depth)
	case *ast.StarExpr:
		return n.strD(x.X, depth)
	case *ast.TypeAssertExpr:
		return n.strD(x.X, depth)
	case *ast.Ident:
		o := n.info.Uses[x]
		if o == nil {
			o = n.info.Defs[x]
		}
		if o == nil {
			return x.Name
		}
		if r, ok := n.roles[o]; ok {
			return r
		}
		if s, ok := n.implic[o]; ok {
			return n.strD(s, depth+1)
		}
		if rd, ok := n.ranges[o]; ok {
			if rd.isKey {
				return "key(" + n.strD(rd.x, depth+1) + ")"
			}
			return "elem(" + n.strD(rd.x, depth+1) + ")"
		}
		switch o.(type) {
		case *types.Nil:
			return "nil"
		case *types.Func:
			if n.l != nil && o.Pkg() == n.l.pkg.Types {
				return mbNameTok(o.Name())
			}
			return o.Name()
		case *types.Const, *types.TypeName, *types.Builtin, *types.PkgName:
			return mbTwin(o.Name())
		}
		ds := n.defs[o]
		if len(ds) == 0 {
			return x.Name
		}
		if n.busy[o] {
			return "·"
		}
		n.busy[o] = true
		defer delete(n.busy, o)
		var alts []string
		for _, d := range ds {
			alts = append(alts, n.defStr(d, depth+1))
		}
		if len(alts) == 1 {
			return alts[0]
		}
		first := alts[0]
		rest := mbUniq(alts[1:])
		sort.Strings(rest)
		return "φ(" + first + " | " + strings.Join(rest, " | ") + ")"
	case *ast.SelectorExpr:
		if id, ok := x.X.(*ast.Ident); ok {
			if _, isPkg := n.info.Uses[id].(*types.PkgName); isPkg {
				return id.Name + "." + mbTwin(x.Sel.Name)
			}
		}
		if n.l != nil {
			// unexported fields / methods of the library: compared modulo a
			// consistent renaming between the twins (mbTwinCtx.same)
			if sel, ok := n.info.Selections[x]; ok && sel.Obj().Pkg() == n.l.pkg.Types && !sel.Obj().Exported() {
				return n.strD(x.X, depth) + "." + mbNameTok(x.Sel.Name)
			}
		}
		return n.strD(x.X, depth) + "." + x.Sel.Name
	case *ast.UnaryExpr:
		if x.Op == token.AND {
			return "&" + n.strD(x.X, depth)
		}
		if x.Op == token.NOT {
			return n.strB(x.X, depth, true)
		}
		return x.Op.String() + n.strD(x.X, depth)
	case *ast.BinaryExpr:
		if x.Op == token.LAND || x.Op == token.LOR {
			return n.strB(x, depth, false)
		}
		return n.binStr(x.Op, n.operand(x.X, depth), n.operand(x.Y, depth), n.info.TypeOf(x))
	case *ast.BasicLit:
		return x.Value
	case *ast.IndexExpr:
		// (also the synthetic tuple selector produced by collect)
		bs, is := n.strD(x.X, depth), n.strD(x.Index, depth)
		if is == "key("+bs+")" {
			return "elem(" + bs + ")" // X[i] inside the index-loop reading of `range X`
		}
		return bs + "[" + is + "]"
	case *ast.SliceExpr:
		return n.strD(x.X, depth) + "[" + n.strD(x.Low, depth) + ":" + n.strD(x.High, depth) + "]"
	case *ast.CompositeLit:
		var els []string
		for _, el := range x.Elts {
			if kv, ok := el.(*ast.KeyValueExpr); ok {
				els = append(els, exprStr(kv.Key)+": "+n.strD(kv.Value, depth))
			} else {
				els = append(els, n.strD(el, depth))
			}
		}
		t := ""
		if x.Type != nil {
			t = mbTwin(types.TypeString(n.info.TypeOf(x), func(*types.Package) string { return "" }))
		}
		return t + "{" + strings.Join(els, ", ") + "}"
	case *ast.FuncLit:
		return "func{…}"
	case *ast.KeyValueExpr:
		return exprStr(x.Key) + ": " + n.strD(x.Value, depth)
	case *ast.CallExpr:
		return n.callStr(x, depth)
	}
	return exprStr(e)
}

// operand of an arithmetic operator: a nested arithmetic expression keeps its
// grouping.
func (n *mbNorm) operand(e ast.Expr, depth int) string {
	s := n.strD(e, depth)
	if be, ok := ast.Unparen(e).(*ast.BinaryExpr); ok && be.Op != token.LAND && be.Op != token.LOR {
		if _, isCmp := mbFlipCmp(be.Op); !isCmp {
			return "(" + s + ")"
		}
	}
	return s
}

// mbNameTok marks the name of a function / unexported member of a value
// library inside a canonical form. Such names are not compared literally: the
// forms of the twins must agree modulo a consistent pairing of these names
// (mbTwinCtx.same), so that renaming an unexported helper, method or field in
// one library does not change a table.
func mbNameTok(name string) string {
	nm := mbTwin(name)
	return "‹" + strings.ToLower(nm[:1]) + nm[1:] + "›"
}

func (n *mbNorm) defStr(d mbDef, depth int) string {
	switch {
	case d.zero:
		return "zero"
	case d.isSet:
		s := "set[" + n.strD(d.setKey, depth) + "]=" + n.strD(d.rhs, depth)
		if d.guard != "" {
			s += " if " + d.guard
		}
		return s
	case d.tupleIdx >= 0:
		if call, ok := ast.Unparen(d.rhs).(*ast.CallExpr); ok {
			if s, ok := n.inline(call, d.tupleIdx, depth, false); ok {
				return s
			}
		}
		return n.strD(d.rhs, depth) + "#" + fmt.Sprint(d.tupleIdx)
	}
	s := n.strD(d.rhs, depth)
	if d.guard != "" {
		s += " if " + d.guard
	}
	return s
}

func (n *mbNorm) callStr(x *ast.CallExpr, depth int) string {
	if cv, ok := n.callVals[x]; ok && len(cv.vals) == 1 {
		return cv.vals[0]
	}
	if tv, ok := n.info.Types[x.Fun]; ok && tv.IsType() {
		ts := mbTwin(types.TypeString(tv.Type, func(*types.Package) string { return "" }))
		if len(x.Args) == 1 {
			if n.l != nil && n.l.isValueIface(tv.Type) {
				return n.strD(x.Args[0], depth) // Value(T{...}) conversion is transparent
			}
			return ts + "(" + n.strD(x.Args[0], depth) + ")"
		}
	}
	if n.l != nil {
		if cls := n.l.errClass(x); cls != "" {
			return "error:" + mbTwin(cls)
		}
		if cc := n.l.valueOfCall(x); cc != nil {
			if cc.none {
				return "mk" + cc.impl.Name() + "(none)"
			}
			var as []string
			for _, a := range x.Args {
				as = append(as, n.strD(a, depth))
			}
			return "mk" + cc.impl.Name() + "(" + strings.Join(as, ", ") + ")"
		}
	}
	fn := CalleeOf(n.info, x)
	if fn != nil && fn == n.selfFn {
		if n.recArgs != nil {
			return "rec(" + n.recArgs(x) + ")"
		}
		if len(x.Args) > 0 {
			return "rec(" + n.strD(x.Args[0], depth) + ")"
		}
		return "rec()"
	}
	if s, ok := n.inline(x, -1, depth, false); ok {
		return s
	}
	var as []string
	fmtIdx := -1
	if fn != nil && fn.Pkg() != nil && fn.Pkg().Path() == "fmt" && strings.HasSuffix(fn.Name(), "f") {
		if sig, ok := fn.Type().(*types.Signature); ok && sig.Variadic() && sig.Params().Len() >= 2 {
			fmtIdx = sig.Params().Len() - 2
		}
	}
	for i, a := range x.Args {
		if fn != nil && n.l != nil && fn.Pkg() == n.l.pkg.Types && n.isPlumbing(a) {
			continue
		}
		if i == fmtIdx {
			if tv, ok := n.info.Types[a]; ok && tv.Value != nil && tv.Value.Kind() == constant.String {
				as = append(as, strconv.Quote(n.fmtCanon(constant.StringVal(tv.Value), x.Args[i+1:])))
				continue
			}
		}
		as = append(as, n.strD(a, depth))
	}
	return n.strD(x.Fun, depth) + "(" + strings.Join(as, ", ") + ")"
}

// fmtCanon: a format string with the plain verb of every string-typed operand
// spelled %s (for a string, %v and %s print the same text).
func (n *mbNorm) fmtCanon(f string, ops []ast.Expr) string {
	var b strings.Builder
	k := 0
	for i := 0; i < len(f); i++ {
		if f[i] != '%' {
			b.WriteByte(f[i])
			continue
		}
		j := i + 1
		plain := true
		for j < len(f) && strings.ContainsRune("+-# 0123456789.[]*", rune(f[j])) {
			if f[j] == '*' {
				k++
			}
			plain = false
			j++
		}
		if j >= len(f) {
			b.WriteString(f[i:])
			break
		}
		if f[j] == '%' {
			b.WriteString(f[i : j+1])
			i = j
			continue
		}
		verb := f[j]
		if plain && verb == 'v' && k < len(ops) {
			if t := n.info.TypeOf(ops[k]); t != nil {
				if bt, ok := t.Underlying().(*types.Basic); ok && bt.Info()&types.IsString != 0 {
					verb = 's'
				}
			}
		}
		b.WriteString(f[i:j])
		b.WriteByte(verb)
		k++
		i = j
	}
	return b.String()
}

// isPlumbing: an argument that merely forwards a parameter of the enclosing
// function which is neither a value of the library nor a basic value (spans,
// executors, contexts): the twins thread different plumbing through their
// helpers.
func (n *mbNorm) isPlumbing(a ast.Expr) bool {
	id, ok := ast.Unparen(a).(*ast.Ident)
	if !ok {
		return false
	}
	o := n.info.Uses[id]
	r, isRole := n.roles[o]
	if !isRole || !strings.HasPrefix(r, "p:") {
		return false
	}
	t := o.Type()
	if n.l.isValueIface(t) || n.l.isValuePtr(t) || n.l.implOfType(t) != nil {
		return false
	}
	if _, basic := t.Underlying().(*types.Basic); basic {
		return false
	}
	return true
}
