package main

// R-host-call, part 2: "for which return-type kinds does HandleTermination
// read the operand stack" and "for which kinds does compiled code leave a
// value", both decided on go/ssa by constant propagation of one type kind at a
// time through the control flow graph. The shape of the source (switch with a
// default clause, if with an early return, a named local for the kind, the
// read moved into a helper of the package, a predicate helper `returnsValue(k)`)
// does not matter: only which instructions stay reachable when the kind is K.

import (
	"go/constant"
	"go/token"
	"go/types"

	"golang.org/x/tools/go/ssa"
)

// hcKindEval evaluates a function under the assumption "the type kind is K".
type hcKindEval struct {
	a *dmAnalysis
	K constant.Value
	// isKindSrc: v is (by itself, without bindings) a value holding the kind under
	// consideration.
	isKindSrc func(v ssa.Value) bool
	// isTypeSrc: v holds the type whose kind is under consideration.
	isTypeSrc func(v ssa.Value) bool
	// hit: the instruction is one of the events looked for.
	hit func(in ssa.Instruction) bool
	// descend: follow static calls into this callee.
	descend func(callee *ssa.Function) bool
}

type hcBinding struct {
	kind map[ssa.Value]bool
	typ  map[ssa.Value]bool
	// bools: boolean parameters whose value at the call site is decided by the
	// kind (`insertIf(kind != NullTypeKind, …)`)
	bools map[ssa.Value]bool
}

type hcKindResult struct {
	hit      bool
	hitPos   token.Pos
	usesKind bool      // some branch was decided by comparing the kind
	prunePos token.Pos // position of a comparison with K that pruned a branch
	retKnown bool      // the function returns one and the same boolean on every feasible path
	retVal   bool
}

func hcStrip(v ssa.Value) ssa.Value {
	for {
		switch x := v.(type) {
		case *ssa.Convert:
			v = x.X
		case *ssa.ChangeType:
			v = x.X
		case *ssa.ChangeInterface:
			v = x.X
		default:
			return v
		}
	}
}

func (e *hcKindEval) isType(v ssa.Value, b hcBinding) bool {
	v = hcStrip(v)
	if b.typ[v] {
		return true
	}
	if mi, ok := v.(*ssa.MakeInterface); ok {
		return e.isType(mi.X, b)
	}
	return e.isTypeSrc != nil && e.isTypeSrc(v)
}

func (e *hcKindEval) isKind(v ssa.Value, b hcBinding, depth int) bool {
	v = hcStrip(v)
	if b.kind[v] {
		return true
	}
	if e.isKindSrc != nil && e.isKindSrc(v) {
		return true
	}
	switch x := v.(type) {
	case *ssa.Call:
		cm := x.Common()
		if !hcIsTypeKind(x.Type()) {
			return false
		}
		if cm.IsInvoke() {
			return cm.Method.Name() == "Kind" && e.isType(cm.Value, b)
		}
		if f := cm.StaticCallee(); f != nil && f.Name() == "Kind" && len(cm.Args) == 1 {
			return e.isType(cm.Args[0], b)
		}
	case *ssa.Phi:
		if depth > 4 {
			return false
		}
		for _, ed := range x.Edges {
			if !e.isKind(ed, b, depth+1) {
				return false
			}
		}
		return len(x.Edges) > 0
	}
	return false
}

type hcEdge struct{ from, to *ssa.BasicBlock }

type hcRun struct {
	e        *hcKindEval
	fn       *ssa.Function
	b        hcBinding
	depth    int
	edges    map[hcEdge]bool
	feasible map[*ssa.BasicBlock]bool
	res      *hcKindResult
	calls    map[*ssa.Call]hcKindResult
}

// boolValue: the value of a boolean SSA value when the kind is K.
func (r *hcRun) boolValue(v ssa.Value, d int) (val, known bool) {
	if d > 8 {
		return false, false
	}
	switch x := v.(type) {
	case *ssa.Const:
		if x.Value != nil && x.Value.Kind() == constant.Bool {
			return constant.BoolVal(x.Value), true
		}
	case *ssa.Parameter:
		if b, ok := r.b.bools[x]; ok {
			return b, true
		}
	case *ssa.UnOp:
		if x.Op == token.NOT {
			if b, ok := r.boolValue(x.X, d+1); ok {
				return !b, true
			}
		}
	case *ssa.BinOp:
		if x.Op != token.EQL && x.Op != token.NEQ {
			return false, false
		}
		var k *ssa.Const
		if c, ok := hcStrip(x.Y).(*ssa.Const); ok && r.e.isKind(x.X, r.b, 0) {
			k = c
		} else if c, ok := hcStrip(x.X).(*ssa.Const); ok && r.e.isKind(x.Y, r.b, 0) {
			k = c
		}
		if k == nil || k.Value == nil || k.Value.Kind() != constant.Int {
			return false, false
		}
		r.res.usesKind = true
		eq := constant.Compare(k.Value, token.EQL, r.e.K)
		if eq && !r.res.prunePos.IsValid() {
			r.res.prunePos = x.Pos()
		}
		return eq == (x.Op == token.EQL), true
	case *ssa.Phi:
		first, have := false, false
		for i, ed := range x.Edges {
			if !r.edges[hcEdge{x.Block().Preds[i], x.Block()}] {
				continue
			}
			b, ok := r.boolValue(ed, d+1)
			if !ok {
				return false, false
			}
			if have && b != first {
				return false, false
			}
			first, have = b, true
		}
		return first, have
	case *ssa.Call:
		// a predicate helper of the module applied to the kind (or the type)
		if cr, ok := r.callResult(x); ok && cr.retKnown {
			if cr.usesKind {
				r.res.usesKind = true
			}
			return cr.retVal, true
		}
	}
	return false, false
}

// callResult evaluates a static module callee that receives the kind / the
// type as an argument (or that the evaluator is told to descend into).
func (r *hcRun) callResult(call *ssa.Call) (hcKindResult, bool) {
	if cr, ok := r.calls[call]; ok {
		return cr, true
	}
	if r.depth >= 3 {
		return hcKindResult{}, false
	}
	cm := call.Common()
	callee := cm.StaticCallee()
	if callee == nil || len(callee.Blocks) == 0 || !dmInModule(callee) {
		return hcKindResult{}, false
	}
	nb := hcBinding{kind: map[ssa.Value]bool{}, typ: map[ssa.Value]bool{}, bools: map[ssa.Value]bool{}}
	bound := false
	for i, p := range callee.Params {
		if i >= len(cm.Args) {
			break
		}
		if r.e.isKind(cm.Args[i], r.b, 0) {
			nb.kind[p] = true
			bound = true
		} else if r.e.isType(cm.Args[i], r.b) {
			nb.typ[p] = true
			bound = true
		} else if bt, ok := p.Type().Underlying().(*types.Basic); ok && bt.Kind() == types.Bool {
			// only a boolean that the kind decides makes the callee worth entering
			// (a literal `true` / `false` argument does not)
			before := r.res.usesKind
			r.res.usesKind = false
			v, known := r.boolValue(cm.Args[i], 0)
			byKind := r.res.usesKind
			r.res.usesKind = before || byKind
			if known {
				nb.bools[p] = v
				if byKind {
					bound = true
				}
			}
		}
	}
	if !bound && (r.e.descend == nil || !r.e.descend(callee)) {
		return hcKindResult{}, false
	}
	cr := r.e.run(callee, nb, r.depth+1)
	r.calls[call] = cr
	return cr, true
}

func (e *hcKindEval) run(fn *ssa.Function, b hcBinding, depth int) hcKindResult {
	res := hcKindResult{}
	if len(fn.Blocks) == 0 {
		return res
	}
	r := &hcRun{e: e, fn: fn, b: b, depth: depth, edges: map[hcEdge]bool{}, feasible: map[*ssa.BasicBlock]bool{fn.Blocks[0]: true}, res: &res, calls: map[*ssa.Call]hcKindResult{}}
	for changed := true; changed; {
		changed = false
		for _, blk := range fn.Blocks {
			if !r.feasible[blk] || len(blk.Instrs) == 0 {
				continue
			}
			var next []*ssa.BasicBlock
			switch t := blk.Instrs[len(blk.Instrs)-1].(type) {
			case *ssa.If:
				v, known := r.boolValue(t.Cond, 0)
				if !known || v {
					next = append(next, blk.Succs[0])
				}
				if !known || !v {
					next = append(next, blk.Succs[1])
				}
			case *ssa.Jump:
				next = append(next, blk.Succs[0])
			}
			for _, s := range next {
				if !r.edges[hcEdge{blk, s}] {
					r.edges[hcEdge{blk, s}] = true
					changed = true
				}
				if !r.feasible[s] {
					r.feasible[s] = true
					changed = true
				}
			}
		}
	}
	// events and results on the feasible part
	retHave := false
	res.retKnown = true
	for _, blk := range fn.Blocks {
		if !r.feasible[blk] {
			continue
		}
		for _, in := range blk.Instrs {
			if e.hit != nil && e.hit(in) && !res.hit {
				res.hit, res.hitPos = true, in.Pos()
			}
			switch x := in.(type) {
			case *ssa.Call:
				if cr, ok := r.callResult(x); ok {
					if cr.hit && !res.hit {
						res.hit, res.hitPos = true, cr.hitPos
						if !res.hitPos.IsValid() {
							res.hitPos = x.Pos()
						}
					}
					if cr.usesKind {
						res.usesKind = true
						if !res.prunePos.IsValid() {
							res.prunePos = cr.prunePos
						}
					}
				}
			case *ssa.Return:
				if len(x.Results) == 0 {
					res.retKnown = false
					continue
				}
				if bt, ok := x.Results[0].Type().Underlying().(*types.Basic); !ok || bt.Kind() != types.Bool {
					res.retKnown = false
					continue
				}
				v, known := r.boolValue(x.Results[0], 0)
				if !known || (retHave && v != res.retVal) {
					res.retKnown = false
					continue
				}
				res.retVal, retHave = v, true
			}
		}
	}
	if !retHave {
		res.retKnown = false
	}
	return res
}

// hcKindCondOperands: the kind-typed SSA values compared with constants in the
// conditions that control block blk (branches of its dominators).
func hcKindCondOperands(blk *ssa.BasicBlock) map[ssa.Value]bool {
	out := map[ssa.Value]bool{}
	for d := blk.Idom(); d != nil; d = d.Idom() {
		if len(d.Instrs) == 0 {
			continue
		}
		t, ok := d.Instrs[len(d.Instrs)-1].(*ssa.If)
		if !ok {
			continue
		}
		hcKindOperandsOf(t.Cond, 0, out)
	}
	return out
}

// hcKindOperandsOf adds to out the kind-typed SSA values that the boolean v
// compares with constants (or hands to a predicate helper).
func hcKindOperandsOf(v ssa.Value, depth int, out map[ssa.Value]bool) {
	if depth > 6 {
		return
	}
	switch x := v.(type) {
	case *ssa.UnOp:
		if x.Op == token.NOT {
			hcKindOperandsOf(x.X, depth+1, out)
		}
	case *ssa.Phi:
		for _, ed := range x.Edges {
			hcKindOperandsOf(ed, depth+1, out)
		}
	case *ssa.BinOp:
		if x.Op != token.EQL && x.Op != token.NEQ {
			return
		}
		if _, ok := hcStrip(x.Y).(*ssa.Const); ok && hcIsTypeKind(hcStrip(x.X).Type()) {
			out[hcStrip(x.X)] = true
		} else if _, ok := hcStrip(x.X).(*ssa.Const); ok && hcIsTypeKind(hcStrip(x.Y).Type()) {
			out[hcStrip(x.Y)] = true
		}
	case *ssa.Call:
		// predicate helper applied to a kind
		for _, a := range x.Common().Args {
			if hcIsTypeKind(hcStrip(a).Type()) {
				out[hcStrip(a)] = true
			}
		}
	}
}
