package main

import (
	"fmt"
	"go/ast"
	"go/constant"
	"go/token"
	"go/types"
	"sort"
	"strings"
)

// R-render-total: the two renderers (errors.Error.Display,
// diagnostic.Diagnostic.Display) index the source lines by span fields.
//
// (a) The explicit whole-file position is "all Location fields zero", with or
//     without a Filename. The renderer is executed symbolically under exactly
//     that assumption (Line = Column = Index = 0 for Start and End, Filename
//     unknown): no feasible path may reach an index expression whose index
//     wraps below zero or a strings.Repeat with a negative count.
// (b) Every index / slice / Repeat site is enumerated with the hazards of an
//     out-of-range span and the path conditions that dominate it.

func init() {
	register(&Rule{ID: "R-render-total", Floor: 5, Run: ruleRenderTotal,
		Doc: "rendering the explicit whole-file position (zero line/column, any Filename) never reaches an index into the source lines or a strings.Repeat whose operand is computed from the zero fields: symbolic execution of errors.Error.Display and diagnostic.Diagnostic.Display with Start=End=Location{} and an unknown Filename finds no feasible path to lines[Line-1] (uint wrap → index out of range) — so the whole-file guard may depend on line/column only; every index/slice/Repeat site is listed with its dominating guards (line beyond the file, End before Start) as information. The analyzer emits errors.Span{Filename: f} for \"Missing 'main' function\", so an unguarded renderer crashes error reporting itself."})
}

type rdIv struct {
	lo, hi  int64 // hi == rdInf: unbounded
	known   bool
	wrapped bool // unsigned arithmetic went below zero on some value
}

const rdInf = int64(1) << 60

type rdAtom struct {
	e     ast.Expr
	taken bool
}

type rdState struct {
	atoms []rdAtom
	wOK   bool                   // path feasible under the whole-file assumption
	lens  map[types.Object]int64 // lower bound of len(local)
}

type rdSite struct {
	node   ast.Node
	what   string
	kind   string // index | slice | repeat
	expr   ast.Expr
	paths  int
	dom    map[string]bool // dominating atoms (normalised), nil until first visit
	wReach []string        // witnesses of whole-file paths reaching the site with a bad value
	wAny   bool            // reached at all under W
}

type rdCtx struct {
	c     *Ctx
	info  *types.Info
	recv  *types.Var
	spanT *types.Named
	locT  *types.Named
	fd    *ast.FuncDecl
	sites map[ast.Node]*rdSite
	order []*rdSite
}

func ruleRenderTotal(c *Ctx) []Obligation {
	ep := c.Pkg("homescript/errors")
	spanT, _ := ep.Types.Scope().Lookup("Span").Type().(*types.Named)
	locT, _ := ep.Types.Scope().Lookup("Location").Type().(*types.Named)
	if spanT == nil || locT == nil {
		fatalf("anchor unresolved: errors.Span / errors.Location")
	}
	var obs []Obligation
	for _, a := range []struct{ pkg, recv string }{{"homescript/errors", "Error"}, {"homescript/diagnostic", "Diagnostic"}} {
		fd := c.MustFunc(a.pkg, a.recv, "Display")
		p := c.Pkg(a.pkg)
		rc := &rdCtx{c: c, info: p.TypesInfo, spanT: spanT, locT: locT, fd: fd, sites: map[ast.Node]*rdSite{}}
		if len(fd.Recv.List[0].Names) > 0 {
			rc.recv, _ = p.TypesInfo.Defs[fd.Recv.List[0].Names[0]].(*types.Var)
		}
		if rc.recv == nil {
			fatalf("anchor unresolved: receiver of %s.%s.Display", a.pkg, a.recv)
		}
		obs = append(obs, rc.run(strings.TrimPrefix(a.pkg, "homescript/")+"."+a.recv+".Display")...)
	}
	return obs
}

// spanField: e is <recv>.….{Start,End}.{Line,Column,Index}
func (rc *rdCtx) spanField(e ast.Expr) (string, bool) {
	s, ok := ast.Unparen(e).(*ast.SelectorExpr)
	if !ok {
		return "", false
	}
	t := rc.info.Types[s.X].Type
	if t == nil || !types.Identical(t, rc.locT) {
		return "", false
	}
	inner, ok := ast.Unparen(s.X).(*ast.SelectorExpr)
	if !ok {
		return "", false
	}
	if t := rc.info.Types[inner.X].Type; t == nil || !types.Identical(t, rc.spanT) {
		return "", false
	}
	if !rc.rootedAtRecv(inner.X) {
		return "", false
	}
	return inner.Sel.Name + "." + s.Sel.Name, true
}

func (rc *rdCtx) rootedAtRecv(e ast.Expr) bool {
	for {
		switch x := ast.Unparen(e).(type) {
		case *ast.SelectorExpr:
			e = x.X
		case *ast.Ident:
			return rc.info.Uses[x] == rc.recv
		default:
			return false
		}
	}
}

func (rc *rdCtx) isUnsigned(e ast.Expr) bool {
	t := rc.info.Types[e].Type
	if t == nil {
		return false
	}
	b, ok := t.Underlying().(*types.Basic)
	return ok && b.Info()&types.IsUnsigned != 0
}

// evalW evaluates an integer expression under the whole-file assumption.
func (rc *rdCtx) evalW(st *rdState, e ast.Expr) rdIv {
	e = ast.Unparen(e)
	if tv := rc.info.Types[e]; tv.Value != nil && tv.Value.Kind() == constant.Int {
		if n, ok := constant.Int64Val(tv.Value); ok {
			return rdIv{lo: n, hi: n, known: true}
		}
	}
	if _, ok := rc.spanField(e); ok {
		return rdIv{known: true}
	}
	switch x := e.(type) {
	case *ast.CallExpr:
		if tv, ok := rc.info.Types[x.Fun]; ok && tv.IsType() && len(x.Args) == 1 {
			v := rc.evalW(st, x.Args[0])
			// conversion of a wrapped unsigned to int: stays out of range either way
			return v
		}
		if id, ok := x.Fun.(*ast.Ident); ok && id.Name == "len" && len(x.Args) == 1 {
			lo := int64(0)
			if aid, ok := ast.Unparen(x.Args[0]).(*ast.Ident); ok {
				if l, ok := st.lens[rc.info.Uses[aid]]; ok {
					lo = l
				}
			}
			return rdIv{lo: lo, hi: rdInf, known: true}
		}
	case *ast.BinaryExpr:
		if x.Op == token.ADD || x.Op == token.SUB {
			a, b := rc.evalW(st, x.X), rc.evalW(st, x.Y)
			if !a.known || !b.known {
				return rdIv{}
			}
			var r rdIv
			r.known = true
			r.wrapped = a.wrapped || b.wrapped
			if x.Op == token.ADD {
				r.lo, r.hi = a.lo+b.lo, rdAdd(a.hi, b.hi)
			} else {
				r.lo = a.lo - rdCap(b.hi)
				r.hi = rdCap(a.hi) - b.lo
				if a.hi >= rdInf {
					r.hi = rdInf
				}
			}
			if rc.isUnsigned(x) && r.hi < 0 {
				r.wrapped = true
			}
			return r
		}
	}
	return rdIv{}
}

func rdCap(v int64) int64 {
	if v >= rdInf {
		return rdInf
	}
	return v
}

func rdAdd(a, b int64) int64 {
	if a >= rdInf || b >= rdInf {
		return rdInf
	}
	return a + b
}

// condW: value of an atomic condition under the whole-file assumption:
// 1 true, 0 false, -1 unknown.
func (rc *rdCtx) condW(st *rdState, e ast.Expr) int {
	be, ok := ast.Unparen(e).(*ast.BinaryExpr)
	if !ok {
		return -1
	}
	// struct comparisons
	if be.Op == token.EQL || be.Op == token.NEQ {
		tx := rc.info.Types[be.X].Type
		if tx != nil && types.Identical(tx, rc.locT) {
			for _, pair := range [][2]ast.Expr{{be.X, be.Y}, {be.Y, be.X}} {
				if rc.isRecvLoc(pair[0]) && rdZeroLit(pair[1]) {
					if be.Op == token.EQL {
						return 1
					}
					return 0
				}
			}
			if rc.isRecvLoc(be.X) && rc.isRecvLoc(be.Y) {
				if be.Op == token.EQL {
					return 1
				}
				return 0
			}
			return -1
		}
		if tx != nil && types.Identical(tx, rc.spanT) {
			return -1 // compares the Filename too: not decided by line/column
		}
	}
	a, b := rc.evalW(st, be.X), rc.evalW(st, be.Y)
	if !a.known || !b.known || a.wrapped || b.wrapped {
		return -1
	}
	tri := func(t, f bool) int {
		if t {
			return 1
		}
		if f {
			return 0
		}
		return -1
	}
	switch be.Op {
	case token.EQL:
		return tri(a.lo == a.hi && b.lo == b.hi && a.lo == b.lo, a.hi < b.lo || b.hi < a.lo)
	case token.NEQ:
		return tri(a.hi < b.lo || b.hi < a.lo, a.lo == a.hi && b.lo == b.hi && a.lo == b.lo)
	case token.LSS:
		return tri(a.hi < b.lo, a.lo >= b.hi)
	case token.LEQ:
		return tri(a.hi <= b.lo, a.lo > b.hi)
	case token.GTR:
		return tri(a.lo > b.hi, a.hi <= b.lo)
	case token.GEQ:
		return tri(a.lo >= b.hi, a.hi < b.lo)
	}
	return -1
}

func (rc *rdCtx) isRecvLoc(e ast.Expr) bool {
	s, ok := ast.Unparen(e).(*ast.SelectorExpr)
	if !ok {
		return false
	}
	t := rc.info.Types[s].Type
	ti := rc.info.Types[s.X].Type
	return t != nil && ti != nil && types.Identical(t, rc.locT) && types.Identical(ti, rc.spanT) && rc.rootedAtRecv(s.X)
}

func rdZeroLit(e ast.Expr) bool {
	cl, ok := ast.Unparen(e).(*ast.CompositeLit)
	return ok && len(cl.Elts) == 0
}

// norm renders an expression without integer conversions and parentheses.
func (rc *rdCtx) norm(e ast.Expr) string {
	e = ast.Unparen(e)
	switch x := e.(type) {
	case *ast.CallExpr:
		if tv, ok := rc.info.Types[x.Fun]; ok && tv.IsType() && len(x.Args) == 1 {
			return rc.norm(x.Args[0])
		}
		var as []string
		for _, a := range x.Args {
			as = append(as, rc.norm(a))
		}
		return exprStr(x.Fun) + "(" + strings.Join(as, ",") + ")"
	case *ast.BinaryExpr:
		return rc.norm(x.X) + x.Op.String() + rc.norm(x.Y)
	case *ast.IndexExpr:
		return rc.norm(x.X) + "[" + rc.norm(x.Index) + "]"
	}
	return exprStr(e)
}

func (rc *rdCtx) atomStr(a rdAtom) string {
	be, ok := ast.Unparen(a.e).(*ast.BinaryExpr)
	if !ok {
		if a.taken {
			return rc.norm(a.e)
		}
		return "!(" + rc.norm(a.e) + ")"
	}
	op := be.Op
	if !a.taken {
		switch op {
		case token.EQL:
			op = token.NEQ
		case token.NEQ:
			op = token.EQL
		case token.LSS:
			op = token.GEQ
		case token.LEQ:
			op = token.GTR
		case token.GTR:
			op = token.LEQ
		case token.GEQ:
			op = token.LSS
		}
	}
	return rc.norm(be.X) + " " + op.String() + " " + rc.norm(be.Y)
}

func (rc *rdCtx) visitSites(st *rdState, n ast.Node) {
	ast.Inspect(n, func(m ast.Node) bool {
		var site *rdSite
		switch x := m.(type) {
		case *ast.FuncLit:
			return false
		case *ast.IndexExpr:
			if t := rc.info.Types[x.X].Type; t != nil {
				if _, isMap := t.Underlying().(*types.Map); isMap {
					return true
				}
				if tv, ok := rc.info.Types[x.Index]; ok && tv.Value != nil {
					return true // constant index
				}
				site = rc.siteFor(x, "index", rc.norm(x), x.Index)
			}
		case *ast.SliceExpr:
			site = rc.siteFor(x, "slice", rc.norm(x.X)+"[…:…]", nil)
			for _, b := range []ast.Expr{x.Low, x.High} {
				if b != nil {
					site.expr = b
				}
			}
		case *ast.CallExpr:
			if fn := CalleeOf(rc.info, x); fn != nil && fn.Pkg() != nil && fn.Pkg().Path() == "strings" && fn.Name() == "Repeat" && len(x.Args) == 2 {
				if tv := rc.info.Types[x.Args[1]]; tv.Value == nil {
					site = rc.siteFor(x, "repeat", "strings.Repeat(…, "+rc.norm(x.Args[1])+")", x.Args[1])
				}
			}
		}
		if site == nil {
			return true
		}
		site.paths++
		cur := map[string]bool{}
		for _, a := range st.atoms {
			cur[rc.atomStr(a)] = true
		}
		if site.dom == nil {
			site.dom = cur
		} else {
			for k := range site.dom {
				if !cur[k] {
					delete(site.dom, k)
				}
			}
		}
		if st.wOK {
			site.wAny = true
			if site.expr != nil {
				v := rc.evalW(st, site.expr)
				bad := v.known && (v.wrapped || v.hi < 0)
				if bad {
					var tr []string
					for _, a := range st.atoms {
						tr = append(tr, rc.atomStr(a))
					}
					what := "wraps below zero (uint)"
					if site.kind == "repeat" {
						what = "is negative"
					}
					site.wReach = append(site.wReach, fmt.Sprintf("%s %s for a whole-file span on path {%s}", rc.norm(site.expr), what, strings.Join(tr, "; ")))
				}
			}
		}
		return true
	})
}

func (rc *rdCtx) siteFor(n ast.Node, kind, what string, e ast.Expr) *rdSite {
	if s := rc.sites[n]; s != nil {
		return s
	}
	s := &rdSite{node: n, what: what, kind: kind, expr: e}
	rc.sites[n] = s
	rc.order = append(rc.order, s)
	return s
}

func (rc *rdCtx) run(name string) []Obligation {
	c := rc.c
	info := rc.info
	returnsUnderW := 0
	w := &Walker[*rdState]{
		Clone: func(s *rdState) *rdState {
			n := &rdState{atoms: append([]rdAtom(nil), s.atoms...), wOK: s.wOK, lens: map[types.Object]int64{}}
			for k, v := range s.lens {
				n.lens[k] = v
			}
			return n
		},
		IsPanic: func(s ast.Stmt) bool { return IsPanicCall(info, s) },
		OnStmt: func(st *rdState, s ast.Stmt) (*rdState, bool) {
			rc.visitSites(st, s)
			if as, ok := s.(*ast.AssignStmt); ok && len(as.Lhs) == 1 && len(as.Rhs) == 1 {
				if call, ok := ast.Unparen(as.Rhs[0]).(*ast.CallExpr); ok {
					if fn := CalleeOf(info, call); fn != nil && fn.Pkg() != nil && fn.Pkg().Path() == "strings" && fn.Name() == "Split" {
						if id, ok := as.Lhs[0].(*ast.Ident); ok {
							if o := info.Defs[id]; o != nil {
								st.lens[o] = 1 // strings.Split with a non-empty separator returns >= 1 element
							}
						}
					}
				}
			}
			return st, true
		},
		OnCond: func(st *rdState, cond ast.Expr, taken bool) (*rdState, bool) {
			rc.visitSites(st, cond)
			if st.wOK {
				if v := rc.condW(st, cond); v >= 0 && (v == 1) != taken {
					st.wOK = false
				}
			}
			st.atoms = append(st.atoms, rdAtom{cond, taken})
			return st, true
		},
		OnCase: func(st *rdState, sw *ast.SwitchStmt, vals, others []ast.Expr) (*rdState, bool) {
			return st, true
		},
		Exit: func(st *rdState, o outcome) {
			if st.wOK && o.kind == cReturn {
				returnsUnderW++
			}
		},
		MaxPaths: 20000,
	}
	w.Run(rc.fd.Body, &rdState{wOK: true, lens: map[types.Object]int64{}})
	var obs []Obligation
	// (a)
	ob := Obligation{Key: name + "|whole-file position renders", Pos: c.Pos(rc.fd.Pos()), Nontrivial: true}
	var wit []string
	for _, s := range rc.order {
		wit = append(wit, s.wReach...)
	}
	switch {
	case w.Overflow || len(w.Unsupported) > 0:
		ob.Status, ob.Detail = Undecided, "renderer not fully explored (path cap / unsupported control flow)"
	case len(wit) > 0:
		ob.Status = Violated
		ob.Detail = fmt.Sprintf("a span with zero line/column (and any Filename) is not diverted before the line lookup: %s → index out of range / negative Repeat count panic while rendering (%d offending site visit(s))", wit[0], len(wit))
	case returnsUnderW == 0:
		ob.Status, ob.Detail = Undecided, "no feasible returning path for a whole-file span"
	default:
		reached := 0
		for _, s := range rc.order {
			if s.wAny {
				reached++
			}
		}
		ob.Status = Discharged
		ob.Detail = fmt.Sprintf("with Start=End=Location{} and an unknown Filename, %d feasible path(s) return; %d of %d index/Repeat sites are reachable, none with a wrapped or negative operand", returnsUnderW, reached, len(rc.order))
	}
	obs = append(obs, ob)
	// (b)
	cnt := map[string]int{}
	for _, s := range rc.order {
		key := name + "|" + s.what
		cnt[key]++
		if cnt[key] > 1 {
			key = fmt.Sprintf("%s#%d", key, cnt[key])
		}
		var dom []string
		for k := range s.dom {
			dom = append(dom, k)
		}
		sort.Strings(dom)
		hz := rc.hazards(s, dom)
		o := Obligation{Key: key, Pos: c.Pos(s.node.Pos())}
		if len(hz) == 0 {
			o.Status = Discharged
			o.Detail = fmt.Sprintf("guarded on all %d path visits by {%s}", s.paths, strings.Join(dom, "; "))
		} else {
			o.Status = Info
			o.Detail = fmt.Sprintf("unguarded: %s. Dominating conditions: {%s}. A span that is inside the text (Line <= number of lines, Start <= End) does not trigger it; any producer of an out-of-text or inverted span does (see R-span-shape, R-diag-span)", strings.Join(hz, "; "), strings.Join(dom, "; "))
		}
		obs = append(obs, o)
	}
	return obs
}

// hazards lists what can go out of range at the site and is not excluded by
// a dominating condition.
func (rc *rdCtx) hazards(s *rdSite, dom []string) []string {
	has := func(alts ...string) bool {
		for _, a := range alts {
			for _, d := range dom {
				if d == a {
					return true
				}
			}
		}
		return false
	}
	var out []string
	if s.expr == nil {
		return []string{"slice bounds not analysed"}
	}
	// decompose E = F [- k] [+ k]
	var subs []*ast.BinaryExpr
	ast.Inspect(s.expr, func(n ast.Node) bool {
		if be, ok := n.(*ast.BinaryExpr); ok && be.Op == token.SUB {
			subs = append(subs, be)
		}
		return true
	})
	switch s.kind {
	case "index", "slice":
		field := ""
		ast.Inspect(s.expr, func(n ast.Node) bool {
			if e, ok := n.(ast.Expr); ok {
				if _, ok := rc.spanField(e); ok && field == "" {
					field = rc.norm(e)
				}
			}
			return true
		})
		container := ""
		if ix, ok := s.node.(*ast.IndexExpr); ok {
			container = rc.norm(ix.X)
		}
		k := int64(0)
		for _, be := range subs {
			if tv := rc.info.Types[be.Y]; tv.Value != nil {
				if n, ok := constant.Int64Val(tv.Value); ok {
					k = n
				}
			}
		}
		if field == "" {
			return []string{"index " + rc.norm(s.expr) + " not derived from a span field"}
		}
		if k > 0 {
			okLow := false
			for c := k - 1; c < k+3; c++ {
				if has(fmt.Sprintf("%s > %d", field, c)) {
					okLow = true
				}
			}
			for c := k; c < k+3; c++ {
				if has(fmt.Sprintf("%s >= %d", field, c)) {
					okLow = true
				}
			}
			if k == 1 && (has(field+" != 0") || !s.wAny) {
				okLow = true // zero only for the whole-file position, which is diverted (see the whole-file obligation)
			}
			if !okLow {
				out = append(out, fmt.Sprintf("%s < %d wraps the index below zero", field, k))
			}
		}
		okHigh := has(field+" < len("+container+")") || (k >= 1 && has(field+" <= len("+container+")"))
		if !okHigh {
			out = append(out, fmt.Sprintf("%s beyond the number of lines (index %s >= len(%s))", field, rc.norm(s.expr), container))
		}
	case "repeat":
		for _, be := range subs {
			if tv := rc.info.Types[be.Y]; tv.Value != nil {
				continue
			}
			a, b := rc.norm(be.X), rc.norm(be.Y)
			if has(a+" >= "+b, a+" > "+b, b+" <= "+a, b+" < "+a, a+" == "+b, b+" == "+a) {
				continue
			}
			out = append(out, fmt.Sprintf("%s < %s makes the count %s negative (uint wrap, then strings.Repeat panics)", a, b, rc.norm(s.expr)))
		}
	}
	return out
}
