package main

import (
	"fmt"
	"go/ast"
	"go/constant"
	"go/token"
	"go/types"
	"sort"
	"strings"
)

// R-render-total: the two renderers (errors.Error.Display,
// diagnostic.Diagnostic.Display) index the source lines by span fields.
//
// (a) The explicit whole-file position is "all Location fields zero", with or
//     without a Filename. The renderer is executed symbolically under exactly
//     that assumption (Line = Column = Index = 0 for Start and End, Filename
//     unknown): no feasible path may reach an index expression whose index
//     wraps below zero or a strings.Repeat with a negative count.
// (b) Every index / slice / Repeat site is enumerated with the hazards of an
//     out-of-range span and the path conditions that dominate it.
//
// The execution is over *values*, not over the text of the renderer: a local
// that holds (a part of) the receiver's span is that part; an integer local is
// the expression it was computed from; a call of a function of the module is
// interpreted (predicate / accessor helpers: parameters bound to the argument
// values, the returned expression evaluated — both polarities of a condition
// follow from the three-valued result), and a helper that contains index /
// slice / Repeat sites is walked with the caller's path facts. Sites keep the
// key of the renderer they are reached from and the text of the expression in
// terms of the renderer's receiver, wherever the statement happens to live.

func init() {
	register(&Rule{ID: "R-render-total", Floor: 5, Run: ruleRenderTotal,
		Doc: "rendering the explicit whole-file position (zero line/column, any Filename) never reaches an index into the source lines or a strings.Repeat whose operand is computed from the zero fields: symbolic execution of errors.Error.Display and diagnostic.Diagnostic.Display with Start=End=Location{} and an unknown Filename finds no feasible path to lines[Line-1] (uint wrap → index out of range) — so the whole-file guard may depend on line/column only; every index/slice/Repeat site is listed with its dominating guards (line beyond the file, End before Start) as information. The analyzer emits errors.Span{Filename: f} for \"Missing 'main' function\", so an unguarded renderer crashes error reporting itself."})
}

type rdIv struct {
	lo, hi  int64 // hi == rdInf: unbounded
	known   bool
	wrapped bool // unsigned arithmetic went below zero on some value
}

const rdInf = int64(1) << 60

type rdKind int

const (
	rdOther rdKind = iota
	rdRecv         // the renderer's receiver (or a struct inside it that is not the span)
	rdSpan         // the receiver's span
	rdLoc          // Start / End of the receiver's span (or, with zero set, a Location{} literal)
	rdInt          // an integer
	rdBool         // a condition value
)

// rdSub is one subtraction inside an expression (operands in receiver terms).
type rdSub struct {
	x, y   string
	yConst bool
	yVal   int64
}

// rdV is the value of an expression: its text in terms of the renderer's
// receiver (conversions, parentheses, local aliases and helper parameters
// resolved), what it denotes, and its value under the whole-file assumption.
type rdV struct {
	k      rdKind
	txt    string
	rooted bool // rdInt: a Line/Column/Index field of the receiver's span
	zero   bool // rdLoc: a Location{} literal
	isLit  bool // integer constant
	iv     rdIv
	tri    int // rdBool under the whole-file assumption: 1 true, 0 false, -1 unknown
	subs   []rdSub
	fields []string // span fields occurring inside, in evaluation order
	lenLo  int64    // lower bound of len(value)
	clamp0 bool     // max(0, …): never below zero
	lin    bool     // txt is linBase ± linOff (constant offsets folded)
	linTxt string
	linOff int64
	linSub []rdSub  // subtractions inside linBase
	capTxt []string // min(…, X): the other operands
	tuple  []*rdV   // results of a call of a helper with several results
	// linear form Σ coef·term + lcK over opaque integer terms (canonical texts);
	// lc == nil: the value is the single term txt (or the constant, if isLit)
	lc  map[string]int64
	lcK int64
}

type rdState struct {
	atoms []string
	wOK   bool // path feasible under the whole-file assumption
	env   map[types.Object]*rdV
	facts []rdDC // what the decisions taken on the path say about integer terms
}

// rdDC is the difference constraint x <= y + c over integer terms ("" = zero).
type rdDC struct {
	x, y string
	c    int64
}

func rdClone(s *rdState) *rdState {
	n := &rdState{atoms: append([]string(nil), s.atoms...), wOK: s.wOK, env: make(map[types.Object]*rdV, len(s.env)), facts: append([]rdDC(nil), s.facts...)}
	for k, v := range s.env {
		n.env[k] = v
	}
	return n
}

// rdFrame is the function whose syntax is being evaluated.
type rdFrame struct {
	info  *types.Info
	fd    *ast.FuncDecl
	chain string // call sites leading here (site identity)
	depth int
}

type rdSite struct {
	node      ast.Node
	what      string
	kind      string // index | slice | repeat
	hasExpr   bool
	val       *rdV   // the operand at the first visit
	container string // indexed value
	paths     int
	dom       map[string]bool // dominating atoms (normalised), nil until first visit
	wReach    []string        // witnesses of whole-file paths reaching the site with a bad value
	wAny      bool            // reached at all under W
	bound     string          // the value whose length bounds the operand (indexed / sliced value)
	vBad      []string        // witnesses: out of range for a valid in-text span on a path
	vOK       int             // visits proved in range for every valid in-text span
}

type rdDecl struct {
	fd   *ast.FuncDecl
	info *types.Info
}

type rdCtx struct {
	c        *Ctx
	info     *types.Info
	recv     *types.Var
	spanT    *types.Named
	locT     *types.Named
	fd       *ast.FuncDecl
	sites    map[string]*rdSite
	order    []*rdSite
	decls    map[*types.Func]rdDecl
	siteMemo map[*types.Func]int // 1 has sites (transitively), 2 none, 3 in progress
	active   map[*types.Func]bool
	overflow bool
	unsupp   int
	spanTxt  map[string]bool // texts denoting the receiver's span
	linesTxt map[string]bool // texts denoting the source text split into lines
	sink     []rdDC
}

var rdDeclCache = map[*Ctx]map[*types.Func]rdDecl{}

func rdDecls(c *Ctx) map[*types.Func]rdDecl {
	if m := rdDeclCache[c]; m != nil {
		return m
	}
	m := map[*types.Func]rdDecl{}
	for _, p := range c.All {
		for _, fd := range AllFuncDecls(p) {
			if fn, ok := p.TypesInfo.Defs[fd.Name].(*types.Func); ok {
				m[fn] = rdDecl{fd, p.TypesInfo}
			}
		}
	}
	rdDeclCache[c] = m
	return m
}

func ruleRenderTotal(c *Ctx) []Obligation {
	ep := c.Pkg("homescript/errors")
	spanT, _ := ep.Types.Scope().Lookup("Span").Type().(*types.Named)
	locT, _ := ep.Types.Scope().Lookup("Location").Type().(*types.Named)
	if spanT == nil || locT == nil {
		fatalf("anchor unresolved: errors.Span / errors.Location")
	}
	var obs []Obligation
	for _, a := range []struct{ pkg, recv string }{{"homescript/errors", "Error"}, {"homescript/diagnostic", "Diagnostic"}} {
		fd := c.MustFunc(a.pkg, a.recv, "Display")
		p := c.Pkg(a.pkg)
		rc := &rdCtx{c: c, info: p.TypesInfo, spanT: spanT, locT: locT, fd: fd, sites: map[string]*rdSite{},
			decls: rdDecls(c), siteMemo: map[*types.Func]int{}, active: map[*types.Func]bool{}, spanTxt: map[string]bool{}, linesTxt: map[string]bool{}}
		if len(fd.Recv.List[0].Names) > 0 {
			rc.recv, _ = p.TypesInfo.Defs[fd.Recv.List[0].Names[0]].(*types.Var)
		}
		if rc.recv == nil {
			fatalf("anchor unresolved: receiver of %s.%s.Display", a.pkg, a.recv)
		}
		obs = append(obs, rc.run(strings.TrimPrefix(a.pkg, "homescript/")+"."+a.recv+".Display")...)
	}
	return obs
}

// ---- values ----

func rdIsInteger(t types.Type) bool {
	if t == nil {
		return false
	}
	b, ok := t.Underlying().(*types.Basic)
	return ok && b.Info()&types.IsInteger != 0
}

func rdIsUnsigned(t types.Type) bool {
	if t == nil {
		return false
	}
	b, ok := t.Underlying().(*types.Basic)
	return ok && b.Info()&types.IsUnsigned != 0
}

func rdIsStruct(t types.Type) bool {
	if t == nil {
		return false
	}
	if p, ok := t.Underlying().(*types.Pointer); ok {
		t = p.Elem()
	}
	_, ok := t.Underlying().(*types.Struct)
	return ok
}

func rdCap(v int64) int64 {
	if v >= rdInf {
		return rdInf
	}
	if v <= -rdInf {
		return -rdInf
	}
	return v
}

func rdAdd(a, b int64) int64 {
	if a >= rdInf || b >= rdInf {
		return rdInf
	}
	return rdCap(a + b)
}

func rdCat[T any](a []T, b ...[]T) []T {
	out := append([]T(nil), a...)
	for _, x := range b {
		out = append(out, x...)
	}
	return out
}

func (rc *rdCtx) builtin(fr *rdFrame, call *ast.CallExpr) string {
	if id, ok := ast.Unparen(call.Fun).(*ast.Ident); ok {
		if b, ok := fr.info.Uses[id].(*types.Builtin); ok {
			return b.Name()
		}
	}
	return ""
}

// eval computes the value of an expression of the function in fr on the path st.
func (rc *rdCtx) eval(fr *rdFrame, st *rdState, e ast.Expr) *rdV {
	e = ast.Unparen(e)
	tv := fr.info.Types[e]
	if tv.Value != nil {
		switch tv.Value.Kind() {
		case constant.Int:
			if n, ok := constant.Int64Val(tv.Value); ok {
				return &rdV{k: rdInt, txt: tv.Value.ExactString(), isLit: true, iv: rdIv{lo: n, hi: n, known: true}}
			}
		case constant.Bool:
			t := 0
			if constant.BoolVal(tv.Value) {
				t = 1
			}
			return &rdV{k: rdBool, txt: exprStr(e), tri: t}
		}
	}
	switch x := e.(type) {
	case *ast.Ident:
		obj := fr.info.Uses[x]
		if obj == nil {
			obj = fr.info.Defs[x]
		}
		if obj != nil {
			if v := st.env[obj]; v != nil {
				return v
			}
			if obj == rc.recv {
				return &rdV{k: rdRecv, txt: x.Name}
			}
		}
		v := &rdV{txt: x.Name, tri: -1}
		if rdIsInteger(tv.Type) {
			v.k = rdInt
		}
		return v
	case *ast.SelectorExpr:
		sel := fr.info.Selections[x]
		if sel == nil || sel.Kind() != types.FieldVal {
			return &rdV{txt: exprStr(x), tri: -1}
		}
		base := rc.eval(fr, st, x.X)
		v := &rdV{txt: base.txt + "." + x.Sel.Name, tri: -1}
		switch {
		case base.k == rdRecv && types.Identical(tv.Type, rc.spanT):
			v.k = rdSpan
			rc.spanTxt[v.txt] = true
		case base.k == rdRecv && rdIsStruct(tv.Type):
			v.k = rdRecv
		case base.k == rdSpan && types.Identical(tv.Type, rc.locT):
			v.k = rdLoc
		case base.k == rdLoc && !base.zero && rdIsInteger(tv.Type):
			v.k, v.rooted, v.iv, v.fields = rdInt, true, rdIv{known: true}, []string{v.txt}
		case base.k == rdLoc && base.zero && rdIsInteger(tv.Type):
			v.k, v.iv = rdInt, rdIv{known: true}
		case rdIsInteger(tv.Type):
			v.k = rdInt
		}
		return v
	case *ast.StarExpr:
		return rc.eval(fr, st, x.X)
	case *ast.UnaryExpr:
		if x.Op == token.AND {
			return rc.eval(fr, st, x.X)
		}
		if x.Op == token.NOT {
			return &rdV{k: rdBool, txt: "!" + rc.eval(fr, st, x.X).txt, tri: rc.condW(fr, st, x)}
		}
		a := rc.eval(fr, st, x.X)
		v := &rdV{txt: x.Op.String() + a.txt, subs: a.subs, fields: a.fields, tri: -1}
		if rdIsInteger(tv.Type) {
			v.k = rdInt
			if x.Op == token.SUB && a.iv.known && !a.iv.wrapped && !rdIsUnsigned(tv.Type) {
				v.iv = rdIv{lo: rdCap(-a.iv.hi), hi: rdCap(-a.iv.lo), known: true}
			}
		}
		return v
	case *ast.CompositeLit:
		if len(x.Elts) == 0 && tv.Type != nil && types.Identical(tv.Type, rc.locT) {
			return &rdV{k: rdLoc, zero: true, txt: exprStr(x), tri: -1}
		}
		return &rdV{txt: exprStr(x), tri: -1}
	case *ast.IndexExpr:
		a, b := rc.eval(fr, st, x.X), rc.eval(fr, st, x.Index)
		v := &rdV{txt: a.txt + "[" + b.txt + "]", subs: rdCat(a.subs, b.subs), fields: rdCat(a.fields, b.fields), tri: -1}
		if rdIsInteger(tv.Type) {
			v.k = rdInt
		}
		return v
	case *ast.BinaryExpr:
		switch x.Op {
		case token.LAND, token.LOR, token.EQL, token.NEQ, token.LSS, token.LEQ, token.GTR, token.GEQ:
			a, b := rc.eval(fr, st, x.X), rc.eval(fr, st, x.Y)
			return &rdV{k: rdBool, txt: a.txt + x.Op.String() + b.txt, subs: rdCat(a.subs, b.subs), fields: rdCat(a.fields, b.fields), tri: rc.condW(fr, st, x)}
		}
		a, b := rc.eval(fr, st, x.X), rc.eval(fr, st, x.Y)
		v := &rdV{txt: a.txt + x.Op.String() + b.txt, tri: -1}
		if (x.Op == token.ADD || x.Op == token.SUB) && b.isLit && !a.isLit && rdIsInteger(tv.Type) {
			// constant offsets fold: F-1-1 is F-2 wherever the two steps are written
			v.lin, v.linTxt, v.linOff, v.linSub = true, a.txt, 0, a.subs
			if a.lin {
				v.linTxt, v.linOff, v.linSub = a.linTxt, a.linOff, a.linSub
			}
			if x.Op == token.ADD {
				v.linOff += b.iv.lo
			} else {
				v.linOff -= b.iv.lo
			}
			switch {
			case v.linOff == 0:
				v.txt = v.linTxt
			case v.linOff > 0:
				v.txt = fmt.Sprintf("%s+%d", v.linTxt, v.linOff)
			default:
				v.txt = fmt.Sprintf("%s-%d", v.linTxt, -v.linOff)
				v.subs = append(v.subs, rdSub{x: v.linTxt, y: fmt.Sprint(-v.linOff), yConst: true, yVal: -v.linOff})
			}
			v.subs = rdCat(v.subs, v.linSub)
		} else {
			if x.Op == token.SUB {
				v.subs = append(v.subs, rdSub{x: a.txt, y: b.txt, yConst: b.isLit, yVal: b.iv.lo})
			}
			v.subs = rdCat(v.subs, a.subs, b.subs)
		}
		v.fields = rdCat(a.fields, b.fields)
		if rdIsInteger(tv.Type) {
			v.k = rdInt
		}
		if (x.Op == token.ADD || x.Op == token.SUB) && rdIsInteger(tv.Type) {
			la, ka := rdLC(a)
			lb, kb := rdLC(b)
			sign := int64(1)
			if x.Op == token.SUB {
				sign = -1
			}
			v.lc, v.lcK = map[string]int64{}, ka+sign*kb
			for t, c := range la {
				v.lc[t] += c
			}
			for t, c := range lb {
				v.lc[t] += sign * c
			}
			for t, c := range v.lc {
				if c == 0 {
					delete(v.lc, t)
				}
			}
		}
		if (x.Op == token.ADD || x.Op == token.SUB) && a.iv.known && b.iv.known {
			r := rdIv{known: true, wrapped: a.iv.wrapped || b.iv.wrapped}
			if x.Op == token.ADD {
				r.lo, r.hi = rdCap(a.iv.lo+b.iv.lo), rdAdd(a.iv.hi, b.iv.hi)
			} else {
				r.lo = rdCap(a.iv.lo - rdCap(b.iv.hi))
				r.hi = rdCap(rdCap(a.iv.hi) - b.iv.lo)
				if a.iv.hi >= rdInf {
					r.hi = rdInf
				}
			}
			if rdIsUnsigned(tv.Type) && r.hi < 0 {
				r.wrapped = true
			}
			v.iv = r
		}
		return v
	case *ast.CallExpr:
		return rc.evalCall(fr, st, x, tv.Type)
	}
	v := &rdV{txt: exprStr(e), tri: -1}
	if rdIsInteger(tv.Type) {
		v.k = rdInt
	}
	return v
}

func (rc *rdCtx) evalCall(fr *rdFrame, st *rdState, x *ast.CallExpr, t types.Type) *rdV {
	// conversion
	if ftv, ok := fr.info.Types[x.Fun]; ok && ftv.IsType() && len(x.Args) == 1 {
		a := rc.eval(fr, st, x.Args[0])
		if a.k == rdInt && rdIsInteger(t) {
			// a wrapped unsigned converted to int stays out of range either way
			return a
		}
		if a.k == rdInt || a.k == rdOther {
			c := *a
			if !rdIsInteger(t) {
				c.k, c.iv = rdOther, rdIv{}
			}
			return &c
		}
		return a
	}
	var args []*rdV
	var atxt []string
	var subs []rdSub
	var fields []string
	for _, a := range x.Args {
		v := rc.eval(fr, st, a)
		args = append(args, v)
		atxt = append(atxt, v.txt)
		subs = append(subs, v.subs...)
		fields = append(fields, v.fields...)
	}
	v := &rdV{txt: rc.funText(fr, st, x.Fun) + "(" + strings.Join(atxt, ",") + ")", subs: subs, fields: fields, tri: -1}
	if rdIsInteger(t) {
		v.k = rdInt
	}
	switch rc.builtin(fr, x) {
	case "len":
		if len(args) == 1 {
			v.iv = rdIv{lo: args[0].lenLo, hi: rdInf, known: true}
		}
		return v
	case "max", "min":
		isMax := rc.builtin(fr, x) == "max"
		if len(args) == 0 || !rdIsInteger(t) {
			return v
		}
		r := rdIv{known: true}
		first := true
		anyKnown, allKnown, anyClean := false, true, false
		for _, a := range args {
			if !a.iv.known {
				allKnown = false
				continue
			}
			anyKnown = true
			if !a.iv.wrapped {
				anyClean = true
			}
			if first {
				r.lo, r.hi, first = a.iv.lo, a.iv.hi, false
				continue
			}
			if isMax {
				r.lo, r.hi = max(r.lo, a.iv.lo), max(r.hi, a.iv.hi)
			} else {
				r.lo, r.hi = min(r.lo, a.iv.lo), min(r.hi, a.iv.hi)
			}
		}
		if !anyKnown {
			return v
		}
		for _, a := range args {
			if a.iv.known && a.iv.wrapped {
				// a wrapped unsigned is a huge value: it wins a max, loses a min against a clean operand
				if isMax || !anyClean {
					r.wrapped = true
				}
			}
		}
		if !allKnown {
			if isMax {
				r.hi = rdInf
			} else {
				r.lo = -rdInf
			}
		}
		v.iv = r
		if isMax && !rdIsUnsigned(t) {
			for _, a := range args {
				if a.isLit && a.iv.lo >= 0 {
					v.clamp0 = true
				}
			}
			if v.clamp0 && v.iv.lo < 0 {
				v.iv.lo = 0
			}
		}
		if !isMax {
			nonNeg := !rdIsUnsigned(t)
			for _, a := range args {
				v.capTxt = append(v.capTxt, a.txt)
				if !(a.clamp0 || len(a.fields) == 0 && a.iv.known && !a.iv.wrapped && a.iv.lo >= 0) {
					nonNeg = false
				}
			}
			v.clamp0 = nonNeg
		}
		return v
	}
	fn := CalleeOf(fr.info, x)
	if fn != nil && fn.Pkg() != nil && fn.Pkg().Path() == "strings" && fn.Name() == "Split" {
		v.lenLo = 1 // strings.Split with a non-empty separator returns >= 1 element
		rc.linesTxt[v.txt] = true
		return v
	}
	if r := rc.callW(fr, st, x); r != nil {
		if r.txt == "" {
			// several returns: the value is their join, the text stays the call
			c := *r
			c.txt, c.subs, c.fields = v.txt, v.subs, v.fields
			return &c
		}
		return r
	}
	return v
}

// funText renders the callee of a call with the receiver operand resolved.
func (rc *rdCtx) funText(fr *rdFrame, st *rdState, f ast.Expr) string {
	if s, ok := ast.Unparen(f).(*ast.SelectorExpr); ok {
		if sel := fr.info.Selections[s]; sel != nil {
			return rc.eval(fr, st, s.X).txt + "." + s.Sel.Name
		}
	}
	return exprStr(f)
}

func (rc *rdCtx) norm(fr *rdFrame, st *rdState, e ast.Expr) string { return rc.eval(fr, st, e).txt }

// ---- interpretation of helper functions ----

// bindCall binds the receiver and the parameters of the callee to the values
// of the operands of call (evaluated in fr). ok=false: not a function of the
// module, too deep, recursive, or an operand list that does not map 1:1.
func (rc *rdCtx) bindCall(fr *rdFrame, st *rdState, call *ast.CallExpr, env map[types.Object]*rdV) (*types.Func, rdDecl, bool) {
	fn := CalleeOf(fr.info, call)
	if fn == nil {
		return nil, rdDecl{}, false
	}
	d, ok := rc.decls[fn]
	if !ok || fr.depth >= 4 || rc.active[fn] {
		return nil, rdDecl{}, false
	}
	sig := fn.Type().(*types.Signature)
	if sig.Variadic() {
		return nil, rdDecl{}, false
	}
	var names []*ast.Ident
	for _, f := range d.fd.Type.Params.List {
		if len(f.Names) == 0 {
			names = append(names, nil)
		}
		names = append(names, f.Names...)
	}
	if len(names) != len(call.Args) {
		return nil, rdDecl{}, false
	}
	vals := make([]*rdV, len(call.Args))
	for i, a := range call.Args {
		vals[i] = rc.eval(fr, st, a)
	}
	if sig.Recv() != nil {
		s, ok := ast.Unparen(call.Fun).(*ast.SelectorExpr)
		if !ok {
			return nil, rdDecl{}, false
		}
		if d.fd.Recv != nil && len(d.fd.Recv.List) > 0 && len(d.fd.Recv.List[0].Names) > 0 {
			if o := d.info.Defs[d.fd.Recv.List[0].Names[0]]; o != nil {
				env[o] = rc.eval(fr, st, s.X)
			}
		}
	}
	for i, n := range names {
		if n == nil || n.Name == "_" {
			continue
		}
		if o := d.info.Defs[n]; o != nil {
			env[o] = vals[i]
		}
	}
	return fn, d, true
}

// callW interprets a call of a function of the module whose body is made of
// local definitions, if statements and returns of one value. nil: not such a
// function. A result with empty txt is the join of several returns.
func (rc *rdCtx) callW(fr *rdFrame, st *rdState, call *ast.CallExpr) *rdV {
	if r := rc.callAny(fr, st, call); r != nil && r.tuple == nil {
		return r
	}
	return nil
}

// callAny: as callW; a helper with several results yields a value with tuple set.
func (rc *rdCtx) callAny(fr *rdFrame, st *rdState, call *ast.CallExpr) *rdV {
	st2 := &rdState{wOK: st.wOK, env: make(map[types.Object]*rdV, len(st.env)+4)}
	for k, v := range st.env {
		st2.env[k] = v
	}
	fn, d, ok := rc.bindCall(fr, st, call, st2.env)
	if !ok || fn.Type().(*types.Signature).Results().Len() < 1 {
		return nil
	}
	rc.active[fn] = true
	defer delete(rc.active, fn)
	fr2 := &rdFrame{info: d.info, fd: d.fd, chain: fr.chain, depth: fr.depth + 1}
	res, done := rc.interp(fr2, st2, d.fd.Body.List)
	if done != 1 || res == nil {
		return nil
	}
	return res
}

func rdJoin(a, b *rdV) *rdV {
	if a == nil {
		return b
	}
	if b == nil {
		return a
	}
	if a.tuple != nil || b.tuple != nil {
		if len(a.tuple) != len(b.tuple) {
			return &rdV{tri: -1}
		}
		r := &rdV{tri: -1}
		for i := range a.tuple {
			r.tuple = append(r.tuple, rdJoin(a.tuple[i], b.tuple[i]))
		}
		return r
	}
	if a.txt != "" && a.txt == b.txt && a.k == b.k && a.tri == b.tri && a.iv == b.iv {
		return a
	}
	r := &rdV{tri: -1}
	if a.k == b.k {
		r.k = a.k
	}
	if r.k == rdSpan || r.k == rdLoc || r.k == rdRecv {
		r.k = rdOther // different parts of the receiver
	}
	if a.tri == b.tri {
		r.tri = a.tri
	}
	if a.iv.known && b.iv.known {
		r.iv = rdIv{lo: min(a.iv.lo, b.iv.lo), hi: max(a.iv.hi, b.iv.hi), known: true, wrapped: a.iv.wrapped || b.iv.wrapped}
	}
	r.lenLo = min(a.lenLo, b.lenLo)
	return r
}

func rdAnon(v *rdV) *rdV {
	if v == nil {
		return nil
	}
	r := &rdV{k: v.k, tri: v.tri, iv: v.iv, lenLo: v.lenLo}
	for _, t := range v.tuple {
		r.tuple = append(r.tuple, rdAnon(t))
	}
	return r
}

// interp: (value returned, 1 = every path returned / 0 = none did / -1 = the
// body has a shape that is not interpreted). A value that depends on a
// decision taken inside the body has no text of its own (rdAnon).
func (rc *rdCtx) interp(fr *rdFrame, st *rdState, list []ast.Stmt) (*rdV, int) {
	var pending *rdV // join of the values returned earlier under an undecided condition
	branched := false
	fin := func(v *rdV) (*rdV, int) {
		if pending != nil {
			return rdJoin(pending, rdAnon(v)), 1
		}
		if branched {
			return rdAnon(v), 1
		}
		return v, 1
	}
	for _, s := range list {
		switch x := s.(type) {
		case *ast.ReturnStmt:
			if len(x.Results) == 0 {
				return nil, -1
			}
			if len(x.Results) > 1 {
				t := &rdV{tri: -1}
				for _, e := range x.Results {
					t.tuple = append(t.tuple, rc.eval(fr, st, e))
				}
				return fin(t)
			}
			return fin(rc.eval(fr, st, x.Results[0]))
		case *ast.AssignStmt, *ast.DeclStmt, *ast.IncDecStmt:
			rc.bindStmt(fr, st, s)
		case *ast.EmptyStmt:
		case *ast.BlockStmt:
			v, done := rc.interp(fr, st, x.List)
			if done == -1 {
				return nil, -1
			}
			if done == 1 {
				return fin(v)
			}
		case *ast.IfStmt:
			if x.Init != nil {
				rc.bindStmt(fr, st, x.Init)
			}
			branched = true
			c := rc.condW(fr, st, x.Cond)
			var els []ast.Stmt
			if x.Else != nil {
				els = []ast.Stmt{x.Else}
			}
			switch c {
			case 1, 0:
				br := x.Body.List
				if c == 0 {
					br = els
				}
				v, done := rc.interp(fr, st, br)
				if done == -1 {
					return nil, -1
				}
				if done == 1 {
					return fin(v)
				}
			default:
				s1, s2 := rdClone(st), rdClone(st)
				v1, d1 := rc.interp(fr, s1, x.Body.List)
				v2, d2 := rc.interp(fr, s2, els)
				if d1 == -1 || d2 == -1 {
					return nil, -1
				}
				switch {
				case d1 == 1 && d2 == 1:
					return fin(rdJoin(rdAnon(v1), rdAnon(v2)))
				case d1 == 1:
					pending = rdJoin(pending, rdAnon(v1))
					st.env = s2.env
				case d2 == 1:
					pending = rdJoin(pending, rdAnon(v2))
					st.env = s1.env
				default:
					// keep what both branches agree on
					for k, v := range s1.env {
						if s2.env[k] != v {
							delete(s1.env, k)
						}
					}
					st.env = s1.env
				}
			}
		default:
			return nil, -1
		}
	}
	return pending, 0
}

// bindStmt records what a simple statement defines.
func (rc *rdCtx) bindStmt(fr *rdFrame, st *rdState, s ast.Stmt) {
	objOf := func(e ast.Expr) types.Object {
		id, ok := ast.Unparen(e).(*ast.Ident)
		if !ok || id.Name == "_" {
			return nil
		}
		if o := fr.info.Defs[id]; o != nil {
			return o
		}
		return fr.info.Uses[id]
	}
	// a variable that changes: what earlier decisions said about it is gone
	forget := func(obj types.Object) {
		kept := st.facts[:0:0]
		for _, f := range st.facts {
			if !rdMentions(f.x, obj.Name()) && !rdMentions(f.y, obj.Name()) {
				kept = append(kept, f)
			}
		}
		st.facts = kept
	}
	bind := func(obj types.Object, name string, v *rdV) {
		if obj == nil {
			return
		}
		forget(obj)
		if v != nil && v.txt == "" {
			c := *v
			c.txt = name
			v = &c
		}
		switch {
		case v == nil:
			delete(st.env, obj)
		case v.k == rdRecv || v.k == rdSpan || v.k == rdLoc || v.k == rdBool:
			st.env[obj] = v
		case v.k == rdInt && rdIsInteger(obj.Type()):
			st.env[obj] = v
		case v.lenLo > 0:
			st.env[obj] = &rdV{txt: name, lenLo: v.lenLo, tri: -1}
			if rc.linesTxt[v.txt] {
				rc.linesTxt[name] = true
			}
		default:
			delete(st.env, obj)
		}
	}
	switch x := s.(type) {
	case *ast.AssignStmt:
		if len(x.Lhs) == len(x.Rhs) && (x.Tok == token.DEFINE || x.Tok == token.ASSIGN) {
			vals := make([]*rdV, len(x.Rhs))
			for i, r := range x.Rhs {
				vals[i] = rc.eval(fr, st, r)
			}
			for i, l := range x.Lhs {
				if id, ok := ast.Unparen(l).(*ast.Ident); ok {
					bind(objOf(l), id.Name, vals[i])
				}
			}
			return
		}
		if len(x.Rhs) == 1 && len(x.Lhs) > 1 && (x.Tok == token.DEFINE || x.Tok == token.ASSIGN) {
			if call, ok := ast.Unparen(x.Rhs[0]).(*ast.CallExpr); ok {
				if r := rc.callAny(fr, st, call); r != nil && len(r.tuple) == len(x.Lhs) {
					for i, l := range x.Lhs {
						if id, ok := ast.Unparen(l).(*ast.Ident); ok {
							bind(objOf(l), id.Name, r.tuple[i])
						}
					}
					return
				}
			}
		}
		for _, l := range x.Lhs {
			if o := objOf(l); o != nil {
				delete(st.env, o)
				forget(o)
			}
		}
	case *ast.IncDecStmt:
		if o := objOf(x.X); o != nil {
			delete(st.env, o)
			forget(o)
		}
	case *ast.DeclStmt:
		gd, ok := x.Decl.(*ast.GenDecl)
		if !ok {
			return
		}
		for _, sp := range gd.Specs {
			vs, ok := sp.(*ast.ValueSpec)
			if !ok {
				continue
			}
			for i, n := range vs.Names {
				if len(vs.Values) == len(vs.Names) {
					bind(fr.info.Defs[n], n.Name, rc.eval(fr, st, vs.Values[i]))
				} else if o := fr.info.Defs[n]; o != nil {
					delete(st.env, o)
				}
			}
		}
	}
}

// ---- linear facts: what a valid in-text span and the path decisions imply ----

// rdLC: the value as Σ coef·term + k.
func rdLC(v *rdV) (map[string]int64, int64) {
	if v.lc != nil {
		return v.lc, v.lcK
	}
	if v.isLit {
		return map[string]int64{}, v.iv.lo
	}
	return map[string]int64{v.txt: 1}, 0
}

// rdDiff: a - b as x - y + k with single terms x, y ("" = none); ok=false otherwise.
func rdDiff(a, b *rdV) (x, y string, k int64, ok bool) {
	la, ka := rdLC(a)
	lb, kb := rdLC(b)
	d := map[string]int64{}
	for t, c := range la {
		d[t] += c
	}
	for t, c := range lb {
		d[t] -= c
	}
	k = ka - kb
	for t, c := range d {
		switch {
		case c == 0:
		case c == 1 && x == "":
			x = t
		case c == -1 && y == "":
			y = t
		default:
			return "", "", 0, false
		}
	}
	return x, y, k, true
}

// cmpFacts: the difference constraints of `a op b`.
func rdCmpFacts(a, b *rdV, op token.Token) []rdDC {
	if a.k != rdInt || b.k != rdInt {
		return nil
	}
	x, y, k, ok := rdDiff(a, b) // a - b = x - y + k
	if !ok || (x == "" && y == "") {
		return nil
	}
	le := func(s int64) rdDC { return rdDC{x, y, -k - s} } // x - y + k <= -s
	ge := func(s int64) rdDC { return rdDC{y, x, k - s} }  // x - y + k >= s
	switch op {
	case token.LEQ:
		return []rdDC{le(0)}
	case token.LSS:
		return []rdDC{le(1)}
	case token.GEQ:
		return []rdDC{ge(0)}
	case token.GTR:
		return []rdDC{ge(1)}
	case token.EQL:
		return []rdDC{le(0), ge(0)}
	}
	return nil
}

// rdMentions: the term text contains the identifier as a whole word.
func rdMentions(term, name string) bool {
	for i := 0; i+len(name) <= len(term); i++ {
		if term[i:i+len(name)] != name {
			continue
		}
		isW := func(c byte) bool {
			return c == '_' || c >= '0' && c <= '9' || c >= 'a' && c <= 'z' || c >= 'A' && c <= 'Z'
		}
		if (i == 0 || !isW(term[i-1]) && term[i-1] != '.') && (i+len(name) == len(term) || !isW(term[i+len(name)])) {
			return true
		}
	}
	return false
}

type rdGraph struct {
	idx  map[string]int
	d    [][]int64
	cyc  bool
	name []string
}

const rdNoEdge = int64(1) << 50

func rdSolve(dcs []rdDC) *rdGraph {
	g := &rdGraph{idx: map[string]int{}}
	id := func(t string) int {
		if i, ok := g.idx[t]; ok {
			return i
		}
		g.idx[t] = len(g.name)
		g.name = append(g.name, t)
		return len(g.name) - 1
	}
	id("")
	for _, c := range dcs {
		id(c.x)
		id(c.y)
	}
	n := len(g.name)
	g.d = make([][]int64, n)
	for i := range g.d {
		g.d[i] = make([]int64, n)
		for j := range g.d[i] {
			if i != j {
				g.d[i][j] = rdNoEdge
			}
		}
	}
	for _, c := range dcs {
		i, j := g.idx[c.x], g.idx[c.y]
		if c.c < g.d[i][j] {
			g.d[i][j] = c.c
		}
	}
	for k := 0; k < n; k++ {
		for i := 0; i < n; i++ {
			if g.d[i][k] >= rdNoEdge {
				continue
			}
			for j := 0; j < n; j++ {
				if g.d[k][j] < rdNoEdge && g.d[i][k]+g.d[k][j] < g.d[i][j] {
					g.d[i][j] = g.d[i][k] + g.d[k][j]
				}
			}
		}
	}
	for i := 0; i < n; i++ {
		if g.d[i][i] < 0 {
			g.cyc = true
		}
	}
	return g
}

// le: does x <= y + c follow? (bound = the least c' with x <= y + c' that does)
func (g *rdGraph) le(x, y string, c int64) (bool, int64, bool) {
	i, ok1 := g.idx[x]
	j, ok2 := g.idx[y]
	if !ok1 || !ok2 || g.d[i][j] >= rdNoEdge {
		return false, 0, false
	}
	return g.d[i][j] <= c, g.d[i][j], true
}

// validFacts: what "the span lies inside the text" means for the terms of this
// renderer: 1 <= Start.Line <= End.Line <= len(lines); columns are 1-based and
// at most one past the end of their line; lengths are not negative.
func (rc *rdCtx) validFacts(extra []string) []rdDC {
	var out []rdDC
	for sp := range rc.spanTxt {
		sl, el, sc, ec := sp+".Start.Line", sp+".End.Line", sp+".Start.Column", sp+".End.Column"
		out = append(out, rdDC{"", sl, -1}, rdDC{sl, el, 0}, rdDC{"", sc, -1}, rdDC{"", ec, -1})
		for ln := range rc.linesTxt {
			out = append(out, rdDC{el, "len(" + ln + ")", 0})
			out = append(out, rdDC{sc, "len(" + ln + "[" + sl + "-1])", 1}, rdDC{ec, "len(" + ln + "[" + el + "-1])", 1})
		}
	}
	for _, t := range extra {
		if strings.HasPrefix(t, "len(") {
			out = append(out, rdDC{"", t, 0})
		}
	}
	return out
}

// decideValid decides one visit of a site whose operand is computed from the
// span: is it in range for every span that lies inside the text, given the
// decisions taken on this path? ("", true): proved; (witness, false): a valid
// span takes this path and leaves the range; ("", false) with skip: no verdict.
func (rc *rdCtx) decideValid(st *rdState, s *rdSite, val *rdV) (witness string, proved, skip bool) {
	if val == nil || val.k != rdInt || len(val.fields) == 0 {
		return "", false, true
	}
	lc, k := rdLC(val)
	pos, neg := "", ""
	for t, c := range lc {
		switch {
		case c == 1 && pos == "":
			pos = t
		case c == -1 && neg == "":
			neg = t
		default:
			return "", false, true // not a difference of two terms: no verdict
		}
	}
	var terms []string
	for _, f := range st.facts {
		terms = append(terms, f.x, f.y)
	}
	terms = append(terms, pos, neg)
	lenC := "len(" + s.bound + ")"
	if s.kind != "repeat" && s.bound != "" {
		terms = append(terms, lenC)
	}
	dcs := append(rc.validFacts(terms), st.facts...)
	g := rdSolve(dcs)
	if g.cyc {
		return "", false, true // no valid span takes this path
	}
	// on one line the columns are ordered
	added := false
	for sp := range rc.spanTxt {
		sl, el := sp+".Start.Line", sp+".End.Line"
		if ok, _, _ := g.le(el, sl, 0); ok {
			dcs = append(dcs, rdDC{sp + ".Start.Column", sp + ".End.Column", 0})
			added = true
		}
	}
	if added {
		g = rdSolve(dcs)
		if g.cyc {
			return "", false, true
		}
	}
	path := strings.Join(st.atoms, "; ")
	// value = pos - neg + k >= 0  <=>  neg <= pos + k
	if ok, b, has := g.le(neg, pos, k); !ok {
		what := "the index"
		if s.kind == "repeat" {
			what = "the count"
		}
		lowest := "no lower bound follows"
		if has {
			lowest = fmt.Sprintf("only %s >= %d follows", val.txt, k-b)
		}
		return fmt.Sprintf("%s %s can be negative for a span inside the text (%s) on path {%s}", what, val.txt, lowest, path), false, false
	}
	if s.kind == "repeat" || s.bound == "" {
		return "", true, false
	}
	// value <= len(container) - 1 (index) / len(container) (slice bound)
	lim := int64(-1)
	if s.kind == "slice" {
		lim = 0
	}
	if neg != "" {
		return "", true, false // a difference: only the sign is decided
	}
	if ok, b, has := g.le(pos, lenC, lim-k); !ok {
		most := "no upper bound relative to " + lenC + " follows"
		if has {
			most = fmt.Sprintf("only %s <= %s follows from a valid span and the path", val.txt, lenC)
			if b+k != 0 {
				most = fmt.Sprintf("only %s <= %s%+d follows from a valid span and the path", val.txt, lenC, b+k)
			}
		}
		return fmt.Sprintf("index %s can reach %s for a span inside the text: %s {%s}", val.txt, lenC, most, path), false, false
	}
	return "", true, false
}

// ---- conditions ----

func rdNot(v int) int {
	if v < 0 {
		return -1
	}
	return 1 - v
}

// condW: value of a condition under the whole-file assumption: 1 true,
// 0 false, -1 unknown.
func (rc *rdCtx) condW(fr *rdFrame, st *rdState, e ast.Expr) int {
	e = ast.Unparen(e)
	if tv := fr.info.Types[e]; tv.Value != nil && tv.Value.Kind() == constant.Bool {
		if constant.BoolVal(tv.Value) {
			return 1
		}
		return 0
	}
	switch x := e.(type) {
	case *ast.UnaryExpr:
		if x.Op == token.NOT {
			return rdNot(rc.condW(fr, st, x.X))
		}
		return -1
	case *ast.Ident:
		if v := rc.eval(fr, st, x); v.k == rdBool {
			return v.tri
		}
		return -1
	case *ast.CallExpr:
		if ftv, ok := fr.info.Types[x.Fun]; ok && ftv.IsType() && len(x.Args) == 1 {
			return rc.condW(fr, st, x.Args[0])
		}
		if v := rc.callW(fr, st, x); v != nil && v.k == rdBool {
			return v.tri
		}
		return -1
	}
	be, ok := e.(*ast.BinaryExpr)
	if !ok {
		return -1
	}
	switch be.Op {
	case token.LAND:
		a, b := rc.condW(fr, st, be.X), rc.condW(fr, st, be.Y)
		switch {
		case a == 0 || b == 0:
			return 0
		case a == 1 && b == 1:
			return 1
		}
		return -1
	case token.LOR:
		a, b := rc.condW(fr, st, be.X), rc.condW(fr, st, be.Y)
		switch {
		case a == 1 || b == 1:
			return 1
		case a == 0 && b == 0:
			return 0
		}
		return -1
	}
	// struct comparisons
	if be.Op == token.EQL || be.Op == token.NEQ {
		tx := fr.info.Types[be.X].Type
		if tx != nil && types.Identical(tx, rc.locT) {
			a, b := rc.eval(fr, st, be.X), rc.eval(fr, st, be.Y)
			isLoc := func(v *rdV) bool { return v.k == rdLoc }
			if isLoc(a) && isLoc(b) && !(a.zero && b.zero) || (isLoc(a) && !a.zero && rdZeroLit(be.Y)) || (isLoc(b) && !b.zero && rdZeroLit(be.X)) {
				if be.Op == token.EQL {
					return 1
				}
				return 0
			}
			return -1
		}
		if tx != nil && types.Identical(tx, rc.spanT) {
			return -1 // compares the Filename too: not decided by line/column
		}
		if tx != nil {
			if b, ok := tx.Underlying().(*types.Basic); ok && b.Info()&types.IsBoolean != 0 {
				a, c := rc.condW(fr, st, be.X), rc.condW(fr, st, be.Y)
				if a < 0 || c < 0 {
					return -1
				}
				if (a == c) == (be.Op == token.EQL) {
					return 1
				}
				return 0
			}
		}
	}
	av, bv := rc.eval(fr, st, be.X), rc.eval(fr, st, be.Y)
	a, b := av.iv, bv.iv
	if !a.known || !b.known || a.wrapped || b.wrapped {
		return -1
	}
	tri := func(t, f bool) int {
		if t {
			return 1
		}
		if f {
			return 0
		}
		return -1
	}
	switch be.Op {
	case token.EQL:
		return tri(a.lo == a.hi && b.lo == b.hi && a.lo == b.lo, a.hi < b.lo || b.hi < a.lo)
	case token.NEQ:
		return tri(a.hi < b.lo || b.hi < a.lo, a.lo == a.hi && b.lo == b.hi && a.lo == b.lo)
	case token.LSS:
		return tri(a.hi < b.lo, a.lo >= b.hi)
	case token.LEQ:
		return tri(a.hi <= b.lo, a.lo > b.hi)
	case token.GTR:
		return tri(a.lo > b.hi, a.hi <= b.lo)
	case token.GEQ:
		return tri(a.lo >= b.hi, a.hi < b.lo)
	}
	return -1
}

func rdZeroLit(e ast.Expr) bool {
	cl, ok := ast.Unparen(e).(*ast.CompositeLit)
	return ok && len(cl.Elts) == 0
}

func rdNegOp(op token.Token) token.Token {
	switch op {
	case token.EQL:
		return token.NEQ
	case token.NEQ:
		return token.EQL
	case token.LSS:
		return token.GEQ
	case token.LEQ:
		return token.GTR
	case token.GTR:
		return token.LEQ
	case token.GEQ:
		return token.LSS
	}
	return op
}

// atomFacts: the comparisons that hold when e evaluates to taken; ok=false
// when e (with that outcome) is not a conjunction of comparisons.
func (rc *rdCtx) atomFacts(fr *rdFrame, st *rdState, e ast.Expr, taken bool) ([]string, bool) {
	e = ast.Unparen(e)
	switch x := e.(type) {
	case *ast.UnaryExpr:
		if x.Op == token.NOT {
			return rc.atomFacts(fr, st, x.X, !taken)
		}
	case *ast.BinaryExpr:
		switch x.Op {
		case token.LAND, token.LOR:
			if (x.Op == token.LAND) != taken {
				return nil, false
			}
			a, ok1 := rc.atomFacts(fr, st, x.X, taken)
			b, ok2 := rc.atomFacts(fr, st, x.Y, taken)
			if !ok1 || !ok2 {
				return nil, false
			}
			return append(a, b...), true
		case token.EQL, token.NEQ, token.LSS, token.LEQ, token.GTR, token.GEQ:
			op := x.Op
			if !taken {
				op = rdNegOp(op)
			}
			va, vb := rc.eval(fr, st, x.X), rc.eval(fr, st, x.Y)
			rc.sink = append(rc.sink, rdCmpFacts(va, vb, op)...)
			return []string{va.txt + " " + op.String() + " " + vb.txt}, true
		}
	case *ast.CallExpr:
		// a predicate helper that returns one expression
		env := map[types.Object]*rdV{}
		fn, d, ok := rc.bindCall(fr, st, x, env)
		if !ok || len(d.fd.Body.List) != 1 {
			return nil, false
		}
		ret, isRet := d.fd.Body.List[0].(*ast.ReturnStmt)
		if !isRet || len(ret.Results) != 1 {
			return nil, false
		}
		st2 := &rdState{wOK: st.wOK, env: env}
		for k, v := range st.env {
			if _, dup := env[k]; !dup {
				env[k] = v
			}
		}
		rc.active[fn] = true
		defer delete(rc.active, fn)
		return rc.atomFacts(&rdFrame{info: d.info, fd: d.fd, chain: fr.chain, depth: fr.depth + 1}, st2, ret.Results[0], taken)
	}
	return nil, false
}

func (rc *rdCtx) atomStrs(fr *rdFrame, st *rdState, e ast.Expr, taken bool) []string {
	if f, ok := rc.atomFacts(fr, st, e, taken); ok {
		return f
	}
	if taken {
		return []string{rc.norm(fr, st, e)}
	}
	return []string{"!(" + rc.norm(fr, st, e) + ")"}
}

// ---- sites ----

// hasSites: the function (or a function of the module it calls) contains an
// index / slice / strings.Repeat site.
func (rc *rdCtx) hasSites(fn *types.Func) bool {
	switch rc.siteMemo[fn] {
	case 1:
		return true
	case 2, 3:
		return false
	}
	d, ok := rc.decls[fn]
	if !ok {
		rc.siteMemo[fn] = 2
		return false
	}
	rc.siteMemo[fn] = 3
	found := false
	ast.Inspect(d.fd.Body, func(n ast.Node) bool {
		if found {
			return false
		}
		switch x := n.(type) {
		case *ast.FuncLit:
			return false
		case *ast.IndexExpr:
			if t := d.info.Types[x.X].Type; t != nil {
				if _, isMap := t.Underlying().(*types.Map); !isMap {
					if _, isSig := t.Underlying().(*types.Signature); !isSig {
						found = true
					}
				}
			}
		case *ast.SliceExpr:
			found = true
		case *ast.CallExpr:
			if f := CalleeOf(d.info, x); f != nil {
				if f.Pkg() != nil && f.Pkg().Path() == "strings" && f.Name() == "Repeat" {
					found = true
				} else if rc.hasSites(f) {
					found = true
				}
			}
		}
		return true
	})
	if found {
		rc.siteMemo[fn] = 1
	} else {
		rc.siteMemo[fn] = 2
	}
	return found
}

func (rc *rdCtx) visitSites(fr *rdFrame, st *rdState, n ast.Node) {
	ast.Inspect(n, func(m ast.Node) bool {
		var site *rdSite
		var operand ast.Expr
		switch x := m.(type) {
		case *ast.FuncLit:
			return false
		case *ast.IndexExpr:
			if t := fr.info.Types[x.X].Type; t != nil {
				if _, isMap := t.Underlying().(*types.Map); isMap {
					return true
				}
				if _, isSig := t.Underlying().(*types.Signature); isSig {
					return true // generic instantiation
				}
				if tv, ok := fr.info.Types[x.Index]; ok && tv.Value != nil {
					return true // constant index
				}
				site = rc.siteFor(fr, st, x, "index")
				operand = x.Index
			}
		case *ast.SliceExpr:
			site = rc.siteFor(fr, st, x, "slice")
			for _, b := range []ast.Expr{x.Low, x.High} {
				if b != nil {
					operand = b
				}
			}
		case *ast.CallExpr:
			fn := CalleeOf(fr.info, x)
			if fn != nil && fn.Pkg() != nil && fn.Pkg().Path() == "strings" && fn.Name() == "Repeat" && len(x.Args) == 2 {
				if tv := fr.info.Types[x.Args[1]]; tv.Value == nil {
					site = rc.siteFor(fr, st, x, "repeat")
					operand = x.Args[1]
				}
			} else if fn != nil && rc.hasSites(fn) {
				rc.enterHelper(fr, st, x)
			}
		}
		if site == nil {
			return true
		}
		site.paths++
		cur := map[string]bool{}
		for _, a := range st.atoms {
			cur[a] = true
		}
		if site.dom == nil {
			site.dom = cur
		} else {
			for k := range site.dom {
				if !cur[k] {
					delete(site.dom, k)
				}
			}
		}
		if operand != nil {
			if wit, proved, skip := rc.decideValid(st, site, rc.eval(fr, st, operand)); !skip {
				if proved {
					site.vOK++
				} else if len(site.vBad) < 3 {
					site.vBad = append(site.vBad, wit)
				}
			}
		}
		if st.wOK {
			site.wAny = true
			if operand != nil {
				val := rc.eval(fr, st, operand)
				v := val.iv
				bad := v.known && (v.wrapped || v.hi < 0)
				if bad {
					what := "wraps below zero (uint)"
					if site.kind == "repeat" {
						what = "is negative"
					}
					site.wReach = append(site.wReach, fmt.Sprintf("%s %s for a whole-file span on path {%s}", val.txt, what, strings.Join(st.atoms, "; ")))
				}
			}
		}
		return true
	})
}

func (rc *rdCtx) siteFor(fr *rdFrame, st *rdState, n ast.Node, kind string) *rdSite {
	id := fmt.Sprintf("%s@%d", fr.chain, n.Pos())
	if s := rc.sites[id]; s != nil {
		return s
	}
	s := &rdSite{node: n, kind: kind}
	switch x := n.(type) {
	case *ast.IndexExpr:
		s.what = rc.norm(fr, st, x)
		s.container = rc.norm(fr, st, x.X)
		s.bound = s.container
		s.val, s.hasExpr = rc.eval(fr, st, x.Index), true
	case *ast.SliceExpr:
		s.what = rc.norm(fr, st, x.X) + "[…:…]"
		s.bound = rc.norm(fr, st, x.X)
		for _, b := range []ast.Expr{x.Low, x.High} {
			if b != nil {
				s.val, s.hasExpr = rc.eval(fr, st, b), true
			}
		}
	case *ast.CallExpr:
		s.val, s.hasExpr = rc.eval(fr, st, x.Args[1]), true
		s.what = "strings.Repeat(…, " + s.val.txt + ")"
	}
	rc.sites[id] = s
	rc.order = append(rc.order, s)
	return s
}

// enterHelper walks a helper that contains sites with the caller's path facts.
func (rc *rdCtx) enterHelper(fr *rdFrame, st *rdState, call *ast.CallExpr) {
	st2 := rdClone(st)
	fn, d, ok := rc.bindCall(fr, st, call, st2.env)
	if !ok {
		return
	}
	rc.active[fn] = true
	defer delete(rc.active, fn)
	fr2 := &rdFrame{info: d.info, fd: d.fd, chain: fmt.Sprintf("%s/%d", fr.chain, call.Pos()), depth: fr.depth + 1}
	w := rc.walker(fr2, nil)
	w.Run(d.fd.Body, st2)
	if w.Overflow {
		rc.overflow = true
	}
	rc.unsupp += len(w.Unsupported)
}

func (rc *rdCtx) walker(fr *rdFrame, onReturnW func()) *Walker[*rdState] {
	return &Walker[*rdState]{
		Clone:   rdClone,
		IsPanic: func(s ast.Stmt) bool { return IsPanicCall(fr.info, s) },
		OnStmt: func(st *rdState, s ast.Stmt) (*rdState, bool) {
			rc.visitSites(fr, st, s)
			rc.bindStmt(fr, st, s)
			return st, true
		},
		OnCond: func(st *rdState, cond ast.Expr, taken bool) (*rdState, bool) {
			rc.visitSites(fr, st, cond)
			if st.wOK {
				if v := rc.condW(fr, st, cond); v >= 0 && (v == 1) != taken {
					st.wOK = false
				}
			}
			rc.sink = rc.sink[:0]
			st.atoms = append(st.atoms, rc.atomStrs(fr, st, cond, taken)...)
			st.facts = append(st.facts, rc.sink...)
			return st, true
		},
		OnCase: func(st *rdState, sw *ast.SwitchStmt, vals, others []ast.Expr) (*rdState, bool) {
			// a switch over an integer computed from the span: which clauses can the
			// whole-file position take?
			tag := rc.eval(fr, st, sw.Tag)
			if tag.k != rdInt || len(tag.fields) == 0 {
				return st, true
			}
			eq := func(e ast.Expr) int {
				v := rc.eval(fr, st, e)
				a, b := tag.iv, v.iv
				if !a.known || !b.known || a.wrapped || b.wrapped {
					return -1
				}
				if a.lo == a.hi && b.lo == b.hi && a.lo == b.lo {
					return 1
				}
				if a.hi < b.lo || b.hi < a.lo {
					return 0
				}
				return -1
			}
			if vals == nil {
				for _, o := range others {
					if st.wOK && eq(o) == 1 {
						st.wOK = false
					}
					st.atoms = append(st.atoms, tag.txt+" != "+rc.norm(fr, st, o))
				}
				return st, true
			}
			feasible := false
			for _, v := range vals {
				if eq(v) != 0 {
					feasible = true
				}
			}
			if !feasible {
				st.wOK = false
			}
			if len(vals) == 1 {
				vv := rc.eval(fr, st, vals[0])
				st.atoms = append(st.atoms, tag.txt+" == "+vv.txt)
				st.facts = append(st.facts, rdCmpFacts(tag, vv, token.EQL)...)
			}
			return st, true
		},
		Exit: func(st *rdState, o outcome) {
			if onReturnW != nil && st.wOK && o.kind == cReturn {
				onReturnW()
			}
		},
		MaxPaths: 20000,
	}
}

func (rc *rdCtx) run(name string) []Obligation {
	c := rc.c
	returnsUnderW := 0
	top := &rdFrame{info: rc.info, fd: rc.fd}
	w := rc.walker(top, func() { returnsUnderW++ })
	w.Run(rc.fd.Body, &rdState{wOK: true, env: map[types.Object]*rdV{}})
	var obs []Obligation
	// (a)
	ob := Obligation{Key: name + "|whole-file position renders", Pos: c.Pos(rc.fd.Pos()), Nontrivial: true}
	var wit []string
	for _, s := range rc.order {
		wit = append(wit, s.wReach...)
	}
	switch {
	case w.Overflow || len(w.Unsupported) > 0 || rc.overflow || rc.unsupp > 0:
		ob.Status, ob.Detail = Undecided, "renderer not fully explored (path cap / unsupported control flow)"
	case len(wit) > 0:
		ob.Status = Violated
		ob.Detail = fmt.Sprintf("a span with zero line/column (and any Filename) is not diverted before the line lookup: %s → index out of range / negative Repeat count panic while rendering (%d offending site visit(s))", wit[0], len(wit))
	case returnsUnderW == 0:
		ob.Status, ob.Detail = Undecided, "no feasible returning path for a whole-file span"
	default:
		reached := 0
		for _, s := range rc.order {
			if s.wAny {
				reached++
			}
		}
		ob.Status = Discharged
		ob.Detail = fmt.Sprintf("with Start=End=Location{} and an unknown Filename, %d feasible path(s) return; %d of %d index/Repeat sites are reachable, none with a wrapped or negative operand", returnsUnderW, reached, len(rc.order))
	}
	obs = append(obs, ob)
	// (b)
	cnt := map[string]int{}
	for _, s := range rc.order {
		key := name + "|" + s.what
		cnt[key]++
		if cnt[key] > 1 {
			key = fmt.Sprintf("%s#%d", key, cnt[key])
		}
		var dom []string
		for k := range s.dom {
			dom = append(dom, k)
		}
		sort.Strings(dom)
		hz := rc.hazards(s, dom)
		o := Obligation{Key: key, Pos: c.Pos(s.node.Pos())}
		if len(s.vBad) > 0 {
			// not even a span that lies inside the text is safe here
			o.Status, o.Nontrivial = Violated, true
			o.Detail = fmt.Sprintf("%s → index out of range / negative Repeat count panic while rendering a VALID position (1 <= Start.Line <= End.Line <= number of lines, Start <= End): the condition that guards the site does not bound the operand that is used (%d of %d path visits proved in range)", s.vBad[0], s.vOK, s.paths)
			obs = append(obs, o)
			continue
		}
		if len(hz) == 0 {
			o.Status = Discharged
			o.Detail = fmt.Sprintf("guarded on all %d path visits by {%s}", s.paths, strings.Join(dom, "; "))
		} else {
			o.Status = Info
			o.Detail = fmt.Sprintf("unguarded: %s. Dominating conditions: {%s}. A span that is inside the text (Line <= number of lines, Start <= End) does not trigger it; any producer of an out-of-text or inverted span does (see R-span-shape, R-diag-span)", strings.Join(hz, "; "), strings.Join(dom, "; "))
		}
		if s.vOK > 0 {
			o.Detail += fmt.Sprintf(" [for spans inside the text: in range on %d of %d path visits, decided from the path conditions]", s.vOK, s.paths)
		}
		obs = append(obs, o)
	}
	return obs
}

// hazards lists what can go out of range at the site and is not excluded by
// a dominating condition.
func (rc *rdCtx) hazards(s *rdSite, dom []string) []string {
	has := func(alts ...string) bool {
		for _, a := range alts {
			for _, d := range dom {
				if d == a {
					return true
				}
			}
		}
		return false
	}
	var out []string
	if !s.hasExpr || s.val == nil {
		return []string{"slice bounds not analysed"}
	}
	subs := s.val.subs
	switch s.kind {
	case "index", "slice":
		field := ""
		if len(s.val.fields) > 0 {
			field = s.val.fields[0]
		}
		container := s.container
		k := int64(0)
		for _, sb := range subs {
			if sb.yConst {
				k = sb.yVal
			}
		}
		if field == "" {
			return []string{"index " + s.val.txt + " not derived from a span field"}
		}
		if k > 0 {
			okLow := s.val.clamp0
			for c := k - 1; c < k+3; c++ {
				if has(fmt.Sprintf("%s > %d", field, c)) {
					okLow = true
				}
			}
			for c := k; c < k+3; c++ {
				if has(fmt.Sprintf("%s >= %d", field, c)) {
					okLow = true
				}
			}
			if k == 1 && (has(field+" != 0") || !s.wAny) {
				okLow = true // zero only for the whole-file position, which is diverted (see the whole-file obligation)
			}
			if !okLow {
				out = append(out, fmt.Sprintf("%s < %d wraps the index below zero", field, k))
			}
		}
		okHigh := has(field+" < len("+container+")") || (k >= 1 && has(field+" <= len("+container+")"))
		for _, c := range s.val.capTxt {
			if c == "len("+container+")-1" {
				okHigh = true
			}
		}
		if !okHigh {
			out = append(out, fmt.Sprintf("%s beyond the number of lines (index %s >= len(%s))", field, s.val.txt, container))
		}
	case "repeat":
		if s.val.clamp0 {
			return out
		}
		for _, sb := range subs {
			if sb.yConst {
				continue
			}
			a, b := sb.x, sb.y
			if has(a+" >= "+b, a+" > "+b, b+" <= "+a, b+" < "+a, a+" == "+b, b+" == "+a) {
				continue
			}
			out = append(out, fmt.Sprintf("%s < %s makes the count %s negative (uint wrap, then strings.Repeat panics)", a, b, s.val.txt))
		}
	}
	return out
}
