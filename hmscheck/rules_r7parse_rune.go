package main

import (
	"fmt"
	"go/ast"
	"go/types"
	"sort"
)

// R-rune-no-narrowing (C06; lexer packages).
//
// The lexer works on runes (int32 code points) of arbitrary Unicode text. A rune
// value may be widened (int, int64), turned into text (string) or kept; converting it
// to an integer type that cannot hold every code point (8- or 16-bit) silently
// truncates: U+0141 becomes 0x41 'A', so a non-ASCII letter is classified as an ASCII
// letter/digit and the token stream is no longer an image of the text.

func init() {
	register(&Rule{ID: "R-rune-no-narrowing", Floor: 6, Run: ruleR7parseRuneNarrowing,
		Doc: "in the lexer packages (homescript/lexer, homescript/lexer/util) every conversion T(x) whose operand has type rune/int32 (or is an untyped rune constant expression that is not constant) targets a type that can represent every code point: an integer type of at least 32 bits, a string, or rune itself. A conversion to an 8- or 16-bit integer truncates code points >= U+0100 / U+10000: class tests (letter, digit, range membership) then answer for a different character — the token stream is not a faithful image of the text (C06)."})
}

func ruleR7parseRuneNarrowing(c *Ctx) []Obligation {
	var obs []Obligation
	for _, rel := range []string{"homescript/lexer", "homescript/lexer/util"} {
		if !c.HasPkg(rel) {
			continue
		}
		p := c.Pkg(rel)
		info := p.TypesInfo
		fds := AllFuncDecls(p)
		sort.Slice(fds, func(i, j int) bool {
			pi, pj := c.Fset.Position(fds[i].Pos()), c.Fset.Position(fds[j].Pos())
			if pi.Filename != pj.Filename {
				return pi.Filename < pj.Filename
			}
			return pi.Offset < pj.Offset
		})
		for _, fd := range fds {
			if fd.Body == nil {
				continue
			}
			count := map[string]int{}
			ast.Inspect(fd.Body, func(n ast.Node) bool {
				call, ok := n.(*ast.CallExpr)
				if !ok || len(call.Args) != 1 {
					return true
				}
				tv, ok := info.Types[call.Fun]
				if !ok || !tv.IsType() {
					return true
				}
				at := info.Types[call.Args[0]]
				if at.Type == nil || at.Value != nil {
					return true // constants are checked by the compiler
				}
				ab, ok := at.Type.Underlying().(*types.Basic)
				if !ok || (ab.Kind() != types.Int32 && ab.Kind() != types.UntypedRune) {
					return true
				}
				base := p.Types.Name() + "." + FuncName(fd) + "|" + types.TypeString(tv.Type, func(q *types.Package) string { return q.Name() }) + "(" + exprStr(call.Args[0]) + ")"
				count[base]++
				key := base
				if count[base] > 1 {
					key = fmt.Sprintf("%s#%d", base, count[base])
				}
				o := Obligation{Key: key, Pos: c.Pos(call.Pos()), Status: Discharged, Nontrivial: true, Detail: "the target type holds every code point"}
				if tb, ok := tv.Type.Underlying().(*types.Basic); ok && tb.Info()&types.IsInteger != 0 {
					switch tb.Kind() {
					case types.Int8, types.Uint8, types.Int16, types.Uint16:
						o.Status = Violated
						o.Detail = fmt.Sprintf("the rune %s is converted to %s, which cannot hold every code point: a character >= U+%04X is truncated to a different one (e.g. U+0141 'Ł' becomes 0x41 'A') before it is classified/compared", exprStr(call.Args[0]), tv.Type.String(), map[types.BasicKind]int{types.Int8: 0x80, types.Uint8: 0x100, types.Int16: 0x8000, types.Uint16: 0x10000}[tb.Kind()])
					}
				}
				obs = append(obs, o)
				return true
			})
		}
	}
	return obs
}
