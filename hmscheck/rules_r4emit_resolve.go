package main

// R-resolve-order (r4emit): scoped names take precedence over module-level lookups.

import (
	"fmt"
	"go/ast"
	"go/constant"
	"go/token"
	"go/types"
	"sort"
	"strings"
)

func init() {
	register(&Rule{ID: "R-resolve-order", Floor: 3, Run: ruleR4ResolveOrder,
		Doc: "name resolution precedence, the same in every phase: wherever a function resolves one identifier expression both through the scope stack (a scope resolver: a function whose body is a selecting top-down search over a scope stack, see R-scope-search — analyzer getVar, compiler getMangled) and through another by-name lookup of the same package (a function taking the name and returning (…, found bool): module-level / cross-module functions — analyzer getFunc, compiler getMangledFn), the scoped result is decisive: on every path, anything obtained from the other lookup is used (tested, emitted, returned) only after the scope resolver's found flag was decided FALSE. All such resolution sites therefore agree with each other and with the analyzer, which types an identifier as the variable when one is in scope. Necessary for C15/C01/C04: a call or reference whose name is bound to a parameter/local holding a function value must not be linked to a same-named function of this or any other module"})
}

func ruleR4ResolveOrder(c *Ctx) []Obligation {
	r2LoopCtx = c
	stacks := r4emScopeStacks(c)
	resolvers := map[*types.Func]string{}
	for _, sr := range r4emSearchLoops(c, stacks) {
		if sr.early == "" || !sr.uses || !sr.lookup {
			continue
		}
		if obj, _ := sr.fn.info.Defs[sr.fn.fd.Name].(*types.Func); obj != nil {
			resolvers[obj] = sr.fn.name
		}
	}
	if len(resolvers) == 0 {
		return []Obligation{{Key: "scope resolvers", Status: Undecided, Detail: "no selecting lookup over a scope stack found: re-anchor the rule"}}
	}
	isByName := func(g *types.Func) bool {
		if g == nil || g.Pkg() == nil || !strings.HasPrefix(g.Pkg().Path(), ModPath) {
			return false
		}
		if _, isRes := resolvers[g]; isRes {
			return false
		}
		sig := g.Type().(*types.Signature)
		if sig.Params().Len() != 1 || !types.Identical(sig.Params().At(0).Type(), types.Typ[types.String]) {
			return false
		}
		n := sig.Results().Len()
		if n < 2 {
			return false
		}
		b, ok := sig.Results().At(n - 1).Type().Underlying().(*types.Basic)
		return ok && b.Kind() == types.Bool
	}
	var obs []Obligation
	nSites := 0
	var siteNames []string
	for _, p := range c.All {
		rel := relPkg(p.PkgPath)
		if !strings.HasPrefix(rel, "homescript") {
			continue
		}
		for _, fn := range vmFuncs(c, rel) {
			info := fn.info
			// calls of scope resolvers and of by-name lookups, by argument text
			type callRec struct {
				call *ast.CallExpr
				g    *types.Func
			}
			sCalls := map[string][]callRec{}
			lCalls := map[string][]callRec{}
			ast.Inspect(fn.fd.Body, func(n ast.Node) bool {
				call, ok := n.(*ast.CallExpr)
				if !ok || len(call.Args) != 1 {
					return true
				}
				g := CalleeOf(info, call)
				if g == nil {
					return true
				}
				arg := exprStr(call.Args[0])
				if _, ok := resolvers[g]; ok {
					sCalls[arg] = append(sCalls[arg], callRec{call, g})
				} else if isByName(g) {
					lCalls[arg] = append(lCalls[arg], callRec{call, g})
				}
				return true
			})
			var args []string
			for a := range lCalls {
				if len(sCalls[a]) > 0 {
					args = append(args, a)
				}
			}
			if len(args) == 0 {
				continue
			}
			sort.Strings(args)
			isRel := map[*ast.CallExpr]bool{}
			for _, a := range args {
				for _, r := range sCalls[a] {
					isRel[r.call] = true
				}
				for _, r := range lCalls[a] {
					isRel[r.call] = true
				}
			}
			// result objects of the relevant calls
			resObjs := map[types.Object]bool{}
			ast.Inspect(fn.fd.Body, func(n ast.Node) bool {
				if as, ok := n.(*ast.AssignStmt); ok && len(as.Rhs) == 1 {
					if call, ok := ast.Unparen(as.Rhs[0]).(*ast.CallExpr); ok && isRel[call] {
						for _, l := range as.Lhs {
							if o := vmObjOf(info, l); o != nil {
								resObjs[o] = true
							}
						}
					}
				}
				return true
			})
			relevant := func(n ast.Node) bool {
				switch x := n.(type) {
				case *ast.CallExpr:
					if isRel[x] {
						return true
					}
					if id, ok := x.Fun.(*ast.Ident); ok {
						if b, isB := info.Uses[id].(*types.Builtin); isB && b.Name() == "panic" {
							return true
						}
					}
				case *ast.Ident:
					if o := info.Uses[x]; o != nil && resObjs[o] {
						return true
					}
				}
				return false
			}
			res := vmWalk(vmWalkOpts{fn: fn, correlate: true, replace: vmSlicer(relevant)})
			for _, a := range args {
				nSites++
				var lnames []string
				for _, r := range lCalls[a] {
					lnames = append(lnames, r.g.Name())
				}
				lnames = vmUniq(lnames)
				siteNames = append(siteNames, fn.name)
				key := fmt.Sprintf("%s|%s|the scope stack (%s) is decisive before %s is used", r2UnitKey(c, fn, lCalls[a][0].call.Pos()), vmTrunc(a, 50), sCalls[a][0].g.Name(), strings.Join(lnames, "/"))
				ob := Obligation{Key: key, Pos: c.Pos(lCalls[a][0].call.Pos()), Nontrivial: true}
				if res.overflow {
					ob.Status, ob.Detail = Undecided, "path cap exceeded"
					obs = append(obs, ob)
					continue
				}
				isS := map[*ast.CallExpr]bool{}
				isL := map[*ast.CallExpr]bool{}
				for _, r := range sCalls[a] {
					isS[r.call] = true
				}
				for _, r := range lCalls[a] {
					isL[r.call] = true
				}
				var bad []string
				nUse, nBoth := 0, 0
				for i := range res.paths {
					p := &res.paths[i]
					if p.o.kind == cPanic {
						continue
					}
					// the two lookups compete only on paths that consult both
					hasS, hasL := false, false
					for _, e := range p.ev {
						if e.K == evCall && isS[e.Call] {
							hasS = true
						}
						if e.K == evCall && isL[e.Call] {
							hasL = true
						}
					}
					if !hasS || !hasL {
						continue
					}
					nBoth++
					var sFound types.Object
					sFalse := false
					lObjs := map[types.Object]bool{}
					mentionsL := func(e ast.Node) bool {
						if e == nil {
							return false
						}
						for o := range lObjs {
							if vmMentionsObj(info, e, o) {
								return true
							}
						}
						return false
					}
					reported := false
					use := func(e vmEv, what string) {
						nUse++
						if sFalse || reported {
							return
						}
						reported = true
						why := "the scope resolver's result was not decided `not found` before"
						if sFound == nil {
							why = "the scope stack had not even been consulted"
						}
						bad = append(bad, fmt.Sprintf("path [%s]: the result of %s(%s) is %s @%s although %s: a variable of that name in scope (parameter, local, global) is bypassed whenever this or ANY other module defines something of the same name", vmTrunc(p.decisions(), 200), strings.Join(lnames, "/"), a, what, c.Pos(e.Pos), why))
					}
					for _, e := range p.ev {
						switch e.K {
						case evAssign:
							if e.Rhs == nil {
								continue
							}
							if call, ok := ast.Unparen(e.Rhs).(*ast.CallExpr); ok && (isS[call] || isL[call]) {
								o := vmObjOf(info, e.Lhs)
								if o == nil {
									continue
								}
								if isS[call] {
									if b, ok := o.Type().Underlying().(*types.Basic); ok && b.Kind() == types.Bool {
										sFound, sFalse = o, false
									}
								} else {
									lObjs[o] = true
								}
								continue
							}
							if mentionsL(e.Rhs) {
								use(e, "assigned on")
							}
						case evCond:
							if sFound != nil {
								if o := vmObjOf(info, ast.Unparen(e.X)); o == sFound {
									sFalse = !e.Taken
									continue
								}
								// found == false / found != true
								if be, ok := ast.Unparen(e.X).(*ast.BinaryExpr); ok && (be.Op == token.EQL || be.Op == token.NEQ) {
									x, y := be.X, be.Y
									if vmObjOf(info, y) == sFound {
										x, y = y, x
									}
									if vmObjOf(info, x) == sFound {
										if tv := info.Types[y]; tv.Value != nil && tv.Value.Kind() == constant.Bool {
											isTrue := (constant.BoolVal(tv.Value) == (be.Op == token.EQL)) == e.Taken
											sFalse = !isTrue
											continue
										}
									}
								}
							}
							if mentionsL(e.X) {
								use(e, "tested")
							}
						case evCall:
							if isS[e.Call] || isL[e.Call] {
								continue
							}
							for _, arg := range e.Call.Args {
								if mentionsL(arg) {
									use(e, "passed on")
								}
							}
						case evRet:
							if e.Ret != nil {
								for _, r := range e.Ret.Results {
									if mentionsL(r) {
										use(e, "returned")
									}
								}
							}
						}
					}
				}
				if nBoth == 0 {
					// the lookups never meet on a path (different namespaces selected by a switch): not a resolution site
					nSites--
					siteNames = siteNames[:len(siteNames)-1]
					continue
				}
				switch {
				case len(bad) > 0:
					bad = vmUniq(bad)
					sort.Slice(bad, func(i, j int) bool { return len(bad[i]) < len(bad[j]) })
					if len(bad) > 2 {
						bad = bad[:2]
					}
					ob.Status, ob.Detail = Violated, strings.Join(bad, " | ")
				default:
					ob.Status, ob.Detail = Discharged, fmt.Sprintf("%d use(s) of the module-level lookup on the explored paths, each after `%s(%s)` reported not-found", nUse, sCalls[a][0].g.Name(), a)
				}
				obs = append(obs, ob)
			}
		}
	}
	if nSites == 0 {
		obs = append(obs, Obligation{Key: "resolution sites", Status: Undecided, Detail: "no function consults a scope resolver and a by-name lookup for the same identifier: re-anchor the rule"})
	} else {
		obs = append(obs, Obligation{Key: "resolution sites|inventory", Status: Info, Detail: fmt.Sprintf("scope resolvers: %v; sites: %v", r4emSortedVals(resolvers), vmUniq(siteNames))})
	}
	return obs
}

func r4emSortedVals(m map[*types.Func]string) []string {
	var out []string
	for _, v := range m {
		out = append(out, v)
	}
	sort.Strings(out)
	return out
}
