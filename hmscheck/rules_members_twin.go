package main

// R-twin-tables: the two value libraries are siblings; their extracted
// tables must agree on the kinds both engines produce.

import (
	"fmt"
	"go/ast"
	"go/token"
	"go/types"
	"regexp"
	"sort"
	"strings"
)

func init() {
	register(&Rule{ID: "R-twin-tables", Floor: 190, Run: ruleTwinTables,
		Doc: "the VM's and the interpreter's value libraries implement the same language, so every table extracted from one must equal the table extracted from the other on the value kinds both engines produce: the cast matrix of DeepCast (value kind x target type kind x allowCasts -> identity / convert->K with the converted value over a sign abstraction of the payload / wrap-option / rebuild after recursion / error / panic), the interrupt class of a failed cast as seen by the program (must be the class the engine's try handler catches), option wrapping must recurse into the payload with the option's inner type, the JSON marshal table (value struct -> JSON shape, element filter) and unmarshal table (Go JSON type -> value constructor), containers handed to encoding/json must be non-nil, the Display format of each kind, the index guards of IndexValue, the member tables (names, interrupt class of each builtin's error paths), the kind enum and its String table. A disagreement is a program on which the two engines differ (C04); tables are compared as canonical forms that are insensitive to local names, temporaries and helper wrappers"})
}

type mbTwinCtx struct {
	c      *Ctx
	an     *mbAn
	vm, in *mbLib
	kmap   map[string]string
	obs    []Obligation
	live   map[string]map[string]bool // tag -> impl name -> produced by the engine
	// pairing of library-internal names (functions, unexported methods and
	// fields) between the twins, built up by same()
	pairVM, pairIn map[string]string
	declVM, declIn map[string]bool
}

var mbTokRe = regexp.MustCompile(`‹([^›]*)›`)

// mbDeclNames: normalised names of the functions, methods and struct fields a
// library declares.
func mbDeclNames(l *mbLib) map[string]bool {
	out := map[string]bool{}
	norm := func(s string) string { return strings.Trim(mbNameTok(s), "‹›") }
	for fn := range l.decls {
		out[norm(fn.Name())] = true
	}
	sc := l.pkg.Types.Scope()
	for _, nm := range sc.Names() {
		if tn, ok := sc.Lookup(nm).(*types.TypeName); ok {
			if st, ok := tn.Type().Underlying().(*types.Struct); ok {
				for i := 0; i < st.NumFields(); i++ {
					out[norm(st.Field(i).Name())] = true
				}
			}
		}
	}
	return out
}

// same: the canonical forms a (VM library) and b (interpreter library) are
// equal modulo a consistent one-to-one pairing of library-internal names. Two
// different names may be paired only when neither has a namesake in the other
// library (then they are two names for the twin of the same thing — a helper
// that is exported in one library and unexported in the other, a helper or
// field renamed in one library); a name with a namesake pairs with it only.
// The pairing is global for the rule run: a helper swapped for another one at
// one site contradicts the pairing established elsewhere (or its namesake).
func (t *mbTwinCtx) same(a, b string) bool {
	if t.pairVM == nil {
		t.pairVM, t.pairIn = map[string]string{}, map[string]string{}
		t.declVM, t.declIn = mbDeclNames(t.vm), mbDeclNames(t.in)
	}
	if mbTokRe.ReplaceAllString(a, "‹›") != mbTokRe.ReplaceAllString(b, "‹›") {
		return false
	}
	ta, tb := mbTokRe.FindAllStringSubmatch(a, -1), mbTokRe.FindAllStringSubmatch(b, -1)
	if len(ta) != len(tb) {
		return false
	}
	newVM, newIn := map[string]string{}, map[string]string{}
	for i := range ta {
		x, y := ta[i][1], tb[i][1]
		px, okx := t.pairVM[x]
		if !okx {
			px, okx = newVM[x]
		}
		py, oky := t.pairIn[y]
		if !oky {
			py, oky = newIn[y]
		}
		switch {
		case okx || oky:
			if !(okx && oky && px == y && py == x) {
				return false
			}
		case x == y:
			newVM[x], newIn[y] = y, x
		case t.declIn[x] || t.declVM[y]:
			return false
		default:
			newVM[x], newIn[y] = y, x
		}
	}
	for k, v := range newVM {
		t.pairVM[k] = v
	}
	for k, v := range newIn {
		t.pairIn[k] = v
	}
	return true
}

func (t *mbTwinCtx) add(key string, pos string, st Status, nontrivial bool, detail string) {
	t.obs = append(t.obs, Obligation{Key: key, Pos: pos, Status: st, Detail: detail, Nontrivial: nontrivial})
}

func ruleTwinTables(c *Ctx) []Obligation {
	t := &mbTwinCtx{c: c, an: mbLoadAn(c), vm: mbLoadLib(c, mbRelVM, "vm"), in: mbLoadLib(c, mbRelInterp, "interp"), kmap: mbKindMap(c)}
	t.live = map[string]map[string]bool{"vm": mbLiveImpls(c, t.vm, []string{mbRelVMEngine, "homescript/compiler", mbRelVM}), "interp": mbLiveImpls(c, t.in, []string{mbRelInEngine, mbRelInterp})}
	t.kindEnums()
	t.castMatrix()
	t.jsonTables()
	t.displayTables()
	t.isEqualTables()
	t.indexGuards()
	t.memberTwins()
	return t.obs
}

// mbLiveImpls: value structs the engine can produce — a composite literal of
// the struct or a call of one of its constructors outside the struct's own
// methods and constructors (E7, cheap form).
func mbLiveImpls(c *Ctx, l *mbLib, rels []string) map[string]bool {
	live := map[string]bool{}
	for _, rel := range rels {
		if !c.HasPkg(rel) {
			continue
		}
		p := c.Pkg(rel)
		for _, fd := range AllFuncDecls(p) {
			ownImpl := ""
			if p == l.pkg {
				if fd.Recv != nil {
					ownImpl = recvTypeName(fd.Recv.List[0].Type)
				} else if fn, ok := l.info.Defs[fd.Name].(*types.Func); ok {
					if cc := l.ctorOf(fn); cc != nil {
						ownImpl = cc.impl.Name()
					}
				}
			}
			ast.Inspect(fd.Body, func(n ast.Node) bool {
				switch x := n.(type) {
				case *ast.CompositeLit:
					if im := l.implOfType(p.TypesInfo.TypeOf(x)); im != nil && im.Name() != ownImpl {
						live[im.Name()] = true
					}
				case *ast.CallExpr:
					if fn := CalleeOf(p.TypesInfo, x); fn != nil && fn.Pkg() == l.pkg.Types {
						if cc := l.ctorOf(fn); cc != nil && cc.impl.Name() != ownImpl {
							live[cc.impl.Name()] = true
						}
					}
				}
				return true
			})
		}
	}
	return live
}

func (t *mbTwinCtx) bothLive(impl string) bool { return t.live["vm"][impl] && t.live["interp"][impl] }

func (t *mbTwinCtx) liveNote(impl string) string {
	var miss []string
	for _, tag := range []string{"vm", "interp"} {
		if !t.live[tag][impl] {
			miss = append(miss, tag)
		}
	}
	return fmt.Sprintf("%s is never constructed by: %s (outside the fragment both engines implement)", impl, strings.Join(miss, ", "))
}

// ---------------------------------------------------------------------------
// kind enum, String table
// ---------------------------------------------------------------------------

func (t *mbTwinCtx) kindEnums() {
	vmK, inK := t.vm.kinds, t.in.kinds
	names := func(e *Enum) []string {
		var out []string
		for _, k := range e.Consts {
			out = append(out, k.Name()+"="+k.Val().ExactString())
		}
		return out
	}
	a, b := strings.Join(names(vmK), ","), strings.Join(names(inK), ",")
	st := Discharged
	if a != b {
		st = Violated
	}
	t.add("twin|kind enum", t.c.Pos(vmK.Consts[0].Pos()), st, false, fmt.Sprintf("value kind constants vm=[%s] interp=[%s]", a, b))
	// String() tables
	tab := func(l *mbLib) (map[string]string, token.Pos) {
		out := map[string]string{}
		var pos token.Pos
		for fn, fd := range l.decls {
			if fn.Name() != "String" || fd.Recv == nil || !types.Identical(l.info.TypeOf(fd.Recv.List[0].Type), l.kinds.Type) {
				continue
			}
			pos = fd.Pos()
			ast.Inspect(fd.Body, func(n ast.Node) bool {
				cc, ok := n.(*ast.CaseClause)
				if !ok || len(cc.Body) != 1 {
					return true
				}
				if r, ok := cc.Body[0].(*ast.ReturnStmt); ok && len(r.Results) == 1 {
					if tv := l.info.Types[r.Results[0]]; tv.Value != nil {
						for _, v := range cc.List {
							if k := ConstOf(l.info, v); k != nil {
								out[k.Name()] = tv.Value.ExactString()
							}
						}
					}
				}
				return true
			})
		}
		return out, pos
	}
	vt, vpos := tab(t.vm)
	it, _ := tab(t.in)
	if len(vt) == 0 || len(it) == 0 {
		t.add("twin|kind names", "?", Undecided, false, "ValueKind.String table not found in one of the libraries")
		return
	}
	for _, k := range vmK.Consts {
		st := Discharged
		if vt[k.Name()] != it[k.Name()] {
			st = Violated
		}
		t.add("twin|kind name|"+mbShortKind(k.Name()), t.c.Pos(vpos), st, false, fmt.Sprintf("ValueKind.String: vm=%s interp=%s", vt[k.Name()], it[k.Name()]))
	}
}

// ---------------------------------------------------------------------------
// cast matrix
// ---------------------------------------------------------------------------

func (t *mbTwinCtx) castMatrix() {
	vcf, icf := mbFindCast(t.vm, t.an), mbFindCast(t.in, t.an)
	vm, in := vcf.matrix(t.an), icf.matrix(t.an)
	var keys []string
	for k := range vm {
		keys = append(keys, k)
	}
	sort.Strings(keys)
	// a row (value kind) is compared only when both engines can produce the kind
	implOfKind := map[string]string{}
	for _, l := range []*mbLib{t.vm, t.in} {
		for _, im := range l.impls {
			if implOfKind[mbShortKind(im.KindName())] == "" {
				implOfKind[mbShortKind(im.KindName())] = im.Name()
			}
		}
	}
	vpos, ipos := t.c.Pos(vcf.fd.Pos()), t.c.Pos(icf.fd.Pos())
	wrapBad := map[string][]string{"vm": nil, "interp": nil}
	type diff struct{ key, v, ty, a, b string }
	var diffs []diff
	deadRows := map[string]int{}
	for _, k := range keys {
		a, b := vm[k], in[k]
		vt := strings.SplitN(k, " as ", 2)
		if b == nil {
			t.add("cast|"+k, vpos, Undecided, false, "cell missing in the interpreter matrix")
			continue
		}
		if !t.bothLive(implOfKind[vt[0]]) {
			if !t.same(a.label, b.label) {
				deadRows[vt[0]]++
			} else if _, ok := deadRows[vt[0]]; !ok {
				deadRows[vt[0]] = 0
			}
			continue
		}
		if a.und != "" || b.und != "" {
			t.add("cast|"+k, vpos, Undecided, true, "cannot evaluate the cell: "+a.und+" "+b.und)
			continue
		}
		for tag, cell := range map[string]*mbCastCell{"vm": a, "interp": b} {
			if strings.Contains(cell.label, "wrap-unchecked") {
				wrapBad[tag] = append(wrapBad[tag], k)
			}
		}
		if t.same(a.label, b.label) {
			t.add("cast|"+k, vpos, Discharged, a.label != "error", "both twins: "+a.label)
			continue
		}
		diffs = append(diffs, diff{k, vt[0], vt[1], a.label, b.label})
	}
	for _, row := range mbSortedKeysInt(deadRows) {
		impl := implOfKind[row]
		t.add("cast|"+row+" as *", vpos, Info, false, fmt.Sprintf("row not compared (%d differing cells): %s", deadRows[row], t.liveNote(impl)))
	}
	// aggregate: a whole column / row differing in the same way is one finding
	used := map[string]bool{}
	group := func(dim string, sel func(d diff) string) {
		groups := map[string][]diff{}
		for _, d := range diffs {
			if used[d.key] {
				continue
			}
			g := sel(d) + "|vm=" + d.a + "|interp=" + d.b
			groups[g] = append(groups[g], d)
		}
		var gk []string
		for g := range groups {
			gk = append(gk, g)
		}
		sort.Strings(gk)
		for _, g := range gk {
			ds := groups[g]
			if len(ds) < 3 {
				continue
			}
			var cells []string
			for _, d := range ds {
				used[d.key] = true
				cells = append(cells, d.key)
			}
			name := sel(ds[0])
			key := "cast|* as " + name
			if dim == "row" {
				key = "cast|" + name + " as *"
			}
			t.add(key+"|vm="+ds[0].a+",interp="+ds[0].b, ipos, Violated, true, fmt.Sprintf("%d cells of the cast matrix differ in the same way: vm (%s) = %s; interp (%s) = %s; cells: %s", len(ds), vpos, ds[0].a, ipos, ds[0].b, strings.Join(cells, ", ")))
		}
	}
	group("column", func(d diff) string { return d.ty })
	group("row", func(d diff) string { return d.v })
	for _, d := range diffs {
		if !used[d.key] {
			t.add("cast|"+d.key, ipos, Violated, true, fmt.Sprintf("cast matrix cell differs: vm (%s) = %s; interp (%s) = %s", vpos, d.a, ipos, d.b))
		}
	}
	// T -> ?T must check T against the option's inner type
	for _, tag := range []string{"vm", "interp"} {
		pos := vpos
		if tag == "interp" {
			pos = ipos
		}
		if n := len(wrapBad[tag]); n > 0 {
			sort.Strings(wrapBad[tag])
			ex := wrapBad[tag]
			if len(ex) > 4 {
				ex = ex[:4]
			}
			t.add("cast|option wrap checks payload|"+tag, pos, Violated, true, fmt.Sprintf("%d cells wrap the value into an option without casting it to the option's inner type (e.g. %s): a value of any kind is admitted as ?T", n, strings.Join(ex, "; ")))
		} else {
			t.add("cast|option wrap checks payload|"+tag, pos, Discharged, true, "no cell wraps a value into an option without a recursive cast to the inner type")
		}
	}
	// error class as seen by the program
	vmCls := t.castErrClass(vcf, vm, mbRelVMEngine)
	inCls := t.castErrClass(icf, in, mbRelInEngine)
	vmCatch, vmCatchPos := t.catchable(t.vm, mbRelVMEngine)
	inCatch, inCatchPos := t.catchable(t.in, mbRelInEngine)
	for _, x := range []struct {
		tag   string
		cls   map[string]string
		catch map[string]bool
		cpos  string
	}{{"vm", vmCls, vmCatch, vmCatchPos}, {"interp", inCls, inCatch, inCatchPos}} {
		if len(x.cls) == 0 {
			t.add("cast|error class|"+x.tag, "?", Undecided, true, "no cast error path found")
			continue
		}
		if len(x.catch) == 0 {
			t.add("cast|error class|"+x.tag, "?", Undecided, true, "the engine's try handler (the interrupt kinds it catches) was not found")
			continue
		}
		var sites []string
		for s := range x.cls {
			sites = append(sites, s)
		}
		sort.Strings(sites)
		for _, s := range sites {
			cls := x.cls[s]
			if cls == "host-panic" {
				t.add("cast|error class|"+x.tag+"|"+s, strings.SplitN(s, " ", 2)[0], Info, false, "host-API crossing: a failed cast panics (host contract violation), not reachable from a Homescript cast")
				continue
			}
			st := Discharged
			if !x.catch[cls] {
				st = Violated
			}
			t.add("cast|error class|"+x.tag+"|"+strings.SplitN(s, " ", 2)[1], strings.SplitN(s, " ", 2)[0], st, true,
				fmt.Sprintf("a failed cast reaches the program as interrupt class %s; the %s try handler (%s) catches %v", mbTwin(cls), x.tag, x.cpos, mbKeys(x.catch)))
		}
	}
	a, b := mbClassSet(vmCls), mbClassSet(inCls)
	st := Discharged
	if a != b {
		st = Violated
	}
	t.add("cast|error class|twin", ipos, st, true, fmt.Sprintf("interrupt class of a failed in-language cast: vm=%s interp=%s", a, b))
}

func mbSortedKeysInt(m map[string]int) []string {
	var out []string
	for k := range m {
		out = append(out, k)
	}
	sort.Strings(out)
	return out
}

func mbKeys(m map[string]bool) []string {
	var out []string
	for k := range m {
		out = append(out, mbTwin(k))
	}
	sort.Strings(out)
	return out
}

func mbClassSet(m map[string]string) string {
	s := map[string]bool{}
	for _, v := range m {
		if v != "host-panic" {
			s[mbTwin(v)] = true
		}
	}
	return strings.Join(mbKeys(s), ",")
}

// castErrClass: site -> interrupt class with which a failed cast reaches the
// program. When DeepCast itself returns interrupts the sites are its error
// returns; otherwise the engine's call sites that convert the error.
func (t *mbTwinCtx) castErrClass(cf *mbCastFn, m map[string]*mbCastCell, engineRel string) map[string]string {
	out := map[string]string{}
	if cf.errType == "interrupt" {
		all := map[string]bool{}
		for _, cell := range m {
			for e := range cell.errs {
				all[e] = true
			}
		}
		for e := range all {
			out[t.c.Pos(cf.fd.Pos())+" "+cf.fd.Name.Name+" error returns ("+mbTwin(e)+")"] = e
		}
		return out
	}
	p := t.c.Pkg(engineRel)
	info := p.TypesInfo
	for _, fd := range AllFuncDecls(p) {
		mbVisitStmts(fd.Body.List, nil, func(s ast.Stmt, stack []mbCondCtx) {
			as, ok := s.(*ast.AssignStmt)
			if !ok || len(as.Rhs) != 1 || len(as.Lhs) != 2 {
				return
			}
			call, ok := ast.Unparen(as.Rhs[0]).(*ast.CallExpr)
			if !ok {
				return
			}
			fn := CalleeOf(info, call)
			if fn == nil || fn.Pkg() != cf.l.pkg.Types || fn.Name() != "DeepCast" {
				return
			}
			errID, ok := as.Lhs[1].(*ast.Ident)
			if !ok {
				return
			}
			errObj := info.Defs[errID]
			if errObj == nil {
				errObj = info.Uses[errID]
			}
			where := FuncName(fd)
			for _, g := range stack {
				if g.clause != nil && g.clause.List != nil {
					where += " case " + exprStr(g.clause.List[0])
				}
			}
			site := t.c.Pos(call.Pos()) + " " + where
			// find `if err != nil { ... }` following in the same function
			cls := ""
			mbInspectNoLit(fd.Body, func(n ast.Node) bool {
				ifs, ok := n.(*ast.IfStmt)
				if !ok {
					return true
				}
				be, ok := ast.Unparen(ifs.Cond).(*ast.BinaryExpr)
				if !ok || (be.Op != token.NEQ && be.Op != token.EQL) {
					return true
				}
				// `err != nil` / `nil != err` (error branch = body) or
				// `err == nil … else` (error branch = else); the test follows the
				// call (which may sit in the if's own init statement)
				var id *ast.Ident
				if x, ok := ast.Unparen(be.X).(*ast.Ident); ok && mbIsNil(info, be.Y) {
					id = x
				} else if y, ok := ast.Unparen(be.Y).(*ast.Ident); ok && mbIsNil(info, be.X) {
					id = y
				}
				if id == nil || info.Uses[id] != errObj || ifs.Cond.Pos() < call.Pos() {
					return true
				}
				branch := ifs.Body.List
				if be.Op == token.EQL {
					eb, ok := ifs.Else.(*ast.BlockStmt)
					if !ok {
						return true
					}
					branch = eb.List
				}
				for _, bs := range branch {
					if IsPanicCall(info, bs) {
						cls = "host-panic"
					}
					if r, ok := bs.(*ast.ReturnStmt); ok {
						for _, res := range r.Results {
							if c := cf.l.errClassIn(info, res); c != "" {
								cls = c
							} else if rid, ok := ast.Unparen(res).(*ast.Ident); ok {
								// the interrupt was built into a local first
								ro := info.Uses[rid]
								mbInspectNoLit(fd.Body, func(m ast.Node) bool {
									as2, ok := m.(*ast.AssignStmt)
									if !ok || len(as2.Lhs) != len(as2.Rhs) {
										return true
									}
									for k, lh := range as2.Lhs {
										if lid, ok := lh.(*ast.Ident); ok && ro != nil && (info.Defs[lid] == ro || info.Uses[lid] == ro) {
											if c := cf.l.errClassIn(info, as2.Rhs[k]); c != "" {
												cls = c
											}
										}
									}
									return true
								})
							}
						}
					}
				}
				return true
			})
			if cls == "" {
				cls = "?unconverted"
			}
			out[site] = cls
		})
	}
	return out
}

// catchable: the interrupt-kind constants the engine's try handler catches:
// in the function that builds the caught-error object from an interrupt (the
// VM's Core.Run / the interpreter's try expression), the kind constants
// compared with `.Kind()` of an interrupt in a positive position.
func (t *mbTwinCtx) catchable(l *mbLib, engineRel string) (map[string]bool, string) {
	p := t.c.Pkg(engineRel)
	info := p.TypesInfo
	out := map[string]bool{}
	pos := ""
	intrKind := func(e ast.Expr) bool {
		call, ok := ast.Unparen(e).(*ast.CallExpr)
		if !ok {
			return false
		}
		sel, ok := call.Fun.(*ast.SelectorExpr)
		if !ok || sel.Sel.Name != "Kind" {
			return false
		}
		return types.Identical(info.TypeOf(sel.X), l.intrT)
	}
	// the caught-error object (a value object with a "message" field) may be
	// built in place or by a helper of the engine package (two levels)
	engDecls := map[*types.Func]*ast.FuncDecl{}
	for _, fd := range AllFuncDecls(p) {
		if fn, ok := info.Defs[fd.Name].(*types.Func); ok {
			engDecls[fn] = fd
		}
	}
	var buildsMsg func(n ast.Node, depth int) bool
	buildsMsg = func(n ast.Node, depth int) bool {
		found := false
		ast.Inspect(n, func(m ast.Node) bool {
			if found {
				return false
			}
			switch y := m.(type) {
			case *ast.KeyValueExpr:
				if tv := info.Types[y.Key]; tv.Value != nil && tv.Value.ExactString() == `"message"` {
					found = true
				}
			case *ast.CallExpr:
				if depth < 2 {
					if hd := engDecls[CalleeOf(info, y)]; hd != nil && hd.Body != nil && hd.Recv == nil && ast.Node(hd.Body) != n {
						if buildsMsg(hd.Body, depth+1) {
							found = true
						}
					}
				}
			}
			return true
		})
		return found
	}
	for _, fd := range AllFuncDecls(p) {
		// role: the function that handles a try: it mentions the analyzer's
		// try-expression node or the compiler's catch labels; resolved
		// structurally: a Kind() test of an interrupt followed by the
		// construction of a value object with a "message" field
		if !buildsMsg(fd.Body, 0) {
			continue
		}
		ast.Inspect(fd.Body, func(n ast.Node) bool {
			switch x := n.(type) {
			case *ast.SwitchStmt:
				if x.Tag != nil && intrKind(x.Tag) {
					for _, c := range x.Body.List {
						cc := c.(*ast.CaseClause)
						handles := buildsMsg(cc, 0)
						if handles {
							for _, v := range cc.List {
								if k := ConstOf(info, v); k != nil {
									out[k.Name()] = true
									pos = t.c.Pos(cc.Pos())
								}
							}
						}
					}
				}
			case *ast.IfStmt:
				be, ok := ast.Unparen(x.Cond).(*ast.BinaryExpr)
				if !ok || !(be.Op == token.NEQ || be.Op == token.EQL) || !intrKind(be.X) {
					return true
				}
				k := ConstOf(info, be.Y)
				if k == nil {
					return true
				}
				// `if kind != K { return i }` → K is caught afterwards;
				// `if kind == K { ...message... }` → K is caught
				if be.Op == token.NEQ {
					if len(x.Body.List) > 0 {
						if _, isRet := x.Body.List[len(x.Body.List)-1].(*ast.ReturnStmt); isRet {
							out[k.Name()] = true
							pos = t.c.Pos(x.Pos())
						}
					}
				}
			}
			return true
		})
	}
	return out, pos
}

// ---------------------------------------------------------------------------
// JSON
// ---------------------------------------------------------------------------

type mbJSONFn struct {
	l     *mbLib
	fd    *ast.FuncDecl
	typed bool
	sw    *ast.TypeSwitchStmt
	norm  *mbNorm
}

func (t *mbTwinCtx) findJSON(l *mbLib) (marshal *mbJSONFn, unmarshal []*mbJSONFn) {
	isEmptyIface := func(tp types.Type) bool {
		i, ok := tp.Underlying().(*types.Interface)
		return ok && i.Empty()
	}
	for fn, fd := range l.decls {
		if fd.Recv != nil {
			continue
		}
		sig := fn.Type().(*types.Signature)
		if sig.Results().Len() == 0 {
			continue
		}
		var sw *ast.TypeSwitchStmt
		// the outermost type switch that is a direct statement of the body
		for _, s := range fd.Body.List {
			if ts, ok := s.(*ast.TypeSwitchStmt); ok {
				sw = ts
			}
		}
		if sw == nil {
			continue
		}
		hasValueParam, hasAnyParam, hasTypeParam := false, false, false
		for i := 0; i < sig.Params().Len(); i++ {
			pt := sig.Params().At(i).Type()
			switch {
			case l.isValueIface(pt):
				hasValueParam = true
			case t.an.isTypeIface(pt):
				hasTypeParam = true
			case isEmptyIface(pt):
				hasAnyParam = true
			}
		}
		r0 := sig.Results().At(0).Type()
		jf := &mbJSONFn{l: l, fd: fd, sw: sw, typed: hasTypeParam}
		switch {
		case hasValueParam && isEmptyIface(r0):
			jf.norm = mbNewNorm(l, fd)
			marshal = jf
		case hasAnyParam && l.isValuePtr(r0):
			jf.norm = mbNewNorm(l, fd)
			unmarshal = append(unmarshal, jf)
		}
	}
	return
}

func (jf *mbJSONFn) caseKey(cc *ast.CaseClause) string {
	if cc.List == nil {
		return "default"
	}
	var ks []string
	for _, e := range cc.List {
		if mbIsNil(jf.l.info, e) {
			ks = append(ks, "nil")
			continue
		}
		ks = append(ks, mbTwin(types.TypeString(jf.l.info.TypeOf(e), func(*types.Package) string { return "" })))
	}
	sort.Strings(ks)
	return strings.Join(ks, ",")
}

// rows: clause key -> canonical outcome table. The marshal function is executed
// symbolically (rules_members_sym.go) with "no callee raised an interrupt"
// assumed (the twins differ in how interrupts travel); a row is read off for
// `self is <type of the clause>`: the returned (value, skip) pairs / panics with
// the boolean function of the conditions, loops summarised by what an
// iteration does. Helpers (a field loop shared by two clauses, …) are executed,
// so a row does not depend on where the loop is written.
func (jf *mbJSONFn) marshalRows() (rows map[string]string, pos map[string]token.Pos, nilContainers []string, bad string) {
	rows, pos = map[string]string{}, map[string]token.Pos{}
	info := jf.l.info
	nres := 0
	if fn, ok := info.Defs[jf.fd.Name].(*types.Func); ok {
		nres = fn.Type().(*types.Signature).Results().Len()
	}
	outs, reg, inc := mbSymExec(jf.l, jf.norm, jf.fd.Body.List, true)
	if inc != "" {
		return nil, nil, nil, "marshal function not executable symbolically: " + inc
	}
	subj := reg.mainSubject()
	keyOf := func(o *mbSymOut) string {
		switch o.kind {
		case "panic":
			return "PANIC"
		case "fall":
			return "?falls off the end"
		}
		if len(o.vals) == 1 {
			return o.vals[0]
		}
		if len(o.vals) != nres {
			return "?" + strings.Join(o.vals, ",")
		}
		// last result an interrupt (interp): an interrupt built here is named by its class
		if nres == 3 && o.vals[2] != "nil" {
			if len(o.exprs) == 3 && o.norm != nil && o.norm.l != nil {
				if cls := o.norm.l.errClass(o.exprs[2]); cls != "" {
					return "error:" + mbTwin(cls)
				}
			}
			return "" // propagated from a callee: that callee's business
		}
		return "out=" + o.vals[0] + " skip=" + o.vals[1]
	}
	seenNil := map[string]bool{}
	for _, c := range jf.sw.Body.List {
		cc := c.(*ast.CaseClause)
		key := jf.caseKey(cc)
		var parts []string
		labels := []string{""}
		if cc.List != nil {
			labels = strings.Split(key, ",")
		}
		for _, lb := range labels {
			sel := mbSymRestrict(outs, reg.selecting(subj, lb))
			parts = append(parts, mbSymTable(sel, keyOf))
			// nil containers
			for i := range sel {
				o := &sel[i]
				if o.kind != "return" || len(o.exprs) < 2 || o.norm == nil {
					continue
				}
				id, ok := ast.Unparen(o.exprs[0]).(*ast.Ident)
				if !ok {
					continue
				}
				ob := o.norm.info.Uses[id]
				if ob == nil {
					continue
				}
				switch ob.Type().Underlying().(type) {
				case *types.Slice, *types.Map:
					for _, d := range o.norm.defs[ob] {
						if d.zero {
							msg := fmt.Sprintf("case %s: `%s` is declared without initialiser (nil) and handed to encoding/json: an empty container marshals as null", key, id.Name)
							if !seenNil[msg] {
								seenNil[msg] = true
								nilContainers = append(nilContainers, msg)
							}
						}
					}
				}
			}
		}
		parts = mbUniq(parts)
		rows[key] = strings.Join(parts, " // ")
		pos[key] = cc.Pos()
	}
	return
}

func mbSortedKeys(m map[string]bool) []string {
	var out []string
	for k := range m {
		out = append(out, k)
	}
	sort.Strings(out)
	return out
}

// unmarshalRows: Go JSON type -> set of value kinds built (and interrupt
// classes raised) for it. The function is executed symbolically with "no callee
// raised an interrupt" and the outcomes are read off per `self is <type>`, so
// a clause body moved into a helper reads like the inline clause.
func (jf *mbJSONFn) unmarshalRows() (rows map[string]string, pos map[string]token.Pos) {
	rows, pos = map[string]string{}, map[string]token.Pos{}
	outs, reg, inc := mbSymExec(jf.l, jf.norm, jf.fd.Body.List, true)
	if inc != "" {
		return jf.unmarshalRowsAST()
	}
	subj := reg.mainSubject()
	for _, c := range jf.sw.Body.List {
		cc := c.(*ast.CaseClause)
		key := jf.caseKey(cc)
		labels := []string{""}
		if cc.List != nil {
			labels = strings.Split(key, ",")
		}
		set := map[string]bool{}
		for _, lb := range labels {
			for _, o := range mbSymRestrict(outs, reg.selecting(subj, lb)) {
				if !mbSatB(o.cond) {
					continue
				}
				switch o.kind {
				case "panic":
					set["PANIC"] = true
					continue
				case "fall":
					continue
				}
				if len(o.exprs) == 0 || o.norm == nil || o.norm.l == nil {
					set["?"+strings.Join(o.vals, ",")] = true
					continue
				}
				lib := o.norm.l
				if len(o.exprs) == 2 && o.vals[0] == "nil" {
					if cls := lib.errClass(o.exprs[1]); cls != "" {
						set["error:"+mbTwin(cls)] = true
					}
					continue
				}
				if cc := lib.valueOfCall(o.exprs[0]); cc != nil {
					k := mbShortKind(cc.impl.KindName())
					if cc.none {
						k += "(none)"
					}
					set[k] = true
					continue
				}
				if call, ok := ast.Unparen(o.exprs[0]).(*ast.CallExpr); ok && CalleeOf(lib.info, call) == o.norm.selfFn && len(o.exprs) == 1 {
					set["rec"] = true // the result of the recursive call passed on
					continue
				}
				set["?"+o.vals[0]] = true
			}
		}
		rows[key] = strings.Join(mbSortedKeys(set), ",")
		pos[key] = cc.Pos()
	}
	return
}

func (jf *mbJSONFn) unmarshalRowsAST() (rows map[string]string, pos map[string]token.Pos) {
	rows, pos = map[string]string{}, map[string]token.Pos{}
	info := jf.l.info
	for _, c := range jf.sw.Body.List {
		cc := c.(*ast.CaseClause)
		set := map[string]bool{}
		mbVisitStmts(cc.Body, nil, func(s ast.Stmt, stack []mbCondCtx) {
			switch x := s.(type) {
			case *ast.ExprStmt:
				if IsPanicCall(info, x) {
					set["PANIC"] = true
				}
			case *ast.ReturnStmt:
				if len(x.Results) == 0 {
					return
				}
				if len(x.Results) == 2 && mbIsNil(info, x.Results[0]) {
					if cls := jf.l.errClass(x.Results[1]); cls != "" {
						set["error:"+mbTwin(cls)] = true
					}
					return
				}
				if cc := jf.l.valueOfCall(x.Results[0]); cc != nil {
					k := mbShortKind(cc.impl.KindName())
					if cc.none {
						k += "(none)"
					}
					set[k] = true
					return
				}
				set["?"+jf.norm.str(x.Results[0])] = true
			}
		})
		rows[jf.caseKey(cc)] = strings.Join(mbSortedKeys(set), ",")
		pos[jf.caseKey(cc)] = cc.Pos()
	}
	return
}

func (t *mbTwinCtx) jsonTables() {
	vm, vun := t.findJSON(t.vm)
	in, iun := t.findJSON(t.in)
	if vm == nil || in == nil {
		t.add("json|marshal", "?", Undecided, false, "marshal function (Value -> interface{} with a type switch) not found in one of the libraries")
	} else {
		vr, vpos, vnil, vbad := vm.marshalRows()
		ir, ipos, inil, ibad := in.marshalRows()
		if vbad != "" || ibad != "" {
			t.add("json|marshal", t.c.Pos(vm.fd.Pos()), Undecided, false, "vm: "+vbad+"; interp: "+ibad)
		}
		for _, k := range mbUnionKeys(vr, ir) {
			a, aok := vr[k]
			b, bok := ir[k]
			pos := t.c.Pos(ipos[k])
			if !bok {
				pos = t.c.Pos(vpos[k])
			}
			impl := strings.Split(k, ",")[0]
			switch {
			case !aok || !bok:
				t.add("json|marshal|"+k, pos, Violated, true, fmt.Sprintf("marshal case exists in one twin only: vm=%q interp=%q", a, b))
			case t.same(a, b):
				t.add("json|marshal|"+k, pos, Discharged, true, "both twins: "+a)
			case k != "default" && k != "nil" && !t.bothLive(impl) && t.vm.byType[mbLookupType(t.vm, impl)] != nil:
				t.add("json|marshal|"+k, pos, Info, false, fmt.Sprintf("vm=%s / interp=%s — %s", a, b, t.liveNote(impl)))
			default:
				t.add("json|marshal|"+k, pos, Violated, true, fmt.Sprintf("JSON marshal table differs for %s: vm (%s) = %s; interp (%s) = %s", k, t.c.Pos(vpos[k]), a, t.c.Pos(ipos[k]), b))
			}
		}
		for tag, x := range map[string]struct {
			jf  *mbJSONFn
			bad []string
		}{"vm": {vm, vnil}, "interp": {in, inil}} {
			if len(x.bad) > 0 {
				t.add("json|non-nil containers|"+tag, t.c.Pos(x.jf.fd.Pos()), Violated, true, strings.Join(x.bad, "; "))
			} else {
				t.add("json|non-nil containers|"+tag, t.c.Pos(x.jf.fd.Pos()), Discharged, true, "every slice/map returned to encoding/json is initialised by make or a literal")
			}
		}
	}
	var vu, vtyped, iu *mbJSONFn
	for _, f := range vun {
		if f.typed {
			vtyped = f
		} else {
			vu = f
		}
	}
	for _, f := range iun {
		if !f.typed {
			iu = f
		}
	}
	if vu == nil || iu == nil {
		t.add("json|unmarshal", "?", Undecided, false, "unmarshal function (interface{} -> *Value with a type switch) not found in one of the libraries")
		return
	}
	vr, vpos := vu.unmarshalRows()
	ir, ipos := iu.unmarshalRows()
	for _, k := range mbUnionKeys(vr, ir) {
		a, b := vr[k], ir[k]
		if t.same(a, b) {
			t.add("json|unmarshal|"+k, t.c.Pos(vpos[k]), Discharged, true, fmt.Sprintf("JSON %s -> %s in both twins", k, a))
		} else {
			t.add("json|unmarshal|"+k, t.c.Pos(vpos[k]), Violated, true, fmt.Sprintf("JSON unmarshal table differs for Go type %s: vm (%s) -> %s; interp (%s) -> %s", k, t.c.Pos(vpos[k]), a, t.c.Pos(ipos[k]), b))
		}
	}
	if vtyped != nil {
		tr, tpos := vtyped.unmarshalRows()
		for _, k := range mbUnionKeys(vr, tr) {
			a, aok := vr[k]
			b, bok := tr[k]
			if k == "default" {
				t.add("json|unmarshal typed-vs-untyped|"+k, t.c.Pos(tpos[k]), Info, false, fmt.Sprintf("unknown Go type: %s -> %s, %s -> %s (encoding/json produces only the listed types)", vu.fd.Name.Name, a, vtyped.fd.Name.Name, b))
				continue
			}
			if !aok || !bok {
				t.add("json|unmarshal typed-vs-untyped|"+k, t.c.Pos(vtyped.fd.Pos()), Info, false, fmt.Sprintf("case only in one of %s / %s: untyped=%q typed=%q", vu.fd.Name.Name, vtyped.fd.Name.Name, a, b))
				continue
			}
			// rows steered by the target type (numbers) may build more kinds in the typed twin
			sub := true
			for _, x := range strings.Split(a, ",") {
				if !strings.Contains(","+b+",", ","+x+",") {
					sub = false
				}
			}
			st := Discharged
			if !sub {
				st = Violated
			}
			t.add("json|unmarshal typed-vs-untyped|"+k, t.c.Pos(tpos[k]), st, true, fmt.Sprintf("Go type %s: %s builds {%s}, %s builds {%s} (the untyped set must be contained)", k, vu.fd.Name.Name, a, vtyped.fd.Name.Name, b))
		}
	}
}

func mbLookupType(l *mbLib, name string) *types.TypeName {
	tn, _ := l.pkg.Types.Scope().Lookup(name).(*types.TypeName)
	return tn
}

func mbUnionKeys(a, b map[string]string) []string {
	s := map[string]bool{}
	for k := range a {
		s[k] = true
	}
	for k := range b {
		s[k] = true
	}
	return mbSortedKeys(s)
}

// ---------------------------------------------------------------------------
// Display
// ---------------------------------------------------------------------------

// displayForm: the texts Display returns on its normal paths, with the
// conditions under which each is returned (symbolic execution with "no callee
// raised an interrupt": the error plumbing of the twins is not part of the
// format). Loops over the elements are summarised by what an iteration adds.
func (t *mbTwinCtx) displayForm(im *mbImpl) (string, token.Pos, bool) {
	fd := im.methods["Display"]
	if fd == nil {
		return "", token.NoPos, false
	}
	n := mbNewNorm(im.lib, fd)
	outs, _, inc := mbSymExec(im.lib, n, fd.Body.List, true)
	if inc != "" {
		return "?not executable symbolically (" + inc + ") in " + im.lib.tag, fd.Pos(), true
	}
	form := mbSymTable(outs, func(o *mbSymOut) string {
		switch o.kind {
		case "panic":
			return "PANIC"
		case "return":
			if len(o.vals) == 2 && o.vals[1] == "nil" {
				return o.vals[0]
			}
			if len(o.vals) == 1 {
				return o.vals[0]
			}
			return "" // an interrupt built / passed on: not part of the format
		}
		return "?falls off the end"
	})
	return form, fd.Pos(), true
}

func (t *mbTwinCtx) displayTables() {
	for _, vi := range t.vm.impls {
		ii := t.in.byType[mbLookupType(t.in, vi.Name())]
		if ii == nil {
			t.add("display|"+vi.Name(), t.c.Pos(vi.named.Obj().Pos()), Info, false, "value struct exists in the VM library only")
			continue
		}
		a, apos, aok := t.displayForm(vi)
		b, bpos, bok := t.displayForm(ii)
		if !aok || !bok {
			t.add("display|"+vi.Name(), t.c.Pos(vi.named.Obj().Pos()), Undecided, false, "Display method not found")
			continue
		}
		switch {
		case t.same(a, b):
			t.add("display|"+vi.Name(), t.c.Pos(apos), Discharged, true, "both twins: "+a)
		case !t.bothLive(vi.Name()):
			t.add("display|"+vi.Name(), t.c.Pos(bpos), Info, false, fmt.Sprintf("vm=%s / interp=%s — %s", a, b, t.liveNote(vi.Name())))
		default:
			t.add("display|"+vi.Name(), t.c.Pos(bpos), Violated, true, fmt.Sprintf("Display differs: vm (%s) = %s; interp (%s) = %s", t.c.Pos(apos), a, t.c.Pos(bpos), b))
		}
	}
	for _, ii := range t.in.impls {
		if t.vm.byType[mbLookupType(t.vm, ii.Name())] == nil {
			t.add("display|"+ii.Name(), t.c.Pos(ii.named.Obj().Pos()), Info, false, "value struct exists in the interpreter library only")
		}
	}
}

// ---------------------------------------------------------------------------
// IsEqual
// ---------------------------------------------------------------------------

// returnForms: the outcomes of a method with results (T, *interrupt) as a
// canonical table (symbolic execution, rules_members_sym.go): returned values
// with the boolean function of the conditions under which each is returned; a
// returned boolean expression counts as `true` under it and `false` otherwise,
// so early returns and a single && / || expression read alike.
func mbReturnForms(l *mbLib, fd *ast.FuncDecl) string {
	n := mbNewNorm(l, fd)
	outs, _, inc := mbSymExec(l, n, fd.Body.List, false)
	if inc != "" {
		return "?not executable symbolically (" + inc + ") in " + l.tag
	}
	outs = mbSymSplitBool(outs, 0)
	return mbSymTable(outs, func(o *mbSymOut) string {
		switch o.kind {
		case "panic":
			return "PANIC"
		case "return":
			return strings.Join(o.vals, ", ")
		}
		return "?falls off the end"
	})
}

func (t *mbTwinCtx) isEqualTables() {
	for _, vi := range t.vm.impls {
		ii := t.in.byType[mbLookupType(t.in, vi.Name())]
		if ii == nil || vi.methods["IsEqual"] == nil || ii.methods["IsEqual"] == nil {
			continue
		}
		a, b := mbReturnForms(t.vm, vi.methods["IsEqual"]), mbReturnForms(t.in, ii.methods["IsEqual"])
		pos := t.c.Pos(ii.methods["IsEqual"].Pos())
		switch {
		case t.same(a, b):
			t.add("isequal|"+vi.Name(), pos, Discharged, true, "both twins: "+a)
		case !t.bothLive(vi.Name()):
			t.add("isequal|"+vi.Name(), pos, Info, false, fmt.Sprintf("vm=%s / interp=%s — %s", a, b, t.liveNote(vi.Name())))
		default:
			t.add("isequal|"+vi.Name(), pos, Violated, true, fmt.Sprintf("IsEqual differs: vm (%s) = %s; interp = %s", t.c.Pos(vi.methods["IsEqual"].Pos()), a, b))
		}
	}
}

// ---------------------------------------------------------------------------
// index guards
// ---------------------------------------------------------------------------

// indexRows: IndexValue as a table base kind -> outcomes. The function body is
// executed symbolically (rules_members_sym.go): a row is the set of outcomes
// (returned values / panic) with the boolean function of the conditions under
// which each is reached, read off for `<base>.Kind() == K`. Helpers are
// executed, locals substituted, so the row does not depend on whether the
// negative-index wrap or the bounds test is written inline, in a helper, as an
// if-chain or with early returns. Kinds that one `case` lists together (in
// either twin) share a row key.
func (t *mbTwinCtx) indexRows(l *mbLib) (rows map[string]string, pos map[string]token.Pos, groups [][]string, fpos token.Pos, bad string) {
	var fd *ast.FuncDecl
	for fn, d := range l.decls {
		if fn.Name() == "IndexValue" && d.Recv == nil {
			fd = d
		}
	}
	if fd == nil {
		return nil, nil, nil, token.NoPos, "IndexValue not found"
	}
	n := mbNewNorm(l, fd)
	outs, reg, inc := mbSymExec(l, n, fd.Body.List, false)
	if inc != "" {
		return nil, nil, nil, fd.Pos(), "IndexValue not executable symbolically: " + inc
	}
	subj := reg.mainSubject()
	labels := reg.labelsOf(subj)
	if len(labels) < 2 {
		return nil, nil, nil, fd.Pos(), "no dispatch on the base value's kind found in IndexValue"
	}
	rows, pos = map[string]string{}, map[string]token.Pos{}
	keyOf := func(o *mbSymOut) string {
		switch o.kind {
		case "panic":
			return "PANIC"
		case "return":
			return "return " + strings.Join(o.vals, ",")
		}
		return "?falls off the end"
	}
	for _, k := range labels {
		rows[mbShortKind(k)] = mbSymTable(mbSymRestrict(outs, reg.selecting(subj, k)), keyOf)
		pos[mbShortKind(k)] = fd.Pos()
	}
	rows["otherwise"] = mbSymTable(mbSymRestrict(outs, reg.selecting(subj, "")), keyOf)
	pos["otherwise"] = fd.Body.List[len(fd.Body.List)-1].Pos()
	// positions and grouping hints from the clauses that name the kinds
	ast.Inspect(fd.Body, func(nd ast.Node) bool {
		cc, ok := nd.(*ast.CaseClause)
		if !ok {
			return true
		}
		var ks []string
		for _, v := range cc.List {
			if k := ConstOf(l.info, v); k != nil {
				if _, isRow := rows[mbShortKind(mbTwin(k.Name()))]; isRow {
					ks = append(ks, mbShortKind(mbTwin(k.Name())))
					pos[mbShortKind(mbTwin(k.Name()))] = cc.Pos()
				}
			}
		}
		if len(ks) > 1 {
			sort.Strings(ks)
			groups = append(groups, ks)
		}
		return true
	})
	return rows, pos, groups, fd.Pos(), ""
}

// mbGroupRows merges the rows of labels that a clause lists together, when
// their rows are equal in both tables; the merged key is the sorted list.
func mbGroupRows(groups [][]string, tabs ...map[string]string) map[string][]string {
	out := map[string][]string{}
	used := map[string]bool{}
	for _, g := range groups {
		same := true
		for _, tab := range tabs {
			for _, k := range g[1:] {
				if tab[k] != tab[g[0]] {
					same = false
				}
			}
		}
		for _, k := range g {
			if used[k] {
				same = false
			}
		}
		if !same {
			continue
		}
		for _, k := range g {
			used[k] = true
		}
		out[strings.Join(g, ",")] = g
	}
	for _, tab := range tabs {
		for k := range tab {
			if !used[k] {
				out[k] = []string{k}
			}
		}
	}
	return out
}

func (t *mbTwinCtx) indexGuards() {
	vr, vpos, vg, vfd, vbad := t.indexRows(t.vm)
	ir, ipos, ig, _, ibad := t.indexRows(t.in)
	if vr == nil || ir == nil {
		t.add("index|IndexValue", t.c.Pos(vfd), Undecided, false, "IndexValue table not extractable: vm: "+vbad+"; interp: "+ibad)
		return
	}
	groups := mbGroupRows(append(vg, ig...), vr, ir)
	for _, key := range mbSortedKeysOf(groups) {
		k := groups[key][0]
		a, aok := vr[k]
		b, bok := ir[k]
		switch {
		case aok && bok && t.same(a, b):
			t.add("index|"+key, t.c.Pos(vpos[k]), Discharged, true, "both twins: "+a)
		case !aok || !bok:
			p := vpos[k]
			if !aok {
				p = ipos[k]
			}
			t.add("index|"+key, t.c.Pos(p), Violated, true, fmt.Sprintf("base kind %s is dispatched on in one twin only: vm=%q interp=%q", key, a, b))
		default:
			t.add("index|"+key, t.c.Pos(ipos[k]), Violated, true, fmt.Sprintf("index guards differ for base kind %s: vm (%s) = %s; interp (%s) = %s", key, t.c.Pos(vpos[k]), a, t.c.Pos(ipos[k]), b))
		}
	}
}

func mbSortedKeysOf(m map[string][]string) []string {
	var out []string
	for k := range m {
		out = append(out, k)
	}
	sort.Strings(out)
	return out
}

// ---------------------------------------------------------------------------
// member tables of the twins
// ---------------------------------------------------------------------------

func (t *mbTwinCtx) memberTwins() {
	for _, vi := range t.vm.impls {
		ii := t.in.byType[mbLookupType(t.in, vi.Name())]
		if ii == nil {
			continue
		}
		vt := mbExtractTable(t.vm.info, vi.methods["Fields"])
		it := mbExtractTable(t.in.info, ii.methods["Fields"])
		if !vt.ok || !it.ok {
			t.add("members|"+vi.Name(), t.c.Pos(vi.named.Obj().Pos()), Undecided, false, "member table not extractable: "+vt.why+" "+it.why)
			continue
		}
		if vt.panics != it.panics {
			t.add("members|"+vi.Name(), t.c.Pos(vi.named.Obj().Pos()), Violated, false, "Fields panics in one twin only")
			continue
		}
		names := map[string]bool{}
		for _, e := range vt.entries {
			names[e.key] = true
		}
		for _, e := range it.entries {
			names[e.key] = true
		}
		for _, nm := range mbSortedKeys(names) {
			ve, ie := vt.find(nm), it.find(nm)
			key := "members|" + vi.Name() + "." + nm
			if len(ve) == 0 || len(ie) == 0 {
				has := "vm"
				pos := token.NoPos
				if len(ve) == 0 {
					has = "interp"
					pos = ie[0].pos
				} else {
					pos = ve[0].pos
				}
				// whether this is reachable is R-members' business (analyzer offers it or not)
				t.add(key+"|name", t.c.Pos(pos), Info, false, fmt.Sprintf("member %s.%s exists in the %s library only (see R-members for whether the analyzer offers it)", vi.Name(), nm, has))
				continue
			}
			vfl, _ := t.vm.closureOf(ve[0].val, 0)
			ifl, _ := t.in.closureOf(ie[0].val, 0)
			if (vfl == nil) != (ifl == nil) {
				t.add(key+"|shape", t.c.Pos(ie[0].pos), Violated, true, "member is a builtin closure in one twin and a plain value in the other")
				continue
			}
			if vfl == nil {
				a, b := mbNewNorm(t.vm, ve[0].enc).str(ve[0].val), mbNewNorm(t.in, ie[0].enc).str(ie[0].val)
				st := Discharged
				if !t.same(a, b) {
					st = Violated
				}
				t.add(key+"|value", t.c.Pos(ie[0].pos), st, false, fmt.Sprintf("vm=%s interp=%s", a, b))
				continue
			}
			vc, ic := t.vm.analyzeClosure(vfl, ""), t.in.analyzeClosure(ifl, "")
			// error classes
			cls := func(c *mbClosure) string {
				s := map[string]bool{}
				for e := range c.errs {
					if e != "propagated" {
						s[mbTwin(e)] = true
					}
				}
				return strings.Join(mbSortedKeys(s), ",")
			}
			a, b := cls(vc), cls(ic)
			ga, ca, oka := mbClosureErrorPaths(t.vm, ve[0].enc, ve[0].val, vfl)
			gb, cb, okb := mbClosureErrorPaths(t.in, ie[0].enc, ie[0].val, ifl)
			if oka && okb {
				a, b = ca, cb // classes read off the executed paths (helpers included)
			}
			st := Discharged
			if a != b {
				st = Violated
			}
			if a != "" || b != "" {
				t.add(key+"|error class", t.c.Pos(ifl.Pos()), st, true, fmt.Sprintf("interrupt classes raised by the builtin's own error paths: vm={%s} interp={%s}", a, b))
			}
			// guards in front of the builtin's error exits (helpers inlined, negations normalised)
			if ga != "" || gb != "" {
				st = Discharged
				if !t.same(ga, gb) {
					st = Violated
				}
				t.add(key+"|guards", t.c.Pos(ifl.Pos()), st, true, fmt.Sprintf("conditions under which the builtin raises an interrupt or panics: vm={%s} interp={%s}", ga, gb))
			}
			// signature read by the closure
			sig := func(l *mbLib, c *mbClosure) string {
				var parts []string
				for i := 0; i <= c.maxIdx; i++ {
					var as []string
					for _, im := range c.asserts[i] {
						as = append(as, im.Name())
					}
					as = mbUniq(as)
					sort.Strings(as)
					parts = append(parts, fmt.Sprintf("args[%d]:%s", i, strings.Join(as, "/")))
				}
				var rs []string
				for _, r := range c.rets {
					switch {
					case r.ctor != nil && r.ctor.none:
						rs = append(rs, r.ctor.impl.Name()+"(none)")
					case r.ctor != nil:
						rs = append(rs, r.ctor.impl.Name())
					case r.generic != "":
						rs = append(rs, r.generic)
					default:
						rs = append(rs, "dynamic")
					}
				}
				rs = mbUniq(rs)
				sort.Strings(rs)
				return "(" + strings.Join(parts, ", ") + ") -> {" + strings.Join(rs, ", ") + "}"
			}
			sa, sb := sig(t.vm, vc), sig(t.in, ic)
			st = Discharged
			if sa != sb {
				st = Violated
			}
			t.add(key+"|signature", t.c.Pos(ifl.Pos()), st, true, fmt.Sprintf("arguments read / asserted and constructors returned: vm=%s interp=%s", sa, sb))
		}
	}
}

// mbClosureGuards: canonical set of the conditions that lead a builtin closure
// to an error return or a panic.
func mbClosureGuards(l *mbLib, enc *ast.FuncDecl, entry ast.Expr, lit *ast.FuncLit) string {
	g, _, _ := mbClosureErrorPaths(l, enc, entry, lit)
	return g
}

// mbClosureErrorPaths: the builtin closure executed symbolically ("no callee
// raised an interrupt"; helpers of the library are executed, so a guard that
// lives in `checkCount(n, span) *Interrupt` reads like the inline test): the
// boolean function of the conditions under which the closure itself raises an
// interrupt or panics, and the classes of the interrupts it raises.
func mbClosureErrorPaths(l *mbLib, enc *ast.FuncDecl, entry ast.Expr, lit *ast.FuncLit) (guards string, classes string, ok bool) {
	// a closure obtained through a helper is normalised in the helper's context
	encFd := enc
	if call, isCall := ast.Unparen(entry).(*ast.CallExpr); isCall {
		if fd := l.decls[CalleeOf(l.info, call)]; fd != nil && fd.Pos() <= lit.Pos() && lit.End() <= fd.End() {
			encFd = fd
		}
	}
	n := mbNewNormLit(l, encFd, lit)
	outs, _, inc := mbSymExec(l, n, lit.Body.List, true)
	if inc != "" {
		return mbClosureGuardsAST(l, enc, entry, lit), "", false
	}
	cls := map[string]bool{}
	guards = mbSymTable(outs, func(o *mbSymOut) string {
		switch o.kind {
		case "panic":
			return "PANIC"
		case "return":
			if len(o.vals) == 2 && o.vals[0] == "nil" && strings.HasPrefix(o.vals[1], "error:") {
				if mbSatB(o.cond) {
					cls[strings.TrimPrefix(o.vals[1], "error:")] = true
				}
				return "error"
			}
		}
		return ""
	})
	return guards, strings.Join(mbSortedKeys(cls), ","), true
}

func mbClosureGuardsAST(l *mbLib, enc *ast.FuncDecl, entry ast.Expr, lit *ast.FuncLit) string {
	// a closure obtained through a helper is normalised in the helper's context
	encFd := enc
	if call, ok := ast.Unparen(entry).(*ast.CallExpr); ok {
		if fd := l.decls[CalleeOf(l.info, call)]; fd != nil && fd.Pos() <= lit.Pos() && lit.End() <= fd.End() {
			encFd = fd
		}
	}
	n := mbNewNormLit(l, encFd, lit)
	set := map[string]bool{}
	mbVisitStmts(lit.Body.List, nil, func(s ast.Stmt, stack []mbCondCtx) {
		kind := ""
		switch x := s.(type) {
		case *ast.ReturnStmt:
			if len(x.Results) == 2 && mbIsNil(l.info, x.Results[0]) && !mbIsNil(l.info, x.Results[1]) {
				if cls := l.errClass(x.Results[1]); cls != "" {
					kind = "error"
				}
				// an interrupt propagated from a callee is that callee's business
			}
		case *ast.ExprStmt:
			if IsPanicCall(l.info, x) {
				kind = "PANIC"
			}
		}
		if kind == "" {
			return
		}
		var conds []string
		for _, g := range stack {
			switch {
			case g.cond != nil:
				conds = append(conds, n.strB(g.cond, 0, g.neg))
			case g.loop != nil:
				conds = append(conds, "loop")
			case g.clause != nil:
				if g.clause.List == nil {
					conds = append(conds, "default of switch "+n.str(g.sw.Tag))
				} else {
					conds = append(conds, "case "+n.str(g.clause.List[0]))
				}
			}
		}
		set["["+strings.Join(conds, " && ")+"] → "+kind] = true
	})
	return strings.Join(mbSortedKeys(set), " ; ")
}
