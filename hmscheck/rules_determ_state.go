package main

// R-map-order, part 4: state that must not influence results — clock/random
// sources, package-level variables written after init, and the monotonic
// name-mangling counters.

import (
	"fmt"
	"go/ast"
	"go/constant"
	"go/token"
	"go/types"
	"sort"
	"strings"

	"golang.org/x/tools/go/ssa"
)

var determClockPkgs = map[string]bool{"time": true, "math/rand": true, "math/rand/v2": true, "crypto/rand": true}

func determStateObligations(c *Ctx, a *dmAnalysis) []Obligation {
	var obs []Obligation
	// (a) clock / random sources
	for _, rel := range determPipelinePkgs {
		p := c.Pkg(rel)
		short := strings.TrimPrefix(rel, "homescript/")
		type use struct {
			pos   token.Pos
			count int
		}
		uses := map[string]*use{}
		objs := map[string]types.Object{}
		for id, o := range p.TypesInfo.Uses {
			if o.Pkg() == nil || !determClockPkgs[o.Pkg().Path()] {
				continue
			}
			if _, isPkg := o.(*types.PkgName); isPkg {
				continue
			}
			k := o.Pkg().Path() + "." + o.Name()
			if f, ok := o.(*types.Func); ok && f.Type().(*types.Signature).Recv() != nil {
				k = o.Pkg().Path() + ".(method)." + o.Name()
			}
			if uses[k] == nil || dmPosLess(c, id.Pos(), uses[k].pos) {
				n := 0
				if uses[k] != nil {
					n = uses[k].count
				}
				uses[k] = &use{pos: id.Pos(), count: n}
			}
			uses[k].count++
			objs[k] = o
		}
		if len(uses) == 0 {
			obs = append(obs, Obligation{Key: "clock-random|" + short, Status: Discharged, Pos: rel, Detail: "package uses nothing from time, math/rand, crypto/rand"})
			continue
		}
		var ks []string
		for k := range uses {
			ks = append(ks, k)
		}
		sort.Strings(ks)
		for _, k := range ks {
			o := objs[k]
			ob := Obligation{Key: "clock-random|" + short + "|" + k, Pos: c.Pos(uses[k].pos)}
			switch x := o.(type) {
			case *types.Const:
				ob.Status, ob.Detail = Discharged, fmt.Sprintf("%d use(s) of the duration constant %s (a fixed number, not a clock reading)", uses[k].count, k)
			case *types.TypeName:
				ob.Status, ob.Detail = Discharged, "type name only"
			case *types.Func:
				switch {
				case o.Pkg().Path() == "time" && x.Name() == "Sleep":
					ob.Status, ob.Detail = Discharged, fmt.Sprintf("%d use(s) of time.Sleep: pacing only, no value flows from the clock into results", uses[k].count)
				case o.Pkg().Path() == "time" && x.Type().(*types.Signature).Recv() != nil && (x.Name() == "String" || x.Name() == "Seconds" || x.Name() == "Milliseconds"):
					ob.Status, ob.Detail = Discharged, "conversion of a duration value"
				default:
					ob.Status, ob.Detail = Violated, fmt.Sprintf("%d use(s) of %s in a pipeline package: a clock/random source makes results differ between repetitions", uses[k].count, k)
				}
			default:
				ob.Status, ob.Detail = Violated, "use of "+k
			}
			obs = append(obs, ob)
		}
	}
	// (b) package-level variables written after init
	for _, rel := range determPipelinePkgs {
		p := c.Pkg(rel)
		short := strings.TrimPrefix(rel, "homescript/")
		scope := p.Types.Scope()
		n := 0
		for _, name := range scope.Names() {
			v, ok := scope.Lookup(name).(*types.Var)
			if !ok {
				continue
			}
			n++
			root := "global:" + rel + "." + name
			var writers []string
			for _, fn := range a.funcs {
				if fn.Synthetic != "" && strings.HasPrefix(fn.Name(), "init") {
					continue
				}
				if fn.Name() == "init" || strings.HasPrefix(fn.Name(), "init#") {
					continue
				}
				for _, e := range a.sums[fn].sortedEffects() {
					if e.Root == root {
						writers = append(writers, moCalleeName(fn)+" ("+e.Op+e.Path+")")
						break
					}
				}
			}
			ob := Obligation{Key: "pkgvar|" + short + "." + name, Pos: c.Pos(v.Pos())}
			if len(writers) == 0 {
				ob.Status, ob.Detail = Discharged, "package-level variable "+moTypeSig(v.Type())+": never written outside package initialisation"
			} else {
				sort.Strings(writers)
				if len(writers) > 6 {
					writers = append(writers[:6], fmt.Sprintf("… %d more", len(writers)-6))
				}
				ob.Status, ob.Detail = Violated, "package-level variable written after init (state survives from one run to the next in the same process) by: "+strings.Join(writers, ", ")
			}
			obs = append(obs, ob)
		}
		if n == 0 {
			obs = append(obs, Obligation{Key: "pkgvar|" + short, Status: Discharged, Pos: rel, Detail: "package declares no package-level variable"})
		}
	}
	// (c) mangling counters
	obs = append(obs, determMangleCounters(c, a)...)
	return obs
}

// determMangleCounters: the integer-valued map fields of the compiler state
// are the name-mangling counters. renameVariables assigns frame slots through
// one slot table shared by all functions (visited in map order), which is only
// sound when mangled names are unique program-wide — i.e. when a counter map is
// created once and its entries only grow.
func determMangleCounters(c *Ctx, a *dmAnalysis) []Obligation {
	rel := "homescript/compiler"
	p := c.Pkg(rel)
	if FuncDecl(p, "Compiler", "Compile") == nil {
		fatalf("anchor unresolved: compiler.Compiler.Compile")
	}
	tn, _ := p.Types.Scope().Lookup("Compiler").(*types.TypeName)
	if tn == nil {
		fatalf("anchor unresolved: compiler.Compiler")
	}
	st, ok := tn.Type().Underlying().(*types.Struct)
	if !ok {
		fatalf("compiler.Compiler is not a struct")
	}
	var counters []*types.Var
	for i := 0; i < st.NumFields(); i++ {
		f := st.Field(i)
		if m, ok := f.Type().Underlying().(*types.Map); ok {
			if b, ok := m.Elem().Underlying().(*types.Basic); ok && b.Info()&types.IsInteger != 0 {
				counters = append(counters, f)
			}
		}
	}
	var obs []Obligation
	if len(counters) == 0 {
		return []Obligation{{Key: "mangle-counter|compiler.Compiler", Status: Undecided, Detail: "no integer-valued map field found in compiler.Compiler: the mangling counters moved; re-anchor the rule"}}
	}
	isField := func(v ssa.Value, f *types.Var) (*ssa.FieldAddr, bool) {
		fa, ok := v.(*ssa.FieldAddr)
		if !ok {
			return nil, false
		}
		return fa, dmFieldOf(fa.X.Type(), fa.Field) == f
	}
	// mapFromField: the map value is loaded from field f
	var mapFromField func(v ssa.Value, f *types.Var, d int) bool
	mapFromField = func(v ssa.Value, f *types.Var, d int) bool {
		if d > 6 {
			return false
		}
		switch x := v.(type) {
		case *ssa.UnOp:
			if x.Op == token.MUL {
				if _, ok := isField(x.X, f); ok {
					return true
				}
			}
		case *ssa.Field:
			return dmFieldOf(x.X.Type(), x.Field) == f
		case *ssa.Phi:
			for _, e := range x.Edges {
				if mapFromField(e, f, d+1) {
					return true
				}
			}
		}
		return false
	}
	for _, f := range counters {
		var reassign, badUpdate []string
		updaters := map[string]bool{}
		nUpd := 0
		for _, fn := range a.funcs {
			if fn.Pkg == nil && fn.Parent() == nil {
				continue
			}
			for _, b := range fn.Blocks {
				for _, in := range b.Instrs {
					switch x := in.(type) {
					case *ssa.Store:
						if fa, ok := isField(x.Addr, f); ok {
							local := true
							for _, o := range a.origin(fn, fa.X) {
								if o.Root != "local" {
									local = false
								}
							}
							if !local {
								reassign = append(reassign, fmt.Sprintf("%s @%s", moCalleeName(fn), c.Pos(x.Pos())))
							}
						}
					case *ssa.MapUpdate:
						if !mapFromField(x.Map, f, 0) {
							continue
						}
						nUpd++
						updaters[moCalleeName(fn)] = true
						okUpd := false
						switch v := x.Value.(type) {
						case *ssa.Const:
							if v.Value != nil && v.Value.Kind() == constant.Int {
								if n, _ := constant.Int64Val(v.Value); n >= 1 {
									okUpd = true
								}
							}
						case *ssa.BinOp:
							if v.Op == token.ADD {
								if k, ok := v.Y.(*ssa.Const); ok && k.Value != nil && constant.Sign(k.Value) > 0 {
									if lk, ok := v.X.(*ssa.Lookup); ok && mapFromField(lk.X, f, 0) && (lk.Index == x.Key || dmSameAddr(lk.Index, x.Key)) {
										okUpd = true
									}
								}
							}
						}
						if !okUpd {
							badUpdate = append(badUpdate, fmt.Sprintf("%s @%s stores %s", moCalleeName(fn), c.Pos(x.Pos()), x.Value))
						}
					case ssa.CallInstruction:
						if bi, ok := x.Common().Value.(*ssa.Builtin); ok && (bi.Name() == "delete" || bi.Name() == "clear") && len(x.Common().Args) > 0 && mapFromField(x.Common().Args[0], f, 0) {
							badUpdate = append(badUpdate, fmt.Sprintf("%s @%s calls %s on the counter map", moCalleeName(fn), c.Pos(x.Pos()), bi.Name()))
						}
					}
				}
			}
		}
		key := "mangle-counter|compiler.Compiler." + f.Name()
		ob1 := Obligation{Key: key + "|created once", Pos: c.Pos(f.Pos()), Nontrivial: true}
		if len(reassign) == 0 {
			ob1.Status, ob1.Detail = Discharged, "the counter map is only set in the composite literal of the constructor; no store replaces it on a live Compiler"
		} else {
			ob1.Status = Violated
			ob1.Detail = "the counter map is replaced on a live Compiler by " + strings.Join(reassign, ", ") + ": counters restart, so two functions can receive the same mangled name; renameVariables then resolves both through one shared slot entry, and which function's frame layout wins depends on the map order in which functions are visited"
		}
		ob2 := Obligation{Key: key + "|entries only grow", Pos: c.Pos(f.Pos()), Nontrivial: true}
		var us []string
		for u := range updaters {
			us = append(us, u)
		}
		sort.Strings(us)
		switch {
		case len(badUpdate) > 0:
			ob2.Status, ob2.Detail = Violated, "counter entries are not monotonic: "+strings.Join(badUpdate, "; ")
		case len(us) > 1:
			ob2.Status, ob2.Detail = Violated, "counter entries are written by more than one function: "+strings.Join(us, ", ")
		case nUpd == 0:
			ob2.Status, ob2.Detail = Discharged, "never updated (unused counter)"
		default:
			ob2.Status, ob2.Detail = Discharged, fmt.Sprintf("%d update(s), all in %s, each `m[k] = m[k] + c` (c > 0) or a positive constant", nUpd, us[0])
		}
		obs = append(obs, ob1, ob2)
	}
	return obs
}

var _ = ast.Inspect
