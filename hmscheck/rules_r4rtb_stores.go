package main

// R-map-order, part 4 (round 4): interprocedural summaries of FIELD STORES —
// which scalar places (a chain of struct fields below a parameter, or a
// package-level variable) a function leaves assigned when it returns, and from
// which of its parameters the stored value derives; and which places a
// function definitely overwrites on every path to its return. They let the
// carried-place analysis see an assignment (or an overwrite) made by a helper
// exactly like one written in the loop body.

import (
	"fmt"
	"go/token"
	"go/types"
	"sort"
	"strings"

	"golang.org/x/tools/go/ssa"
)

type r4bStore struct {
	Root, Path string
	Deps       map[int]bool // parameters the stored value derives from
	Pos        token.Pos
	Via        string
}

type r4bStores struct {
	sums map[*ssa.Function]map[string]*r4bStore
	must map[*ssa.Function]map[string]bool
}

type r4bStoreRec2 struct {
	st  *ssa.Store
	key string
}

type r4bStoreBuilder struct {
	a       *dmAnalysis
	out     *r4bStores
	depMemo map[ssa.Value]map[int]bool
	index   map[ssa.Instruction]int
	rets    map[*ssa.Function][]*ssa.BasicBlock
}

func r4bScalarPath(p string) bool {
	return !strings.Contains(p, "[") && !strings.Contains(p, "…") && !strings.Contains(p, "#")
}

// r4bAddrOrigins: (root, path) pairs an address may designate, relative to
// the parameters of fn / package-level variables.
func r4bAddrOrigins(a *dmAnalysis, fn *ssa.Function, addr ssa.Value) [][2]string {
	var fields []string
	cur := addr
	for i := 0; i < 16; i++ {
		fa, ok := cur.(*ssa.FieldAddr)
		if !ok {
			break
		}
		f := dmFieldOf(fa.X.Type(), fa.Field)
		fields = append([]string{"." + dmFieldName(f, fa.Field)}, fields...)
		cur = fa.X
	}
	suffix := strings.Join(fields, "")
	var out [][2]string
	switch x := cur.(type) {
	case *ssa.Alloc:
		if p := r4bSpilledParam(x); p != nil {
			out = append(out, [2]string{fmt.Sprintf("param:%d", dmParamIndex(fn, p)), suffix})
		}
		return out
	case *ssa.Global:
		name := x.Name()
		if x.Pkg != nil {
			name = relPkg(x.Pkg.Pkg.Path()) + "." + name
		}
		return append(out, [2]string{"global:" + name, suffix})
	}
	for _, o := range a.origin(fn, cur).sorted() {
		if strings.HasPrefix(o.Root, "param:") || strings.HasPrefix(o.Root, "global:") {
			out = append(out, [2]string{o.Root, o.Path + suffix})
		}
	}
	return out
}

func (b *r4bStoreBuilder) idx(in ssa.Instruction) int {
	if i, ok := b.index[in]; ok {
		return i
	}
	for i, x := range in.Block().Instrs {
		b.index[x] = i
	}
	return b.index[in]
}

func (b *r4bStoreBuilder) returnBlocks(fn *ssa.Function) []*ssa.BasicBlock {
	if r, ok := b.rets[fn]; ok {
		return r
	}
	var out []*ssa.BasicBlock
	for _, blk := range fn.Blocks {
		if n := len(blk.Instrs); n > 0 {
			if _, ok := blk.Instrs[n-1].(*ssa.Return); ok {
				out = append(out, blk)
			}
		}
	}
	b.rets[fn] = out
	return out
}

// onEveryPath: the block lies on every path from the entry to a return.
func (b *r4bStoreBuilder) onEveryPath(fn *ssa.Function, blk *ssa.BasicBlock) bool {
	rets := b.returnBlocks(fn)
	if len(rets) == 0 {
		return false
	}
	for _, r := range rets {
		if !blk.Dominates(r) {
			return false
		}
	}
	return true
}

// deps: the parameters of fn a value derives from.
func (b *r4bStoreBuilder) deps(fn *ssa.Function, v ssa.Value) map[int]bool {
	if d, ok := b.depMemo[v]; ok {
		return d
	}
	out := map[int]bool{}
	seen := map[ssa.Value]bool{}
	var rec func(v ssa.Value)
	rec = func(v ssa.Value) {
		if v == nil || seen[v] || len(seen) > 400 {
			return
		}
		seen[v] = true
		if d, ok := b.depMemo[v]; ok {
			for k := range d {
				out[k] = true
			}
			return
		}
		switch x := v.(type) {
		case *ssa.Parameter:
			if x.Parent() == fn {
				out[dmParamIndex(fn, x)] = true
			}
		case *ssa.Alloc:
			for _, sv := range b.a.storesTo[x] {
				rec(sv)
			}
		case *ssa.Phi:
			for _, e := range x.Edges {
				rec(e)
			}
		case *ssa.Call:
			common := x.Common()
			if common.IsInvoke() {
				rec(common.Value)
			} else if mc, ok := common.Value.(*ssa.MakeClosure); ok {
				for _, bd := range mc.Bindings {
					rec(bd)
				}
			}
			for _, arg := range common.Args {
				rec(arg)
			}
		case *ssa.MakeClosure:
			for _, bd := range x.Bindings {
				rec(bd)
			}
		case *ssa.Extract:
			rec(x.Tuple)
		case *ssa.Next:
			rec(x.Iter)
		case *ssa.Range:
			rec(x.X)
		case ssa.Instruction:
			for _, op := range x.Operands(nil) {
				if op != nil && *op != nil {
					rec(*op)
				}
			}
		}
	}
	rec(v)
	b.depMemo[v] = out
	return out
}

// accumulates: the store writes back a commutative integer combination of the
// place's own previous value, or appends to it.
func r4bAccumulates(st *ssa.Store) bool {
	switch v := st.Val.(type) {
	case *ssa.BinOp:
		switch v.Op {
		case token.ADD, token.SUB, token.MUL, token.OR, token.AND, token.XOR:
		default:
			return false
		}
		if bt, ok := v.Type().Underlying().(*types.Basic); !ok || bt.Info()&types.IsInteger == 0 {
			return false
		}
		for _, op := range []ssa.Value{v.X, v.Y} {
			if ld, ok := op.(*ssa.UnOp); ok && ld.Op == token.MUL && dmSameAddr(ld.X, st.Addr) {
				return true
			}
		}
	case *ssa.Call:
		if bi, ok := v.Common().Value.(*ssa.Builtin); ok && bi.Name() == "append" && len(v.Common().Args) > 0 {
			if ld, ok := v.Common().Args[0].(*ssa.UnOp); ok && ld.Op == token.MUL && dmSameAddr(ld.X, st.Addr) {
				return true
			}
		}
	}
	return false
}

func r4bComputeStores(c *Ctx, a *dmAnalysis) *r4bStores {
	out := &r4bStores{sums: map[*ssa.Function]map[string]*r4bStore{}, must: map[*ssa.Function]map[string]bool{}}
	b := &r4bStoreBuilder{a: a, out: out, depMemo: map[ssa.Value]map[int]bool{}, index: map[ssa.Instruction]int{}, rets: map[*ssa.Function][]*ssa.BasicBlock{}}
	type site struct {
		g  *ssa.Function
		ci ssa.CallInstruction
	}
	sites := map[*ssa.Function][]site{}
	type rec struct {
		st  *ssa.Store
		key string
		one bool
		os  [][2]string
	}
	addStore := func(fn *ssa.Function, s *r4bStore) bool {
		m := out.sums[fn]
		if m == nil {
			m = map[string]*r4bStore{}
			out.sums[fn] = m
		}
		key := s.Root + "|" + s.Path
		old := m[key]
		if old == nil {
			if len(m) > 96 {
				return false
			}
			m[key] = s
			return true
		}
		changed := false
		for k := range s.Deps {
			if !old.Deps[k] {
				old.Deps[k] = true
				changed = true
			}
		}
		return changed
	}
	addMust := func(fn *ssa.Function, key string) bool {
		m := out.must[fn]
		if m == nil {
			m = map[string]bool{}
			out.must[fn] = m
		}
		if m[key] {
			return false
		}
		m[key] = true
		return true
	}
	direct := map[*ssa.Function][]r4bStoreRec2{}
	// replacedAfter: a direct store of g to the same place follows the call on every path to the return
	replacedAfter := func(g *ssa.Function, ci ssa.CallInstruction, key string) bool {
		for _, q := range direct[g] {
			if q.key != key {
				continue
			}
			cb, qb := ci.Block(), q.st.Block()
			if cb == qb {
				if b.idx(q.st) > b.idx(ci) {
					return true
				}
			} else if cb.Dominates(qb) && b.onEveryPath(g, qb) {
				return true
			}
		}
		return false
	}
	var queue []*ssa.Function
	queued := map[*ssa.Function]bool{}
	push := func(fn *ssa.Function) {
		if !queued[fn] {
			queued[fn] = true
			queue = append(queue, fn)
		}
	}
	for _, fn := range a.funcs {
		var recs []rec
		for _, blk := range fn.Blocks {
			for _, in := range blk.Instrs {
				switch x := in.(type) {
				case *ssa.Store:
					switch x.Addr.(type) {
					case *ssa.FieldAddr, *ssa.Global:
					default:
						continue
					}
					os := r4bAddrOrigins(a, fn, x.Addr)
					var keep [][2]string
					for _, o := range os {
						if r4bScalarPath(o[1]) {
							keep = append(keep, o)
						}
					}
					if len(keep) == 0 {
						continue
					}
					r := rec{st: x, os: keep, one: len(os) == 1}
					if r.one {
						r.key = keep[0][0] + "|" + keep[0][1]
					}
					recs = append(recs, r)
				case ssa.CallInstruction:
					for _, callee := range a.callees(x) {
						sites[callee] = append(sites[callee], site{fn, x})
					}
				}
			}
		}
		for _, r := range recs {
			if r.one {
				direct[fn] = append(direct[fn], r4bStoreRec2{r.st, r.key})
			}
		}
		for _, r := range recs {
			if r.one && b.onEveryPath(fn, r.st.Block()) {
				if addMust(fn, r.key) {
					push(fn)
				}
			}
			if _, isConst := r.st.Val.(*ssa.Const); isConst {
				continue
			}
			if r4bAccumulates(r.st) {
				continue
			}
			// a later store to the same place on every path to the return replaces this one
			if r.one {
				replaced := false
				for _, q := range recs {
					if q.st == r.st || !q.one || q.key != r.key {
						continue
					}
					sb, qb := r.st.Block(), q.st.Block()
					if sb == qb {
						if b.idx(q.st) > b.idx(r.st) {
							replaced = true
						}
					} else if sb.Dominates(qb) && b.onEveryPath(fn, qb) {
						replaced = true
					}
				}
				if replaced {
					continue
				}
			}
			d := b.deps(fn, r.st.Val)
			if len(d) == 0 {
				continue
			}
			for _, o := range r.os {
				dd := map[int]bool{}
				for k := range d {
					dd[k] = true
				}
				if addStore(fn, &r4bStore{Root: o[0], Path: o[1], Deps: dd, Pos: r.st.Pos(), Via: moCalleeName(fn)}) {
					push(fn)
				}
			}
		}
	}
	for steps := 0; len(queue) > 0 && steps < 200000; steps++ {
		fn := queue[0]
		queue = queue[1:]
		queued[fn] = false
		sum := out.sums[fn]
		var keys []string
		for k := range sum {
			keys = append(keys, k)
		}
		sort.Strings(keys)
		var mkeys []string
		for k := range out.must[fn] {
			mkeys = append(mkeys, k)
		}
		sort.Strings(mkeys)
		for _, s := range sites[fn] {
			g := s.g
			if a.sums[g] == nil {
				continue
			}
			common := s.ci.Common()
			changed := false
			for _, k := range keys {
				st := sum[k]
				deps := map[int]bool{}
				var ds []int
				for d := range st.Deps {
					ds = append(ds, d)
				}
				sort.Ints(ds)
				for _, d := range ds {
					if arg := dmArgFor(common, fn, d); arg != nil {
						for p := range b.deps(g, arg) {
							deps[p] = true
						}
					}
				}
				if len(deps) == 0 {
					continue
				}
				var targets [][2]string
				if strings.HasPrefix(st.Root, "global:") {
					targets = [][2]string{{st.Root, st.Path}}
				} else {
					for _, o := range a.translateOrigin(g, common, fn, dmOrigin{Root: st.Root, Path: st.Path}, 0).sorted() {
						if (strings.HasPrefix(o.Root, "param:") || strings.HasPrefix(o.Root, "global:")) && r4bScalarPath(o.Path) {
							targets = append(targets, [2]string{o.Root, o.Path})
						}
					}
				}
				for _, t := range targets {
					if replacedAfter(g, s.ci, t[0]+"|"+t[1]) {
						continue
					}
					dd := map[int]bool{}
					for p := range deps {
						dd[p] = true
					}
					if addStore(g, &r4bStore{Root: t[0], Path: t[1], Deps: dd, Pos: st.Pos, Via: st.Via}) {
						changed = true
					}
				}
			}
			// definite overwrites: a single callee, called on every path to the return
			if cs := a.callees(s.ci); len(cs) == 1 && b.onEveryPath(g, s.ci.Block()) {
				if _, isGo := s.ci.(*ssa.Go); !isGo {
					if _, isDefer := s.ci.(*ssa.Defer); !isDefer {
						for _, k := range mkeys {
							i := strings.Index(k, "|")
							root, path := k[:i], k[i+1:]
							if strings.HasPrefix(root, "global:") {
								if addMust(g, k) {
									changed = true
								}
								continue
							}
							set := a.translateOrigin(g, common, fn, dmOrigin{Root: root, Path: path}, 0).sorted()
							if len(set) == 1 && (strings.HasPrefix(set[0].Root, "param:") || strings.HasPrefix(set[0].Root, "global:")) && r4bScalarPath(set[0].Path) {
								if addMust(g, set[0].Root+"|"+set[0].Path) {
									changed = true
								}
							}
						}
					}
				}
			}
			if changed {
				push(g)
			}
		}
	}
	return out
}
