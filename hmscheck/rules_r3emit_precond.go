package main

// R-run-preconditions (r3emit): every precondition on a routine that the VM's
// run loop asserts by panic is paired with a guarantee of the compiler.

import (
	"fmt"
	"go/ast"
	"go/token"
	"go/types"
	"sort"
	"strings"
)

func init() {
	register(&Rule{ID: "R-run-preconditions", Floor: 6, Run: ruleR3RunPreconditions,
		Doc: "the VM's run loop (Core.Run and every function of the runtime package it reaches outside the opcode dispatcher: frame lookup, source-map lookup for interrupts and stack traces, cancellation poll) contains explicit panics that assert preconditions on the routine of the current call frame: the routine exists in the routine table (comma-ok lookup), the routine / its source map is non-empty. A panic in the core goroutine kills the host, so each such precondition must be a guarantee of the compiler for EVERY routine it registers and can make current (Call_Imm / Spawn / function values / the host's entry mappings): (non-empty) every registration of a routine (the method storing into Compiler.modules[..][..]) is followed on every path — while that routine is the current one — by the insertion of at least one instruction that survives label relocation, or the routine is compiled by the function compiler (whose prologue is unconditional), or it is pre-registered from a function list that an unfiltered compile loop covers; insert() appends to the instruction list and the source map in lockstep; (exists) Compile exports every registered routine under its mangled name by an unfiltered loop, and the operand of every call-like instruction is the mangled name of a registered routine. Necessary for C02/C15/C10: e.g. the @init routine of an imported module without globals, singletons or builtin imports is registered and called from the entry @init but receives no instruction"})
}

type r3emAnchors struct {
	addFn, compileFn *types.Func
	unit             map[*types.Func]bool // the function compiler and its helpers that receive the definition
	fnDefT           types.Type
	table            *types.Var
}

// r3emPickFnCompiler: the emitter method that compiles a function definition;
// when several emitter methods take the definition (the compiler was split
// into phases) the one from which all others are reached.
func r3emPickFnCompiler(roles *vmCompilerRoles, fnDefT types.Type) (*types.Func, map[*types.Func]bool) {
	var cands []*types.Func
	for obj := range roles.emitters {
		sig := obj.Type().(*types.Signature)
		if sig.Recv() == nil {
			continue
		}
		for i := 0; i < sig.Params().Len(); i++ {
			if types.Identical(sig.Params().At(i).Type(), fnDefT) {
				cands = append(cands, obj)
				break
			}
		}
	}
	sort.Slice(cands, func(i, j int) bool { return cands[i].Name() < cands[j].Name() })
	unit := map[*types.Func]bool{}
	for _, c := range cands {
		unit[c] = true
	}
	// phases that receive the definition without emitting themselves (registration, scope set-up)
	widen := func(root *types.Func) {
		for f := range roles.reachableFrom(root) {
			sig := f.Type().(*types.Signature)
			for i := 0; i < sig.Params().Len(); i++ {
				if types.Identical(sig.Params().At(i).Type(), fnDefT) {
					unit[f] = true
				}
			}
		}
	}
	if len(cands) == 1 {
		widen(cands[0])
		return cands[0], unit
	}
	var roots []*types.Func
	for _, c := range cands {
		reach := roles.reachableFrom(c)
		all := true
		for _, d := range cands {
			if d != c && !reach[d] {
				all = false
			}
		}
		if all {
			roots = append(roots, c)
		}
	}
	// mutual recursion (every phase reaches the root again through nested function literals):
	// the root is the one the others do not call directly … prefer the candidate called from outside the unit
	if len(roots) > 1 {
		var ext []*types.Func
		for _, c := range roots {
			for f, cs := range roles.callees {
				if !unit[f] && cs[c] {
					ext = append(ext, c)
					break
				}
			}
		}
		if len(ext) == 1 {
			roots = ext
		}
	}
	if len(roots) != 1 {
		var ns []string
		for _, c := range cands {
			ns = append(ns, c.Name())
		}
		fatalf("anchor unresolved: the function compiler among the emitter methods taking an AnalyzedFunctionDefinition %v", ns)
	}
	widen(roots[0])
	return roots[0], unit
}

func r3emLinkAnchors(c *Ctx) *r3emAnchors {
	roles := vmCompRoles(c)
	comp := c.Pkg("homescript/compiler")
	a := &r3emAnchors{}
	fnDefObj := roles.astPkg.Scope().Lookup("AnalyzedFunctionDefinition")
	if fnDefObj == nil {
		fatalf("anchor unresolved: analyzer/ast.AnalyzedFunctionDefinition")
	}
	a.fnDefT = fnDefObj.Type()
	a.compileFn, a.unit = r3emPickFnCompiler(roles, a.fnDefT)
	if tn, _ := comp.Types.Scope().Lookup("Compiler").(*types.TypeName); tn != nil {
		if st, ok := tn.Type().Underlying().(*types.Struct); ok {
			for i := 0; i < st.NumFields(); i++ {
				if m1, ok := st.Field(i).Type().Underlying().(*types.Map); ok {
					if m2, ok := m1.Elem().Underlying().(*types.Map); ok {
						if n := vmNamed(m2.Elem()); n != nil && n.Obj().Name() == "Function" {
							a.table = st.Field(i)
						}
					}
				}
			}
		}
	}
	if a.table == nil {
		fatalf("anchor unresolved: the function compiler / Compiler.modules")
	}
	for _, fn := range roles.fns {
		obj, _ := fn.info.Defs[fn.fd.Name].(*types.Func)
		if obj == nil {
			continue
		}
		ast.Inspect(fn.fd.Body, func(n ast.Node) bool {
			as, ok := n.(*ast.AssignStmt)
			if !ok {
				return true
			}
			for _, l := range as.Lhs {
				if ix, ok := ast.Unparen(l).(*ast.IndexExpr); ok {
					if ix2, ok := ast.Unparen(ix.X).(*ast.IndexExpr); ok && vmFieldOf(fn.info, ix2.X) == a.table {
						if a.addFn != nil && a.addFn != obj {
							fatalf("anchor ambiguous: two functions store into Compiler.%s[..][..]", a.table.Name())
						}
						a.addFn = obj
					}
				}
			}
			return true
		})
	}
	if a.addFn == nil {
		fatalf("anchor unresolved: no function stores into Compiler.%s[..][..]", a.table.Name())
	}
	return a
}

// r3emTableOf: the routine table a map expression denotes, by its element
// type: map[string][]compiler.Instruction → "Functions", map[string][]errors.Span → "SourceMap".
func r3emTableOf(t types.Type) string {
	if t == nil {
		return ""
	}
	if p, ok := t.Underlying().(*types.Pointer); ok {
		t = p.Elem()
	}
	m, ok := t.Underlying().(*types.Map)
	if !ok {
		return ""
	}
	if b, ok := m.Key().Underlying().(*types.Basic); !ok || b.Kind() != types.String {
		return ""
	}
	sl, ok := m.Elem().Underlying().(*types.Slice)
	if !ok {
		return ""
	}
	n := vmNamed(sl.Elem())
	if n == nil || n.Obj().Pkg() == nil {
		return ""
	}
	switch {
	case n.Obj().Name() == "Instruction" && strings.HasSuffix(n.Obj().Pkg().Path(), "homescript/compiler"):
		return "Functions"
	case n.Obj().Name() == "Span" && strings.HasSuffix(n.Obj().Pkg().Path(), "homescript/errors"):
		return "SourceMap"
	}
	return ""
}

type r3emPrecond struct {
	fn    *vmFn
	kind  string // "exists" | "non-empty"
	table string
	sites []string
	pos   token.Pos
	conds []string
}

// r3emVMPreconditions enumerates the panics of the run loop and classifies
// the routine preconditions they assert.
func r3emVMPreconditions(c *Ctx) (pre []*r3emPrecond, other []string, reach []string) {
	r := vmRoles(c)
	byObj := map[*types.Func]*vmFn{}
	for _, fn := range r.fns {
		if obj, _ := fn.info.Defs[fn.fd.Name].(*types.Func); obj != nil {
			byObj[obj] = fn
		}
	}
	dispObj, _ := r.dispatch.info.Defs[r.dispatch.fd.Name].(*types.Func)
	runObj, _ := r.run.info.Defs[r.run.fd.Name].(*types.Func)
	seen := map[*types.Func]bool{runObj: true}
	queue := []*types.Func{runObj}
	for len(queue) > 0 {
		g := queue[0]
		queue = queue[1:]
		fn := byObj[g]
		if fn == nil {
			continue
		}
		ast.Inspect(fn.fd.Body, func(n ast.Node) bool {
			if call, ok := n.(*ast.CallExpr); ok {
				if h := CalleeOf(fn.info, call); h != nil && byObj[h] != nil && h != dispObj && !seen[h] {
					seen[h] = true
					queue = append(queue, h)
				}
			}
			return true
		})
	}
	var fobjs []*types.Func
	for g := range seen {
		fobjs = append(fobjs, g)
	}
	sort.Slice(fobjs, func(i, j int) bool { return byObj[fobjs[i]].name < byObj[fobjs[j]].name })
	merged := map[string]*r3emPrecond{}
	for _, g := range fobjs {
		fn := byObj[g]
		info := fn.info
		reach = append(reach, fn.name)
		hasPanic := false
		ast.Inspect(fn.fd.Body, func(n ast.Node) bool {
			if es, ok := n.(*ast.ExprStmt); ok {
				if IsPanicCall(info, es) {
					hasPanic = true
				} else if call, ok := es.X.(*ast.CallExpr); ok {
					if h := CalleeOf(info, call); h != nil && vmAlwaysPanics(c, h) {
						hasPanic = true
					}
				}
			}
			return !hasPanic
		})
		if !hasPanic {
			continue
		}
		relevant := func(n ast.Node) bool {
			call, ok := n.(*ast.CallExpr)
			if !ok {
				return false
			}
			if id, ok := call.Fun.(*ast.Ident); ok {
				if b, isB := info.Uses[id].(*types.Builtin); isB && b.Name() == "panic" {
					return true
				}
			}
			h := CalleeOf(info, call)
			return h != nil && vmAlwaysPanics(c, h)
		}
		res := vmWalk(vmWalkOpts{fn: fn, correlate: true, replace: vmSlicer(relevant), maxPaths: 20000})
		if res.overflow {
			other = append(other, fn.name+": path cap exceeded, panics not classified")
			continue
		}
		for i := range res.paths {
			p := &res.paths[i]
			if p.o.kind != cPanic {
				continue
			}
			// provenance of lookups on the path
			valT := map[types.Object]string{} // v := table[k]
			okT := map[types.Object]string{}  // _, ok := table[k]
			lenT := map[types.Object]string{} // n := len(table[k])
			classified := false
			for _, e := range p.ev {
				switch e.K {
				case evAssign:
					if e.Rhs == nil {
						continue
					}
					rhs := vmStripConv(info, e.Rhs)
					lo := vmObjOf(info, e.Lhs)
					if lo == nil {
						continue
					}
					if ix, ok := rhs.(*ast.IndexExpr); ok {
						if t := r3emTableOf(info.TypeOf(ix.X)); t != "" {
							if as, ok := e.Stmt.(*ast.AssignStmt); ok && len(as.Lhs) == 2 && len(as.Rhs) == 1 && vmObjOf(info, as.Lhs[1]) == lo {
								okT[lo] = t
							} else {
								valT[lo] = t
							}
						}
					}
					if a := r2IsLenOf(info, rhs); a != nil {
						if ix, ok := ast.Unparen(a).(*ast.IndexExpr); ok {
							if t := r3emTableOf(info.TypeOf(ix.X)); t != "" {
								lenT[lo] = t
							}
						}
						if o := vmObjOf(info, a); o != nil && valT[o] != "" {
							lenT[lo] = valT[o]
						}
					}
				case evCond:
					kind, table := "", ""
					x := ast.Unparen(e.X)
					if o := vmObjOf(info, x); o != nil && okT[o] != "" && !e.Taken {
						kind, table = "exists", okT[o]
					}
					if be, ok := x.(*ast.BinaryExpr); ok {
						lenOf := func(z ast.Expr) string {
							z = vmStripConv(info, z)
							if o := vmObjOf(info, z); o != nil && lenT[o] != "" {
								return lenT[o]
							}
							if a := r2IsLenOf(info, z); a != nil {
								if o := vmObjOf(info, a); o != nil && valT[o] != "" {
									return valT[o]
								}
								if ix, ok := ast.Unparen(a).(*ast.IndexExpr); ok {
									return r3emTableOf(info.TypeOf(ix.X))
								}
							}
							return ""
						}
						if t := lenOf(be.X); t != "" {
							if k, isC := r2ConstInt(info, be.Y); isC {
								empty := false
								switch {
								case be.Op == token.EQL && k == 0, be.Op == token.LSS && k == 1, be.Op == token.LEQ && k == 0:
									empty = e.Taken
								case be.Op == token.NEQ && k == 0, be.Op == token.GTR && k == 0, be.Op == token.GEQ && k == 1:
									empty = !e.Taken
								}
								if empty {
									kind, table = "non-empty", t
								}
							}
						}
					}
					if kind == "" {
						continue
					}
					classified = true
					key := fn.name + "|" + kind + "|" + table
					pc := merged[key]
					if pc == nil {
						pc = &r3emPrecond{fn: fn, kind: kind, table: table, pos: p.o.at}
						merged[key] = pc
						pre = append(pre, pc)
					}
					pc.sites = append(pc.sites, c.Pos(p.o.at))
					pc.conds = append(pc.conds, fmt.Sprintf("%s:%v", exprStr(e.X), e.Taken))
				}
			}
			if !classified {
				other = append(other, fmt.Sprintf("%s: panic @%s under [%s]", fn.name, c.Pos(p.o.at), vmTrunc(p.decisions(), 120)))
			}
		}
	}
	for _, pc := range pre {
		pc.sites = vmUniq(pc.sites)
		pc.conds = vmUniq(pc.conds)
	}
	return pre, vmUniq(other), reach
}

func ruleR3RunPreconditions(c *Ctx) []Obligation {
	r2LoopCtx = c
	roles := vmCompRoles(c)
	a := r3emLinkAnchors(c)
	comp := c.Pkg("homescript/compiler")
	var obs []Obligation

	pre, other, reach := r3emVMPreconditions(c)
	needNonEmpty := false
	for _, pc := range pre {
		if pc.kind == "non-empty" {
			needNonEmpty = true
		}
	}

	// ---------------- compiler side: insert keeps instruction list and source map in lockstep
	lockstep := false
	{
		ins := roles.byObj[roles.insert]
		// the function that really appends: the insert role itself, or the function it forwards to
		// (`insert` → `appendTo(fn, instr, span)`); unconditional appends only (statements of the body
		// itself), tuple assignments element-wise
		appendsOf := func(fn *vmFn) []string {
			var fields []string
			for _, st := range fn.fd.Body.List {
				as, ok := st.(*ast.AssignStmt)
				if !ok || len(as.Lhs) != len(as.Rhs) {
					continue
				}
				for k := range as.Lhs {
					if f := vmFieldOf(fn.info, as.Lhs[k]); f != nil {
						if d, ok := vmSliceWrite(fn.info, as.Lhs[k], as.Rhs[k], f); ok && d == 1 {
							fields = append(fields, f.Name())
						}
					}
				}
			}
			return fields
		}
		appender := ins
		fields := appendsOf(appender)
		for depth := 0; len(fields) == 0 && depth < 3; depth++ {
			var next *vmFn
			for _, st := range appender.fd.Body.List {
				ast.Inspect(st, func(n ast.Node) bool {
					if call, ok := n.(*ast.CallExpr); ok && next == nil {
						if g := roles.byObj[CalleeOf(appender.info, call)]; g != nil && g != appender && vmWritesField(g.info, g.fd.Body, roles.instrField) {
							next = g
						}
					}
					return next == nil
				})
			}
			if next == nil {
				break
			}
			appender = next
			fields = appendsOf(appender)
		}
		sort.Strings(fields)
		ob := Obligation{Key: "compiler." + FuncName(ins.fd) + "|appends one instruction and one source-map entry in lockstep", Pos: c.Pos(ins.fd.Pos()), Nontrivial: true}
		nSlices := 0
		if obj := comp.Types.Scope().Lookup("Function"); obj != nil {
			if st, ok := obj.Type().Underlying().(*types.Struct); ok {
				for i := 0; i < st.NumFields(); i++ {
					if _, ok := st.Field(i).Type().Underlying().(*types.Slice); ok {
						nSlices++
					}
				}
			}
		}
		if len(fields) == nSlices && nSlices >= 2 {
			lockstep = true
			ob.Status, ob.Detail = Discharged, fmt.Sprintf("appends to %v (all %d slice fields of compiler.Function): a routine has an instruction iff it has a source-map entry", fields, nSlices)
		} else {
			ob.Status, ob.Detail = Violated, fmt.Sprintf("appends to %v but compiler.Function has %d slice fields: instruction list and source map can differ in length, so the VM's source-map lookups (interrupt spans, stack traces) can fail for a routine that has instructions", fields, nSlices)
		}
		obs = append(obs, ob)
	}

	// ---------------- compiler side: every registered routine receives an instruction
	labelOp := vmConst(c, "homescript/compiler", "Opcode_Label")
	currFnField := (*types.Var)(nil)
	if tn, _ := comp.Types.Scope().Lookup("Compiler").(*types.TypeName); tn != nil {
		if st, ok := tn.Type().Underlying().(*types.Struct); ok {
			// the "current function" key: the string field used as the inner index of the table in a method without parameters returning *Function
			for _, fn := range roles.fns {
				sig, _ := fn.info.Defs[fn.fd.Name].(*types.Func)
				if sig == nil || len(fn.fd.Body.List) != 1 {
					continue
				}
				ret, ok := fn.fd.Body.List[0].(*ast.ReturnStmt)
				if !ok || len(ret.Results) != 1 {
					continue
				}
				if ix, ok := ast.Unparen(ret.Results[0]).(*ast.IndexExpr); ok {
					if ix2, ok := ast.Unparen(ix.X).(*ast.IndexExpr); ok && vmFieldOf(fn.info, ix2.X) == a.table {
						if f := vmFieldOf(fn.info, ix.Index); f != nil {
							currFnField = f
						}
					}
				}
			}
			_ = st
		}
	}
	if currFnField == nil {
		fatalf("anchor unresolved: the Compiler field naming the current function (inner index of Compiler.%s in the accessor of the current Function)", a.table.Name())
	}
	// functions that (transitively) assign the current-function field
	assigns := map[*types.Func]bool{}
	for _, fn := range roles.fns {
		obj, _ := fn.info.Defs[fn.fd.Name].(*types.Func)
		if obj == nil {
			continue
		}
		ast.Inspect(fn.fd.Body, func(n ast.Node) bool {
			if as, ok := n.(*ast.AssignStmt); ok {
				for _, l := range as.Lhs {
					if vmFieldOf(fn.info, l) == currFnField {
						assigns[obj] = true
					}
				}
			}
			return true
		})
	}
	assignsT := func(g *types.Func) bool {
		if assigns[g] {
			return true
		}
		for h := range roles.reachableFrom(g) {
			if assigns[h] {
				return true
			}
		}
		return false
	}
	isFnList := func(t types.Type) bool {
		if t == nil {
			return false
		}
		sl, ok := t.Underlying().(*types.Slice)
		return ok && types.Identical(sl.Elem(), a.fnDefT)
	}
	// compile loops: loops over a function list whose every iteration path calls compileFn with the element
	compiledFields := map[*types.Var]string{}
	for _, fn := range roles.fns {
		ast.Inspect(fn.fd.Body, func(n ast.Node) bool {
			s, ok := n.(ast.Stmt)
			if !ok {
				return true
			}
			switch s.(type) {
			case *ast.ForStmt, *ast.RangeStmt:
			default:
				return true
			}
			l := r2LoopOf(fn.info, s)
			if l == nil || l.coll == nil || !isFnList(fn.info.TypeOf(l.coll)) || !l.full || l.start != nil {
				return true
			}
			f := vmFieldOf(fn.info, l.coll)
			if f == nil {
				return true
			}
			res := vmWalk(vmWalkOpts{fn: fn, body: l.body, maxPaths: 5000})
			if res.overflow {
				return true
			}
			all := len(res.paths) > 0
			for i := range res.paths {
				p := &res.paths[i]
				if p.o.kind == cPanic {
					continue
				}
				has := false
				for _, e := range p.ev {
					if e.K == evCall && e.Fn == a.compileFn && !e.Deferred {
						has = true
					}
				}
				if !has || p.o.kind == cBreak || p.o.kind == cReturn {
					all = false
				}
			}
			if all {
				compiledFields[f] = c.Pos(s.Pos())
			}
			return true
		})
	}

	// coveredElem: e denotes (or derives from) the element of an enclosing loop over a function
	// list whose field a compile loop covers completely
	coveredElem := func(fn *vmFn, par map[ast.Node]ast.Node, at ast.Node, e ast.Expr) (*types.Var, string) {
		info := fn.info
		for cur := par[at]; cur != nil; cur = par[cur] {
			st, ok := cur.(ast.Stmt)
			if !ok {
				continue
			}
			l := r2LoopOf(info, st)
			if l == nil || l.coll == nil || !isFnList(info.TypeOf(l.coll)) {
				continue
			}
			elem := map[types.Object]bool{}
			if l.val != nil {
				elem[l.val] = true
			}
			if l.idx != nil {
				elem[l.idx] = true
			}
			for round := 0; round < 2; round++ {
				ast.Inspect(l.body, func(n ast.Node) bool {
					if as, ok := n.(*ast.AssignStmt); ok && len(as.Lhs) == len(as.Rhs) {
						for i, rh := range as.Rhs {
							for o := range elem {
								if vmMentionsObj(info, rh, o) {
									if lo := vmObjOf(info, as.Lhs[i]); lo != nil {
										elem[lo] = true
									}
								}
							}
						}
					}
					return true
				})
			}
			for o := range elem {
				if vmMentionsObj(info, e, o) {
					if f := vmFieldOf(info, l.coll); f != nil && compiledFields[f] != "" {
						return f, compiledFields[f]
					}
				}
			}
		}
		return nil, ""
	}
	// mustInsert: every non-panicking path of g inserts an instruction that survives relocation
	mustMemo := map[*types.Func]int{}
	var mustInsert func(g *types.Func) bool
	mustInsert = func(g *types.Func) bool {
		if v, ok := mustMemo[g]; ok {
			return v == 1
		}
		mustMemo[g] = 0
		gfn := roles.byObj[g]
		if gfn == nil {
			return false
		}
		rel := func(n ast.Node) bool {
			call, ok := n.(*ast.CallExpr)
			if !ok {
				return false
			}
			h := CalleeOf(gfn.info, call)
			if h == nil {
				if id, ok := call.Fun.(*ast.Ident); ok {
					if b, isB := gfn.info.Uses[id].(*types.Builtin); isB && b.Name() == "panic" {
						return true
					}
				}
				return false
			}
			return roles.emitters[h] || vmAlwaysPanics(c, h)
		}
		res := vmWalk(vmWalkOpts{fn: gfn, correlate: true, replace: vmSlicer(rel)})
		if res.overflow {
			return false
		}
		for i := range res.paths {
			p := &res.paths[i]
			if p.o.kind == cPanic {
				continue
			}
			has := false
			for j, e := range p.ev {
				if e.K != evCall || e.Fn == nil || e.Deferred {
					continue
				}
				if em, isEm := r2EmitIdx(c).of(gfn, e.Call); isEm {
					op := em.op
					if op == nil && r2EmitIdx(c).isForward(e.Fn) {
						op, _, _, _, _ = roles.instrOf(gfn, p.ev, j, e.Call.Args[r2EmitIdx(c).forward[e.Fn]])
					}
					if op != labelOp {
						has = true
					}
				} else if roles.byObj[e.Fn] != nil && e.Fn != g && mustInsert(e.Fn) {
					has = true
				}
			}
			if !has {
				return false
			}
		}
		mustMemo[g] = 1
		return true
	}

	type regSite struct {
		fn         *vmFn
		call       *ast.CallExpr
		guaranteed bool
		how        string
	}
	var regs []*regSite
	for _, fn := range roles.fns {
		obj, _ := fn.info.Defs[fn.fd.Name].(*types.Func)
		if obj == nil || obj == a.addFn {
			continue
		}
		info := fn.info
		var calls []*ast.CallExpr
		ast.Inspect(fn.fd.Body, func(n ast.Node) bool {
			if call, ok := n.(*ast.CallExpr); ok && CalleeOf(info, call) == a.addFn && len(call.Args) >= 1 {
				calls = append(calls, call)
			}
			return true
		})
		if len(calls) == 0 {
			continue
		}
		par := r2Parents(fn.fd.Body)
		relevant := func(n ast.Node) bool {
			switch x := n.(type) {
			case *ast.CallExpr:
				g := CalleeOf(info, x)
				if g == nil {
					if id, ok := x.Fun.(*ast.Ident); ok {
						if b, isB := info.Uses[id].(*types.Builtin); isB && b.Name() == "panic" {
							return true
						}
					}
					return false
				}
				return g == a.addFn || r2EmitIdx(c).isForward(g) || r2EmitIdx(c).singleOf(g) != nil || g == a.compileFn || (roles.byObj[g] != nil && assignsT(g)) || vmAlwaysPanics(c, g)
			case *ast.AssignStmt:
				for _, l := range x.Lhs {
					if vmFieldOf(info, l) == currFnField {
						return true
					}
				}
				for _, rh := range x.Rhs {
					if vmFieldOf(info, rh) == currFnField {
						return true
					}
				}
			}
			return false
		}
		var res *vmWalkResult
		for _, call := range calls {
			rs := &regSite{fn: fn, call: call}
			regs = append(regs, rs)
			keyE := call.Args[0]
			// (ii) pre-registration from a function list covered by an unfiltered compile loop
			if f, at := coveredElem(fn, par, call, keyE); f != nil {
				rs.guaranteed = true
				rs.how = fmt.Sprintf("pre-registration of the elements of %s; the loop @%s compiles every element with %s, whose prologue is unconditional", vmFieldName(f), at, a.compileFn.Name())
			}
			// (iv) inside the function compiler (or a phase of it that receives the definition): the unit inserts on every path
			// (v) a registering wrapper that receives the definition: every call site passes an element of a covered list
			if !rs.guaranteed {
				var defParams []types.Object
				for _, fl := range fn.fd.Type.Params.List {
					if types.Identical(info.TypeOf(fl.Type), a.fnDefT) {
						for _, nm := range fl.Names {
							defParams = append(defParams, info.Defs[nm])
						}
					}
				}
				keyOfParam := -1
				for i, po := range defParams {
					if vmMentionsObj(info, keyE, po) {
						keyOfParam = i
					}
				}
				switch {
				case keyOfParam < 0:
				case a.unit[obj] && obj != a.compileFn:
					if mustInsert(a.compileFn) {
						rs.guaranteed = true
						rs.how = fmt.Sprintf("registration of the definition inside a phase of the function compiler; every path of %s inserts an instruction", a.compileFn.Name())
					}
				case !a.unit[obj]:
					nSites, okSites := 0, 0
					var at string
					for _, g := range roles.fns {
						gp := r2Parents(g.fd.Body)
						ast.Inspect(g.fd.Body, func(n ast.Node) bool {
							c2, ok := n.(*ast.CallExpr)
							if !ok || CalleeOf(g.info, c2) != obj {
								return true
							}
							nSites++
							// the argument bound to the definition parameter
							idx := 0
							for _, fl := range fn.fd.Type.Params.List {
								for _, nm := range fl.Names {
									if info.Defs[nm] == defParams[keyOfParam] && idx < len(c2.Args) {
										if f, a2 := coveredElem(g, gp, c2, c2.Args[idx]); f != nil {
											okSites++
											at = a2
										}
									}
									idx++
								}
							}
							return true
						})
					}
					if nSites > 0 && nSites == okSites {
						rs.guaranteed = true
						rs.how = fmt.Sprintf("registering wrapper: all %d call site(s) pass an element of a function list that the loop @%s compiles completely", nSites, at)
					}
				}
			}
			if rs.guaranteed {
				continue
			}
			// (i)/(iii): on every path after the call, while the routine is the current one, an instruction is inserted
			if res == nil {
				res = vmWalk(vmWalkOpts{fn: fn, correlate: true, replace: vmSlicer(relevant)})
			}
			if res.overflow {
				rs.how = "path cap exceeded"
				continue
			}
			keyText := exprStr(keyE)
			keyObjs := map[types.Object]bool{}
			ast.Inspect(keyE, func(n ast.Node) bool {
				if id, ok := n.(*ast.Ident); ok {
					if v, ok := info.Uses[id].(*types.Var); ok && !v.IsField() {
						keyObjs[v] = true
					}
				}
				return true
			})
			sameKey := func(e ast.Expr) bool {
				if exprStr(e) == keyText {
					return true
				}
				k1, k2 := ConstOf(info, e), ConstOf(info, keyE)
				return k1 != nil && k1 == k2
			}
			nPaths, okPaths := 0, 0
			var witness string
			for i := range res.paths {
				p := &res.paths[i]
				if p.o.kind == cPanic {
					continue
				}
				at := -1
				for j, e := range p.ev {
					if e.K == evCall && e.Call == call {
						at = j
					}
				}
				if at < 0 {
					continue
				}
				nPaths++
				// is the routine current at the registration? (compileFn: `self.currFn = key` follows)
				cur := false
				saved := map[types.Object]bool{}
				sat := ""
				for j := 0; j < len(p.ev) && sat == ""; j++ {
					e := p.ev[j]
					if e.Deferred {
						continue
					}
					switch e.K {
					case evAssign:
						if e.Rhs == nil {
							continue
						}
						if vmFieldOf(info, e.Lhs) == currFnField {
							if j < at {
								continue
							}
							if sameKey(e.Rhs) {
								cur = true
							} else if o := vmObjOf(info, e.Rhs); o != nil {
								v, known := saved[o]
								cur = known && v
							} else {
								cur = false
							}
						} else if vmFieldOf(info, e.Rhs) == currFnField {
							if o := vmObjOf(info, e.Lhs); o != nil {
								saved[o] = cur && j > at
							}
						}
					case evCall:
						if j <= at || e.Fn == nil {
							continue
						}
						switch {
						case r2EmitIdx(c).isForward(e.Fn) || r2EmitIdx(c).singleOf(e.Fn) != nil:
							if !cur {
								continue
							}
							var op *types.Const
							if em, isEm := r2EmitIdx(c).of(fn, e.Call); isEm {
								op = em.op
							}
							if op == nil && r2EmitIdx(c).isForward(e.Fn) {
								op, _, _, _, _ = roles.instrOf(fn, p.ev, j, e.Call.Args[r2EmitIdx(c).forward[e.Fn]])
							}
							if op != labelOp {
								sat = fmt.Sprintf("insert @%s", c.Pos(e.Pos))
							}
						case e.Fn == a.compileFn:
							// compiles a definition carrying the registered identifier
							mention := false
							for _, arg := range e.Call.Args {
								ast.Inspect(arg, func(n ast.Node) bool {
									if id, ok := n.(*ast.Ident); ok {
										if v, ok := info.Uses[id].(*types.Var); ok && keyObjs[v] {
											mention = true
										}
									}
									return !mention
								})
							}
							if mention {
								sat = fmt.Sprintf("%s(definition named by the same identifier) @%s", a.compileFn.Name(), c.Pos(e.Pos))
							} else {
								cur = false
							}
						case e.Fn == a.addFn:
							// another registration under the same key replaces the record
						case roles.byObj[e.Fn] != nil && assignsT(e.Fn):
							cur = false
						}
					}
				}
				if sat != "" {
					okPaths++
				} else if w := fmt.Sprintf("path [%s] (%s)", vmTrunc(p.decisions(), 400), p.exitStr(c)); len(w) > len(witness) {
					witness = w
				}
			}
			switch {
			case nPaths == 0:
				rs.how = "no explored path reaches the registration"
			case okPaths == nPaths:
				rs.guaranteed = true
				rs.how = fmt.Sprintf("on all %d path(s) an instruction is inserted into the routine (or the function compiler compiles it) after the registration", nPaths)
			default:
				rs.how = fmt.Sprintf("on %d of %d path(s) nothing is inserted into the routine after the registration, e.g. %s", nPaths-okPaths, nPaths, witness)
			}
		}
	}
	sort.SliceStable(regs, func(i, j int) bool { return regs[i].call.Pos() < regs[j].call.Pos() })
	count := map[string]int{}
	var unguaranteed []string
	for _, rs := range regs {
		k := r2UnitKey(c, rs.fn, rs.call.Pos()) + "|" + a.addFn.Name() + "(" + vmTrunc(exprStr(rs.call.Args[0]), 40) + ")"
		count[k]++
		if count[k] > 1 {
			k += fmt.Sprintf(" #%d", count[k])
		}
		ob := Obligation{Key: k + "|the registered routine receives at least one instruction", Pos: c.Pos(rs.call.Pos()), Nontrivial: true}
		switch {
		case rs.guaranteed:
			ob.Status, ob.Detail = Discharged, rs.how
		case needNonEmpty:
			ob.Status = Violated
			ob.Detail = rs.how + ". The run loop asserts non-emptiness of the current routine by panic (see the precondition obligations): a routine registered here that stays empty and is made current (Call_Imm from the entry @init, spawn, function value) kills the core goroutine and with it the host"
			unguaranteed = append(unguaranteed, fmt.Sprintf("%s @%s", vmTrunc(exprStr(rs.call), 50), c.Pos(rs.call.Pos())))
		default:
			ob.Status, ob.Detail = Info, rs.how+" (the run loop asserts no non-emptiness precondition, so an empty routine simply ends)"
			unguaranteed = append(unguaranteed, fmt.Sprintf("%s @%s", vmTrunc(exprStr(rs.call), 50), c.Pos(rs.call.Pos())))
		}
		obs = append(obs, ob)
	}
	if len(regs) == 0 {
		obs = append(obs, Obligation{Key: "compiler|registration sites", Status: Undecided, Detail: "no call of " + a.addFn.Name() + " found"})
	}

	// ---------------- compiler side: export loop and call operands (exists)
	exportOK, exportDetail := r3emExportUnfiltered(c, roles, a)
	{
		ob := Obligation{Key: "compiler|every registered routine is exported under its mangled name", Nontrivial: true}
		if exportOK {
			ob.Status, ob.Detail = Discharged, exportDetail
		} else {
			ob.Status, ob.Detail = Violated, exportDetail
		}
		obs = append(obs, ob)
	}
	opsOK, opsBad, opsN := r3emCallOperands(c, roles, a)
	{
		ob := Obligation{Key: "compiler|the operand of every call-like instruction / function value is the mangled name of a registered routine", Nontrivial: true}
		switch {
		case len(opsBad) > 0:
			ob.Status, ob.Detail = Undecided, strings.Join(opsBad, " | ")
		default:
			ob.Status, ob.Detail = Discharged, fmt.Sprintf("%d operand site(s): %s", opsN, strings.Join(opsOK, "; "))
		}
		obs = append(obs, ob)
	}

	// ---------------- VM side: one obligation per asserted precondition
	sort.SliceStable(pre, func(i, j int) bool {
		if pre[i].fn.name != pre[j].fn.name {
			return pre[i].fn.name < pre[j].fn.name
		}
		return pre[i].kind+pre[i].table < pre[j].kind+pre[j].table
	})
	for _, pc := range pre {
		ob := Obligation{Key: fmt.Sprintf("%s|panics unless the current routine's %s entry %s", pc.fn.name, pc.table, map[string]string{"exists": "exists", "non-empty": "is non-empty"}[pc.kind]), Pos: c.Pos(pc.pos), Nontrivial: true}
		at := fmt.Sprintf("panic @%s when [%s]", strings.Join(pc.sites, ", "), strings.Join(pc.conds, " | "))
		switch pc.kind {
		case "non-empty":
			switch {
			case pc.table == "SourceMap" && !lockstep:
				ob.Status, ob.Detail = Violated, at+": the compiler does not keep the source map in lockstep with the instruction list"
			case len(unguaranteed) > 0:
				ob.Status = Violated
				ob.Detail = fmt.Sprintf("%s: not guaranteed by the compiler — routine(s) registered by %s may stay empty. This function is reached from the run loop (frame lookup / span of an interrupt / stack trace / cancellation poll) with the CURRENT call frame, which can be such a routine (e.g. `import { f } from a;` where module a has no globals, singletons or builtin imports: the entry @init calls the empty @a_@init)", at, strings.Join(unguaranteed, "; "))
			default:
				ob.Status, ob.Detail = Discharged, at+": every registration site guarantees an instruction (see the registration obligations)"
			}
		case "exists":
			if exportOK && len(opsBad) == 0 {
				ob.Status, ob.Detail = Discharged, at+": every registered routine is exported and every call-like operand names a registered routine"
			} else {
				ob.Status, ob.Detail = Undecided, at+": the export / operand obligations are not discharged"
			}
		}
		obs = append(obs, ob)
	}
	if len(pre) == 0 {
		obs = append(obs, Obligation{Key: "runtime|routine preconditions of the run loop", Status: Info, Detail: "the run loop asserts no routine precondition by panic"})
	}
	obs = append(obs, Obligation{Key: "runtime|other panics reachable from the run loop outside the dispatcher", Status: Info, Detail: fmt.Sprintf("functions searched: %v; panics without a routine precondition (not paired by this rule): %v", reach, other)})
	return obs
}

// r3emExportUnfiltered: the function that builds the output routine tables
// copies every entry of Compiler.modules in loops without filtering statements.
func r3emExportUnfiltered(c *Ctx, roles *vmCompilerRoles, a *r3emAnchors) (bool, string) {
	for _, fn := range roles.fns {
		info := fn.info
		var found, bad []string
		ast.Inspect(fn.fd.Body, func(n ast.Node) bool {
			as, ok := n.(*ast.AssignStmt)
			if !ok || len(as.Lhs) != 1 || len(as.Rhs) != 1 {
				return true
			}
			ix, ok := ast.Unparen(as.Lhs[0]).(*ast.IndexExpr)
			if !ok {
				return true
			}
			t := r3emTableOf(info.TypeOf(ix.X))
			if t == "" {
				return true
			}
			// enclosing loops must range over the table / its inner maps, bodies without branching
			par := r2Parents(fn.fd.Body)
			overTable := false
			for cur := par[as]; cur != nil; cur = par[cur] {
				switch x := cur.(type) {
				case *ast.IfStmt, *ast.SwitchStmt, *ast.TypeSwitchStmt:
					bad = append(bad, fmt.Sprintf("%s entry assigned under a condition @%s", t, c.Pos(x.Pos())))
				case *ast.RangeStmt:
					if vmFieldOf(info, x.X) == a.table {
						overTable = true
					}
					for _, s := range x.Body.List {
						if s.Pos() >= as.Pos() {
							break
						}
						if why := r2SkipsRest(info, s); why != "" {
							bad = append(bad, fmt.Sprintf("%s @%s precedes the export of the %s entry", why, c.Pos(s.Pos()), t))
						}
					}
				}
			}
			if overTable {
				found = append(found, t)
			}
			return true
		})
		if len(found) > 0 {
			found = vmUniq(found)
			if len(bad) > 0 {
				return false, fn.name + ": " + strings.Join(vmUniq(bad), "; ")
			}
			return true, fmt.Sprintf("%s copies every entry of Compiler.%s into the output table(s) %v in loops without filtering statements", fn.name, a.table.Name(), found)
		}
	}
	return false, "no function copies Compiler." + a.table.Name() + " into a routine table"
}

// r3emCallOperands: string operands of Call_Imm / Spawn instructions and of VM
// function values originate from the name-resolution of registered routines.
func r3emCallOperands(c *Ctx, roles *vmCompilerRoles, a *r3emAnchors) (okk, bad []string, n int) {
	opc := func(nm string) *types.Const { return vmConst(c, "homescript/compiler", nm) }
	callOps := map[*types.Const]bool{opc("Opcode_Call_Imm"): true, opc("Opcode_Spawn"): true}
	// resolvers: functions returning (string, bool)/(string) whose result is a MangledName read from the table, or that format a mangled name
	mangledF := vmStructField(c.Pkg("homescript/compiler"), "Function", "MangledName")
	resolvers := map[*types.Func]bool{}
	for _, fn := range roles.fns {
		obj, _ := fn.info.Defs[fn.fd.Name].(*types.Func)
		if obj == nil {
			continue
		}
		sig := obj.Type().(*types.Signature)
		if sig.Results().Len() == 0 || !types.Identical(sig.Results().At(0).Type(), types.Typ[types.String]) {
			continue
		}
		all, any := true, false
		ast.Inspect(fn.fd.Body, func(n ast.Node) bool {
			if ret, ok := n.(*ast.ReturnStmt); ok && len(ret.Results) > 0 {
				any = true
				r0 := ast.Unparen(ret.Results[0])
				if mangledF != nil && vmFieldOf(fn.info, r0) == mangledF {
					return true
				}
				if tv := fn.info.Types[r0]; tv.Value != nil {
					return true // "" on the not-found path
				}
				all = false
			}
			return true
		})
		if all && any {
			resolvers[obj] = true
		}
	}
	// origin of a string expression in function fn
	var origin func(fn *vmFn, e ast.Expr, depth int) string
	var mapElemOrigin func(fn *vmFn, mo types.Object, depth int) string
	mapElemOrigin = func(fn *vmFn, mo types.Object, depth int) string {
		if mo == nil || depth > 4 {
			return ""
		}
		info := fn.info
		res := ""
		ast.Inspect(fn.fd.Body, func(m ast.Node) bool {
			if as2, ok := m.(*ast.AssignStmt); ok && len(as2.Lhs) == 1 && len(as2.Rhs) == 1 {
				if ix, ok := ast.Unparen(as2.Lhs[0]).(*ast.IndexExpr); ok && vmObjOf(info, ix.X) == mo {
					if r := origin(fn, as2.Rhs[0], depth+1); r != "" {
						res = "element of `" + mo.Name() + "`, each " + r
					}
				}
			}
			return true
		})
		if res != "" {
			return res
		}
		// the map is handed to a helper that fills it (`self.registerModule(…, initFns, …)`)
		ast.Inspect(fn.fd.Body, func(m ast.Node) bool {
			call, ok := m.(*ast.CallExpr)
			if !ok || res != "" {
				return true
			}
			callee := roles.byObj[CalleeOf(info, call)]
			if callee == nil || callee == fn {
				return true
			}
			for ai, a := range call.Args {
				if vmObjOf(info, a) != mo {
					continue
				}
				params := vmParamObjs(callee)
				if ai < len(params) && params[ai] != nil {
					po := params[ai]
					ast.Inspect(callee.fd.Body, func(q ast.Node) bool {
						if as2, ok := q.(*ast.AssignStmt); ok && len(as2.Lhs) == 1 && len(as2.Rhs) == 1 {
							if ix, ok := ast.Unparen(as2.Lhs[0]).(*ast.IndexExpr); ok && vmObjOf(callee.info, ix.X) == po {
								if r := origin(callee, as2.Rhs[0], depth+1); r != "" {
									res = "element of `" + mo.Name() + "` (filled by " + callee.name + "), each " + r
								}
							}
						}
						return true
					})
				}
			}
			return true
		})
		if res != "" {
			return res
		}
		// a parameter: what the callers pass
		idx, pi := 0, -1
		for _, fl := range fn.fd.Type.Params.List {
			for _, nm := range fl.Names {
				if info.Defs[nm] == mo {
					pi = idx
				}
				idx++
			}
		}
		if pi < 0 {
			return ""
		}
		obj, _ := info.Defs[fn.fd.Name].(*types.Func)
		all, any := true, false
		for _, g := range roles.fns {
			ast.Inspect(g.fd.Body, func(n ast.Node) bool {
				c2, ok := n.(*ast.CallExpr)
				if !ok || obj == nil || CalleeOf(g.info, c2) != obj || pi >= len(c2.Args) {
					return true
				}
				any = true
				if r := mapElemOrigin(g, vmObjOf(g.info, c2.Args[pi]), depth+1); r != "" {
					res = r
				} else {
					all = false
				}
				return true
			})
		}
		if any && all {
			return res
		}
		return ""
	}
	origin = func(fn *vmFn, e ast.Expr, depth int) string {
		info := fn.info
		e = ast.Unparen(e)
		if depth > 4 {
			return ""
		}
		switch x := e.(type) {
		case *ast.CallExpr:
			g := CalleeOf(info, x)
			if g != nil && resolvers[g] {
				return "resolved by " + g.Name()
			}
		case *ast.SelectorExpr:
			if mangledF != nil && vmFieldOf(info, x) == mangledF {
				return "Function.MangledName"
			}
		case *ast.Ident:
			o := vmObjOf(info, x)
			if o == nil {
				return ""
			}
			res := ""
			ast.Inspect(fn.fd.Body, func(n ast.Node) bool {
				switch y := n.(type) {
				case *ast.AssignStmt:
					for i, l := range y.Lhs {
						if vmObjOf(info, l) != o {
							continue
						}
						var rhs ast.Expr
						if len(y.Rhs) == len(y.Lhs) {
							rhs = y.Rhs[i]
						} else if len(y.Rhs) == 1 {
							rhs = y.Rhs[0]
						}
						if rhs == nil {
							continue
						}
						if call, ok := ast.Unparen(rhs).(*ast.CallExpr); ok {
							g := CalleeOf(info, call)
							if g != nil && resolvers[g] && i == 0 {
								res = "resolved by " + g.Name()
							}
							if g != nil && a.unit[g] {
								res = "name returned by " + g.Name()
							}
							// a name formatter whose result is registered in the same function
							if g != nil && roles.byObj[g] != nil && res == "" {
								registered := false
								ast.Inspect(fn.fd.Body, func(m ast.Node) bool {
									if c2, ok := m.(*ast.CallExpr); ok && CalleeOf(info, c2) == a.addFn {
										for _, arg := range c2.Args {
											if vmObjOf(info, arg) == o {
												registered = true
											}
										}
									}
									return true
								})
								if registered {
									res = "formatted by " + g.Name() + " and registered with " + a.addFn.Name()
								}
							}
						} else if r := origin(fn, rhs, depth+1); r != "" {
							res = r
						}
					}
				case *ast.RangeStmt:
					if y.Value != nil && vmObjOf(info, y.Value) == o {
						if r := mapElemOrigin(fn, vmObjOf(info, y.X), depth+1); r != "" {
							res = r
						}
					}
				}
				return true
			})
			return res
		}
		return ""
	}
	for _, fn := range roles.fns {
		info := fn.info
		ast.Inspect(fn.fd.Body, func(nd ast.Node) bool {
			call, ok := nd.(*ast.CallExpr)
			if !ok {
				return true
			}
			g := CalleeOf(info, call)
			if g == nil {
				return true
			}
			var operand ast.Expr
			what := ""
			if em, isEm := r2EmitIdx(c).of(fn, call); isEm {
				isCall := false
				if em.op != nil {
					isCall = callOps[em.op]
					what = em.op.Name()
				} else if ov := vmObjOf(info, em.opExpr); ov != nil && em.opExpr != nil {
					ast.Inspect(fn.fd.Body, func(q ast.Node) bool {
						if as, ok := q.(*ast.AssignStmt); ok {
							for i, l := range as.Lhs {
								if vmObjOf(info, l) == ov && i < len(as.Rhs) {
									if k := ConstOf(info, as.Rhs[i]); k != nil && callOps[k] {
										isCall = true
										what = k.Name()
									}
								}
							}
						}
						return true
					})
				}
				if !isCall {
					return true
				}
				for _, arg := range em.args {
					if arg != nil && types.Identical(info.TypeOf(arg), types.Typ[types.String]) {
						operand = arg
					}
				}
			} else if g.Name() == "NewValueVMFunction" && len(call.Args) == 1 {
				operand, what = call.Args[0], "VM function value"
			} else {
				return true
			}
			if operand == nil {
				return true
			}
			n++
			if r := origin(fn, operand, 0); r != "" {
				okk = append(okk, fmt.Sprintf("%s `%s` @%s: %s", what, exprStr(operand), c.Pos(call.Pos()), r))
			} else {
				bad = append(bad, fmt.Sprintf("%s operand `%s` @%s: origin not recognised as the mangled name of a registered routine", what, exprStr(operand), c.Pos(call.Pos())))
			}
			return true
		})
	}
	sort.Strings(okk)
	sort.Strings(bad)
	return okk, bad, n
}
