package main

import (
	"fmt"
	"go/ast"
	"sort"
	"strings"
)

// R-single-visit: a tree walker passes each child to a recursive entry at most once per path.

func init() {
	register(&Rule{ID: "R-single-visit", Floor: 90, Run: ruleR3SingleVisit,
		Doc: "for every function of the tree walkers (analyzer over the parser tree; interpreter and compiler over the analysed tree) and every pair of *descent* calls in it — calls of a function of the same package whose first parameter is a tree node (expression / statement / block / ConvertType …), directly or through a helper whose descents are re-rooted at the call site — that hand the SAME child (equal role term, or an element `list[c]` and the loop variable over the same list) to the SAME entry: no enumerated path passes both. A child analysed twice doubles the work at every nesting level (2^depth calls: analysis of a deeply nested program does not terminate in practice, C05), reports the child's diagnostics twice (C14 set semantics, C08) and — in the interpreter / compiler — evaluates or emits the child twice (C04, C01). Different entries on one child (signature pre-pass, then definition) are not a double visit. The same holds for *recursive getters* of the node / type / value structs in every package: a method M that calls the method of the same name on a value it reaches from its receiver — through an interface its own receiver implements, or on a concrete child whose M is recursive in turn — or a function that calls itself (Type(), Constant(), String(), Display(), IsEqual(), Clone(), MarshalValue …). Nothing is cached in these structures, so a getter that evaluates the same recursive call term twice on one path (a nil test followed by the use: `if c.Type() != nil { t = c.Type() }`) costs 2^depth; calls in different clauses of one switch / type switch or in the two branches of one if are not on one path."})
}

// r3svBase splits a role term into the collection it selects from and the selector:
// elem(X) → (X, "*"), X[c] → (X, c); otherwise (t, "").
func r3svBase(t string) (string, string) {
	if strings.HasPrefix(t, "elem(") && strings.HasSuffix(t, ")") {
		// the closing parenthesis must match the opening one of elem(
		depth := 0
		for i := 4; i < len(t); i++ {
			switch t[i] {
			case '(':
				depth++
			case ')':
				depth--
				if depth == 0 && i != len(t)-1 {
					return t, ""
				}
			}
		}
		return t[5 : len(t)-1], "*"
	}
	if strings.HasSuffix(t, "]") {
		depth := 0
		for i := len(t) - 1; i >= 0; i-- {
			switch t[i] {
			case ']':
				depth++
			case '[':
				depth--
				if depth == 0 {
					return t[:i], t[i+1 : len(t)-1]
				}
			}
		}
	}
	return t, ""
}

func r3svAlias(a, b string) bool {
	if a == b {
		return true
	}
	ba, sa := r3svBase(a)
	bb, sb := r3svBase(b)
	if sa == "" || sb == "" || ba != bb {
		// a field of an aliasing element: elem(X).F vs X[0].F
		ia, ib := strings.LastIndex(a, "."), strings.LastIndex(b, ".")
		if ia > 0 && ib > 0 && a[ia:] == b[ib:] && !strings.ContainsAny(a[ia:], "()[]") {
			pa, pb := a[:ia], b[:ib]
			if pa != pb {
				return r3svAlias(pa, pb)
			}
		}
		return false
	}
	return sa == "*" || sb == "*" || sa == sb
}

// r3svCoOccur: some path may pass both events — a path condition of one is consistent with a path condition of
// the other (no atom decided both ways, no tag equal to two different constants).
func r3svCoOccur(a, b *r2sibEvent) bool {
	type fact struct {
		pol    map[string]bool
		eq     map[string]map[string]bool // tag → admitted constants (from `tag == C` / in(tag;…) taken)
		hasNeg map[string]map[string]bool // tag → excluded constants
	}
	mk := func(c r2sibClause) (*fact, bool) {
		f := &fact{pol: map[string]bool{}, eq: map[string]map[string]bool{}, hasNeg: map[string]map[string]bool{}}
		for _, l := range c {
			if v, ok := f.pol[l.atom]; ok && v != l.val {
				return nil, false
			}
			f.pol[l.atom] = l.val
			var tag string
			var vals []string
			if strings.HasPrefix(l.atom, "in(") {
				parts := strings.Split(l.atom[3:len(l.atom)-1], "\x01")
				tag, vals = parts[0], parts[1:]
			} else if i := strings.LastIndex(l.atom, " == "); i > 0 && r2sibConstLike(l.atom[i+4:]) && l.atom[i+4:] != "nil" {
				tag, vals = l.atom[:i], []string{l.atom[i+4:]}
			} else {
				continue
			}
			if l.val {
				set := map[string]bool{}
				for _, v := range vals {
					set[v] = true
				}
				if old, ok := f.eq[tag]; ok {
					for v := range old {
						if !set[v] {
							delete(old, v)
						}
					}
					set = old
				}
				f.eq[tag] = set
			} else {
				if f.hasNeg[tag] == nil {
					f.hasNeg[tag] = map[string]bool{}
				}
				for _, v := range vals {
					f.hasNeg[tag][v] = true
				}
			}
		}
		for tag, set := range f.eq {
			n := 0
			for v := range set {
				if !f.hasNeg[tag][v] {
					n++
				}
			}
			if n == 0 {
				return nil, false
			}
		}
		return f, true
	}
	for _, ca := range a.Guard.clauses {
		for _, cb := range b.Guard.clauses {
			if _, ok := mk(append(append(r2sibClause(nil), ca...), cb...)); ok {
				return true
			}
		}
	}
	return false
}

func ruleR3SingleVisit(c *Ctx) []Obligation {
	e := r2sibEngineOf(c)
	var out []Obligation
	for _, rel := range []string{"homescript/analyzer", "homescript/interpreter", "homescript/compiler"} {
		p := c.Pkg(rel)
		for _, fd := range AllFuncDecls(p) {
			f := r2sibFuncOf(c, p, fd)
			if f.fn == nil {
				continue
			}
			e.busy[f.fn] = true
			sum := e.extract(f, fd.Body.List, r2sibOpts{Descents: true, Only: map[string]bool{"descent": true}}, 0)
			delete(e.busy, f.fn)
			var evs []*r2sibEvent
			for _, ev := range sum.events {
				// children of the node the function was given: terms rooted at a parameter (a list the function
				// builds itself — make(…), a literal — holds no child of its input)
				if ev.Kind == "descent" && strings.Contains(ev.Attrs["term"], "$") && !strings.Contains(ev.Attrs["term"], "make(") {
					evs = append(evs, ev)
				}
			}
			if len(evs) == 0 {
				continue
			}
			key := fmt.Sprintf("%s.%s|each child is handed to a descent entry once", rel, FuncName(fd))
			ob := Obligation{Key: key, Pos: c.Pos(fd.Pos()), Nontrivial: true}
			if !sum.ok {
				// too many paths: decide without path conditions. No two direct descent calls of the function
				// hand an aliasing child to the same entry → nothing to report on any path.
				type dc struct{ callee, term string }
				var direct []dc
				ast.Inspect(fd.Body, func(n ast.Node) bool {
					if call, ok := n.(*ast.CallExpr); ok && len(call.Args) > 0 {
						if fn := CalleeOf(f.info, call); fn != nil && r2sibDescent(fn) && e.declPkg[fn] == p {
							direct = append(direct, dc{r2sibQualName(fn), f.norm(call.Args[0])})
						}
					}
					return true
				})
				clash := ""
				for i := 0; i < len(direct); i++ {
					for j := i + 1; j < len(direct); j++ {
						if direct[i].callee == direct[j].callee && r3svAlias(direct[i].term, direct[j].term) {
							clash = direct[i].callee + "(" + f.pretty(direct[i].term) + ")"
						}
					}
				}
				if clash != "" {
					ob.Status = Undecided
					ob.Detail = "paths not enumerated (" + sum.why + ") and " + clash + " occurs twice in the function"
				} else {
					ob.Detail = fmt.Sprintf("%d direct descent calls, no two of them hand the same child to the same entry (decided without path conditions: %s)", len(direct), sum.why)
				}
				out = append(out, ob)
				continue
			}
			var problems []string
			for i := 0; i < len(evs); i++ {
				for j := i + 1; j < len(evs); j++ {
					a, b := evs[i], evs[j]
					if a.Attrs["callee"] != b.Attrs["callee"] || !r3svAlias(a.Attrs["term"], b.Attrs["term"]) {
						continue
					}
					if a.Pos == b.Pos && a.Via == b.Via {
						continue
					}
					if !r3svCoOccur(a, b) {
						continue
					}
					via := func(ev *r2sibEvent) string {
						if ev.Via == "" {
							return ""
						}
						return " (through " + ev.Via[:strings.IndexAny(ev.Via+"@", "@")] + ")"
					}
					problems = append(problems, fmt.Sprintf("%s receives %s at %s%s and again %s at %s%s on one path",
						a.Attrs["callee"], f.pretty(a.Attrs["term"]), c.Pos(a.Pos), via(a), f.pretty(b.Attrs["term"]), c.Pos(b.Pos), via(b)))
				}
			}
			sort.Strings(problems)
			if len(problems) > 0 {
				ob.Status = Violated
				ob.Detail = "child visited twice: " + strings.Join(problems, "; ") + " — the work doubles at every nesting level and the child's diagnostics/effects are produced twice"
			} else {
				ob.Detail = fmt.Sprintf("%d descent calls, no two of them hand the same child to the same entry on one path", len(evs))
			}
			out = append(out, ob)
		}
	}
	out = append(out, r4sibGetterObligations(c)...)
	return out
}
