package main

// r3print: R-context-move — a rewrite that moves a part of the input under a
// NEW control context (the body of a freshly built loop or callable) is
// guarded by a loop-control test of exactly that part.

import (
	"fmt"
	"go/ast"
	"go/token"
	"go/types"
	"sort"
	"strings"

	"golang.org/x/tools/go/packages"
)

func init() {
	register(&Rule{ID: "R-context-move", Floor: 5, Run: ruleR3pContextMove,
		Doc: "Blocks that open a new control context are the ones R-traversal learns from the analyzer (loop bodies: analysed at loop depth + 1; bodies of callables): `break`/`continue` inside them address that construct. " +
			"The rule enumerates, in optimizer and fuzzer, every composite literal of a node struct that has such a field and every call of a module function that builds one around its argument, and computes (with the symbolic values of " +
			"R-rebuild-all-paths) which parts of the INPUT node flow into the context-opening field. A part that was already inside the corresponding field of the input (loop body -> loop body) keeps its context. Every other part is MOVED under a new " +
			"loop / function boundary and needs, on every path that reaches the construction, (1) a guard whose subject is the moved part itself: a call of the loop-control predicate family (R-predicate-all-paths' family: it inspects everything " +
			"outside context-opening blocks) on the moved part or on a node containing it, answered `cannot control a loop`, or a never-type test `X.Type().Kind() == <never>` of exactly the moved part; and (2) that guard should be the predicate: " +
			"a never-type test only excludes parts that ALWAYS diverge, a `break` under an `if` inside the moved part still changes its target. A function that moves its parameter unguarded passes the obligation to its call sites. " +
			"Necessary: an unguarded move re-targets a `break`/`continue` of the moved code to the new loop: the variant loops forever or skips the rest of the enclosing loop (C20)."})
}

type r3pMoveRec struct {
	key, pos    string
	subjectOK   bool // on every path some guard tests the moved part
	predOK      bool // on every path that guard is the loop-control predicate
	badSubject  string
	badPred     string
	deferred    bool // parameter moved unguarded, checked at the call sites
	npaths      int
	what, moved string
}

type r3pMover struct {
	param int
	sub   string // sub-path of the parameter that is moved ("" = the parameter itself)
}

type r3pMoves struct {
	c        *Ctx
	m        *travModel
	tr       *travRun
	never    *types.Const
	members  map[string]map[string]bool // package path -> names of the loop-control predicate family
	recs     map[string]*r3pMoveRec
	movers   map[*types.Func][]r3pMover // known from a first pass
	found    map[*types.Func][]r3pMover // discovered in this pass
	called   map[*types.Func]bool       // functions with call sites in optimizer / fuzzer
	ordinals map[ast.Node]int
}

func r3pNewMoves(c *Ctx) *r3pMoves {
	m := travGetModel(c)
	tr := &travRun{c: c, m: m, tc: newTravCollector(m), hasUnit: map[string]bool{}}
	tr.learnLoopContext()
	r3pLearnLoopContext(tr) // the same bookkeeping written as a helper pair or a closure wrapper
	units := tr.enumerate()
	absorb := tr.absorbing(units)
	loopPred := tr.loopControlFamilies(units, absorb)
	mv := &r3pMoves{c: c, m: m, tr: tr, never: travNeverKind(m), members: map[string]map[string]bool{}, recs: map[string]*r3pMoveRec{},
		found: map[*types.Func][]r3pMover{}, called: map[*types.Func]bool{}, ordinals: map[ast.Node]int{}}
	for _, u := range units {
		if u.role != rolePredicate {
			continue
		}
		f := travFamily(u)
		if !loopPred[f] || absorb[f] != "true" {
			continue
		}
		if mv.members[u.pkg.PkgPath] == nil {
			mv.members[u.pkg.PkgPath] = map[string]bool{}
		}
		mv.members[u.pkg.PkgPath][u.fd.Name.Name] = true
	}
	for _, rel := range []string{"homescript/optimizer", "homescript/fuzzer"} {
		if !c.HasPkg(rel) {
			continue
		}
		p := c.Pkg(rel)
		for _, fd := range AllFuncDecls(p) {
			mv.number(p, fd)
			ast.Inspect(fd.Body, func(n ast.Node) bool {
				if call, ok := n.(*ast.CallExpr); ok {
					if f := CalleeOf(p.TypesInfo, call); f != nil && m.decls[f] != nil {
						mv.called[f] = true
					}
				}
				return true
			})
		}
	}
	return mv
}

// number: ordinal of each literal (per struct type) and call (per callee) inside a function, in source order.
func (mv *r3pMoves) number(p *packages.Package, fd *ast.FuncDecl) {
	cnt := map[string]int{}
	ast.Inspect(fd.Body, func(n ast.Node) bool {
		switch x := n.(type) {
		case *ast.CompositeLit:
			if s := mv.m.structs[travNamed(p.TypesInfo.TypeOf(x))]; s != nil {
				cnt[s.Name()]++
				mv.ordinals[x] = cnt[s.Name()]
			}
		case *ast.CallExpr:
			if f := CalleeOf(p.TypesInfo, x); f != nil && mv.m.decls[f] != nil {
				cnt["call "+f.FullName()]++
				mv.ordinals[x] = cnt["call "+f.FullName()]
			}
		}
		return true
	})
}

// onCond records guards: family predicate calls and never-type tests. Returns true when the atom was consumed.
func (mv *r3pMoves) onCond(rb *r2pRebuild, st *r2pState, cond ast.Expr, taken bool) bool {
	info := rb.info
	cond = ast.Unparen(cond)
	if id, ok := cond.(*ast.Ident); ok {
		// controls := self.stmtCanControlLoop(node); if controls { … }
		if call := st.callVar[info.Uses[id]]; call != nil {
			cond = call
		}
	}
	if call, ok := cond.(*ast.CallExpr); ok {
		if callee := CalleeOf(info, call); callee != nil && callee.Pkg() != nil && mv.members[callee.Pkg().Path()][callee.Name()] {
			var subj []string
			for _, a := range call.Args {
				if p := rb.pathOf(st, a); p != "" {
					subj = append(subj, p)
				}
			}
			st.trace = append(st.trace, fmt.Sprintf("%s answers %v (line %d)", exprStr(cond), taken, rb.line(cond.Pos())))
			if !taken {
				for _, p := range subj {
					st.insp[p] = true
				}
			}
			return true
		}
	}
	if be, ok := cond.(*ast.BinaryExpr); ok && (be.Op == token.EQL || be.Op == token.NEQ) && mv.never != nil {
		for _, pair := range [][2]ast.Expr{{be.X, be.Y}, {be.Y, be.X}} {
			if ConstOf(info, pair[1]) != mv.never {
				continue
			}
			// X.Type().Kind()
			k, ok := ast.Unparen(pair[0]).(*ast.CallExpr)
			if !ok || len(k.Args) != 0 {
				continue
			}
			ks, ok := ast.Unparen(k.Fun).(*ast.SelectorExpr)
			if !ok {
				continue
			}
			t, ok := ast.Unparen(ks.X).(*ast.CallExpr)
			if !ok || len(t.Args) != 0 {
				continue
			}
			ts, ok := ast.Unparen(t.Fun).(*ast.SelectorExpr)
			if !ok {
				continue
			}
			p := rb.pathOf(st, ts.X)
			if p == "" {
				continue
			}
			isNever := (be.Op == token.EQL) == taken
			st.trace = append(st.trace, fmt.Sprintf("%s is %v (line %d)", exprStr(cond), taken, rb.line(cond.Pos())))
			if !isNever {
				st.ctrl["never:"+p] = true
			}
			return true
		}
	}
	return false
}

// pathIsCode: does the access path (rooted at the unit's input) denote code (not a span / type / scalar)?
func (mv *r3pMoves) pathIsCode(rb *r2pRebuild, p string) bool {
	parts := strings.Split(p, ".")
	if len(parts) == 0 || parts[0] != rb.root {
		return true
	}
	t := rb.rootType
	for _, name := range parts[1:] {
		s, _ := rb.childFields(t)
		if s == nil {
			return true // behind an interface: unknown, assume code
		}
		f := s.Field(name)
		if f == nil {
			return true
		}
		if f.Class != tfChild {
			return false
		}
		t = f.Var.Type()
	}
	return true
}

// sameContext: prefixes of the input that already are context-opening blocks of the input node.
func (mv *r3pMoves) sameContext(rb *r2pRebuild) []string {
	s, _ := rb.childFields(rb.rootType)
	if s == nil {
		return nil
	}
	var out []string
	for _, f := range s.Fields {
		if f.Class == tfChild && mv.tr.contextOpening(s, f, true) != "" {
			out = append(out, rb.root+"."+f.Name)
		}
	}
	return out
}

// codeAtoms: the parts of the input that flow into x as code.
func (mv *r3pMoves) codeAtoms(rb *r2pRebuild, st *r2pState, x ast.Expr) r2pAtoms {
	x = ast.Unparen(x)
	if u, ok := x.(*ast.UnaryExpr); ok && u.Op == token.AND {
		x = ast.Unparen(u.X)
	}
	if lit, ok := x.(*ast.CompositeLit); ok {
		out := r2pAtoms{}
		s := mv.m.structs[travNamed(rb.info.TypeOf(lit))]
		for _, el := range lit.Elts {
			v := el
			if kv, ok := el.(*ast.KeyValueExpr); ok {
				v = kv.Value
				if s != nil {
					if id, ok := kv.Key.(*ast.Ident); ok {
						if f := s.Field(id.Name); f != nil && f.Class != tfChild {
							continue
						}
					}
				}
			}
			for a := range mv.codeAtoms(rb, st, v) {
				out[a] = true
			}
		}
		return out
	}
	if !rb.nodeCarrying(rb.info.TypeOf(x)) {
		return nil
	}
	a, _ := rb.eval(st, x)
	out := r2pAtoms{}
	for p := range a {
		if mv.pathIsCode(rb, p) {
			out[p] = true
		}
	}
	return out
}

func (mv *r3pMoves) check(rb *r2pRebuild, st *r2pState, site ast.Node, what string, atoms r2pAtoms, paramIdx map[string]int) {
	same := mv.sameContext(rb)
	fn, _ := rb.info.Defs[rb.fd.Name].(*types.Func)
	for _, a := range r2pSorted(atoms) {
		skip := false
		for _, pre := range same {
			if a == pre || strings.HasPrefix(a, pre+".") {
				skip = true
			}
		}
		if skip || st.emptyUpTo(a) {
			continue
		}
		key := fmt.Sprintf("%s|%s|moved %s", travFuncKey(rb.pkg, rb.fd), what, a)
		rec := mv.recs[key]
		if rec == nil {
			rec = &r3pMoveRec{key: key, pos: rb.c.Pos(site.Pos()), subjectOK: true, predOK: true, what: what, moved: a}
			mv.recs[key] = rec
		}
		rec.npaths++
		pred, never := false, st.ctrl["never:"+a]
		for q := range st.insp {
			if q == a || strings.HasPrefix(a, q+".") {
				pred = true
			}
		}
		if !pred && !never {
			// a parameter moved without any guard: the callers have to guard (when there are callers)
			root := strings.SplitN(a, ".", 2)[0]
			// (only a wrapper that moves its parameter as a whole and never tests it may leave the guard to its callers; a
			// function that takes its parameter apart, or that does call the predicate on it somewhere, decides itself)
			if idx, ok := paramIdx[root]; ok && a == root && fn != nil && mv.called[fn] && !mv.guardsItself(rb, root) {
				sub := strings.TrimPrefix(a, root)
				dup := false
				for _, mvr := range mv.found[fn] {
					if mvr.param == idx && mvr.sub == sub {
						dup = true
					}
				}
				if !dup {
					mv.found[fn] = append(mv.found[fn], r3pMover{idx, sub})
				}
				rec.deferred = true
				continue
			}
			if rec.subjectOK {
				var seen []string
				for q := range st.insp {
					seen = append(seen, "predicate on "+q)
				}
				for k := range st.ctrl {
					if strings.HasPrefix(k, "never:") {
						seen = append(seen, "never-type test of "+strings.TrimPrefix(k, "never:"))
					}
				}
				sort.Strings(seen)
				if len(seen) == 0 {
					seen = []string{"none"}
				}
				rec.badSubject = fmt.Sprintf("path [%s]; guards decided on that path: %s", st.traceStr(), strings.Join(seen, ", "))
			}
			rec.subjectOK = false
			continue
		}
		if !pred {
			if rec.predOK {
				rec.badPred = fmt.Sprintf("path [%s]", st.traceStr())
			}
			rec.predOK = false
		}
	}
}

func (mv *r3pMoves) paramIndex(rb *r2pRebuild) map[string]int {
	out := map[string]int{}
	i := 0
	if rb.fd.Type.Params != nil {
		for _, f := range rb.fd.Type.Params.List {
			if len(f.Names) == 0 {
				i++
				continue
			}
			for _, n := range f.Names {
				out[n.Name] = i
				i++
			}
		}
	}
	return out
}

func (mv *r3pMoves) onLiteral(rb *r2pRebuild, st *r2pState, lit *ast.CompositeLit) {
	s := mv.m.structs[travNamed(rb.info.TypeOf(lit))]
	if s == nil {
		return
	}
	for _, el := range lit.Elts {
		kv, ok := el.(*ast.KeyValueExpr)
		if !ok {
			continue
		}
		id, ok := kv.Key.(*ast.Ident)
		if !ok {
			continue
		}
		f := s.Field(id.Name)
		if f == nil || f.Class != tfChild || mv.tr.contextOpening(s, f, true) == "" {
			continue
		}
		atoms := mv.codeAtoms(rb, st, kv.Value)
		if len(atoms) == 0 {
			continue
		}
		mv.check(rb, st, lit, fmt.Sprintf("%s.%s literal #%d", s.Short(), f.Name, mv.ordinals[lit]), atoms, mv.paramIndex(rb))
	}
}

func (mv *r3pMoves) onCall(rb *r2pRebuild, st *r2pState, call *ast.CallExpr) {
	callee := CalleeOf(rb.info, call)
	if callee == nil || len(mv.movers[callee]) == 0 {
		return
	}
	for _, mvr := range mv.movers[callee] {
		if mvr.param >= len(call.Args) {
			continue
		}
		atoms := r2pAtoms{}
		for a := range mv.codeAtoms(rb, st, call.Args[mvr.param]) {
			atoms[a+mvr.sub] = true
		}
		if len(atoms) == 0 {
			continue
		}
		mv.check(rb, st, call, fmt.Sprintf("call of %s #%d", callee.Name(), mv.ordinals[call]), atoms, mv.paramIndex(rb))
	}
}

func ruleR3pContextMove(c *Ctx) []Obligation {
	// pass 1: find the functions that move a parameter unguarded; pass 2: check their call sites as well
	mv := r3pNewMoves(c)
	if mv.never == nil {
		return []Obligation{{Key: "<anchor>|never type kind", Status: Undecided, Detail: "the kind constant of the never type could not be resolved"}}
	}
	nfam := 0
	for _, ms := range mv.members {
		nfam += len(ms)
	}
	if nfam == 0 {
		return []Obligation{{Key: "<anchor>|loop-control predicate family", Status: Undecided, Detail: "no loop-control predicate family (absorbing value true, unconditional answers for break/continue) was found in optimizer / fuzzer"}}
	}
	same := func(a, b map[*types.Func][]r3pMover) bool {
		if len(a) != len(b) {
			return false
		}
		for f, l := range a {
			if len(l) != len(b[f]) {
				return false
			}
		}
		return true
	}
	for round := 0; ; round++ {
		r2pRebuildAll(c, mv, nil)
		if same(mv.found, mv.movers) || round >= 4 {
			break
		}
		next := r3pNewMoves(c)
		next.movers = mv.found
		mv = next
	}
	var keys []string
	for k := range mv.recs {
		keys = append(keys, k)
	}
	sort.Strings(keys)
	var obs []Obligation
	for _, k := range keys {
		rec := mv.recs[k]
		o1 := Obligation{Key: rec.key + "|a guard tests the moved part", Pos: rec.pos, Nontrivial: true}
		base := fmt.Sprintf("%s puts %s of the input under a new control context (%s)", strings.SplitN(rec.key, "|", 2)[0], rec.moved, rec.what)
		switch {
		case !rec.subjectOK:
			o1.Status = Violated
			o1.Detail = fmt.Sprintf("%s, but no loop-control predicate was answered `false` for %s (or a node containing it) and no never-type test of %s itself was decided (%s): a `break`/`continue` inside %s now addresses the new loop / function",
				base, rec.moved, rec.moved, rec.badSubject, rec.moved)
		case rec.deferred:
			o1.Status, o1.Detail = Info, base+" without a guard of its own: the parameter is moved as it comes, the obligation is checked at the call sites of this function"
		default:
			o1.Status, o1.Detail = Discharged, fmt.Sprintf("%s; on all %d paths reaching the construction a guard on %s (or a node containing it) was decided", base, rec.npaths, rec.moved)
		}
		obs = append(obs, o1)
		if rec.subjectOK && !rec.deferred {
			o2 := Obligation{Key: rec.key + "|the guard is the loop-control predicate", Pos: rec.pos, Nontrivial: true}
			if rec.predOK {
				o2.Status, o2.Detail = Discharged, "the guard is a call of the loop-control predicate family answered `cannot control a loop`"
			} else {
				o2.Status = Violated
				o2.Detail = fmt.Sprintf("%s and the only guard (%s) is a never-type test of %s: it excludes code that ALWAYS diverges, but %s may contain a conditional `break`/`continue` (e.g. `{ if c { break; } true }`), which keeps its boolean type and is re-targeted to the new loop. The predicate of the loop-control family applied to %s is the sufficient guard",
					base, rec.badPred, rec.moved, rec.moved, rec.moved)
			}
			obs = append(obs, o2)
		}
	}
	return obs
}

// onAssign remembers a local that holds the answer of the loop-control predicate.
func (mv *r3pMoves) onAssign(rb *r2pRebuild, st *r2pState, o types.Object, rhs ast.Expr) {
	call, ok := ast.Unparen(rhs).(*ast.CallExpr)
	if !ok || o == nil {
		return
	}
	if callee := CalleeOf(rb.info, call); callee != nil && callee.Pkg() != nil && mv.members[callee.Pkg().Path()][callee.Name()] {
		st.callVar[o] = call
	}
}

// guardsItself: the function under analysis calls the loop-control predicate on (a part of) the named parameter somewhere.
func (mv *r3pMoves) guardsItself(rb *r2pRebuild, param string) bool {
	found := false
	ast.Inspect(rb.fd.Body, func(n ast.Node) bool {
		call, ok := n.(*ast.CallExpr)
		if !ok || found {
			return !found
		}
		callee := CalleeOf(rb.info, call)
		if callee == nil || callee.Pkg() == nil || !mv.members[callee.Pkg().Path()][callee.Name()] {
			return true
		}
		for _, a := range call.Args {
			if p := rb.pathOf(nil, a); p == param || strings.HasPrefix(p, param+".") {
				found = true
			}
		}
		return true
	})
	return found
}
