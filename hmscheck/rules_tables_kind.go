package main

import (
	"fmt"
	"go/ast"
	"go/types"
	"sort"
	"strings"
)

func init() {
	register(&Rule{ID: "R-kind-bijective", Floor: 100, Run: ruleKindBijective,
		Doc: "for every interface of the pipeline that has a Kind() method (AST nodes, types, runtime values, interrupts): each implementer's Kind() returns exactly one constant of the kind enum and no two implementers return the same one, so that a Kind() test identifies the dynamic type; every dispatch `switch x.Kind() { case K: x.(T) }` relies on it (a shared or non-constant kind makes the assertion under the case panic)"})
	register(&Rule{ID: "R-kind-assert", Floor: 180, Run: ruleKindAssert,
		Doc: "every panicking (single-result) type assertion x.(T), anywhere in the module, on an interface that has a kind discriminator (a zero-argument method returning an enum constant that tells the implementers apart: Kind() of AST nodes, types, interrupts, and of package-internal tag interfaces such as the analyzer's functionType or the compiler's annotations) is dominated by a test of that discriminator on the same expression (enclosing case, enclosing if, or preceding early exit, with no write to x in between, also through helpers and call sites) whose constants are returned by T and by no other implementer; otherwise an input whose value has another kind panics the host. For a package-internal tag interface an assertion without such a test is decided by where the value can come from: every object / container element / field the expression can be read from is followed back (flow-insensitively, through locals, parameters and call sites, constructor functions, struct literals and field stores, append and element stores) to the concrete types stored there - only T: discharged; another implementer too: violated; not traceable: undecided. For runtime values an existing local Kind() guard must agree with T; assertions on values without a local guard are licensed by static typing only and are counted, not decided"})
}

// ---- R-kind-bijective ----

func ruleKindBijective(c *Ctx) []Obligation {
	m := tblModelOf(c)
	var obs []Obligation
	if len(m.ifaces) == 0 {
		fatalf("anchor unresolved: no interface with a Kind() method returning an enum was found")
	}
	for _, ki := range m.ifaces {
		for _, im := range ki.Impls {
			key := fmt.Sprintf("%s|%s.%s()", ki.Name, im.name(), ki.Method)
			pos := "?"
			if im.Decl != nil {
				pos = c.Pos(im.Decl.Pos())
			}
			switch {
			case im.NonConst != "" && len(im.Kinds) == 0:
				// kind carried in a field: legitimate for wrapper types; the assertion rule then treats
				// every kind as possible for this type
				obs = append(obs, Obligation{Key: key, Pos: pos, Status: Info,
					Detail: "Kind() is not a constant: " + im.NonConst + " (assertions to this type are licensed by any kind it can carry)"})
				continue
			case im.NonConst != "":
				obs = append(obs, Obligation{Key: key, Pos: pos, Status: Undecided, Detail: "Kind() mixes constants and " + im.NonConst})
				continue
			case len(im.Kinds) > 1:
				var names []string
				for _, k := range im.Kinds {
					names = append(names, k.Name())
				}
				obs = append(obs, Obligation{Key: key, Pos: pos, Status: Violated, Nontrivial: true,
					Detail: "Kind() returns several constants: " + strings.Join(names, ", ")})
				continue
			}
			k := im.Kinds[0]
			var shared []string
			for _, o := range ki.byKind[k.Val().ExactString()] {
				if o != im {
					shared = append(shared, o.name())
				}
			}
			if len(shared) == 0 {
				obs = append(obs, Obligation{Key: key, Pos: pos, Status: Discharged, Nontrivial: true,
					Detail: fmt.Sprintf("returns %s; no other implementer of %s does", k.Name(), ki.Name)})
				continue
			}
			// shared kind: a Kind() test no longer identifies the dynamic type. No implementer shares a kind on
			// today's tree, so there is no documented exception; R-kind-assert additionally refuses a shared
			// kind as a licence for asserting either type.
			obs = append(obs, Obligation{Key: key, Pos: pos, Status: Violated, Nontrivial: true,
				Detail: fmt.Sprintf("returns %s, which is also returned by %s: a Kind() test cannot tell the two types apart, every `case %s: x.(T)` dispatch panics for one of them", k.Name(), strings.Join(shared, ", "), k.Name())})
		}
		// enum constants without any implementer
		for _, k := range ki.Enum.Consts {
			v := k.Val().ExactString()
			if ki.Enum.ByVal[v][0] != k {
				continue
			}
			if len(ki.byKind[v]) == 0 {
				hasNonConst := false
				for _, im := range ki.Impls {
					if im.NonConst != "" {
						hasNonConst = true
					}
				}
				if !hasNonConst {
					obs = append(obs, Obligation{Key: fmt.Sprintf("%s|constant %s", ki.Name, k.Name()), Pos: c.Pos(k.Pos()), Status: Info,
						Detail: "no implementer returns this constant (dead kind)"})
				}
			}
		}
	}
	return obs
}

// ---- R-kind-assert ----

type tblAssertClass int

const (
	tblClsNode  tblAssertClass = iota // AST node / type / interrupt: must be guarded
	tblClsValue                       // runtime value: guard optional, must agree when present
	tblClsTag                         // package-internal tag interface (not a node/type/interrupt): like values, listed individually
)

// tblIsTagIface: Kind-interfaces that are neither syntax (declared in one of
// the two ast packages) nor part of a value library: analyzer.functionType,
// compiler.CompiledAnnotation, …  An assertion on them without a dominating
// kind test is licensed by an invariant of the container the value is read
// from; the invariant is checked by the origin analysis (rules_tables_origin.go).
func (m *tblModel) tblIsTagIface(ki *tblKindIface) bool {
	p := ki.Named.Obj().Pkg().Path()
	return !strings.HasSuffix(p, "/ast") && !strings.HasSuffix(p, "/value")
}

// tblIsValueIface: runtime value interfaces are the Kind-interfaces declared in
// the two value libraries whose enum is the value-kind enum (the interface
// that DeepCast / Display / IsEqual operate on). Resolved by role: the
// interface type of the first parameter of value.DeepCast's package-level
// sibling `Value`.
func (m *tblModel) tblIsValueIface(ki *tblKindIface) bool {
	p := ki.Named.Obj().Pkg().Path()
	if !strings.HasSuffix(p, "/runtime/value") && !strings.HasSuffix(p, "/interpreter/value") {
		return false
	}
	// the interface must have the value protocol (Display/IsEqual), interrupts do not
	has := map[string]bool{}
	for i := 0; i < ki.Iface.NumMethods(); i++ {
		has[ki.Iface.Method(i).Name()] = true
	}
	return has["Display"] && has["IsEqual"]
}

func ruleKindAssert(c *Ctx) []Obligation {
	m := tblModelOf(c)
	reach := m.reach()
	var obs []Obligation
	seenKey := map[string]int{}
	var nValueLicensed, nValueGuarded, nCommaOk, nToIface int
	perPkgLicensed := map[string]int{}
	var pkgs []string
	// every package of the module (the pipeline and its drivers)
	for _, p := range c.All {
		pkgs = append(pkgs, relPkg(p.PkgPath))
	}
	sort.Strings(pkgs)
	for _, rel := range pkgs {
		p := c.Pkg(rel)
		for _, fd := range AllFuncDecls(p) {
			f := m.fnByDecl[fd]
			if f == nil {
				continue
			}
			var g *tblGuard
			info := p.TypesInfo
			var asserts []*ast.TypeAssertExpr
			ast.Inspect(fd.Body, func(n ast.Node) bool {
				if ta, ok := n.(*ast.TypeAssertExpr); ok && ta.Type != nil {
					asserts = append(asserts, ta)
				}
				return true
			})
			for _, ta := range asserts {
				ki := m.ifaceOf(info.TypeOf(ta.X))
				if ki == nil {
					continue
				}
				tt := info.TypeOf(ta.Type)
				if tt == nil {
					continue
				}
				if _, isI := types.Unalias(tt).Underlying().(*types.Interface); isI {
					nToIface++
					continue
				}
				if g == nil {
					g = m.guardFor(f)
				}
				if tblIsCommaOk(g.parents, ta) {
					nCommaOk++
					continue
				}
				im := ki.implOf(tt)
				base := f.name() + "|"
				if ctx := tblCaseContext(g.parents, ta); len(ctx) > 0 {
					base += strings.Join(ctx, "|") + "|"
				}
				base += fmt.Sprintf("%s.(%s)", exprStr(ta.X), tblTypeName(tt))
				if im == nil {
					obs = append(obs, Obligation{Key: tblUniq(seenKey, base), Pos: c.Pos(ta.Pos()), Status: Undecided,
						Detail: fmt.Sprintf("%s is not a known implementer of %s", tblTypeName(tt), ki.Name)})
					continue
				}
				cls := tblClsNode
				if m.tblIsValueIface(ki) {
					cls = tblClsValue
				} else if m.tblIsTagIface(ki) {
					cls = tblClsTag
				}
				// the guard: a fact on <x>.Kind()
				xp := g.pathOf(ta.X)
				var fact *tblFact
				if xp != nil {
					fact = reach.factsAt(f, ta).get(xp.extend("."+ki.Method+"()", false))
				}
				if fact == nil && xp == nil {
					// x is a call: the callee may always return T
					if call, ok := ast.Unparen(ta.X).(*ast.CallExpr); ok {
						if fn := CalleeOf(info, call); fn != nil {
							if rts, why := m.resultTypes(fn.Origin(), 0, 0); len(rts) == 1 && rts[0] == im.T.Obj() {
								obs = append(obs, Obligation{Key: tblUniq(seenKey, base), Pos: c.Pos(ta.Pos()), Status: Discharged, Nontrivial: true,
									Detail: "every return of the callee yields this concrete type: " + why})
								continue
							}
						}
					}
				}
				if fact == nil {
					if cls == tblClsTag {
						obs = append(obs, m.tblDecideByOrigin(c, f, ta, ki, im, tblUniq(seenKey, base)))
						continue
					}
					if cls == tblClsValue {
						nValueLicensed++
						perPkgLicensed[strings.TrimPrefix(rel, "homescript/")]++
						continue
					}
					why := "no Kind() test on " + exprStr(ta.X) + " dominates the assertion"
					if xp == nil {
						why = exprStr(ta.X) + " is not a pure access path, so no Kind() test can cover it"
					}
					// what else dominates it (for the reader)
					var other []string
					for _, ff := range g.factsAt(ta).m {
						other = append(other, ff.Why)
					}
					sort.Strings(other)
					if len(other) > 0 {
						why += "; the guards in force test something else: " + strings.Join(other, " / ")
					}
					obs = append(obs, Obligation{Key: tblUniq(seenKey, base), Pos: c.Pos(ta.Pos()), Status: Violated, Nontrivial: true,
						Detail: fmt.Sprintf("%s: a value of %s with any other kind than %s panics here", why, ki.Name, tblKindNames(im))})
					continue
				}
				// guard present: every allowed kind must identify T
				var bad []string
				for v := range fact.Allowed {
					impls := ki.byKind[v]
					okV := false
					if im.NonConst != "" {
						okV = true // the type carries its kind in a field; any kind may be it
						for _, o := range impls {
							if o != im {
								okV = false
							}
						}
					} else if len(impls) == 1 && impls[0] == im {
						okV = true
					}
					if !okV {
						name := v
						if ks := ki.Enum.ByVal[v]; len(ks) > 0 {
							name = ks[0].Name()
						}
						var who []string
						for _, o := range impls {
							who = append(who, o.name())
						}
						if len(who) == 0 {
							who = []string{"no implementer"}
						}
						bad = append(bad, fmt.Sprintf("%s is the kind of %s", name, strings.Join(who, "/")))
					}
				}
				sort.Strings(bad)
				if cls == tblClsValue {
					nValueGuarded++
				}
				if len(bad) > 0 {
					obs = append(obs, Obligation{Key: tblUniq(seenKey, base), Pos: c.Pos(ta.Pos()), Status: Violated, Nontrivial: true,
						Detail: fmt.Sprintf("guard {%s} admits kinds {%s} but asserts %s (kind %s): %s", fact.Why, tblSetNames(fact.Enum, fact.Allowed), im.name(), tblKindNames(im), strings.Join(bad, "; "))})
					continue
				}
				if len(fact.Allowed) == 0 {
					obs = append(obs, Obligation{Key: tblUniq(seenKey, base), Pos: c.Pos(ta.Pos()), Status: Info,
						Detail: "the guards in force are contradictory (dead code): " + fact.Why})
					continue
				}
				obs = append(obs, Obligation{Key: tblUniq(seenKey, base), Pos: c.Pos(ta.Pos()), Status: Discharged, Nontrivial: true,
					Detail: fmt.Sprintf("guarded by %s; %s is the only implementer with kind {%s}", fact.Why, im.name(), tblSetNames(fact.Enum, fact.Allowed))})
			}
		}
	}
	var lic []string
	for _, k := range tblSortedKeys(perPkgLicensed) {
		lic = append(lic, fmt.Sprintf("%s:%d", k, perPkgLicensed[k]))
	}
	obs = append(obs, Obligation{Key: "summary|runtime value assertions", Pos: "-", Status: Info,
		Detail: fmt.Sprintf("runtime-value assertions: %d locally guarded by a Kind() test (decided above), %d licensed by static typing only (not decided; %s); %d comma-ok assertions and %d interface-to-interface assertions skipped",
			nValueGuarded, nValueLicensed, strings.Join(lic, " "), nCommaOk, nToIface)})
	return obs
}

// tblDecideByOrigin: an assertion x.(T) without a dominating kind test is safe
// only if nothing but a T can be stored where x is read from (see
// rules_tables_origin.go).
func (m *tblModel) tblDecideByOrigin(c *Ctx, f *tblFn, ta *ast.TypeAssertExpr, ki *tblKindIface, im *tblImpl, key string) Obligation {
	pos := c.Pos(ta.Pos())
	if len(ki.Impls) == 1 && ki.Impls[0] == im {
		return Obligation{Key: key, Pos: pos, Status: Discharged, Nontrivial: true,
			Detail: fmt.Sprintf("no %s() test dominates the assertion, but %s is the only implementation of %s", ki.Method, im.name(), ki.Name)}
	}
	ts := m.origin().exprTypes(f, ta.X)
	head := fmt.Sprintf("no %s() test on %s dominates the assertion", ki.Method, exprStr(ta.X))
	if ts.unknown != "" {
		return Obligation{Key: key, Pos: pos, Status: Undecided,
			Detail: fmt.Sprintf("%s, and where its value comes from cannot be followed: %s", head, ts.unknown)}
	}
	var others []string
	for tn := range ts.types {
		if tn != im.T.Obj() {
			others = append(others, tn.Name())
		}
	}
	sort.Strings(others)
	switch {
	case len(ts.types) == 0:
		return Obligation{Key: key, Pos: pos, Status: Undecided, Detail: head + ", and no producer of its value was found"}
	case len(others) == 0:
		return Obligation{Key: key, Pos: pos, Status: Discharged, Nontrivial: true,
			Detail: fmt.Sprintf("%s; every value that can be stored where it is read from is a %s: %s", head, im.name(), tblTypeSetString(ts))}
	case len(ts.fieldBased) > 0:
		return Obligation{Key: key, Pos: pos, Status: Undecided,
			Detail: fmt.Sprintf("%s; the objects it is read from could not be told apart (field %s taken over all objects), which admits %s: %s", head, strings.Join(ts.fieldBased, ","), strings.Join(others, ","), tblTypeSetString(ts))}
	}
	return Obligation{Key: key, Pos: pos, Status: Violated, Nontrivial: true,
		Detail: fmt.Sprintf("%s, and a value of another implementation of %s can be stored where it is read from (%s): the assertion to %s panics for it. Producers: %s", head, ki.Name, strings.Join(others, ","), im.name(), tblTypeSetString(ts))}
}

func tblKindNames(im *tblImpl) string {
	if im.NonConst != "" {
		return "<carried in a field>"
	}
	var n []string
	for _, k := range im.Kinds {
		n = append(n, k.Name())
	}
	return strings.Join(n, ",")
}

func tblUniq(seen map[string]int, key string) string {
	seen[key]++
	if seen[key] == 1 {
		return key
	}
	return fmt.Sprintf("%s#%d", key, seen[key])
}

// tblIsCommaOk: v, ok := x.(T) / v, ok = x.(T) / var v, ok = x.(T) / if _, ok := …
func tblIsCommaOk(par map[ast.Node]ast.Node, ta *ast.TypeAssertExpr) bool {
	var n ast.Node = ta
	p := par[n]
	for {
		if pe, ok := p.(*ast.ParenExpr); ok {
			n, p = pe, par[pe]
			continue
		}
		break
	}
	switch x := p.(type) {
	case *ast.AssignStmt:
		return len(x.Lhs) == 2 && len(x.Rhs) == 1 && x.Rhs[0] == n
	case *ast.ValueSpec:
		return len(x.Names) == 2 && len(x.Values) == 1 && x.Values[0] == n
	}
	return false
}

// resultTypes: the concrete named types the idx-th result of fn can hold,
// when every return statement yields a value of concrete static type (or the
// result of another such function); nil when unknown.
func (m *tblModel) resultTypes(fn *types.Func, idx, depth int) ([]*types.TypeName, string) {
	f := m.fns[fn]
	if f == nil || depth > 4 {
		return nil, ""
	}
	set := map[*types.TypeName]bool{}
	ok := true
	var why []string
	ast.Inspect(f.Decl.Body, func(n ast.Node) bool {
		switch x := n.(type) {
		case *ast.FuncLit:
			return false
		case *ast.ReturnStmt:
			if idx >= len(x.Results) {
				ok = false
				return true
			}
			e := ast.Unparen(x.Results[idx])
			// look through a conversion to the interface type: I(expr)
			if call, isCall := e.(*ast.CallExpr); isCall && len(call.Args) == 1 {
				if tv, has := f.Pkg.TypesInfo.Types[call.Fun]; has && tv.IsType() {
					e = ast.Unparen(call.Args[0])
				}
			}
			t := types.Unalias(f.Pkg.TypesInfo.TypeOf(e))
			if p, isPtr := t.(*types.Pointer); isPtr {
				t = types.Unalias(p.Elem())
			}
			if nt, isNamed := t.(*types.Named); isNamed {
				if _, isI := nt.Underlying().(*types.Interface); !isI {
					set[nt.Obj()] = true
					why = append(why, fmt.Sprintf("%s returns %s", f.name(), exprStr(x.Results[idx])))
					return true
				}
			}
			if call, isCall := e.(*ast.CallExpr); isCall {
				if cf := CalleeOf(f.Pkg.TypesInfo, call); cf != nil {
					sub, w := m.resultTypes(cf.Origin(), 0, depth+1)
					if sub != nil {
						for _, tn := range sub {
							set[tn] = true
						}
						why = append(why, w)
						return true
					}
				}
			}
			ok = false
		}
		return true
	})
	if !ok || len(set) == 0 {
		return nil, ""
	}
	var out []*types.TypeName
	for tn := range set {
		out = append(out, tn)
	}
	sort.Slice(out, func(i, j int) bool { return out[i].Name() < out[j].Name() })
	if len(why) > 2 {
		why = why[:2]
	}
	return out, strings.Join(why, "; ")
}
