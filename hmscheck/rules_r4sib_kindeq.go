package main

import (
	"fmt"
	"go/ast"
	"go/token"
	"go/types"
	"regexp"
	"sort"
	"strings"

	"golang.org/x/tools/go/packages"
)

// R-kind-shallow: equality of structured types / values is never decided by their kinds alone.

func init() {
	register(&Rule{ID: "R-kind-shallow", Floor: 8, Run: ruleR4KindShallow,
		Doc: "every comparison of the kinds of two different values of one data interface of the module (`a.Kind() == b.Kind()` / `!=` with a, b analyzer Types, runtime Values, parameter-list kinds) is enumerated. Kinds are equal for [int] and [str], for { temp: int } and { temp: str }, for ?int and ?str: for every kind whose struct holds components (the R-eq-dynamic / R-kind-recurse criterion) kind equality says nothing about the components. Such a comparison is admissible only as a step of a deep comparison: (1) the function that contains it is recursive over the structure (calls itself, or the method of the same name on another value: IsEqual), or hands BOTH operands to such a function / to a method of the structure's interface (a.IsEqual(b), TypeCheck(a, b)) on a path on which the kinds are equal (a kind test that short-cuts the deep comparison — `if a.Kind() == b.Kind() { accept }` in front of TypeCheck(a, b) — decides by the kinds alone) — the components are compared there; (2) it is a helper all of whose callers in the package are recursive over the structure (checkTypeKindEquality, called from TypeCheck only); (3) one operand is the receiver of a method of a struct without components (ValueInt.IsEqual: equal kinds then mean equal, component-free structs), or the receiver's component is itself compared in that method (identity of an internal pointer). Anywhere else the outcome 'kinds equal' is taken for 'types equal': the analyzer assigns a static type where only the top-level kind is known (obj[computed_key] typed as the first field's type when all fields have the same kind), no run-time validation is requested, and a [str] ends up in a variable of static type [int] (C12: a value crossing from dynamic to static typing is admitted only if it deeply conforms; C03)."})
}

var r4ksAnyCall = regexp.MustCompile(".")

func ruleR4KindShallow(c *Ctx) []Obligation {
	var out []Obligation
	pkgs := append([]*packages.Package(nil), c.All...)
	sort.Slice(pkgs, func(i, j int) bool { return pkgs[i].PkgPath < pkgs[j].PkgPath })
	dataIface := func(t types.Type) *types.Named {
		if t == nil {
			return nil
		}
		if pt, ok := t.(*types.Pointer); ok {
			t = pt.Elem()
		}
		n, ok := types.Unalias(t).(*types.Named)
		if !ok || n.Obj().Pkg() == nil || !strings.HasPrefix(n.Obj().Pkg().Path(), ModPath) {
			return nil
		}
		if it, ok := n.Underlying().(*types.Interface); ok && it.NumMethods() > 0 {
			ipath := n.Obj().Pkg().Path()
			if strings.HasSuffix(ipath, "/parser/ast") || strings.HasSuffix(ipath, "/analyzer/ast") && strings.HasPrefix(n.Obj().Name(), "Analyzed") {
				return nil // program trees
			}
			return n
		}
		return nil
	}
	// the interface a concrete struct belongs to: the data interface of its package that it implements and that has a Kind method
	familyOf := func(t types.Type) *types.Named {
		if n := dataIface(t); n != nil {
			return n
		}
		if pt, ok := t.(*types.Pointer); ok {
			t = pt.Elem()
		}
		n, ok := types.Unalias(t).(*types.Named)
		if !ok || n.Obj().Pkg() == nil {
			return nil
		}
		sc := n.Obj().Pkg().Scope()
		for _, name := range sc.Names() {
			tn, ok := sc.Lookup(name).(*types.TypeName)
			if !ok {
				continue
			}
			in := dataIface(tn.Type())
			if in == nil {
				continue
			}
			it := in.Underlying().(*types.Interface)
			hasKind := false
			for i := 0; i < it.NumMethods(); i++ {
				hasKind = hasKind || it.Method(i).Name() == "Kind"
			}
			if hasKind && (types.Implements(n, it) || types.Implements(types.NewPointer(n), it)) {
				return in
			}
		}
		return nil
	}
	var holds func(t types.Type, fam *types.Named, depth int) bool
	holds = func(t types.Type, fam *types.Named, depth int) bool {
		if depth > 4 {
			return false
		}
		if n, ok := types.Unalias(t).(*types.Named); ok && n == fam {
			return true
		}
		switch u := t.Underlying().(type) {
		case *types.Slice:
			return holds(u.Elem(), fam, depth+1)
		case *types.Pointer:
			return holds(u.Elem(), fam, depth+1)
		case *types.Map:
			return holds(u.Elem(), fam, depth+1)
		case *types.Struct:
			if _, named := types.Unalias(t).(*types.Named); named && depth > 0 {
				for i := 0; i < u.NumFields(); i++ {
					if holds(u.Field(i).Type(), fam, depth+1) {
						return true
					}
				}
			}
		}
		return false
	}
	for _, p := range pkgs {
		if !strings.HasPrefix(p.PkgPath, ModPath) {
			continue
		}
		info := p.TypesInfo
		decls := map[*types.Func]*ast.FuncDecl{}
		callsOf := map[*types.Func]map[*types.Func]bool{}
		family := map[*types.Func]bool{} // calls the method of its own name on another value
		for _, fd := range AllFuncDecls(p) {
			fn, _ := info.Defs[fd.Name].(*types.Func)
			if fn == nil || fd.Body == nil {
				continue
			}
			decls[fn] = fd
			callsOf[fn] = map[*types.Func]bool{}
			ast.Inspect(fd.Body, func(n ast.Node) bool {
				call, ok := n.(*ast.CallExpr)
				if !ok {
					return true
				}
				cal := CalleeOf(info, call)
				if cal == nil {
					return true
				}
				if cal.Pkg() == p.Types {
					callsOf[fn][cal] = true
				}
				if fd.Recv != nil && cal.Name() == fn.Name() && cal != fn {
					if cs, ok := cal.Type().(*types.Signature); ok && cs.Recv() != nil {
						family[fn] = true
					}
				}
				return true
			})
		}
		reaches := func(from, to *types.Func) bool {
			seen := map[*types.Func]bool{from: true}
			work := []*types.Func{from}
			for len(work) > 0 {
				x := work[len(work)-1]
				work = work[:len(work)-1]
				for y := range callsOf[x] {
					if y == to {
						return true
					}
					if !seen[y] {
						seen[y] = true
						work = append(work, y)
					}
				}
			}
			return false
		}
		recCache := map[*types.Func]int{}
		// recursive over a data structure: takes (or is a method of) a value of a data interface family and reaches itself
		isRec := func(fn *types.Func) bool {
			if v, ok := recCache[fn]; ok {
				return v == 1
			}
			sig := fn.Type().(*types.Signature)
			over := sig.Recv() != nil && familyOf(sig.Recv().Type()) != nil
			for i := 0; i < sig.Params().Len(); i++ {
				over = over || familyOf(sig.Params().At(i).Type()) != nil
			}
			r := over && (family[fn] || reaches(fn, fn))
			recCache[fn] = 0
			if r {
				recCache[fn] = 1
			}
			return r
		}
		// deep: the function is recursive over the structure, or hands both operands to a recursive function / a
		// method of the structure's interface (TypeCheck(a, b), a.IsEqual(b))
		deep := func(fn *types.Func, ta, tb string, site *ast.BinaryExpr) (bool, string) {
			if isRec(fn) {
				return true, "the function is recursive over the structure"
			}
			fd := decls[fn]
			if fd == nil || ta == "" {
				return false, ""
			}
			f := r2sibFuncOf(c, p, fd)
			var names []string
			var deepCalls []*ast.CallExpr
			ast.Inspect(fd.Body, func(n ast.Node) bool {
				call, ok := n.(*ast.CallExpr)
				if !ok {
					return true
				}
				cal := CalleeOf(info, call)
				if cal == nil || cal.Name() == "Kind" || cal.Pkg() == nil || !strings.HasPrefix(cal.Pkg().Path(), ModPath) {
					return true
				}
				cs, _ := cal.Type().(*types.Signature)
				isDeep := cal.Pkg() == p.Types && isRec(cal)
				if !isDeep && cs != nil && cs.Recv() != nil && dataIface(cs.Recv().Type()) != nil {
					isDeep = true // a method of the data interface, dispatched dynamically
				}
				if !isDeep {
					return true
				}
				var terms []string
				if sel, ok := ast.Unparen(call.Fun).(*ast.SelectorExpr); ok && cs != nil && cs.Recv() != nil {
					terms = append(terms, f.norm(sel.X))
				}
				for _, a := range call.Args {
					terms = append(terms, f.norm(a))
				}
				ha, hb := false, false
				for _, t := range terms {
					ha = ha || strings.Contains(t, ta)
					hb = hb || strings.Contains(t, tb)
				}
				if ha && hb {
					names = append(names, cal.Name())
					deepCalls = append(deepCalls, call)
				}
				return true
			})
			if len(names) > 0 && site != nil {
				// the deep comparison must be reached when the kinds are EQUAL: a kind test that short-cuts it
				// (`if a.Kind() == b.Kind() { accept }` before TypeCheck(a, b)) decides by the kinds alone
				e := r2sibEngineOf(c)
				if f.fn != nil {
					// the innermost function literal that contains the comparison is the region
					region := fd.Body.List
					ast.Inspect(fd.Body, func(n ast.Node) bool {
						if fl, ok := n.(*ast.FuncLit); ok && fl.Pos() <= site.Pos() && site.End() <= fl.End() {
							region = fl.Body.List
						}
						return true
					})
					e.busy[f.fn] = true
					sum := e.extract(f, region, r2sibOpts{Calls: r4ksAnyCall, NoInline: true, Only: map[string]bool{"call": true, "TypeCheck": true}}, 0)
					delete(e.busy, f.fn)
					if sum.ok {
						lit := f.atomOf(site, site.Op == token.EQL) // the literal that holds when the kinds are equal
						reached := false
						for _, ev := range sum.events {
							isDeep := false
							for _, dc := range deepCalls {
								isDeep = isDeep || ev.Call == dc
							}
							if !isDeep {
								continue
							}
							for _, cl := range ev.Guard.clauses {
								contra := false
								for _, l := range cl {
									if l.atom == lit.atom && l.val != lit.val {
										contra = true
									}
								}
								if !contra {
									reached = true
								}
							}
						}
						if !reached {
							return false, "the deep comparison " + strings.Join(r3usUniq(names), ", ") + " of the two operands is only reached when their kinds DIFFER: equal kinds short-cut it"
						}
					}
				}
			}
			if len(names) > 0 {
				sort.Strings(names)
				return true, "the function hands both operands to the deep comparison " + strings.Join(r3usUniq(names), ", ")
			}
			return false, ""
		}
		for _, fd := range AllFuncDecls(p) {
			fn, _ := info.Defs[fd.Name].(*types.Func)
			if fn == nil || fd.Body == nil {
				continue
			}
			f := r2sibFuncOf(c, p, fd)
			nSite := map[string]int{}
			ast.Inspect(fd.Body, func(n ast.Node) bool {
				be, ok := n.(*ast.BinaryExpr)
				if !ok || (be.Op != token.EQL && be.Op != token.NEQ) {
					return true
				}
				kindRecv := func(x ast.Expr) ast.Expr {
					call, ok := ast.Unparen(x).(*ast.CallExpr)
					if !ok || len(call.Args) != 0 {
						return nil
					}
					sel, ok := ast.Unparen(call.Fun).(*ast.SelectorExpr)
					if !ok || sel.Sel.Name != "Kind" {
						return nil
					}
					return sel.X
				}
				a, b := kindRecv(be.X), kindRecv(be.Y)
				if a == nil || b == nil {
					return true
				}
				fa, fb := familyOf(info.TypeOf(a)), familyOf(info.TypeOf(b))
				if fa == nil || fa != fb {
					return true
				}
				ta, tb := f.norm(a), f.norm(b)
				if ta == tb {
					return true
				}
				pa, pb := f.pretty(ta), f.pretty(tb)
				if pb < pa {
					pa, pb = pb, pa
				}
				key := fmt.Sprintf("%s.%s|kinds of %s and %s", relPkg(p.PkgPath), FuncName(fd), pa, pb)
				nSite[key]++
				if k := nSite[key]; k > 1 {
					key = fmt.Sprintf("%s #%d", key, k)
				}
				ob := Obligation{Key: key, Pos: c.Pos(be.Pos()), Nontrivial: true}
				// (3) one operand is the receiver of a method of a struct without components
				if fd.Recv != nil {
					for _, x := range []ast.Expr{a, b} {
						if id, ok := ast.Unparen(x).(*ast.Ident); ok && f.recv != nil && info.Uses[id] == f.recv {
							rt := f.recv.Type()
							if pt, ok := rt.(*types.Pointer); ok {
								rt = pt.Elem()
							}
							if st, ok := rt.Underlying().(*types.Struct); ok {
								comp := ""
								for i := 0; i < st.NumFields(); i++ {
									if holds(st.Field(i).Type(), fa, 1) {
										comp = st.Field(i).Name()
									}
								}
								if comp == "" {
									ob.Detail = fmt.Sprintf("one operand is the receiver, a %s: it has no components, equal kinds mean two component-free values of the same struct", types.TypeString(rt, func(p *types.Package) string { return p.Name() }))
									out = append(out, ob)
									return true
								}
								// the component itself is compared (identity of an internal pointer)
								cmpd := false
								ast.Inspect(fd.Body, func(m ast.Node) bool {
									if b2, ok := m.(*ast.BinaryExpr); ok && (b2.Op == token.EQL || b2.Op == token.NEQ) {
										for _, side := range []ast.Expr{b2.X, b2.Y} {
											if sel, ok := ast.Unparen(side).(*ast.SelectorExpr); ok && sel.Sel.Name == comp {
												if id, ok := ast.Unparen(sel.X).(*ast.Ident); ok && info.Uses[id] == f.recv {
													cmpd = true
												}
											}
										}
									}
									return true
								})
								if cmpd {
									ob.Detail = fmt.Sprintf("one operand is the receiver and its component %s is compared in the same function", comp)
									out = append(out, ob)
									return true
								}
							}
						}
					}
				}
				ok, why := deep(fn, ta, tb, be)
				if ok {
					ob.Detail = "a step of a deep comparison: " + why
					out = append(out, ob)
					return true
				}
				if why != "" {
					ob.Status = Violated
					ob.Detail = fmt.Sprintf("`%s`: %s. Equal kinds are taken for equal types although %s has kinds with components ([int] / [str], { a: int } / { a: str }, ?int / ?str)", exprStr(be), why, fa.Obj().Name())
					out = append(out, ob)
					return true
				}
				// (2) helper of deep comparisons
				var callers []*types.Func
				for g, cs := range callsOf {
					if cs[fn] && g != fn {
						callers = append(callers, g)
					}
				}
				sort.Slice(callers, func(i, j int) bool { return callers[i].Name() < callers[j].Name() })
				// every caller is recursive over the structure, or is in turn a helper of such callers only
				var helperOK func(g *types.Func, depth int) bool
				helperOK = func(g *types.Func, depth int) bool {
					if ok, _ := deep(g, "", "", nil); ok {
						return true
					}
					if depth >= 3 {
						return false
					}
					n := 0
					for h, cs := range callsOf {
						if cs[g] && h != g {
							n++
							if !helperOK(h, depth+1) {
								return false
							}
						}
					}
					return n > 0
				}
				allDeep := len(callers) > 0
				var shallow []string
				for _, g := range callers {
					if !helperOK(g, 1) {
						allDeep = false
						shallow = append(shallow, g.Name())
					}
				}
				if allDeep {
					var ns []string
					for _, g := range callers {
						ns = append(ns, g.Name())
					}
					ob.Detail = "a helper of deep comparisons only: every caller in the package (" + strings.Join(ns, ", ") + ") compares the components"
					out = append(out, ob)
					return true
				}
				ob.Status = Violated
				who := "it has no caller in the package"
				if len(shallow) > 0 {
					who = "its caller(s) " + strings.Join(shallow, ", ") + " do not either"
				}
				ob.Detail = fmt.Sprintf("`%s` compares the kinds of two %s values and nothing compares their components: the function is not recursive and calls no deep comparison (TypeCheck / IsEqual …), %s. Equal kinds are taken for equal types although %s has kinds with components ([int] / [str], { a: int } / { a: str }, ?int / ?str)", exprStr(be), fa.Obj().Name(), who, fa.Obj().Name())
				out = append(out, ob)
				return true
			})
		}
	}
	sort.SliceStable(out, func(i, j int) bool { return out[i].Key < out[j].Key })
	return out
}
