package main

import (
	"fmt"
	"go/ast"
	"go/token"
	"go/types"
	"sort"
	"strings"
)

// Origin analysis for unguarded type assertions (used by R-kind-assert).
//
// Question: which concrete types can the interface-typed expression X hold,
// when no kind test dominates `X.(T)`? The answer is computed on demand by
// following, flow-insensitively, where the value can have been copied from:
//
//   - a local variable: every assignment / definition / range binding of it in
//     the function;
//   - a parameter: the argument bound at the call being followed, otherwise
//     the arguments of every call site when every reference to the function is
//     a direct call;
//   - a call of a module function: every returned expression (with the
//     arguments bound to the parameters);
//   - a field read P.F: the value the literal that created P's object gives to
//     F (P's objects are found the same way: locals, parameters, calls, `&x`,
//     elements of a container, other fields), plus every assignment `….F = v`
//     of the module (field-based); when P's objects are not known, every
//     literal of the struct as well;
//   - an element of a slice / map / array (index, range value): everything
//     stored as an element of that container (`append`, `c[i] = v`, literal
//     elements), the container being followed like any other value; a
//     container held in a field is followed through every store to the field,
//     and only when the field is used for nothing but range / index / len /
//     append-to-itself (no aliasing);
//   - a conversion, parenthesis, interface-to-interface assertion: its operand.
//
// A source of concrete static type ends the walk with that type. Anything else
// (interface method results, channel receives, type-switch bindings, escaping
// addresses, whole-struct overwrites through a pointer, budget exhausted, …)
// makes the answer "unknown", which the rule reports as Undecided.

type tblOrgCtx struct {
	f     *tblFn
	bind  map[types.Object]tblOrgBound
	depth int
}

type tblOrgBound struct {
	ctx *tblOrgCtx
	e   ast.Expr
}

type tblTypeSet struct {
	types   map[*types.TypeName]string // concrete type → where a value of it comes from
	consts  map[string]string          // constant mode: value → where it comes from
	unknown string                     // non-empty: why the set is not complete
	// fields whose objects could not be told apart (every literal of the struct was taken): the set is
	// complete but may be too large
	fieldBased []string
}

func newTblTypeSet() *tblTypeSet {
	return &tblTypeSet{types: map[*types.TypeName]string{}, consts: map[string]string{}}
}

func (s *tblTypeSet) fail(why string) {
	if s.unknown == "" {
		s.unknown = why
	}
}

func (s *tblTypeSet) names() []string {
	var out []string
	for tn := range s.types {
		out = append(out, tn.Name())
	}
	sort.Strings(out)
	return out
}

type tblOrgObj struct {
	ctx *tblOrgCtx
	lit *ast.CompositeLit // nil: a zero value (`var x T`, new(T))
	// the struct-valued local variables the object was held in on its way: `x.F = v` written through
	// such a variable belongs to this object (and to no object that never was in x)
	locals []tblOrgLocal
}

type tblOrgLocal struct {
	ctx *tblOrgCtx
	v   *types.Var
}

type tblOrgStore struct {
	f   *tblFn // nil at package level
	pkg *types.Info
	val ast.Expr
	lit bool // the store is a field of a composite literal (belongs to one object)
}

type tblOrigin struct {
	m      *tblModel
	steps  int
	busy   map[string]bool
	stores map[*types.Var][]tblOrgStore // struct field → stores (assignments and literal fields)
	elems  map[*types.Var][]tblOrgStore // struct field holding a container → element stores `X.F[i] = v`
	// stores `x.F = v` through a struct-valued local variable x: local → field → stores
	localStores map[*types.Var]map[*types.Var][]tblOrgStore
	// struct field → why it cannot be followed (aliased container, address taken, tuple store, …)
	opaque map[*types.Var]string
	// struct types overwritten as a whole through a pointer (`*p = v`)
	overwritten map[*types.TypeName]string
	out         *tblTypeSet
	// constant mode: the walk ends at constant expressions (which constants can the expression hold?)
	constMode bool
	litFns    map[*ast.FuncLit]*tblFn
	pkgFns    map[*types.Package]*tblFn
	globUses  map[*types.Var][]tblOrgUse
}

// tblOrgUse: one reference to a package-level variable.
type tblOrgUse struct {
	f  *tblFn // enclosing function declaration (nil: package level)
	id *ast.Ident
}

const tblOrgBudget = 40000

func (m *tblModel) origin() *tblOrigin {
	tblModelMu.Lock()
	defer tblModelMu.Unlock()
	if m.originCache != nil {
		return m.originCache
	}
	o := &tblOrigin{m: m, stores: map[*types.Var][]tblOrgStore{}, elems: map[*types.Var][]tblOrgStore{}, localStores: map[*types.Var]map[*types.Var][]tblOrgStore{},
		opaque: map[*types.Var]string{}, overwritten: map[*types.TypeName]string{}}
	o.index()
	m.originCache = o
	return o
}

func tblFieldOf(info *types.Info, e ast.Expr) *types.Var {
	se, ok := ast.Unparen(e).(*ast.SelectorExpr)
	if !ok {
		return nil
	}
	sel := info.Selections[se]
	if sel == nil || sel.Kind() != types.FieldVal {
		return nil
	}
	v, _ := sel.Obj().(*types.Var)
	return v
}

// tblStructLocal: e is a local variable (or parameter) whose type is a struct
// held by value.
func tblStructLocal(info *types.Info, e ast.Expr) *types.Var {
	id, ok := ast.Unparen(e).(*ast.Ident)
	if !ok {
		return nil
	}
	v, ok := info.Uses[id].(*types.Var)
	if !ok || v.IsField() || v.Pkg() == nil || v.Parent() == nil || v.Parent() == v.Pkg().Scope() {
		return nil
	}
	if _, isS := types.Unalias(v.Type()).Underlying().(*types.Struct); !isS {
		return nil
	}
	return v
}

func tblIsContainer(t types.Type) bool {
	if t == nil {
		return false
	}
	switch types.Unalias(t).Underlying().(type) {
	case *types.Slice, *types.Map, *types.Array:
		return true
	}
	return false
}

func tblBuiltinName(info *types.Info, call *ast.CallExpr) string {
	if id, ok := ast.Unparen(call.Fun).(*ast.Ident); ok {
		if b, ok := info.Uses[id].(*types.Builtin); ok {
			return b.Name()
		}
	}
	return ""
}

// index records every store to a struct field of the module and the fields
// whose use makes them impossible to follow.
func (o *tblOrigin) index() {
	m := o.m
	for _, p := range m.c.All {
		info := p.TypesInfo
		for _, file := range p.Syntax {
			var fstack []*tblFn
			par := map[ast.Node]ast.Node{}
			var stack []ast.Node
			ast.Inspect(file, func(n ast.Node) bool {
				if n == nil {
					top := stack[len(stack)-1]
					stack = stack[:len(stack)-1]
					if fd, ok := top.(*ast.FuncDecl); ok && len(fstack) > 0 && fstack[len(fstack)-1] == m.fnByDecl[fd] {
						fstack = fstack[:len(fstack)-1]
					}
					return true
				}
				if len(stack) > 0 {
					par[n] = stack[len(stack)-1]
				}
				stack = append(stack, n)
				var cur *tblFn
				if fd, ok := n.(*ast.FuncDecl); ok {
					if f := m.fnByDecl[fd]; f != nil {
						fstack = append(fstack, f)
					}
				}
				if len(fstack) > 0 {
					cur = fstack[len(fstack)-1]
				}
				switch x := n.(type) {
				case *ast.CompositeLit:
					t := types.Unalias(info.TypeOf(x))
					if pt, ok := t.(*types.Pointer); ok {
						t = types.Unalias(pt.Elem())
					}
					st, ok := t.Underlying().(*types.Struct)
					if !ok {
						return true
					}
					for i, el := range x.Elts {
						var fv *types.Var
						val := el
						if kv, ok := el.(*ast.KeyValueExpr); ok {
							val = kv.Value
							if id, ok := kv.Key.(*ast.Ident); ok {
								fv, _ = info.Uses[id].(*types.Var)
								if fv == nil {
									for j := 0; j < st.NumFields(); j++ {
										if st.Field(j).Name() == id.Name {
											fv = st.Field(j)
										}
									}
								}
							}
						} else if i < st.NumFields() {
							fv = st.Field(i)
						}
						if fv != nil {
							o.stores[fv.Origin()] = append(o.stores[fv.Origin()], tblOrgStore{f: cur, pkg: info, val: val, lit: true})
						}
					}
				case *ast.AssignStmt:
					for i, l := range x.Lhs {
						l = ast.Unparen(l)
						if fv := tblFieldOf(info, l); fv != nil {
							fv = fv.Origin()
							switch {
							case len(x.Lhs) == len(x.Rhs) && x.Tok == token.ASSIGN:
								if lv := tblStructLocal(info, l.(*ast.SelectorExpr).X); lv != nil {
									if o.localStores[lv] == nil {
										o.localStores[lv] = map[*types.Var][]tblOrgStore{}
									}
									o.localStores[lv][fv] = append(o.localStores[lv][fv], tblOrgStore{f: cur, pkg: info, val: x.Rhs[i]})
									continue
								}
								o.stores[fv] = append(o.stores[fv], tblOrgStore{f: cur, pkg: info, val: x.Rhs[i]})
							case x.Tok != token.ASSIGN && tblIsContainer(fv.Type()):
								o.opaque[fv] = "updated with " + x.Tok.String() + " at " + m.c.Pos(x.Pos())
							case len(x.Lhs) != len(x.Rhs):
								o.opaque[fv] = "assigned from a multi-value expression at " + m.c.Pos(x.Pos())
							}
							continue
						}
						if ix, ok := l.(*ast.IndexExpr); ok {
							if fv := tblFieldOf(info, ix.X); fv != nil && len(x.Lhs) == len(x.Rhs) {
								o.elems[fv.Origin()] = append(o.elems[fv.Origin()], tblOrgStore{f: cur, pkg: info, val: x.Rhs[i]})
							}
						}
						// *p = v: the whole object is replaced
						if se, ok := l.(*ast.StarExpr); ok {
							if nt, ok := types.Unalias(info.TypeOf(se)).(*types.Named); ok {
								if _, isS := nt.Underlying().(*types.Struct); isS {
									o.overwritten[nt.Obj()] = m.c.Pos(x.Pos())
								}
							}
						}
					}
				case *ast.SelectorExpr:
					// how a container-valued field is used
					fv := tblFieldOf(info, x)
					if fv == nil || !tblIsContainer(fv.Type()) {
						return true
					}
					fv = fv.Origin()
					switch pa := par[x].(type) {
					case *ast.RangeStmt:
						if pa.X == ast.Expr(x) {
							return true
						}
					case *ast.IndexExpr:
						if pa.X == ast.Expr(x) {
							return true
						}
					case *ast.AssignStmt:
						for _, l := range pa.Lhs {
							if l == ast.Expr(x) {
								return true
							}
						}
					case *ast.KeyValueExpr:
						return true
					case *ast.CallExpr:
						switch tblBuiltinName(info, pa) {
						case "len", "cap":
							return true
						case "append":
							// append(X.F, …) assigned back to a field of the same name
							if len(pa.Args) > 0 && pa.Args[0] == ast.Expr(x) {
								if as, ok := par[pa].(*ast.AssignStmt); ok && len(as.Lhs) == 1 && tblFieldOf(info, as.Lhs[0]) != nil && tblFieldOf(info, as.Lhs[0]).Origin() == fv {
									return true
								}
							}
						}
					}
					if _, seen := o.opaque[fv]; !seen {
						o.opaque[fv] = "the container is copied or handed on at " + m.c.Pos(x.Pos())
					}
				case *ast.UnaryExpr:
					if x.Op == token.AND {
						if fv := tblFieldOf(info, x.X); fv != nil {
							if _, isI := types.Unalias(fv.Type()).Underlying().(*types.Interface); isI || tblIsContainer(fv.Type()) {
								o.opaque[fv.Origin()] = "its address is taken at " + m.c.Pos(x.Pos())
							}
						}
					}
				}
				return true
			})
		}
	}
}

// exprTypes: the concrete types the interface-typed expression e (in f) can hold.
// constValues: the constants the expression e (in f) can hold, by exact value.
func (o *tblOrigin) constValues(f *tblFn, e ast.Expr) *tblTypeSet {
	o.steps = 0
	o.busy = map[string]bool{}
	o.out = newTblTypeSet()
	o.constMode = true
	defer func() { o.constMode = false }()
	o.values(&tblOrgCtx{f: f}, e, func(ctx *tblOrgCtx, src ast.Expr) {
		info := ctx.f.Pkg.TypesInfo
		if tv, ok := info.Types[src]; ok && tv.Value != nil {
			v := tv.Value.ExactString()
			if _, seen := o.out.consts[v]; !seen {
				o.out.consts[v] = o.m.c.Pos(src.Pos())
			}
			return
		}
		o.out.fail(fmt.Sprintf("%s (%s) is not a constant", tblTrunc(exprStr(src), 60), o.m.c.Pos(src.Pos())))
	})
	return o.out
}

// zero: a zero value flows (constant mode: the zero constant of the type).
func (o *tblOrigin) zero(t types.Type, where token.Pos) {
	if !o.constMode || t == nil {
		return
	}
	v := ""
	if b, ok := types.Unalias(t).Underlying().(*types.Basic); ok {
		switch {
		case b.Info()&types.IsInteger != 0:
			v = "0"
		case b.Info()&types.IsString != 0:
			v = `""`
		case b.Info()&types.IsBoolean != 0:
			v = "false"
		}
	}
	if v == "" {
		o.out.fail("zero value of " + t.String())
		return
	}
	if _, seen := o.out.consts[v]; !seen {
		o.out.consts[v] = "zero value at " + o.m.c.Pos(where)
	}
}

func (o *tblOrigin) exprTypes(f *tblFn, e ast.Expr) *tblTypeSet {
	o.steps = 0
	o.busy = map[string]bool{}
	o.out = newTblTypeSet()
	o.values(&tblOrgCtx{f: f}, e, func(ctx *tblOrgCtx, src ast.Expr) {
		o.typeOf(ctx, src)
	})
	return o.out
}

// typeOf records the static type of a terminal source.
func (o *tblOrigin) typeOf(ctx *tblOrgCtx, src ast.Expr) {
	info := ctx.f.Pkg.TypesInfo
	t := info.TypeOf(src)
	if t == nil {
		o.out.fail("untyped source " + exprStr(src))
		return
	}
	if tblIsNil(info, src) {
		return
	}
	t = types.Unalias(t)
	if pt, ok := t.(*types.Pointer); ok {
		t = types.Unalias(pt.Elem())
	}
	nt, ok := t.(*types.Named)
	if !ok {
		o.out.fail("source " + exprStr(src) + " of unnamed type")
		return
	}
	if _, isI := nt.Underlying().(*types.Interface); isI {
		o.out.fail(fmt.Sprintf("%s (%s) cannot be followed further", exprStr(src), o.m.c.Pos(src.Pos())))
		return
	}
	if _, seen := o.out.types[nt.Obj()]; !seen {
		o.out.types[nt.Obj()] = fmt.Sprintf("%s at %s", tblTrunc(exprStr(src), 60), o.m.c.Pos(src.Pos()))
	}
}

func (o *tblOrigin) enter(kind string, ctx *tblOrgCtx, n ast.Node) (string, bool) {
	o.steps++
	if o.steps > tblOrgBudget {
		o.out.fail("analysis budget exhausted")
		return "", false
	}
	if ctx.depth > 12 {
		o.out.fail("call chain too deep")
		return "", false
	}
	// the binding environment is part of the identity of a query only through the function and the
	// call depth; a repeated query inside itself contributes nothing new to a union
	env := ""
	if len(ctx.bind) > 0 {
		env = fmt.Sprintf("%p", ctx)
	}
	key := fmt.Sprintf("%s|%p|%s|%d|%d", kind, ctx.f, env, n.Pos(), n.End())
	if o.busy[key] {
		return "", false
	}
	o.busy[key] = true
	return key, true
}

func tblIsIfaceType(t types.Type) bool {
	if t == nil {
		return false
	}
	_, ok := types.Unalias(t).Underlying().(*types.Interface)
	return ok
}

// values follows the interface-typed expression e back to its terminal
// sources and calls sink for each.
func (o *tblOrigin) values(ctx *tblOrgCtx, e ast.Expr, sink func(*tblOrgCtx, ast.Expr)) {
	e = ast.Unparen(e)
	info := ctx.f.Pkg.TypesInfo
	if o.out.unknown != "" {
		return
	}
	if o.constMode {
		// a constant expression ends the walk
		if tv, ok := info.Types[e]; ok && tv.Value != nil {
			sink(ctx, e)
			return
		}
	} else {
		// a source of concrete static type ends the walk
		if t := info.TypeOf(e); t != nil && !tblIsIfaceType(t) {
			sink(ctx, e)
			return
		}
		if tblIsNil(info, e) {
			return
		}
	}
	key, ok := o.enter("v", ctx, e)
	if !ok {
		return
	}
	defer delete(o.busy, key)
	switch x := e.(type) {
	case *ast.Ident:
		o.identSources(ctx, x, func(c2 *tblOrgCtx, src ast.Expr, elem bool) {
			if elem {
				o.elements(c2, src, func(c3 *tblOrgCtx, s3 ast.Expr) { o.values(c3, s3, sink) })
			} else {
				o.values(c2, src, sink)
			}
		})
	case *ast.CallExpr:
		if tv, ok := info.Types[x.Fun]; ok && tv.IsType() && len(x.Args) == 1 {
			o.values(ctx, x.Args[0], sink)
			return
		}
		o.callResults(ctx, x, 0, func(c2 *tblOrgCtx, r ast.Expr) { o.values(c2, r, sink) })
	case *ast.TypeAssertExpr:
		o.values(ctx, x.X, sink)
	case *ast.SelectorExpr:
		fv := tblFieldOf(info, x)
		if fv == nil {
			o.out.fail(exprStr(x) + " is not a field")
			return
		}
		o.fieldValues(ctx, x.X, fv.Origin(), func(c2 *tblOrgCtx, v ast.Expr) { o.values(c2, v, sink) })
	case *ast.IndexExpr:
		if _, isMap := types.Unalias(info.TypeOf(x.X)).Underlying().(*types.Map); isMap {
			o.zero(info.TypeOf(x), x.Pos()) // a missing key
		}
		o.elements(ctx, x.X, func(c2 *tblOrgCtx, v ast.Expr) { o.values(c2, v, sink) })
	case *ast.StarExpr:
		// *p with p a pointer to an interface value: what p points to
		o.pointees(ctx, x.X, func(c2 *tblOrgCtx, v ast.Expr) { o.values(c2, v, sink) })
	default:
		o.out.fail(fmt.Sprintf("%s (%s) cannot be followed", tblTrunc(exprStr(e), 60), o.m.c.Pos(e.Pos())))
	}
}

// pointees: p is a pointer; the expressions whose address it can hold.
func (o *tblOrigin) pointees(ctx *tblOrgCtx, p ast.Expr, sink func(*tblOrgCtx, ast.Expr)) {
	p = ast.Unparen(p)
	key, ok := o.enter("p", ctx, p)
	if !ok {
		return
	}
	defer delete(o.busy, key)
	switch x := p.(type) {
	case *ast.UnaryExpr:
		if x.Op == token.AND {
			sink(ctx, x.X)
			return
		}
	case *ast.Ident:
		o.identSources(ctx, x, func(c2 *tblOrgCtx, src ast.Expr, elem bool) {
			if elem {
				o.elements(c2, src, func(c3 *tblOrgCtx, s3 ast.Expr) { o.pointees(c3, s3, sink) })
			} else {
				o.pointees(c2, src, sink)
			}
		})
		return
	case *ast.CallExpr:
		o.callResults(ctx, x, 0, func(c2 *tblOrgCtx, r ast.Expr) { o.pointees(c2, r, sink) })
		return
	}
	o.out.fail(fmt.Sprintf("pointer %s (%s) cannot be followed", tblTrunc(exprStr(p), 60), o.m.c.Pos(p.Pos())))
}

// identSources: where the value of a local variable / parameter comes from.
// elem=true: the value is an element of the container expression.
func (o *tblOrigin) identSources(ctx *tblOrgCtx, id *ast.Ident, sink func(ctx *tblOrgCtx, src ast.Expr, elem bool)) {
	f := ctx.f
	info := f.Pkg.TypesInfo
	obj := info.Uses[id]
	if obj == nil {
		obj = info.Defs[id]
	}
	v, ok := obj.(*types.Var)
	if !ok || v.IsField() {
		o.out.fail(id.Name + " is not a variable")
		return
	}
	if v.Pkg() == nil || v.Parent() == nil {
		o.out.fail("variable " + id.Name + " cannot be followed")
		return
	}
	if v.Parent() == v.Pkg().Scope() {
		o.globalSources(ctx, v, sink)
		return
	}
	// the parameter of a function literal: the arguments of the calls of the closure
	if lit := o.litOfParam(f, v); lit != nil {
		o.closureArgs(ctx, lit, v, sink)
		return
	}
	// parameter / receiver
	if _, isParam := tblParamIndex(f, v); isParam {
		if o.assigned(f, v) {
			o.out.fail("parameter " + id.Name + " is reassigned")
			return
		}
		if b, ok := ctx.bind[v]; ok {
			sink(b.ctx, b.e, false)
			return
		}
		o.allCallers(ctx, v, sink)
		return
	}
	// a named result is a local that starts with its zero value
	if sig := f.Obj.Type().(*types.Signature); sig.Results() != nil {
		for i := 0; i < sig.Results().Len(); i++ {
			if sig.Results().At(i) == v {
				// unless the body begins by assigning it
				assignedFirst := false
				for _, st := range f.Decl.Body.List {
					as, ok := st.(*ast.AssignStmt)
					if !ok {
						break
					}
					for _, l := range as.Lhs {
						if lid, ok := ast.Unparen(l).(*ast.Ident); ok && info.Uses[lid] == obj {
							assignedFirst = true
						}
					}
					if assignedFirst {
						break
					}
				}
				if !assignedFirst {
					o.zero(v.Type(), v.Pos())
				}
			}
		}
	}
	// a variable of an enclosing function captured by a closure is a local of the same declaration:
	// every assignment in the declaration counts
	g := o.m.guardFor(f)
	if tblIsIfaceType(v.Type()) && g.escaping[v] {
		// escaping also covers "assigned inside a closure", which the scan below sees; an address that is
		// taken does not
		addr := false
		ast.Inspect(f.Decl.Body, func(n ast.Node) bool {
			if u, ok := n.(*ast.UnaryExpr); ok && u.Op == token.AND {
				if uid, ok := ast.Unparen(u.X).(*ast.Ident); ok && info.Uses[uid] == obj {
					addr = true
				}
			}
			return true
		})
		if addr {
			o.out.fail("the address of " + id.Name + " is taken")
			return
		}
	}
	found := false
	ast.Inspect(f.Decl.Body, func(n ast.Node) bool {
		switch x := n.(type) {
		case *ast.AssignStmt:
			for i, l := range x.Lhs {
				lid, ok := ast.Unparen(l).(*ast.Ident)
				if !ok || (info.Defs[lid] != obj && info.Uses[lid] != obj) {
					continue
				}
				found = true
				switch {
				case x.Tok != token.ASSIGN && x.Tok != token.DEFINE:
					o.out.fail(id.Name + " is updated with " + x.Tok.String())
				case len(x.Lhs) == len(x.Rhs):
					sink(ctx, x.Rhs[i], false)
				case len(x.Rhs) == 1:
					switch r := ast.Unparen(x.Rhs[0]).(type) {
					case *ast.CallExpr:
						o.callResults(ctx, r, i, func(c2 *tblOrgCtx, e2 ast.Expr) { sink(c2, e2, false) })
					case *ast.IndexExpr:
						if i == 0 {
							// v, ok := m[k]: with a named ok the code can tell a missing key from a stored zero
							if okid, isId := x.Lhs[1].(*ast.Ident); !isId || okid.Name == "_" {
								o.zero(v.Type(), r.Pos())
							}
							sink(ctx, r.X, true)
						}
					case *ast.TypeAssertExpr:
						if i == 0 {
							sink(ctx, r.X, false)
						}
					default:
						o.out.fail(id.Name + " is bound by " + tblTrunc(exprStr(x.Rhs[0]), 40))
					}
				}
			}
		case *ast.ValueSpec:
			for i, nm := range x.Names {
				if info.Defs[nm] != obj {
					continue
				}
				found = true
				switch {
				case len(x.Values) == 0:
					o.zero(v.Type(), nm.Pos())
				case len(x.Values) == len(x.Names):
					sink(ctx, x.Values[i], false)
				case len(x.Values) == 1:
					if call, ok := ast.Unparen(x.Values[0]).(*ast.CallExpr); ok {
						o.callResults(ctx, call, i, func(c2 *tblOrgCtx, e2 ast.Expr) { sink(c2, e2, false) })
					} else {
						o.out.fail(id.Name + " is bound by " + tblTrunc(exprStr(x.Values[0]), 40))
					}
				}
			}
		case *ast.RangeStmt:
			if kid, ok := x.Key.(*ast.Ident); ok && (info.Defs[kid] == obj || info.Uses[kid] == obj) {
				found = true
				// the key of a map whose keys are followed is not supported
				if _, isMap := types.Unalias(info.TypeOf(x.X)).Underlying().(*types.Map); isMap {
					o.out.fail(id.Name + " is a map key")
				}
			}
			if x.Value != nil {
				if vid, ok := x.Value.(*ast.Ident); ok && (info.Defs[vid] == obj || info.Uses[vid] == obj) {
					found = true
					if _, isChan := types.Unalias(info.TypeOf(x.X)).Underlying().(*types.Chan); isChan {
						o.out.fail(id.Name + " is received from a channel")
					} else {
						sink(ctx, x.X, true)
					}
				}
			}
		case *ast.TypeSwitchStmt:
			if as, ok := x.Assign.(*ast.AssignStmt); ok && len(as.Lhs) == 1 {
				// the implicit per-clause objects
				for _, cl := range x.Body.List {
					if info.Implicits[cl] == obj {
						found = true
						if ta, ok := ast.Unparen(as.Rhs[0]).(*ast.TypeAssertExpr); ok {
							sink(ctx, ta.X, false)
						}
					}
				}
			}
		}
		return true
	})
	if !found {
		if sig := f.Obj.Type().(*types.Signature); sig.Results() != nil {
			for i := 0; i < sig.Results().Len(); i++ {
				if sig.Results().At(i) == v {
					return // a named result that is never assigned: its zero value (recorded above)
				}
			}
		}
		o.out.fail("no definition of " + id.Name + " found")
	}
}

// pkgFn: a pseudo function standing for the package-level initialisers of a package.
func (o *tblOrigin) pkgFn(pkg *types.Package) *tblFn {
	if o.pkgFns == nil {
		o.pkgFns = map[*types.Package]*tblFn{}
	}
	if f := o.pkgFns[pkg]; f != nil {
		return f
	}
	for _, p := range o.m.c.All {
		if p.Types == pkg {
			sig := types.NewSignatureType(nil, nil, nil, nil, nil, false)
			f := &tblFn{Pkg: p, Obj: types.NewFunc(token.NoPos, pkg, "<package initialisers>", sig),
				Decl: &ast.FuncDecl{Name: ast.NewIdent("init"), Type: &ast.FuncType{Params: &ast.FieldList{}}, Body: &ast.BlockStmt{}}}
			o.pkgFns[pkg] = f
			return f
		}
	}
	return nil
}

// litFn: a function literal seen as a function of its own (its body, its parameters).
func (o *tblOrigin) litFn(host *tblFn, lit *ast.FuncLit) *tblFn {
	if o.litFns == nil {
		o.litFns = map[*ast.FuncLit]*tblFn{}
	}
	if f := o.litFns[lit]; f != nil {
		return f
	}
	sig, _ := host.Pkg.TypesInfo.TypeOf(lit).(*types.Signature)
	if sig == nil {
		return nil
	}
	f := &tblFn{Pkg: host.Pkg, Obj: types.NewFunc(lit.Pos(), host.Pkg.Types, "func literal", sig),
		Decl: &ast.FuncDecl{Name: ast.NewIdent("func"), Type: lit.Type, Body: lit.Body}}
	o.litFns[lit] = f
	return f
}

// litOfParam: the function literal (inside f) that declares parameter v.
func (o *tblOrigin) litOfParam(f *tblFn, v *types.Var) *ast.FuncLit {
	info := f.Pkg.TypesInfo
	var out *ast.FuncLit
	ast.Inspect(f.Decl.Body, func(n ast.Node) bool {
		lit, ok := n.(*ast.FuncLit)
		if !ok || lit.Type.Params == nil {
			return true
		}
		for _, fld := range lit.Type.Params.List {
			for _, nm := range fld.Names {
				if info.Defs[nm] == types.Object(v) {
					out = lit
				}
			}
		}
		return true
	})
	return out
}

// closureArgs: parameter v of the function literal lit takes the arguments of
// the calls of the closure: the literal is called on the spot, or bound once
// to a local variable that is used for nothing but calling it.
func (o *tblOrigin) closureArgs(ctx *tblOrgCtx, lit *ast.FuncLit, v *types.Var, sink func(*tblOrgCtx, ast.Expr, bool)) {
	f := ctx.f
	info := f.Pkg.TypesInfo
	idx := -1
	n := 0
	for _, fld := range lit.Type.Params.List {
		for _, nm := range fld.Names {
			if info.Defs[nm] == types.Object(v) {
				idx = n
			}
			n++
		}
		if len(fld.Names) == 0 {
			n++
		}
	}
	if sig, ok := info.TypeOf(lit).(*types.Signature); !ok || idx < 0 || (sig.Variadic() && idx >= sig.Params().Len()-1) {
		o.out.fail("parameter " + v.Name() + " of a function literal")
		return
	}
	if o.assigned(o.litFn(f, lit), v) {
		o.out.fail("parameter " + v.Name() + " is reassigned")
		return
	}
	par := o.m.guardFor(f).parents
	var holder types.Object
	switch pa := par[lit].(type) {
	case *ast.CallExpr:
		if ast.Unparen(pa.Fun) == ast.Expr(lit) && idx < len(pa.Args) && !pa.Ellipsis.IsValid() {
			sink(ctx, pa.Args[idx], false)
			return
		}
	case *ast.AssignStmt:
		for i, r := range pa.Rhs {
			if r == ast.Expr(lit) && len(pa.Lhs) == len(pa.Rhs) {
				if lid, ok := pa.Lhs[i].(*ast.Ident); ok {
					holder = info.Defs[lid]
				}
			}
		}
	case *ast.ValueSpec:
		for i, r := range pa.Values {
			if r == ast.Expr(lit) && len(pa.Names) == len(pa.Values) {
				holder = info.Defs[pa.Names[i]]
			}
		}
	}
	if holder == nil || o.assigned(f, holder) {
		o.out.fail("the function literal that declares " + v.Name() + " is not bound once to a local")
		return
	}
	calls := 0
	ast.Inspect(f.Decl.Body, func(n ast.Node) bool {
		id, ok := n.(*ast.Ident)
		if !ok || info.Uses[id] != holder {
			return true
		}
		call, ok := par[id].(*ast.CallExpr)
		if !ok || ast.Unparen(call.Fun) != ast.Expr(id) || call.Ellipsis.IsValid() || idx >= len(call.Args) {
			o.out.fail(fmt.Sprintf("closure %s is used other than by a plain call at %s", id.Name, o.m.c.Pos(id.Pos())))
			return true
		}
		calls++
		sink(ctx, call.Args[idx], false)
		return true
	})
	_ = calls
}

// globalUsesOf: every reference to a package-level variable in the module.
func (o *tblOrigin) globalUsesOf(v *types.Var) []tblOrgUse {
	if o.globUses == nil {
		o.globUses = map[*types.Var][]tblOrgUse{}
		for _, p := range o.m.c.All {
			for _, file := range p.Syntax {
				for _, d := range file.Decls {
					var cur *tblFn
					if fd, ok := d.(*ast.FuncDecl); ok {
						cur = o.m.fnByDecl[fd]
					}
					ast.Inspect(d, func(n ast.Node) bool {
						id, ok := n.(*ast.Ident)
						if !ok {
							return true
						}
						if gv, ok := p.TypesInfo.Uses[id].(*types.Var); ok && !gv.IsField() && gv.Pkg() != nil && gv.Parent() == gv.Pkg().Scope() {
							o.globUses[gv] = append(o.globUses[gv], tblOrgUse{cur, id})
						}
						return true
					})
				}
			}
		}
	}
	return o.globUses[v]
}

// globalSources: a package-level variable of the module: its initialiser and
// every assignment to it anywhere.
func (o *tblOrigin) globalSources(ctx *tblOrgCtx, v *types.Var, sink func(*tblOrgCtx, ast.Expr, bool)) {
	if !strings.HasPrefix(v.Pkg().Path(), ModPath) {
		o.out.fail("variable " + v.Name() + " of another module")
		return
	}
	pf := o.pkgFn(v.Pkg())
	if pf == nil {
		o.out.fail("package of " + v.Name() + " not loaded")
		return
	}
	found := false
	for _, file := range pf.Pkg.Syntax {
		for _, d := range file.Decls {
			gd, ok := d.(*ast.GenDecl)
			if !ok || gd.Tok != token.VAR {
				continue
			}
			for _, sp := range gd.Specs {
				vs := sp.(*ast.ValueSpec)
				for i, nm := range vs.Names {
					if pf.Pkg.TypesInfo.Defs[nm] != types.Object(v) {
						continue
					}
					found = true
					switch {
					case len(vs.Values) == 0:
						o.zero(v.Type(), nm.Pos())
					case len(vs.Values) == len(vs.Names):
						sink(&tblOrgCtx{f: pf, depth: ctx.depth}, vs.Values[i], false)
					default:
						o.out.fail("package-level variable " + v.Name() + " is initialised from a multi-value expression")
					}
				}
			}
		}
	}
	if !found {
		o.out.fail("declaration of " + v.Name() + " not found")
		return
	}
	for _, u := range o.globalUsesOf(v) {
		if u.f == nil {
			continue // read in another initialiser
		}
		par := o.m.guardFor(u.f).parents
		var node ast.Node = u.id
		if se, ok := par[node].(*ast.SelectorExpr); ok && se.Sel == u.id {
			node = se // pkg.Var
		}
		switch pa := par[node].(type) {
		case *ast.AssignStmt:
			for i, l := range pa.Lhs {
				if ast.Node(l) != node {
					continue
				}
				if len(pa.Lhs) != len(pa.Rhs) || pa.Tok != token.ASSIGN {
					o.out.fail(fmt.Sprintf("package-level variable %s is updated at %s", v.Name(), o.m.c.Pos(pa.Pos())))
					return
				}
				sink(&tblOrgCtx{f: u.f, depth: ctx.depth}, pa.Rhs[i], false)
			}
		case *ast.UnaryExpr:
			if pa.Op == token.AND {
				o.out.fail(fmt.Sprintf("the address of %s is taken at %s", v.Name(), o.m.c.Pos(pa.Pos())))
				return
			}
		case *ast.IncDecStmt:
			o.out.fail(fmt.Sprintf("package-level variable %s is updated at %s", v.Name(), o.m.c.Pos(pa.Pos())))
			return
		}
	}
}

// assigned: the variable is the target of an assignment / inc-dec / range
// binding somewhere in f (taking its address does not count).
func (o *tblOrigin) assigned(f *tblFn, obj types.Object) bool {
	info := f.Pkg.TypesInfo
	hit := false
	ast.Inspect(f.Decl.Body, func(n ast.Node) bool {
		switch x := n.(type) {
		case *ast.AssignStmt:
			for _, l := range x.Lhs {
				if id, ok := ast.Unparen(l).(*ast.Ident); ok && info.Uses[id] == obj {
					hit = true
				}
			}
		case *ast.IncDecStmt:
			if id, ok := ast.Unparen(x.X).(*ast.Ident); ok && info.Uses[id] == obj {
				hit = true
			}
		case *ast.RangeStmt:
			for _, e := range []ast.Expr{x.Key, x.Value} {
				if id, ok := e.(*ast.Ident); ok && info.Uses[id] == obj {
					hit = true
				}
			}
		}
		return true
	})
	return hit
}

// allCallers: an unbound parameter takes the arguments of every call site.
func (o *tblOrigin) allCallers(ctx *tblOrgCtx, pv *types.Var, sink func(*tblOrgCtx, ast.Expr, bool)) {
	f := ctx.f
	idx, _ := tblParamIndex(f, pv)
	if closed, why := o.m.reach().isClosed(f.Obj); !closed {
		o.out.fail(fmt.Sprintf("parameter %s of %s: %s", pv.Name(), f.name(), why))
		return
	}
	sig := f.Obj.Type().(*types.Signature)
	for _, u := range o.m.uses[f.Obj] {
		if u.Call == nil || u.In == nil {
			o.out.fail("a call site of " + f.name() + " is not inside a function")
			return
		}
		c2 := &tblOrgCtx{f: u.In, depth: ctx.depth + 1}
		if idx < 0 {
			se, ok := ast.Unparen(u.Call.Fun).(*ast.SelectorExpr)
			if !ok {
				o.out.fail("receiver of " + f.name() + " not found at a call site")
				return
			}
			sink(c2, se.X, false)
			continue
		}
		if sig.Variadic() && idx >= sig.Params().Len()-1 {
			o.out.fail("variadic parameter " + pv.Name())
			return
		}
		if idx >= len(u.Call.Args) {
			o.out.fail("call of " + f.name() + " with a multi-value argument")
			return
		}
		sink(c2, u.Call.Args[idx], false)
	}
}

// callResults: the idx-th returned expressions of a statically called module
// function, evaluated with the arguments bound.
func (o *tblOrigin) callResults(ctx *tblOrgCtx, call *ast.CallExpr, idx int, sink func(*tblOrgCtx, ast.Expr)) {
	info := ctx.f.Pkg.TypesInfo
	switch tblBuiltinName(info, call) {
	case "new", "make":
		return // a fresh zero value: nothing flows in
	case "append":
		o.out.fail("append result used as a plain value")
		return
	}
	var cf *tblFn
	if lit, ok := ast.Unparen(call.Fun).(*ast.FuncLit); ok {
		// func() T { … }(): the literal's own returns (it has no parameters to bind in practice)
		cf = o.litFn(ctx.f, lit)
		if cf == nil {
			o.out.fail("function literal without a signature")
			return
		}
	} else {
		fn := CalleeOf(info, call)
		if fn == nil {
			o.out.fail(fmt.Sprintf("call %s (%s) has no static callee", tblTrunc(exprStr(call.Fun), 40), o.m.c.Pos(call.Pos())))
			return
		}
		cf = o.m.fns[fn.Origin()]
		if cf == nil {
			o.out.fail(fmt.Sprintf("%s (%s) is not a function of the module", fn.FullName(), o.m.c.Pos(call.Pos())))
			return
		}
	}
	sig := cf.Obj.Type().(*types.Signature)
	if recv := sig.Recv(); recv != nil {
		if _, isI := types.Unalias(recv.Type()).Underlying().(*types.Interface); isI {
			o.out.fail("interface method call " + exprStr(call.Fun))
			return
		}
	}
	c2 := &tblOrgCtx{f: cf, bind: map[types.Object]tblOrgBound{}, depth: ctx.depth + 1}
	if recv := sig.Recv(); recv != nil {
		if se, ok := ast.Unparen(call.Fun).(*ast.SelectorExpr); ok {
			c2.bind[recv] = tblOrgBound{ctx, se.X}
		}
	}
	if !call.Ellipsis.IsValid() {
		for i := 0; i < sig.Params().Len() && i < len(call.Args); i++ {
			if sig.Variadic() && i == sig.Params().Len()-1 {
				break
			}
			c2.bind[sig.Params().At(i)] = tblOrgBound{ctx, call.Args[i]}
		}
	}
	any := false
	ast.Inspect(cf.Decl.Body, func(n ast.Node) bool {
		switch x := n.(type) {
		case *ast.FuncLit:
			return false
		case *ast.ReturnStmt:
			any = true
			switch {
			case len(x.Results) == sig.Results().Len() && idx < len(x.Results):
				sink(c2, x.Results[idx])
			case len(x.Results) == 1:
				if inner, ok := ast.Unparen(x.Results[0]).(*ast.CallExpr); ok {
					o.callResults(c2, inner, idx, sink)
				} else {
					o.out.fail("return of " + cf.name() + " cannot be followed")
				}
			case len(x.Results) == 0 && idx < sig.Results().Len() && sig.Results().At(idx).Name() != "" && sig.Results().At(idx).Name() != "_":
				// bare return: the named result
				rid := tblResultIdent(cf, idx)
				if rid == nil {
					o.out.fail("bare return in " + cf.name())
				} else {
					sink(c2, rid)
				}
			default:
				o.out.fail("bare return in " + cf.name())
			}
		}
		return true
	})
	if !any && sig.Results().Len() > 0 {
		// only panics
		return
	}
}

// tblResultIdent: the identifier that declares the idx-th (named) result.
func tblResultIdent(f *tblFn, idx int) *ast.Ident {
	if f.Decl.Type.Results == nil {
		return nil
	}
	n := 0
	for _, fld := range f.Decl.Type.Results.List {
		for _, nm := range fld.Names {
			if n == idx {
				return nm
			}
			n++
		}
		if len(fld.Names) == 0 {
			n++
		}
	}
	return nil
}

// objects follows the struct-typed (or pointer-to-struct) expression e to the
// literals that created the objects it can denote.
func (o *tblOrigin) objects(ctx *tblOrgCtx, e ast.Expr, sink func(tblOrgObj)) {
	e = ast.Unparen(e)
	if o.out.unknown != "" {
		return
	}
	info := ctx.f.Pkg.TypesInfo
	key, ok := o.enter("o", ctx, e)
	if !ok {
		return
	}
	defer delete(o.busy, key)
	if tblIsNil(info, e) {
		return
	}
	switch x := e.(type) {
	case *ast.CompositeLit:
		sink(tblOrgObj{ctx: ctx, lit: x})
	case *ast.UnaryExpr:
		if x.Op == token.AND {
			o.objects(ctx, x.X, sink)
			return
		}
		o.out.fail("object " + exprStr(e) + " cannot be followed")
	case *ast.StarExpr:
		o.objects(ctx, x.X, sink)
	case *ast.Ident:
		sink2 := sink
		if lv := tblStructLocal(info, x); lv != nil {
			sink2 = func(ob tblOrgObj) {
				ob.locals = append(append([]tblOrgLocal{}, ob.locals...), tblOrgLocal{ctx, lv})
				sink(ob)
			}
			// the variable itself starts as a zero object (`var x T`); what is written through it counts
			sink2(tblOrgObj{ctx: ctx})
		}
		o.identSources(ctx, x, func(c2 *tblOrgCtx, src ast.Expr, elem bool) {
			if elem {
				o.elements(c2, src, func(c3 *tblOrgCtx, s3 ast.Expr) { o.objects(c3, s3, sink2) })
			} else {
				o.objects(c2, src, sink2)
			}
		})
	case *ast.CallExpr:
		if tv, ok := info.Types[x.Fun]; ok && tv.IsType() && len(x.Args) == 1 {
			o.objects(ctx, x.Args[0], sink)
			return
		}
		o.callResults(ctx, x, 0, func(c2 *tblOrgCtx, r ast.Expr) { o.objects(c2, r, sink) })
	case *ast.SelectorExpr:
		fv := tblFieldOf(info, x)
		if fv == nil {
			o.out.fail(exprStr(x) + " is not a field")
			return
		}
		o.fieldValues(ctx, x.X, fv.Origin(), func(c2 *tblOrgCtx, v ast.Expr) { o.objects(c2, v, sink) })
	case *ast.IndexExpr:
		o.elements(ctx, x.X, func(c2 *tblOrgCtx, v ast.Expr) { o.objects(c2, v, sink) })
	default:
		o.out.fail(fmt.Sprintf("object %s (%s) cannot be followed", tblTrunc(exprStr(e), 60), o.m.c.Pos(e.Pos())))
	}
}

func (o *tblOrigin) storeCtx(st tblOrgStore) *tblOrgCtx {
	if st.f == nil {
		return nil
	}
	return &tblOrgCtx{f: st.f}
}

// fieldValues: the expressions whose value field fv of the object(s) denoted
// by base can hold.
func (o *tblOrigin) fieldValues(ctx *tblOrgCtx, base ast.Expr, fv *types.Var, sink func(*tblOrgCtx, ast.Expr)) {
	if why := o.opaque[fv]; why != "" {
		o.out.fail(fmt.Sprintf("field %s: %s", fv.Name(), why))
		return
	}
	// the struct that owns the field must not be overwritten as a whole through a pointer
	info := ctx.f.Pkg.TypesInfo
	bt := types.Unalias(info.TypeOf(base))
	if pt, ok := bt.(*types.Pointer); ok {
		bt = types.Unalias(pt.Elem())
	}
	if nt, ok := bt.(*types.Named); ok {
		if where := o.overwritten[nt.Obj()]; where != "" {
			o.out.fail(fmt.Sprintf("a whole %s is overwritten through a pointer at %s", nt.Obj().Name(), where))
			return
		}
	}
	// every plain assignment to the field, whatever object it hits
	for _, st := range o.stores[fv] {
		if st.lit {
			continue
		}
		c2 := o.storeCtx(st)
		if c2 == nil {
			o.out.fail("field " + fv.Name() + " is assigned at package level")
			return
		}
		c2.depth = ctx.depth
		sink(c2, st.val)
	}
	// the literals that created the objects; a container field is followed field-based (every literal)
	if tblIsContainer(fv.Type()) {
		for _, st := range o.stores[fv] {
			if !st.lit {
				continue
			}
			c2 := o.storeCtx(st)
			if c2 == nil {
				o.out.fail("field " + fv.Name() + " is initialised at package level")
				return
			}
			c2.depth = ctx.depth
			sink(c2, st.val)
		}
		return
	}
	// (a sub-query: when the objects cannot be found, every literal of the struct is taken instead)
	var objs []tblOrgObj
	saved := o.out.unknown
	o.objects(ctx, base, func(ob tblOrgObj) { objs = append(objs, ob) })
	if o.out.unknown != saved {
		if o.out.unknown == "analysis budget exhausted" {
			return
		}
		o.out.unknown = saved
		var lvs []*types.Var
		for lv, byField := range o.localStores {
			if len(byField[fv]) > 0 {
				lvs = append(lvs, lv)
			}
		}
		sort.Slice(lvs, func(i, j int) bool { return lvs[i].Pos() < lvs[j].Pos() })
		for _, lv := range lvs {
			for _, st := range o.localStores[lv][fv] {
				if c2 := o.storeCtx(st); c2 != nil && !tblIsNil(st.pkg, st.val) {
					o.out.fieldBased = append(o.out.fieldBased, fv.Name())
					c2.depth = ctx.depth
					sink(c2, st.val)
				}
			}
		}
		for _, st := range o.stores[fv] {
			if !st.lit || tblIsNil(st.pkg, st.val) {
				continue
			}
			// the answer now mixes the objects of every literal: complete, but possibly too large
			if len(o.out.fieldBased) == 0 || o.out.fieldBased[len(o.out.fieldBased)-1] != fv.Name() {
				o.out.fieldBased = append(o.out.fieldBased, fv.Name())
			}
			c2 := o.storeCtx(st)
			if c2 == nil {
				o.out.fail("field " + fv.Name() + " is initialised at package level")
				return
			}
			c2.depth = ctx.depth
			sink(c2, st.val)
		}
		return
	}
	for _, ob := range objs {
		for _, l := range ob.locals {
			for _, st := range o.localStores[l.v][fv] {
				sink(l.ctx, st.val)
			}
		}
		if ob.lit == nil {
			continue
		}
		linfo := ob.ctx.f.Pkg.TypesInfo
		if v := tblDirectFieldValue(linfo, ob.lit, fv); v != nil {
			sink(ob.ctx, v)
		}
	}
}

// tblDirectFieldValue: the expression a struct literal gives to field fv
// (also through a nested literal of an embedded struct).
func tblDirectFieldValue(info *types.Info, cl *ast.CompositeLit, fv *types.Var) ast.Expr {
	return tblFieldValueInLit(info, cl, fv, 0)
}

// elements: what is stored as an element of the container expression c.
func (o *tblOrigin) elements(ctx *tblOrgCtx, c ast.Expr, sink func(*tblOrgCtx, ast.Expr)) {
	c = ast.Unparen(c)
	if o.out.unknown != "" {
		return
	}
	info := ctx.f.Pkg.TypesInfo
	key, ok := o.enter("e", ctx, c)
	if !ok {
		return
	}
	defer delete(o.busy, key)
	if tblIsNil(info, c) {
		return
	}
	switch x := c.(type) {
	case *ast.CompositeLit:
		for _, el := range x.Elts {
			if kv, ok := el.(*ast.KeyValueExpr); ok {
				sink(ctx, kv.Value)
			} else {
				sink(ctx, el)
			}
		}
	case *ast.CallExpr:
		switch tblBuiltinName(info, x) {
		case "make", "new":
			return
		case "append":
			if len(x.Args) == 0 {
				return
			}
			o.elements(ctx, x.Args[0], sink)
			if x.Ellipsis.IsValid() {
				if len(x.Args) == 2 {
					o.elements(ctx, x.Args[1], sink)
				}
				return
			}
			for _, a := range x.Args[1:] {
				sink(ctx, a)
			}
			return
		}
		if tv, ok := info.Types[x.Fun]; ok && tv.IsType() && len(x.Args) == 1 {
			o.elements(ctx, x.Args[0], sink)
			return
		}
		o.callResults(ctx, x, 0, func(c2 *tblOrgCtx, r ast.Expr) { o.elements(c2, r, sink) })
	case *ast.SliceExpr:
		o.elements(ctx, x.X, sink)
	case *ast.StarExpr:
		o.pointees(ctx, x.X, func(c2 *tblOrgCtx, v ast.Expr) { o.elements(c2, v, sink) })
	case *ast.Ident:
		// a container variable: the element stores into it; aliasing (copied to another variable,
		// handed to a call) is not followed
		obj := info.Uses[x]
		if obj == nil {
			obj = info.Defs[x]
		}
		if v, ok := obj.(*types.Var); ok && v.Pkg() != nil && v.Parent() != nil {
			var uses []tblOrgUse
			if v.Parent() == v.Pkg().Scope() {
				uses = o.globalUsesOf(v)
			} else if _, isParam := tblParamIndex(ctx.f, v); !isParam {
				ast.Inspect(ctx.f.Decl.Body, func(n ast.Node) bool {
					if id, ok := n.(*ast.Ident); ok && info.Uses[id] == obj {
						uses = append(uses, tblOrgUse{ctx.f, id})
					}
					return true
				})
			}
			bad := ""
			for _, u := range uses {
				if u.f == nil {
					bad = fmt.Sprintf("container %s is used in a package-level initialiser at %s", v.Name(), o.m.c.Pos(u.id.Pos()))
					break
				}
				uinfo := u.f.Pkg.TypesInfo
				par := o.m.guardFor(u.f).parents
				uctx := ctx
				if u.f != ctx.f {
					uctx = &tblOrgCtx{f: u.f, depth: ctx.depth}
				}
				var node ast.Node = u.id
				if se, ok := par[node].(*ast.SelectorExpr); ok && se.Sel == u.id {
					node = se // pkg.Var
				}
				okUse := false
				switch pa := par[node].(type) {
				case *ast.RangeStmt:
					okUse = ast.Node(pa.X) == node
				case *ast.IndexExpr:
					if ast.Node(pa.X) == node {
						okUse = true
						if as, ok := par[pa].(*ast.AssignStmt); ok {
							for i, l := range as.Lhs {
								if ast.Unparen(l) == ast.Expr(pa) {
									if len(as.Lhs) == len(as.Rhs) && as.Tok == token.ASSIGN {
										sink(uctx, as.Rhs[i])
									} else {
										okUse = false
									}
								}
							}
						}
						if _, isInc := par[pa].(*ast.IncDecStmt); isInc {
							okUse = false
						}
						if ue, ok := par[pa].(*ast.UnaryExpr); ok && ue.Op == token.AND {
							okUse = false
						}
					}
				case *ast.AssignStmt:
					for _, l := range pa.Lhs {
						if ast.Node(l) == node {
							okUse = true
						}
					}
				case *ast.ValueSpec:
					okUse = true
				case *ast.ReturnStmt:
					okUse = v.Parent() != v.Pkg().Scope()
				case *ast.CallExpr:
					switch tblBuiltinName(uinfo, pa) {
					case "len", "cap", "delete":
						okUse = true
					case "append":
						if len(pa.Args) > 0 && ast.Node(pa.Args[0]) == node {
							if as, ok := par[pa].(*ast.AssignStmt); ok && len(as.Lhs) == 1 {
								if lid := tblSelOf(as.Lhs[0]); lid != nil && (uinfo.Uses[lid] == obj || uinfo.Defs[lid] == obj) {
									okUse = true
								}
							}
						}
					}
				}
				if !okUse && bad == "" {
					bad = fmt.Sprintf("container %s is copied or handed on at %s", v.Name(), o.m.c.Pos(u.id.Pos()))
				}
			}
			if bad != "" {
				o.out.fail(bad)
				return
			}
		}
		o.identSources(ctx, x, func(c2 *tblOrgCtx, src ast.Expr, elem bool) {
			if elem {
				o.elements(c2, src, func(c3 *tblOrgCtx, s3 ast.Expr) { o.elements(c3, s3, sink) })
			} else {
				o.elements(c2, src, sink)
			}
		})
	case *ast.SelectorExpr:
		fv := tblFieldOf(info, x)
		if fv == nil {
			o.out.fail(exprStr(x) + " is not a field")
			return
		}
		fv = fv.Origin()
		if why := o.opaque[fv]; why != "" {
			o.out.fail(fmt.Sprintf("field %s: %s", fv.Name(), why))
			return
		}
		for _, st := range o.elems[fv] {
			c2 := o.storeCtx(st)
			if c2 == nil {
				o.out.fail("element of " + fv.Name() + " stored at package level")
				return
			}
			c2.depth = ctx.depth
			sink(c2, st.val)
		}
		o.fieldValues(ctx, x.X, fv, func(c2 *tblOrgCtx, v ast.Expr) { o.elements(c2, v, sink) })
	case *ast.IndexExpr:
		// a container of containers
		o.elements(ctx, x.X, func(c2 *tblOrgCtx, v ast.Expr) { o.elements(c2, v, sink) })
	default:
		o.out.fail(fmt.Sprintf("container %s (%s) cannot be followed", tblTrunc(exprStr(c), 60), o.m.c.Pos(c.Pos())))
	}
}

func tblTypeSetString(s *tblTypeSet) string {
	var parts []string
	var tns []*types.TypeName
	for tn := range s.types {
		tns = append(tns, tn)
	}
	sort.Slice(tns, func(i, j int) bool { return tns[i].Name() < tns[j].Name() })
	for _, tn := range tns {
		parts = append(parts, fmt.Sprintf("%s (%s)", tn.Name(), s.types[tn]))
	}
	return strings.Join(parts, "; ")
}
