package main

// R-chan-send, R-wait (C10, C16, C17): the signal channel between a core and
// VM.Wait, and Wait's exit conditions.

import (
	"fmt"
	"go/ast"
	"go/constant"
	"go/token"
	"go/types"
	"sort"
	"strings"

	"golang.org/x/tools/go/packages"
	"golang.org/x/tools/go/ssa"
)

func init() {
	register(&Rule{ID: "R-chan-send", Floor: 4, Run: ruleChanSend,
		Doc: "C10/C16/C17: a core reports its end to VM.Wait by sending on its signal channel. (1) Every return path of Core.Run sends exactly one value (none: Wait never removes the core and never returns; two: the second send blocks forever). (2) A send must never block forever: either the channel's capacity is >= the number of sends of a run, or every return of Wait happens only when no live core remains or after draining every live core. With an unbuffered channel and a Wait that returns on the first interrupt, every other core stays blocked in its send (goroutine leak; a later SpawnSync on the same VM finds stale state / a later cancel cannot reach them). (3) The goroutines that run the sender (rules_r4rta_spawn.go): every `go` statement of the module whose function — a literal, a declared function, helpers followed — synchronously reaches a send on the signal channel must send exactly once on every non-panicking path of the goroutine body (a condition or an early return in front of Core.Run leaves a core in the live list that never signals: Wait hangs; a second run sends twice), and the core whose sender it runs must be the core registered on the same path (data flow from the registering call to the receiver of the send)."})
	register(&Rule{ID: "R-wait", Floor: 4, Run: ruleWait,
		Doc: "C10/C16/C17: VM.Wait's polling loop may only be left (a) by a break taken when the live-core list is empty, or (b) by a return in the branch that received a non-nil interrupt; on (b) the cancel function must have been called (so the remaining cores stop), and on every return the core-list mutex must be released (a Wait that returns holding the RLock makes the next spawnCore — which needs Lock — block forever: the VM answers later calls by hanging). Registrations (rules_r4rta_spawn.go): every store that adds a new element to the list Wait polls (decided by data flow on go/ssa: filters and clears only contain elements of the list itself) must be followed, on every non-panicking path, by the start of exactly one goroutine that runs the sender — in the registering function or, for wrappers that only register, in every caller (followed upwards 3 levels). A core that is in the list but was never started never signals: Wait polls it forever."})
}

type wtAnchors struct {
	sigField  *types.Var // Core's signal channel field
	coreList  *types.Var // the guarded []Core field
	wait      *ast.FuncDecl
	run       *ast.FuncDecl
	info      *types.Info
	loop      *ast.ForStmt
	loopLabel string
}

func wtResolve(c *Ctx) *wtAnchors {
	rt := c.Pkg("homescript/runtime")
	w := &wtAnchors{info: rt.TypesInfo}
	w.wait = c.MustFunc("homescript/runtime", "VM", "Wait")
	w.run = c.MustFunc("homescript/runtime", "Core", "Run")
	coreT, _ := rt.Types.Scope().Lookup("Core").(*types.TypeName)
	if coreT == nil {
		fatalf("anchor unresolved: runtime.Core")
	}
	ast.Inspect(w.wait.Body, func(n ast.Node) bool {
		if u, ok := n.(*ast.UnaryExpr); ok && u.Op == token.ARROW {
			if s, ok := ast.Unparen(u.X).(*ast.SelectorExpr); ok {
				if v, ok := w.info.Uses[s.Sel].(*types.Var); ok && v.IsField() {
					if _, isChan := v.Type().Underlying().(*types.Chan); isChan && w.sigField == nil {
						w.sigField = v
					}
				}
			}
		}
		return true
	})
	if w.sigField == nil {
		fatalf("anchor unresolved: VM.Wait receives from no channel field of a core")
	}
	// the live-core list: a slice-of-Core field read in Wait
	ast.Inspect(w.wait.Body, func(n ast.Node) bool {
		if s, ok := n.(*ast.SelectorExpr); ok {
			if v, ok := w.info.Uses[s.Sel].(*types.Var); ok && v.IsField() {
				if sl, ok := v.Type().Underlying().(*types.Slice); ok && types.Identical(sl.Elem(), coreT.Type()) && w.coreList == nil {
					w.coreList = v
				}
			}
		}
		return true
	})
	if w.coreList == nil {
		fatalf("anchor unresolved: VM.Wait reads no []Core field")
	}
	// the polling loop: the outermost `for` statement of Wait that (lexically,
	// function literals aside) contains the receive from the signal channel —
	// whether or not it is labelled, has a condition, or sits inside a block
	var stack []ast.Node
	ast.Inspect(w.wait.Body, func(n ast.Node) bool {
		if n == nil {
			stack = stack[:len(stack)-1]
			return true
		}
		if _, ok := n.(*ast.FuncLit); ok {
			return false
		}
		stack = append(stack, n)
		if u, ok := n.(*ast.UnaryExpr); ok && u.Op == token.ARROW && w.loop == nil {
			if sel, ok := ast.Unparen(u.X).(*ast.SelectorExpr); ok && w.info.Uses[sel.Sel] == w.sigField {
				for i, a := range stack {
					if f, ok := a.(*ast.ForStmt); ok {
						w.loop = f
						if i > 0 {
							if ls, ok := stack[i-1].(*ast.LabeledStmt); ok {
								w.loopLabel = ls.Label.Name
							}
						}
						break
					}
				}
			}
		}
		return true
	})
	if w.loop == nil {
		fatalf("anchor unresolved: VM.Wait has no polling loop around its receive from the signal channel")
	}
	return w
}

func (w *wtAnchors) isSigSend(s ast.Stmt) bool {
	ss, ok := s.(*ast.SendStmt)
	if !ok {
		return false
	}
	sel, ok := ast.Unparen(ss.Chan).(*ast.SelectorExpr)
	return ok && w.info.Uses[sel.Sel] == w.sigField
}

// capacity of the channel stored in the signal field (SSA trace to MakeChan).
func wtCapacity(c *Ctx, w *wtAnchors) (min int64, known bool, where string) {
	a := determMod(c)
	min, known = 1<<40, false
	var trace func(fn *ssa.Function, v ssa.Value, depth int)
	allKnown := true
	n := 0
	trace = func(fn *ssa.Function, v ssa.Value, depth int) {
		switch x := v.(type) {
		case *ssa.MakeChan:
			n++
			if k, ok := x.Size.(*ssa.Const); ok && k.Value != nil && k.Value.Kind() == constant.Int {
				if k.Int64() < min {
					min = k.Int64()
					where = c.Pos(x.Pos())
				}
			} else {
				allKnown = false
			}
		case *ssa.ChangeType:
			trace(fn, x.X, depth)
		case *ssa.Phi:
			for _, e := range x.Edges {
				trace(fn, e, depth)
			}
		case *ssa.Parameter:
			if depth > 4 {
				allKnown = false
				return
			}
			idx := dmParamIndex(fn, x)
			found := false
			for _, caller := range a.sortedCallers(fn) {
				for _, b := range caller.Blocks {
					for _, in := range b.Instrs {
						if ci, ok := in.(ssa.CallInstruction); ok {
							for _, cal := range a.callees(ci) {
								if cal == fn {
									if arg := dmArgFor(ci.Common(), fn, idx); arg != nil {
										found = true
										trace(caller, arg, depth+1)
									}
								}
							}
						}
					}
				}
			}
			if !found {
				allKnown = false
			}
		default:
			allKnown = false
		}
	}
	for _, fn := range a.funcs {
		for _, b := range fn.Blocks {
			for _, in := range b.Instrs {
				if s, ok := in.(*ssa.Store); ok {
					if fa, ok := s.Addr.(*ssa.FieldAddr); ok && dmFieldOf(fa.X.Type(), fa.Field) == w.sigField {
						trace(fn, s.Val, 0)
					}
				}
			}
		}
	}
	return min, allKnown && n > 0, where
}

func ruleChanSend(c *Ctx) []Obligation {
	w := wtResolve(c)
	var obs []Obligation
	// (1) sends per path of Core.Run. A call of a function of the module that
	// itself sends on the signal channel (a `signal(i)` / `finish(i)` helper)
	// counts as the sends of its body.
	type exitAgg struct {
		min, max int
		pos      token.Pos
		kind     string
	}
	agg := map[token.Pos]*exitAgg{}
	var order []token.Pos
	sc := &wtSendCounter{c: c, w: w, memo: map[*types.Func][2]int{}, active: map[*types.Func]bool{}, accounted: map[*types.Func]bool{}}
	sc.reach = dfReaching(c, func(p *packages.Package, n ast.Node) bool {
		ss, ok := n.(*ast.SendStmt)
		if !ok {
			return false
		}
		sel, ok := ast.Unparen(ss.Chan).(*ast.SelectorExpr)
		return ok && p.TypesInfo.Uses[sel.Sel] == w.sigField
	})
	wk := sc.walker(w.info)
	wk.Exit = func(n [2]int, o outcome) {
		if o.kind == cPanic {
			return
		}
		pos := o.at
		kind := "return"
		if o.ret == nil {
			pos, kind = w.run.Body.Rbrace, "end of function"
		}
		e := agg[pos]
		if e == nil {
			e = &exitAgg{min: n[0], max: n[1], pos: pos, kind: kind}
			agg[pos] = e
			order = append(order, pos)
		}
		if n[0] < e.min {
			e.min = n[0]
		}
		if n[1] > e.max {
			e.max = n[1]
		}
	}
	wk.Run(w.run.Body, [2]int{})
	if wk.Overflow || len(wk.Unsupported) > 0 || sc.incomplete != "" {
		obs = append(obs, Obligation{Key: "runtime.Core.Run|paths", Status: Undecided, Pos: c.Pos(w.run.Pos()), Detail: fmt.Sprintf("path enumeration incomplete (overflow=%v, unsupported statements=%d) %s", wk.Overflow, len(wk.Unsupported), sc.incomplete)})
	}
	// stable numbering: source order
	for i := 0; i < len(order); i++ {
		for j := i + 1; j < len(order); j++ {
			if order[j] < order[i] {
				order[i], order[j] = order[j], order[i]
			}
		}
	}
	maxSends := 0
	for i, pos := range order {
		e := agg[pos]
		if e.max > maxSends {
			maxSends = e.max
		}
		key := fmt.Sprintf("runtime.Core.Run|%s #%d|sends exactly one signal", e.kind, i+1)
		if e.kind != "return" {
			key = "runtime.Core.Run|end of function|sends exactly one signal"
		}
		ob := Obligation{Key: key, Pos: c.Pos(pos), Nontrivial: true}
		switch {
		case e.min == 1 && e.max == 1:
			ob.Status, ob.Detail = Discharged, "every path to this exit performs exactly one send on "+w.sigField.Name()
		case e.min == 0:
			ob.Status, ob.Detail = Violated, fmt.Sprintf("a path reaches this exit without sending on %s: VM.Wait never learns that the core ended, keeps it in the live list and never returns", w.sigField.Name())
		default:
			ob.Status, ob.Detail = Violated, fmt.Sprintf("a path reaches this exit after %d sends on %s: Wait consumes one value per core, the second send blocks forever", e.max, w.sigField.Name())
		}
		obs = append(obs, ob)
	}
	// sends outside Core.Run: fine when the sending function is a helper whose
	// sends were counted above and which is called from nowhere else
	runObj, _ := w.info.Defs[w.run.Name].(*types.Func)
	for _, p := range c.All {
		for _, fd := range AllFuncDecls(p) {
			if fd == w.run {
				continue
			}
			fobj, _ := p.TypesInfo.Defs[fd.Name].(*types.Func)
			var first *ast.SendStmt
			ast.Inspect(fd.Body, func(n ast.Node) bool {
				if ss, ok := n.(*ast.SendStmt); ok && first == nil {
					if sel, ok := ast.Unparen(ss.Chan).(*ast.SelectorExpr); ok && p.TypesInfo.Uses[sel.Sel] == w.sigField {
						first = ss
					}
				}
				return true
			})
			if first == nil {
				continue
			}
			why := ""
			switch {
			case fobj == nil || !sc.accounted[fobj]:
				why = "the per-run send count only covers Core.Run and the helpers it calls; a send elsewhere needs the rule extended"
			case moFuncValueEscapes(c, fobj):
				why = "the sending helper is also used as a function value: its sends cannot be attributed to the paths of Core.Run"
			default:
				if other := wtOtherCaller(c, fobj, runObj, sc.accounted); other != "" {
					why = "the sending helper is also called from " + other + ", outside the counted paths of Core.Run"
				}
			}
			if why != "" {
				obs = append(obs, Obligation{Key: fmt.Sprintf("%s.%s|send on %s outside Core.Run", relPkgShort(p.PkgPath), FuncName(fd), w.sigField.Name()), Pos: c.Pos(first.Pos()), Status: Undecided, Detail: why})
			}
		}
	}
	// (2) capacity vs. draining
	capMin, capKnown, capWhere := wtCapacity(c, w)
	capOb := Obligation{Key: fmt.Sprintf("runtime.Core.%s|capacity", w.sigField.Name()), Pos: capWhere, Nontrivial: true}
	buffered := capKnown && capMin >= int64(maxSends) && maxSends > 0
	switch {
	case !capKnown:
		capOb.Status, capOb.Detail = Undecided, "cannot determine the capacity of the channel stored in the signal field (not a make(chan …) with constant size reaching it)"
	case buffered:
		capOb.Status, capOb.Detail = Discharged, fmt.Sprintf("capacity %d >= %d send(s) per run: a core can always finish, whether or not Wait still listens", capMin, maxSends)
	default:
		capOb.Status, capOb.Detail = Info, fmt.Sprintf("capacity %d < %d send(s) per run: a finishing core blocks until Wait receives; see the per-return obligations of VM.Wait", capMin, maxSends)
	}
	obs = append(obs, capOb)
	if !buffered {
		// each return of Wait: no live core may remain, or all are drained
		ri := 0
		wtVisitExits(w, func(kind string, st ast.Stmt, conds []wtCond, inLoop bool) {
			if kind != "return" {
				return
			}
			ri++
			key := fmt.Sprintf("runtime.VM.Wait|return #%d|no core is left blocked in its send", ri)
			ob := Obligation{Key: key, Pos: c.Pos(st.Pos()), Nontrivial: true}
			if !inLoop {
				ob.Status, ob.Detail = Discharged, "reached only after the polling loop ended, i.e. (R-wait) when the live-core list is empty"
			} else if wtDrainsBefore(w, st, conds) {
				ob.Status, ob.Detail = Discharged, "the branch receives from every remaining core before returning"
			} else {
				ob.Status = Violated
				ob.Detail = fmt.Sprintf("Wait returns from inside the polling loop (branch: %s) while other cores may still be alive; their signal channel is unbuffered (capacity %d, made at %s) and nobody receives from it any more, so each of them blocks forever in `%s <- …` — also after the cancellation this branch triggers, because the termination interrupt is reported through the same send. Scenario: main spawns two looping cores and throws; Wait returns the exception, both cores leak, a second SpawnSync on the VM meets the leftovers. Fix: make(chan *value.VmInterrupt, 1) in spawnCore (one send per run), or drain the remaining cores before returning.", wtCondString(conds), capMin, capWhere, w.sigField.Name())
			}
			obs = append(obs, ob)
		})
	}
	// (3) the goroutines that run the sender (rules_r4rta_spawn.go)
	obs = append(obs, r4aGoSenders(c)...)
	// (4) no send of the protocol can be dropped (rules_r5rt.go)
	obs = append(obs, r5rtLossySends(c)...)
	return obs
}

// wtSendCounter counts the sends on the signal channel along the paths of a
// function body, looking through calls of module functions that send.
type wtSendCounter struct {
	c         *Ctx
	w         *wtAnchors
	memo      map[*types.Func][2]int
	active    map[*types.Func]bool
	accounted map[*types.Func]bool // helpers whose sends were attributed to a call site
	// byRet: for a helper with a single boolean result that returns the literals
	// true / false, the (min, max) sends on the paths returning each of them
	// (`if self.endOfCycle() { return }`: the sends belong to the `true` outcome)
	byRet      map[*types.Func]map[bool][2]int
	reach      map[*types.Func]bool // functions that (transitively) contain a send
	incomplete string
}

func (sc *wtSendCounter) isSend(info *types.Info, s ast.Stmt) bool {
	ss, ok := s.(*ast.SendStmt)
	if !ok {
		return false
	}
	sel, ok := ast.Unparen(ss.Chan).(*ast.SelectorExpr)
	return ok && info.Uses[sel.Sel] == sc.w.sigField
}

// callSends: sends performed by the module functions called inside n
// (function literals are not entered: they run when called, not here).
func (sc *wtSendCounter) callSends(info *types.Info, n ast.Node) [2]int {
	var tot [2]int
	if n == nil {
		return tot
	}
	ast.Inspect(n, func(x ast.Node) bool {
		switch y := x.(type) {
		case *ast.FuncLit:
			return false
		case *ast.CallExpr:
			if fn := CalleeOf(info, y); fn != nil {
				if o := fn.Origin(); o != nil {
					fn = o
				}
				r := sc.count(fn)
				tot[0] += r[0]
				tot[1] += r[1]
			}
		}
		return true
	})
	return tot
}

// count: (min, max) sends over the non-panicking paths of fn.
func (sc *wtSendCounter) count(fn *types.Func) [2]int {
	if r, ok := sc.memo[fn]; ok {
		return r
	}
	if sc.active[fn] || !sc.reach[fn] {
		return [2]int{}
	}
	ref := moDeclOf(sc.c, fn)
	if ref == nil || ref.fd.Body == nil {
		return [2]int{}
	}
	sc.active[fn] = true
	wk := sc.walker(ref.pkg.TypesInfo)
	res := [2]int{1 << 30, 0}
	any := false
	perRet := map[bool][2]int{}
	perRetOK := false
	if sig, ok := fn.Type().(*types.Signature); ok && sig.Results().Len() == 1 {
		if b, ok := sig.Results().At(0).Type().Underlying().(*types.Basic); ok && b.Kind() == types.Bool {
			perRetOK = true
		}
	}
	wk.Exit = func(n [2]int, o outcome) {
		if o.kind == cPanic {
			return
		}
		any = true
		if perRetOK {
			known := false
			if o.ret != nil && len(o.ret.Results) == 1 {
				if tv, ok := ref.pkg.TypesInfo.Types[o.ret.Results[0]]; ok && tv.Value != nil && tv.Value.Kind() == constant.Bool {
					v := constant.BoolVal(tv.Value)
					cur, have := perRet[v]
					if !have {
						cur = [2]int{n[0], n[1]}
					}
					if n[0] < cur[0] {
						cur[0] = n[0]
					}
					if n[1] > cur[1] {
						cur[1] = n[1]
					}
					perRet[v] = cur
					known = true
				}
			}
			if !known {
				perRetOK = false
			}
		}
		if n[0] < res[0] {
			res[0] = n[0]
		}
		if n[1] > res[1] {
			res[1] = n[1]
		}
	}
	wk.MaxPaths = 4000
	wk.Run(ref.fd.Body, [2]int{})
	delete(sc.active, fn)
	if !any {
		res = [2]int{}
	}
	if res[1] > 0 {
		if wk.Overflow || len(wk.Unsupported) > 0 {
			sc.incomplete += fmt.Sprintf("[paths of the sending helper %s could not be enumerated]", fn.Name())
		}
		sc.accounted[fn] = true
		if perRetOK {
			if sc.byRet == nil {
				sc.byRet = map[*types.Func]map[bool][2]int{}
			}
			sc.byRet[fn] = perRet
		}
	} else {
		res = [2]int{}
	}
	sc.memo[fn] = res
	return res
}

func (sc *wtSendCounter) walker(info *types.Info) *Walker[[2]int] {
	add := func(n, d [2]int) [2]int { return [2]int{n[0] + d[0], n[1] + d[1]} }
	return &Walker[[2]int]{
		Clone: func(n [2]int) [2]int { return n },
		OnStmt: func(n [2]int, s ast.Stmt) ([2]int, bool) {
			if sc.isSend(info, s) {
				n = add(n, [2]int{1, 1})
			}
			if gs, ok := s.(*ast.GoStmt); ok {
				// `go f(args)`: what f sends is sent by the new goroutine, not on this
				// path (it has its own obligation, see r4aGoSenders); only the argument
				// expressions are evaluated here
				for _, a := range gs.Call.Args {
					n = add(n, sc.callSends(info, a))
				}
				return n, true
			}
			return add(n, sc.callSends(info, s)), true
		},
		OnCond: func(n [2]int, cond ast.Expr, taken bool) ([2]int, bool) {
			if tv, ok := info.Types[cond]; ok && tv.Value != nil && tv.Value.Kind() == constant.Bool {
				return n, constant.BoolVal(tv.Value) == taken
			}
			// `if helper(…)`: the outcome selects the helper's paths
			if call, ok := ast.Unparen(cond).(*ast.CallExpr); ok {
				if fn := CalleeOf(info, call); fn != nil {
					if o := fn.Origin(); o != nil {
						fn = o
					}
					sc.count(fn)
					if pr, ok := sc.byRet[fn]; ok {
						d, feasible := pr[taken]
						if !feasible {
							return n, false // the helper never returns this value
						}
						for _, a := range call.Args {
							d = add(d, sc.callSends(info, a))
						}
						return add(n, d), true
					}
				}
			}
			return add(n, sc.callSends(info, cond)), true
		},
		OnCase: func(n [2]int, sw *ast.SwitchStmt, vals []ast.Expr, others []ast.Expr) ([2]int, bool) {
			return n, true
		},
		OnDefer: func(n [2]int, d *ast.DeferStmt) ([2]int, bool) {
			return n, true
		},
		IsPanic: func(s ast.Stmt) bool { return IsPanicCall(info, s) },
	}
}

// wtOtherCaller: a call site of fn outside Core.Run and outside the counted helpers.
func wtOtherCaller(c *Ctx, fn, run *types.Func, accounted map[*types.Func]bool) string {
	found := ""
	for _, p := range c.All {
		for _, fd := range AllFuncDecls(p) {
			fobj, _ := p.TypesInfo.Defs[fd.Name].(*types.Func)
			if fobj == run || (fobj != nil && accounted[fobj]) {
				continue
			}
			ast.Inspect(fd.Body, func(n ast.Node) bool {
				if call, ok := n.(*ast.CallExpr); ok && found == "" {
					if cal := CalleeOf(p.TypesInfo, call); cal != nil {
						if o := cal.Origin(); o != nil {
							cal = o
						}
						if cal == fn {
							found = relPkgShort(p.PkgPath) + "." + FuncName(fd)
						}
					}
				}
				return true
			})
		}
	}
	return found
}

type wtCond struct {
	cond  ast.Expr
	taken bool
	stmt  *ast.IfStmt
}

func wtCondString(cs []wtCond) string {
	var p []string
	for _, c := range cs {
		s := exprStr(c.cond)
		if !c.taken {
			s = "!(" + s + ")"
		}
		p = append(p, s)
	}
	if len(p) == 0 {
		return "unconditional"
	}
	return strings.Join(p, " && ")
}

// wtVisitExits reports every way of leaving Wait's polling loop (break of that
// loop, failing loop condition, return inside it) and every return after it,
// each with the branch conditions under which it is reached. Conditions are
// collected from enclosing if statements, from earlier `if c { …; continue /
// break / return }` guards of the same statement list (the rest of the list
// runs under !c) and from the clauses of tagless switches.
func wtVisitExits(w *wtAnchors, f func(kind string, st ast.Stmt, conds []wtCond, inLoop bool)) {
	info := w.info
	with := func(conds []wtCond, c ...wtCond) []wtCond {
		return append(append([]wtCond(nil), conds...), c...)
	}
	// jumps: the statement list always ends by leaving it
	var jumps func(list []ast.Stmt) bool
	jumps = func(list []ast.Stmt) bool {
		if len(list) == 0 {
			return false
		}
		switch x := list[len(list)-1].(type) {
		case *ast.ReturnStmt:
			return true
		case *ast.BranchStmt:
			return x.Tok == token.BREAK || x.Tok == token.CONTINUE || x.Tok == token.GOTO
		case *ast.BlockStmt:
			return jumps(x.List)
		case *ast.IfStmt:
			if x.Else == nil {
				return false
			}
			eb, ok := x.Else.(*ast.BlockStmt)
			if !ok {
				return jumps(x.Body.List) && jumps([]ast.Stmt{x.Else})
			}
			return jumps(x.Body.List) && jumps(eb.List)
		default:
			return IsPanicCall(info, list[len(list)-1])
		}
	}
	var walk func(list []ast.Stmt, conds []wtCond, depth int, inLoop bool, inner map[string]bool)
	var stmt func(s ast.Stmt, conds []wtCond, depth int, inLoop bool, inner map[string]bool, label string)
	stmt = func(s ast.Stmt, conds []wtCond, depth int, inLoop bool, inner map[string]bool, label string) {
		if label != "" && inLoop {
			m := map[string]bool{label: true}
			for k := range inner {
				m[k] = true
			}
			inner = m
		}
		switch x := s.(type) {
		case *ast.BlockStmt:
			walk(x.List, conds, depth, inLoop, inner)
		case *ast.LabeledStmt:
			stmt(x.Stmt, conds, depth, inLoop, inner, x.Label.Name)
		case *ast.IfStmt:
			walk(x.Body.List, with(conds, wtCond{x.Cond, true, x}), depth, inLoop, inner)
			if x.Else != nil {
				stmt(x.Else, with(conds, wtCond{x.Cond, false, x}), depth, inLoop, inner, "")
			}
		case *ast.ForStmt:
			if x == w.loop {
				if x.Cond != nil {
					f("cond", x, with(conds, wtCond{x.Cond, false, nil}), true)
				}
				walk(x.Body.List, conds, 0, true, map[string]bool{})
			} else {
				walk(x.Body.List, conds, depth+1, inLoop, inner)
			}
		case *ast.RangeStmt:
			walk(x.Body.List, conds, depth+1, inLoop, inner)
		case *ast.SwitchStmt:
			var prev []wtCond
			for _, cl := range x.Body.List {
				cc := cl.(*ast.CaseClause)
				cs := conds
				if x.Tag == nil {
					// tagless: clause k runs when its expression holds and no earlier one did
					cs = with(conds, prev...)
					var or ast.Expr
					for _, e := range cc.List {
						if or == nil {
							or = e
						} else {
							or = &ast.BinaryExpr{X: or, Op: token.LOR, Y: e}
						}
					}
					if or != nil {
						cs = append(cs, wtCond{or, true, nil})
						prev = append(prev, wtCond{or, false, nil})
					} else {
						// default: every clause expression is false (wherever default is written)
						cs = conds
						for _, cl2 := range x.Body.List {
							for _, e := range cl2.(*ast.CaseClause).List {
								cs = with(cs, wtCond{e, false, nil})
							}
						}
					}
				}
				walk(cc.Body, cs, depth+1, inLoop, inner)
			}
		case *ast.TypeSwitchStmt:
			for _, cl := range x.Body.List {
				walk(cl.(*ast.CaseClause).Body, conds, depth+1, inLoop, inner)
			}
		case *ast.SelectStmt:
			for _, cl := range x.Body.List {
				walk(cl.(*ast.CommClause).Body, conds, depth+1, inLoop, inner)
			}
		case *ast.ReturnStmt:
			f("return", x, conds, inLoop)
		case *ast.BranchStmt:
			if x.Tok == token.BREAK && inLoop && x.Label == nil && depth == 0 {
				f("break", x, conds, inLoop)
			}
			if x.Tok == token.BREAK && inLoop && x.Label != nil && !inner[x.Label.Name] {
				f("break", x, conds, inLoop) // the polling loop's own label (or one further out)
			}
			if x.Tok == token.GOTO {
				f("goto", x, conds, inLoop)
			}
		}
	}
	walk = func(list []ast.Stmt, conds []wtCond, depth int, inLoop bool, inner map[string]bool) {
		for _, s := range list {
			stmt(s, conds, depth, inLoop, inner, "")
			// `if c { …; jump }` without else: the rest of the list runs under !c
			if is, ok := s.(*ast.IfStmt); ok {
				switch {
				case is.Else == nil && jumps(is.Body.List):
					conds = with(conds, wtCond{is.Cond, false, is})
				case is.Else != nil && !jumps(is.Body.List):
					if eb, ok := is.Else.(*ast.BlockStmt); ok && jumps(eb.List) {
						conds = with(conds, wtCond{is.Cond, true, is})
					}
				case is.Else != nil && jumps(is.Body.List):
					if eb, ok := is.Else.(*ast.BlockStmt); !ok || !jumps(eb.List) {
						conds = with(conds, wtCond{is.Cond, false, is})
					}
				}
			}
		}
	}
	walk(w.wait.Body.List, nil, 0, false, nil)
}

// wtImplies: reaching a branch with `cond` evaluated to `taken` guarantees the
// atomic fact tested by atom (atom(e, v): e evaluating to v guarantees it).
func wtImplies(cond ast.Expr, taken bool, atom func(e ast.Expr, v bool) bool) bool {
	switch x := ast.Unparen(cond).(type) {
	case *ast.UnaryExpr:
		if x.Op == token.NOT {
			return wtImplies(x.X, !taken, atom)
		}
	case *ast.BinaryExpr:
		switch {
		case x.Op == token.LAND && taken, x.Op == token.LOR && !taken:
			return wtImplies(x.X, taken, atom) || wtImplies(x.Y, taken, atom)
		case x.Op == token.LAND && !taken, x.Op == token.LOR && taken:
			return wtImplies(x.X, taken, atom) && wtImplies(x.Y, taken, atom)
		}
	}
	return atom(ast.Unparen(cond), taken)
}

// wtSoleDef: the single defining expression of a local variable of fd (nil
// when it is assigned more than once, or by a tuple assignment).
func wtSoleDef(info *types.Info, fd *ast.FuncDecl, obj types.Object) ast.Expr {
	var def ast.Expr
	n := 0
	ast.Inspect(fd.Body, func(nd ast.Node) bool {
		switch x := nd.(type) {
		case *ast.AssignStmt:
			for i, lh := range x.Lhs {
				if id, ok := lh.(*ast.Ident); ok && moObj(info, id) == obj {
					n++
					if len(x.Rhs) == len(x.Lhs) && (x.Tok == token.DEFINE || x.Tok == token.ASSIGN) {
						def = x.Rhs[i]
					} else {
						n++
					}
				}
			}
		case *ast.IncDecStmt:
			if id, ok := x.X.(*ast.Ident); ok && moObj(info, id) == obj {
				n += 2
			}
		case *ast.ValueSpec:
			for i, id := range x.Names {
				if info.Defs[id] == obj && i < len(x.Values) {
					n++
					def = x.Values[i]
				}
			}
		case *ast.UnaryExpr:
			if id, ok := ast.Unparen(x.X).(*ast.Ident); ok && x.Op == token.AND && moObj(info, id) == obj {
				n += 2 // address taken
			}
		}
		return true
	})
	if n != 1 {
		return nil
	}
	return def
}

// wtSingleReturn: the expression returned by a module function whose body is a
// single `return <expr>` (a one-line accessor / predicate), with its package.
func wtSingleReturn(c *Ctx, info *types.Info, call *ast.CallExpr) (ast.Expr, *types.Info, *ast.FuncDecl) {
	fn := CalleeOf(info, call)
	if fn == nil || fn.Pkg() == nil || !strings.HasPrefix(fn.Pkg().Path(), ModPath) {
		return nil, nil, nil
	}
	ref := moDeclOf(c, fn)
	if ref == nil || ref.fd.Body == nil || len(ref.fd.Body.List) != 1 {
		return nil, nil, nil
	}
	r, ok := ref.fd.Body.List[0].(*ast.ReturnStmt)
	if !ok || len(r.Results) != 1 {
		return nil, nil, nil
	}
	return r.Results[0], ref.pkg.TypesInfo, ref.fd
}

// wtDrainsBefore: the innermost branch containing the return has, before it, a
// loop over the core list that receives from each core's signal channel.
func wtDrainsBefore(w *wtAnchors, ret ast.Stmt, conds []wtCond) bool {
	if len(conds) == 0 {
		return false
	}
	last := conds[len(conds)-1]
	if last.stmt == nil {
		return false
	}
	var block *ast.BlockStmt
	if last.taken {
		block = last.stmt.Body
	} else if b, ok := last.stmt.Else.(*ast.BlockStmt); ok {
		block = b
	}
	if block == nil {
		return false
	}
	drains := false
	for _, s := range block.List {
		if s.Pos() >= ret.Pos() {
			break
		}
		rs, ok := s.(*ast.RangeStmt)
		if !ok {
			continue
		}
		overCores := false
		ast.Inspect(rs.X, func(n ast.Node) bool {
			if sel, ok := n.(*ast.SelectorExpr); ok && w.info.Uses[sel.Sel] == w.coreList {
				overCores = true
			}
			return true
		})
		// also accept ranging over a local copy of the list
		if id, ok := ast.Unparen(rs.X).(*ast.Ident); ok {
			if t := w.info.TypeOf(id); t != nil && types.Identical(t, w.coreList.Type()) {
				overCores = true
			}
		}
		if !overCores {
			continue
		}
		ast.Inspect(rs.Body, func(n ast.Node) bool {
			if u, ok := n.(*ast.UnaryExpr); ok && u.Op == token.ARROW {
				if sel, ok := ast.Unparen(u.X).(*ast.SelectorExpr); ok && w.info.Uses[sel.Sel] == w.sigField {
					drains = true
				}
			}
			return true
		})
	}
	return drains
}

// ---- R-wait ----

func ruleWait(c *Ctx) []Obligation {
	w := wtResolve(c)
	info := w.info
	var obs []Obligation
	// received-interrupt variables: idents defined by `<-core.Signal`
	recvVars := map[types.Object]bool{}
	ast.Inspect(w.wait.Body, func(n ast.Node) bool {
		as, ok := n.(*ast.AssignStmt)
		if !ok || len(as.Rhs) != 1 {
			return true
		}
		if u, ok := ast.Unparen(as.Rhs[0]).(*ast.UnaryExpr); ok && u.Op == token.ARROW {
			if sel, ok := ast.Unparen(u.X).(*ast.SelectorExpr); ok && info.Uses[sel.Sel] == w.sigField {
				if id, ok := as.Lhs[0].(*ast.Ident); ok {
					recvVars[moObj(info, id)] = true
				}
			}
		}
		return true
	})
	// recvNonNil: e evaluating to v guarantees that the received interrupt is non-nil
	var recvNonNil func(e ast.Expr, v bool) bool
	recvNonNil = func(e ast.Expr, v bool) bool {
		e = ast.Unparen(e)
		switch x := e.(type) {
		case *ast.UnaryExpr:
			if x.Op == token.NOT {
				return recvNonNil(x.X, !v)
			}
		case *ast.Ident:
			// a bool local defined once (`finished := i == nil`)
			if obj := moObj(info, x); obj != nil && !recvVars[obj] {
				if def := wtSoleDef(info, w.wait, obj); def != nil {
					return recvNonNil(def, v)
				}
			}
			return false
		case *ast.CallExpr:
			// a one-line predicate of the module applied to the received value
			if len(x.Args) == 1 {
				if id, ok := ast.Unparen(x.Args[0]).(*ast.Ident); ok && recvVars[moObj(info, id)] {
					if r, ri, rfd := wtSingleReturn(c, info, x); r != nil && rfd != nil && rfd.Type.Params != nil && len(rfd.Type.Params.List) == 1 && len(rfd.Type.Params.List[0].Names) == 1 {
						pobj := ri.Defs[rfd.Type.Params.List[0].Names[0]]
						if rb, ok := ast.Unparen(r).(*ast.BinaryExpr); ok && (rb.Op == token.EQL || rb.Op == token.NEQ) {
							var o ast.Expr
							if moIsNil(ri, rb.Y) {
								o = rb.X
							} else if moIsNil(ri, rb.X) {
								o = rb.Y
							}
							if oid, ok := ast.Unparen(o).(*ast.Ident); ok && o != nil && moObj(ri, oid) == pobj {
								return (rb.Op == token.NEQ) == v
							}
						}
					}
				}
			}
			return false
		}
		be, ok := e.(*ast.BinaryExpr)
		if !ok || (be.Op != token.EQL && be.Op != token.NEQ) {
			return false
		}
		var o ast.Expr
		if moIsNil(info, be.Y) {
			o = be.X
		} else if moIsNil(info, be.X) {
			o = be.Y
		} else {
			return false
		}
		id, ok := ast.Unparen(o).(*ast.Ident)
		if !ok || !recvVars[moObj(info, id)] {
			return false
		}
		return (be.Op == token.NEQ) == v
	}
	// isCoreLen: e is the length of the live-core list (directly, through a local
	// defined once as such, through a slice-typed local copy of the list, or
	// through a one-line accessor of the module)
	var isCoreLen func(ci *types.Info, fd *ast.FuncDecl, e ast.Expr, depth int) bool
	var isCoreList func(ci *types.Info, fd *ast.FuncDecl, e ast.Expr, depth int) bool
	isCoreList = func(ci *types.Info, fd *ast.FuncDecl, e ast.Expr, depth int) bool {
		if depth > 3 {
			return false
		}
		switch x := ast.Unparen(e).(type) {
		case *ast.SelectorExpr:
			return ci.Uses[x.Sel] == w.coreList
		case *ast.Ident:
			if obj := moObj(ci, x); obj != nil && fd != nil {
				if def := wtSoleDef(ci, fd, obj); def != nil {
					return isCoreList(ci, fd, def, depth+1)
				}
			}
		case *ast.CallExpr:
			if r, ri, rfd := wtSingleReturn(c, ci, x); r != nil {
				return isCoreList(ri, rfd, r, depth+1)
			}
		}
		return false
	}
	isCoreLen = func(ci *types.Info, fd *ast.FuncDecl, e ast.Expr, depth int) bool {
		if depth > 3 {
			return false
		}
		switch x := ast.Unparen(e).(type) {
		case *ast.CallExpr:
			if id, ok := ast.Unparen(x.Fun).(*ast.Ident); ok && len(x.Args) == 1 {
				if _, isB := ci.Uses[id].(*types.Builtin); isB && id.Name == "len" {
					return isCoreList(ci, fd, x.Args[0], depth)
				}
			}
			if tv, ok := ci.Types[x.Fun]; ok && tv.IsType() && len(x.Args) == 1 {
				return isCoreLen(ci, fd, x.Args[0], depth+1) // int(len(…))
			}
			if r, ri, rfd := wtSingleReturn(c, ci, x); r != nil {
				return isCoreLen(ri, rfd, r, depth+1)
			}
		case *ast.Ident:
			if obj := moObj(ci, x); obj != nil && fd != nil {
				if def := wtSoleDef(ci, fd, obj); def != nil {
					return isCoreLen(ci, fd, def, depth+1)
				}
			}
		}
		return false
	}
	// listEmpty: e evaluating to v guarantees len(live-core list) == 0
	var listEmptyIn func(ci *types.Info, fd *ast.FuncDecl, depth int) func(e ast.Expr, v bool) bool
	listEmptyIn = func(ci *types.Info, fd *ast.FuncDecl, depth int) func(e ast.Expr, v bool) bool {
		return func(e ast.Expr, v bool) bool {
			switch x := e.(type) {
			case *ast.BinaryExpr:
				num := func(z ast.Expr) (int64, bool) {
					tv := ci.Types[z]
					if tv.Value == nil || tv.Value.Kind() != constant.Int {
						return 0, false
					}
					n, ok := constant.Int64Val(tv.Value)
					return n, ok
				}
				l, r, op := x.X, x.Y, x.Op
				if _, ok := num(l); ok { // constant on the left: mirror
					l, r = r, l
					switch op {
					case token.LSS:
						op = token.GTR
					case token.GTR:
						op = token.LSS
					case token.LEQ:
						op = token.GEQ
					case token.GEQ:
						op = token.LEQ
					}
				}
				k, ok := num(r)
				if !ok || !isCoreLen(ci, fd, l, 0) {
					return false
				}
				switch {
				case op == token.EQL && k == 0, op == token.LSS && k == 1, op == token.LEQ && k == 0:
					return v
				case op == token.NEQ && k == 0, op == token.GTR && k == 0, op == token.GEQ && k == 1:
					return !v
				}
			case *ast.CallExpr:
				// a one-line predicate of the module: noLiveCores()
				if depth < 2 {
					if r, ri, rfd := wtSingleReturn(c, ci, x); r != nil {
						return wtImplies(r, v, listEmptyIn(ri, rfd, depth+1))
					}
				}
			case *ast.Ident:
				// a boolean local defined once
				if obj := moObj(ci, x); obj != nil && fd != nil && depth < 2 {
					if def := wtSoleDef(ci, fd, obj); def != nil {
						return wtImplies(def, v, listEmptyIn(ci, fd, depth+1))
					}
				}
			}
			return false
		}
	}
	listEmpty := listEmptyIn(info, w.wait, 0)
	nb, nr := 0, 0
	var loopReturns []ast.Stmt
	wtVisitExits(w, func(kind string, st ast.Stmt, conds []wtCond, inLoop bool) {
		if !inLoop {
			return
		}
		switch kind {
		case "break", "cond":
			nb++
			ob := Obligation{Key: fmt.Sprintf("runtime.VM.Wait|loop exit: break #%d|only when the live-core list is empty", nb), Pos: c.Pos(st.Pos()), Nontrivial: true}
			ok := false
			for _, cd := range conds {
				if wtImplies(cd.cond, cd.taken, listEmpty) {
					ok = true
				}
			}
			if ok {
				ob.Status, ob.Detail = Discharged, "guarded by "+wtCondString(conds)
			} else {
				ob.Status, ob.Detail = Violated, fmt.Sprintf("the polling loop is left under %s, not under `len(%s) == 0`: Wait can return while cores are still running (the host's wait does not wait)", wtCondString(conds), w.coreList.Name())
			}
			obs = append(obs, ob)
		case "return":
			nr++
			loopReturns = append(loopReturns, st)
			ob := Obligation{Key: fmt.Sprintf("runtime.VM.Wait|loop exit: return #%d|only on a received interrupt", nr), Pos: c.Pos(st.Pos()), Nontrivial: true}
			ok := false
			for _, cd := range conds {
				if wtImplies(cd.cond, cd.taken, recvNonNil) {
					ok = true
				}
			}
			if ok {
				ob.Status, ob.Detail = Discharged, "reached only when the value received from a core is non-nil: "+wtCondString(conds)
			} else {
				ob.Status, ob.Detail = Violated, "Wait returns from inside the polling loop under "+wtCondString(conds)+", which does not establish that a core reported an interrupt"
			}
			obs = append(obs, ob)
		default:
			obs = append(obs, Obligation{Key: "runtime.VM.Wait|loop exit: " + kind, Pos: c.Pos(st.Pos()), Status: Undecided, Detail: "unsupported jump out of the polling loop"})
		}
	})
	if nb+nr == 0 {
		obs = append(obs, Obligation{Key: "runtime.VM.Wait|loop exits", Status: Violated, Pos: c.Pos(w.loop.Pos()), Detail: "the polling loop has no exit: Wait never returns"})
	}

	// lock state and cancel call at every return
	fl := &dfFlow{info: info}
	isCancelIn := func(ci *types.Info, call *ast.CallExpr) bool {
		t := ci.TypeOf(call.Fun)
		if t == nil {
			return false
		}
		if n, ok := types.Unalias(t).(*types.Named); ok && n.Obj().Name() == "CancelFunc" {
			return true
		}
		return false
	}
	// wrapper methods around the mutex / the cancel function count as what they do
	ip := newDfInterproc(c, func(ci *types.Info, call *ast.CallExpr, st dfState) bool {
		if k, op, ok := dfMutexOp(ci, call); ok {
			dfApplyMutex(st, k, op)
			return true
		}
		if isCancelIn(ci, call) {
			st["cancel"] = dfW
			return true
		}
		return false
	})
	fl.Call = ip.CallFn(info)
	fl.Run(w.wait.Body, dfState{})
	type ex struct {
		name string
		pos  token.Pos
		e    *dfExit
		in   bool
	}
	var exits []ex
	n := 0
	wtVisitExits(w, func(kind string, st ast.Stmt, conds []wtCond, inLoop bool) {
		if kind != "return" {
			return
		}
		n++
		if e := fl.Exits[st]; e != nil {
			exits = append(exits, ex{fmt.Sprintf("return #%d", n), st.Pos(), e, inLoop})
		}
	})
	if fl.EndExit != nil {
		exits = append(exits, ex{"end of function", w.wait.Body.Rbrace, fl.EndExit, false})
	}
	for _, e := range exits {
		ob := Obligation{Key: "runtime.VM.Wait|" + e.name + "|all locks released", Pos: c.Pos(e.pos), Nontrivial: true}
		var held []string
		for k, m := range e.e.st {
			if strings.HasPrefix(k, "defer|") || k == "cancel" {
				continue
			}
			if m != dfU {
				held = append(held, k+" may be "+dfModeString(m))
			}
		}
		sort.Strings(held)
		if len(held) == 0 {
			ob.Status, ob.Detail = Discharged, "every mutex touched by Wait is unlocked here"
		} else {
			ob.Status = Violated
			ob.Detail = fmt.Sprintf("Wait returns with %s: the read lock taken just before the return is never released, so the next spawnCore (which needs %s for writing) blocks forever — after a failed call the VM answers later SpawnSync/SpawnAsync calls by hanging instead of with a failure. Fix: drop the re-acquisition before the return (or RUnlock before returning).", strings.Join(held, ", "), strings.SplitN(held[0], " ", 2)[0])
		}
		obs = append(obs, ob)
		if e.in {
			ob2 := Obligation{Key: "runtime.VM.Wait|" + e.name + "|cancel function called", Pos: c.Pos(e.pos), Nontrivial: true}
			if e.e.st.get("cancel") == dfW {
				ob2.Status, ob2.Detail = Discharged, "every path to this return calls the VM's context.CancelFunc: the remaining cores observe the cancellation at their next poll"
			} else {
				ob2.Status, ob2.Detail = Violated, "Wait reports an interrupt without (always) calling the cancel function: the other cores keep running after the host's wait returned"
			}
			obs = append(obs, ob2)
		}
	}
	// every registration in the polled list is paired with a started sender (rules_r4rta_spawn.go)
	obs = append(obs, r4aRegistrations(c)...)
	// only the coordinator calls the VM-wide cancel function (rules_r5rt.go)
	obs = append(obs, r5rtCancelCallers(c)...)
	// handles shared by reference are stored as given (rules_r6rt.go)
	obs = append(obs, r6rtSharedHandles(c)...)
	return obs
}
