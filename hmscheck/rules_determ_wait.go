package main

// R-chan-send, R-wait (C10, C16, C17): the signal channel between a core and
// VM.Wait, and Wait's exit conditions.

import (
	"fmt"
	"go/ast"
	"go/constant"
	"go/token"
	"go/types"
	"strings"

	"golang.org/x/tools/go/ssa"
)

func init() {
	register(&Rule{ID: "R-chan-send", Floor: 4, Run: ruleChanSend,
		Doc: "C10/C16/C17: a core reports its end to VM.Wait by sending on its signal channel. (1) Every return path of Core.Run sends exactly one value (none: Wait never removes the core and never returns; two: the second send blocks forever). (2) A send must never block forever: either the channel's capacity is >= the number of sends of a run, or every return of Wait happens only when no live core remains or after draining every live core. With an unbuffered channel and a Wait that returns on the first interrupt, every other core stays blocked in its send (goroutine leak; a later SpawnSync on the same VM finds stale state / a later cancel cannot reach them)."})
	register(&Rule{ID: "R-wait", Floor: 4, Run: ruleWait,
		Doc: "C10/C16/C17: VM.Wait's polling loop may only be left (a) by a break taken when the live-core list is empty, or (b) by a return in the branch that received a non-nil interrupt; on (b) the cancel function must have been called (so the remaining cores stop), and on every return the core-list mutex must be released (a Wait that returns holding the RLock makes the next spawnCore — which needs Lock — block forever: the VM answers later calls by hanging)."})
}

type wtAnchors struct {
	sigField *types.Var // Core's signal channel field
	coreList *types.Var // the guarded []Core field
	wait     *ast.FuncDecl
	run      *ast.FuncDecl
	info     *types.Info
	loop     *ast.ForStmt
}

func wtResolve(c *Ctx) *wtAnchors {
	rt := c.Pkg("homescript/runtime")
	w := &wtAnchors{info: rt.TypesInfo}
	w.wait = c.MustFunc("homescript/runtime", "VM", "Wait")
	w.run = c.MustFunc("homescript/runtime", "Core", "Run")
	coreT, _ := rt.Types.Scope().Lookup("Core").(*types.TypeName)
	if coreT == nil {
		fatalf("anchor unresolved: runtime.Core")
	}
	ast.Inspect(w.wait.Body, func(n ast.Node) bool {
		if u, ok := n.(*ast.UnaryExpr); ok && u.Op == token.ARROW {
			if s, ok := ast.Unparen(u.X).(*ast.SelectorExpr); ok {
				if v, ok := w.info.Uses[s.Sel].(*types.Var); ok && v.IsField() {
					if _, isChan := v.Type().Underlying().(*types.Chan); isChan && w.sigField == nil {
						w.sigField = v
					}
				}
			}
		}
		return true
	})
	if w.sigField == nil {
		fatalf("anchor unresolved: VM.Wait receives from no channel field of a core")
	}
	// the live-core list: a slice-of-Core field read in Wait
	ast.Inspect(w.wait.Body, func(n ast.Node) bool {
		if s, ok := n.(*ast.SelectorExpr); ok {
			if v, ok := w.info.Uses[s.Sel].(*types.Var); ok && v.IsField() {
				if sl, ok := v.Type().Underlying().(*types.Slice); ok && types.Identical(sl.Elem(), coreT.Type()) && w.coreList == nil {
					w.coreList = v
				}
			}
		}
		return true
	})
	if w.coreList == nil {
		fatalf("anchor unresolved: VM.Wait reads no []Core field")
	}
	for _, s := range w.wait.Body.List {
		if f, ok := s.(*ast.ForStmt); ok && w.loop == nil {
			w.loop = f
		}
	}
	if w.loop == nil {
		fatalf("anchor unresolved: VM.Wait has no top-level polling loop")
	}
	return w
}

func (w *wtAnchors) isSigSend(s ast.Stmt) bool {
	ss, ok := s.(*ast.SendStmt)
	if !ok {
		return false
	}
	sel, ok := ast.Unparen(ss.Chan).(*ast.SelectorExpr)
	return ok && w.info.Uses[sel.Sel] == w.sigField
}

// capacity of the channel stored in the signal field (SSA trace to MakeChan).
func wtCapacity(c *Ctx, w *wtAnchors) (min int64, known bool, where string) {
	a := determMod(c)
	min, known = 1<<40, false
	var trace func(fn *ssa.Function, v ssa.Value, depth int)
	allKnown := true
	n := 0
	trace = func(fn *ssa.Function, v ssa.Value, depth int) {
		switch x := v.(type) {
		case *ssa.MakeChan:
			n++
			if k, ok := x.Size.(*ssa.Const); ok && k.Value != nil && k.Value.Kind() == constant.Int {
				if k.Int64() < min {
					min = k.Int64()
					where = c.Pos(x.Pos())
				}
			} else {
				allKnown = false
			}
		case *ssa.ChangeType:
			trace(fn, x.X, depth)
		case *ssa.Phi:
			for _, e := range x.Edges {
				trace(fn, e, depth)
			}
		case *ssa.Parameter:
			if depth > 4 {
				allKnown = false
				return
			}
			idx := dmParamIndex(fn, x)
			found := false
			for caller := range a.callers[fn] {
				for _, b := range caller.Blocks {
					for _, in := range b.Instrs {
						if ci, ok := in.(ssa.CallInstruction); ok {
							for _, cal := range a.callees(ci) {
								if cal == fn {
									if arg := dmArgFor(ci.Common(), fn, idx); arg != nil {
										found = true
										trace(caller, arg, depth+1)
									}
								}
							}
						}
					}
				}
			}
			if !found {
				allKnown = false
			}
		default:
			allKnown = false
		}
	}
	for _, fn := range a.funcs {
		for _, b := range fn.Blocks {
			for _, in := range b.Instrs {
				if s, ok := in.(*ssa.Store); ok {
					if fa, ok := s.Addr.(*ssa.FieldAddr); ok && dmFieldOf(fa.X.Type(), fa.Field) == w.sigField {
						trace(fn, s.Val, 0)
					}
				}
			}
		}
	}
	return min, allKnown && n > 0, where
}

func ruleChanSend(c *Ctx) []Obligation {
	w := wtResolve(c)
	var obs []Obligation
	// (1) sends per path of Core.Run
	type exitAgg struct {
		min, max int
		pos      token.Pos
		kind     string
	}
	agg := map[token.Pos]*exitAgg{}
	var order []token.Pos
	wk := &Walker[int]{
		Clone: func(n int) int { return n },
		OnStmt: func(n int, s ast.Stmt) (int, bool) {
			if w.isSigSend(s) {
				return n + 1, true
			}
			return n, true
		},
		OnCond: func(n int, cond ast.Expr, taken bool) (int, bool) {
			if tv, ok := w.info.Types[cond]; ok && tv.Value != nil && tv.Value.Kind() == constant.Bool {
				return n, constant.BoolVal(tv.Value) == taken
			}
			return n, true
		},
		IsPanic: func(s ast.Stmt) bool { return IsPanicCall(w.info, s) },
	}
	wk.Exit = func(n int, o outcome) {
		if o.kind == cPanic {
			return
		}
		pos := o.at
		kind := "return"
		if o.ret == nil {
			pos, kind = w.run.Body.Rbrace, "end of function"
		}
		e := agg[pos]
		if e == nil {
			e = &exitAgg{min: n, max: n, pos: pos, kind: kind}
			agg[pos] = e
			order = append(order, pos)
		}
		if n < e.min {
			e.min = n
		}
		if n > e.max {
			e.max = n
		}
	}
	wk.Run(w.run.Body, 0)
	if wk.Overflow || len(wk.Unsupported) > 0 {
		obs = append(obs, Obligation{Key: "runtime.Core.Run|paths", Status: Undecided, Pos: c.Pos(w.run.Pos()), Detail: fmt.Sprintf("path enumeration incomplete (overflow=%v, unsupported statements=%d)", wk.Overflow, len(wk.Unsupported))})
	}
	// stable numbering: source order
	for i := 0; i < len(order); i++ {
		for j := i + 1; j < len(order); j++ {
			if order[j] < order[i] {
				order[i], order[j] = order[j], order[i]
			}
		}
	}
	maxSends := 0
	for i, pos := range order {
		e := agg[pos]
		if e.max > maxSends {
			maxSends = e.max
		}
		key := fmt.Sprintf("runtime.Core.Run|%s #%d|sends exactly one signal", e.kind, i+1)
		if e.kind != "return" {
			key = "runtime.Core.Run|end of function|sends exactly one signal"
		}
		ob := Obligation{Key: key, Pos: c.Pos(pos), Nontrivial: true}
		switch {
		case e.min == 1 && e.max == 1:
			ob.Status, ob.Detail = Discharged, "every path to this exit performs exactly one send on "+w.sigField.Name()
		case e.min == 0:
			ob.Status, ob.Detail = Violated, fmt.Sprintf("a path reaches this exit without sending on %s: VM.Wait never learns that the core ended, keeps it in the live list and never returns", w.sigField.Name())
		default:
			ob.Status, ob.Detail = Violated, fmt.Sprintf("a path reaches this exit after %d sends on %s: Wait consumes one value per core, the second send blocks forever", e.max, w.sigField.Name())
		}
		obs = append(obs, ob)
	}
	// sends outside Core.Run
	rt := c.Pkg("homescript/runtime")
	for _, p := range c.All {
		for _, fd := range AllFuncDecls(p) {
			if fd == w.run {
				continue
			}
			ast.Inspect(fd.Body, func(n ast.Node) bool {
				if ss, ok := n.(*ast.SendStmt); ok {
					if sel, ok := ast.Unparen(ss.Chan).(*ast.SelectorExpr); ok && p.TypesInfo.Uses[sel.Sel] == w.sigField {
						obs = append(obs, Obligation{Key: fmt.Sprintf("%s.%s|send on %s outside Core.Run", relPkgShort(p.PkgPath), FuncName(fd), w.sigField.Name()), Pos: c.Pos(ss.Pos()), Status: Undecided,
							Detail: "the per-run send count only covers Core.Run; a send elsewhere needs the rule extended"})
					}
				}
				return true
			})
		}
	}
	_ = rt
	// (2) capacity vs. draining
	capMin, capKnown, capWhere := wtCapacity(c, w)
	capOb := Obligation{Key: fmt.Sprintf("runtime.Core.%s|capacity", w.sigField.Name()), Pos: capWhere, Nontrivial: true}
	buffered := capKnown && capMin >= int64(maxSends) && maxSends > 0
	switch {
	case !capKnown:
		capOb.Status, capOb.Detail = Undecided, "cannot determine the capacity of the channel stored in the signal field (not a make(chan …) with constant size reaching it)"
	case buffered:
		capOb.Status, capOb.Detail = Discharged, fmt.Sprintf("capacity %d >= %d send(s) per run: a core can always finish, whether or not Wait still listens", capMin, maxSends)
	default:
		capOb.Status, capOb.Detail = Info, fmt.Sprintf("capacity %d < %d send(s) per run: a finishing core blocks until Wait receives; see the per-return obligations of VM.Wait", capMin, maxSends)
	}
	obs = append(obs, capOb)
	if !buffered {
		// each return of Wait: no live core may remain, or all are drained
		ri := 0
		wtVisitExits(w, func(kind string, st ast.Stmt, conds []wtCond, inLoop bool) {
			if kind != "return" {
				return
			}
			ri++
			key := fmt.Sprintf("runtime.VM.Wait|return #%d|no core is left blocked in its send", ri)
			ob := Obligation{Key: key, Pos: c.Pos(st.Pos()), Nontrivial: true}
			if !inLoop {
				ob.Status, ob.Detail = Discharged, "reached only after the polling loop ended, i.e. (R-wait) when the live-core list is empty"
			} else if wtDrainsBefore(w, st, conds) {
				ob.Status, ob.Detail = Discharged, "the branch receives from every remaining core before returning"
			} else {
				ob.Status = Violated
				ob.Detail = fmt.Sprintf("Wait returns from inside the polling loop (branch: %s) while other cores may still be alive; their signal channel is unbuffered (capacity %d, made at %s) and nobody receives from it any more, so each of them blocks forever in `%s <- …` — also after the cancellation this branch triggers, because the termination interrupt is reported through the same send. Scenario: main spawns two looping cores and throws; Wait returns the exception, both cores leak, a second SpawnSync on the VM meets the leftovers. Fix: make(chan *value.VmInterrupt, 1) in spawnCore (one send per run), or drain the remaining cores before returning.", wtCondString(conds), capMin, capWhere, w.sigField.Name())
			}
			obs = append(obs, ob)
		})
	}
	return obs
}

type wtCond struct {
	cond  ast.Expr
	taken bool
	stmt  *ast.IfStmt
}

func wtCondString(cs []wtCond) string {
	var p []string
	for _, c := range cs {
		s := exprStr(c.cond)
		if !c.taken {
			s = "!(" + s + ")"
		}
		p = append(p, s)
	}
	if len(p) == 0 {
		return "unconditional"
	}
	return strings.Join(p, " && ")
}

// wtVisitExits reports every statement that leaves Wait's polling loop (break
// of that loop, return inside it) and every return after it.
func wtVisitExits(w *wtAnchors, f func(kind string, st ast.Stmt, conds []wtCond, inLoop bool)) {
	var walk func(list []ast.Stmt, conds []wtCond, depth int, inLoop bool)
	var stmt func(s ast.Stmt, conds []wtCond, depth int, inLoop bool)
	stmt = func(s ast.Stmt, conds []wtCond, depth int, inLoop bool) {
		switch x := s.(type) {
		case *ast.BlockStmt:
			walk(x.List, conds, depth, inLoop)
		case *ast.LabeledStmt:
			stmt(x.Stmt, conds, depth, inLoop)
		case *ast.IfStmt:
			walk(x.Body.List, append(append([]wtCond(nil), conds...), wtCond{x.Cond, true, x}), depth, inLoop)
			if x.Else != nil {
				stmt(x.Else, append(append([]wtCond(nil), conds...), wtCond{x.Cond, false, x}), depth, inLoop)
			}
		case *ast.ForStmt:
			if x == w.loop {
				walk(x.Body.List, conds, 0, true)
			} else {
				walk(x.Body.List, conds, depth+1, inLoop)
			}
		case *ast.RangeStmt:
			walk(x.Body.List, conds, depth+1, inLoop)
		case *ast.SwitchStmt:
			for _, cl := range x.Body.List {
				walk(cl.(*ast.CaseClause).Body, conds, depth+1, inLoop)
			}
		case *ast.TypeSwitchStmt:
			for _, cl := range x.Body.List {
				walk(cl.(*ast.CaseClause).Body, conds, depth+1, inLoop)
			}
		case *ast.SelectStmt:
			for _, cl := range x.Body.List {
				walk(cl.(*ast.CommClause).Body, conds, depth+1, inLoop)
			}
		case *ast.ReturnStmt:
			f("return", x, conds, inLoop)
		case *ast.BranchStmt:
			if x.Tok == token.BREAK && inLoop && x.Label == nil && depth == 0 {
				f("break", x, conds, inLoop)
			}
			if x.Tok == token.BREAK && x.Label != nil {
				f("break", x, conds, inLoop) // conservatively: any labelled break
			}
			if x.Tok == token.GOTO {
				f("goto", x, conds, inLoop)
			}
		}
	}
	walk = func(list []ast.Stmt, conds []wtCond, depth int, inLoop bool) {
		for _, s := range list {
			stmt(s, conds, depth, inLoop)
		}
	}
	walk(w.wait.Body.List, nil, 0, false)
}

// wtDrainsBefore: the innermost branch containing the return has, before it, a
// loop over the core list that receives from each core's signal channel.
func wtDrainsBefore(w *wtAnchors, ret ast.Stmt, conds []wtCond) bool {
	if len(conds) == 0 {
		return false
	}
	last := conds[len(conds)-1]
	var block *ast.BlockStmt
	if last.taken {
		block = last.stmt.Body
	} else if b, ok := last.stmt.Else.(*ast.BlockStmt); ok {
		block = b
	}
	if block == nil {
		return false
	}
	drains := false
	for _, s := range block.List {
		if s.Pos() >= ret.Pos() {
			break
		}
		rs, ok := s.(*ast.RangeStmt)
		if !ok {
			continue
		}
		overCores := false
		ast.Inspect(rs.X, func(n ast.Node) bool {
			if sel, ok := n.(*ast.SelectorExpr); ok && w.info.Uses[sel.Sel] == w.coreList {
				overCores = true
			}
			return true
		})
		// also accept ranging over a local copy of the list
		if id, ok := ast.Unparen(rs.X).(*ast.Ident); ok {
			if t := w.info.TypeOf(id); t != nil && types.Identical(t, w.coreList.Type()) {
				overCores = true
			}
		}
		if !overCores {
			continue
		}
		ast.Inspect(rs.Body, func(n ast.Node) bool {
			if u, ok := n.(*ast.UnaryExpr); ok && u.Op == token.ARROW {
				if sel, ok := ast.Unparen(u.X).(*ast.SelectorExpr); ok && w.info.Uses[sel.Sel] == w.sigField {
					drains = true
				}
			}
			return true
		})
	}
	return drains
}

// ---- R-wait ----

func ruleWait(c *Ctx) []Obligation {
	w := wtResolve(c)
	info := w.info
	var obs []Obligation
	// received-interrupt variables: idents defined by `<-core.Signal`
	recvVars := map[types.Object]bool{}
	ast.Inspect(w.wait.Body, func(n ast.Node) bool {
		as, ok := n.(*ast.AssignStmt)
		if !ok || len(as.Rhs) != 1 {
			return true
		}
		if u, ok := ast.Unparen(as.Rhs[0]).(*ast.UnaryExpr); ok && u.Op == token.ARROW {
			if sel, ok := ast.Unparen(u.X).(*ast.SelectorExpr); ok && info.Uses[sel.Sel] == w.sigField {
				if id, ok := as.Lhs[0].(*ast.Ident); ok {
					recvVars[moObj(info, id)] = true
				}
			}
		}
		return true
	})
	isNilTest := func(e ast.Expr) (isRecv bool, eq bool) {
		be, ok := ast.Unparen(e).(*ast.BinaryExpr)
		if !ok || (be.Op != token.EQL && be.Op != token.NEQ) {
			return false, false
		}
		var o ast.Expr
		if moIsNil(info, be.Y) {
			o = be.X
		} else if moIsNil(info, be.X) {
			o = be.Y
		} else {
			return false, false
		}
		id, ok := ast.Unparen(o).(*ast.Ident)
		if !ok || !recvVars[moObj(info, id)] {
			return false, false
		}
		return true, be.Op == token.EQL
	}
	isEmptyTest := func(e ast.Expr) bool {
		be, ok := ast.Unparen(e).(*ast.BinaryExpr)
		if !ok || be.Op != token.EQL {
			return false
		}
		chk := func(l, z ast.Expr) bool {
			call, ok := ast.Unparen(l).(*ast.CallExpr)
			if !ok || len(call.Args) != 1 {
				return false
			}
			if id, ok := call.Fun.(*ast.Ident); !ok || id.Name != "len" {
				return false
			}
			sel, ok := ast.Unparen(call.Args[0]).(*ast.SelectorExpr)
			if !ok || info.Uses[sel.Sel] != w.coreList {
				return false
			}
			tv := info.Types[z]
			return tv.Value != nil && tv.Value.Kind() == constant.Int && constant.Sign(tv.Value) == 0
		}
		return chk(be.X, be.Y) || chk(be.Y, be.X)
	}
	nb, nr := 0, 0
	var loopReturns []ast.Stmt
	wtVisitExits(w, func(kind string, st ast.Stmt, conds []wtCond, inLoop bool) {
		if !inLoop {
			return
		}
		switch kind {
		case "break":
			nb++
			ob := Obligation{Key: fmt.Sprintf("runtime.VM.Wait|loop exit: break #%d|only when the live-core list is empty", nb), Pos: c.Pos(st.Pos()), Nontrivial: true}
			ok := false
			for _, cd := range conds {
				if cd.taken && isEmptyTest(cd.cond) {
					ok = true
				}
			}
			if ok {
				ob.Status, ob.Detail = Discharged, "guarded by "+wtCondString(conds)
			} else {
				ob.Status, ob.Detail = Violated, fmt.Sprintf("the polling loop is left under %s, not under `len(%s) == 0`: Wait can return while cores are still running (the host's wait does not wait)", wtCondString(conds), w.coreList.Name())
			}
			obs = append(obs, ob)
		case "return":
			nr++
			loopReturns = append(loopReturns, st)
			ob := Obligation{Key: fmt.Sprintf("runtime.VM.Wait|loop exit: return #%d|only on a received interrupt", nr), Pos: c.Pos(st.Pos()), Nontrivial: true}
			ok := false
			for _, cd := range conds {
				if is, eq := isNilTest(cd.cond); is && ((eq && !cd.taken) || (!eq && cd.taken)) {
					ok = true
				}
			}
			if ok {
				ob.Status, ob.Detail = Discharged, "reached only when the value received from a core is non-nil: "+wtCondString(conds)
			} else {
				ob.Status, ob.Detail = Violated, "Wait returns from inside the polling loop under "+wtCondString(conds)+", which does not establish that a core reported an interrupt"
			}
			obs = append(obs, ob)
		default:
			obs = append(obs, Obligation{Key: "runtime.VM.Wait|loop exit: " + kind, Pos: c.Pos(st.Pos()), Status: Undecided, Detail: "unsupported jump out of the polling loop"})
		}
	})
	if nb+nr == 0 {
		obs = append(obs, Obligation{Key: "runtime.VM.Wait|loop exits", Status: Violated, Pos: c.Pos(w.loop.Pos()), Detail: "the polling loop has no exit: Wait never returns"})
	}
	if w.loop.Cond != nil {
		ob := Obligation{Key: "runtime.VM.Wait|loop condition", Pos: c.Pos(w.loop.Pos()), Status: Undecided, Detail: "the polling loop has a condition (" + exprStr(w.loop.Cond) + "): extend the rule to show it only fails when the core list is empty"}
		obs = append(obs, ob)
	}

	// lock state and cancel call at every return
	fl := &dfFlow{info: info}
	isCancelCall := func(call *ast.CallExpr) bool {
		t := info.TypeOf(call.Fun)
		if t == nil {
			return false
		}
		if n, ok := t.(*types.Named); ok && n.Obj().Pkg() != nil && n.Obj().Pkg().Path() == "context" && n.Obj().Name() == "CancelFunc" {
			return true
		}
		if n, ok := types.Unalias(t).(*types.Named); ok && n.Obj().Name() == "CancelFunc" {
			return true
		}
		return false
	}
	fl.Call = func(call *ast.CallExpr, st dfState) {
		if k, op, ok := dfMutexOp(info, call); ok {
			dfApplyMutex(st, k, op)
		}
		if isCancelCall(call) {
			st["cancel"] = dfW
		}
	}
	fl.Run(w.wait.Body, dfState{})
	type ex struct {
		name string
		pos  token.Pos
		e    *dfExit
		in   bool
	}
	var exits []ex
	n := 0
	wtVisitExits(w, func(kind string, st ast.Stmt, conds []wtCond, inLoop bool) {
		if kind != "return" {
			return
		}
		n++
		if e := fl.Exits[st]; e != nil {
			exits = append(exits, ex{fmt.Sprintf("return #%d", n), st.Pos(), e, inLoop})
		}
	})
	if fl.EndExit != nil {
		exits = append(exits, ex{"end of function", w.wait.Body.Rbrace, fl.EndExit, false})
	}
	for _, e := range exits {
		ob := Obligation{Key: "runtime.VM.Wait|" + e.name + "|all locks released", Pos: c.Pos(e.pos), Nontrivial: true}
		var held []string
		for k, m := range e.e.st {
			if strings.HasPrefix(k, "defer|") || k == "cancel" {
				continue
			}
			if m != dfU {
				held = append(held, k+" may be "+dfModeString(m))
			}
		}
		if len(held) == 0 {
			ob.Status, ob.Detail = Discharged, "every mutex touched by Wait is unlocked here"
		} else {
			ob.Status = Violated
			ob.Detail = fmt.Sprintf("Wait returns with %s: the read lock taken just before the return is never released, so the next spawnCore (which needs %s for writing) blocks forever — after a failed call the VM answers later SpawnSync/SpawnAsync calls by hanging instead of with a failure. Fix: drop the re-acquisition before the return (or RUnlock before returning).", strings.Join(held, ", "), strings.SplitN(held[0], " ", 2)[0])
		}
		obs = append(obs, ob)
		if e.in {
			ob2 := Obligation{Key: "runtime.VM.Wait|" + e.name + "|cancel function called", Pos: c.Pos(e.pos), Nontrivial: true}
			if e.e.st.get("cancel") == dfW {
				ob2.Status, ob2.Detail = Discharged, "every path to this return calls the VM's context.CancelFunc: the remaining cores observe the cancellation at their next poll"
			} else {
				ob2.Status, ob2.Detail = Violated, "Wait reports an interrupt without (always) calling the cancel function: the other cores keep running after the host's wait returned"
			}
			obs = append(obs, ob2)
		}
	}
	return obs
}
