package main

import (
	"fmt"
	"go/ast"
	"go/token"
	"go/types"
	"sort"
	"strings"
)

// R-foreign-span: what a module registers in its own tables carries its own spans.

func init() {
	register(&Rule{ID: "R-foreign-span", Floor: 3, Run: ruleR4ForeignSpan,
		Doc: "the analyzer registers names in the tables of the module it is analysing through Module.add* (addType / addVar / addTemplate / addTrigger / addFunc on self.currentModule). When the registered entry is built from an object of ANOTHER module — a value obtained from a Module.get* lookup whose receiver is not self.currentModule (the exporting module of an import) — every span the entry carries must come from the importing module's own syntax (the import item), because the entry's spans are later used for diagnostics about the importing module ('Type X is unused', 'previously imported here'). Enumerated: every add* call on self.currentModule whose entry argument mentions such a foreign object. (1) built by a constructor / literal: no span-typed argument is taken from the foreign object, and a Type taken from it is re-spanned (a method of the foreign object that is handed a span of the importing module: `.SetSpan(item.Span)`, `fn.Type(item.Span)`); (2) a copy of the foreign entry (`imported := *typ`, or the looked-up value itself): every span-typed field of its struct that some diagnostic of the analyzer reads as its location (found by scanning the span operands of the diagnostic primitives and Diagnostic literals) is overwritten with a local span before the call. Otherwise a diagnostic about the importing module is rendered at a position of the exporting module's file (C08: every diagnostic names a location inside the construct that caused it)."})
}

func ruleR4ForeignSpan(c *Ctx) []Obligation {
	e := r2sibEngineOf(c)
	p := c.Pkg("homescript/analyzer")
	info := p.TypesInfo
	isSpan := func(t types.Type) bool {
		n, ok := types.Unalias(t).(*types.Named)
		return ok && n.Obj().Name() == "Span" && n.Obj().Pkg() != nil && strings.HasSuffix(n.Obj().Pkg().Path(), "/errors")
	}
	// span fields that a diagnostic reads as its location
	diagRead := map[*types.Var]string{}
	noteSpanOperand := func(x ast.Expr, where token.Pos) {
		ast.Inspect(x, func(n ast.Node) bool {
			sel, ok := n.(*ast.SelectorExpr)
			if !ok {
				return true
			}
			if fv, ok := info.Uses[sel.Sel].(*types.Var); ok && fv.IsField() && isSpan(fv.Type()) {
				if _, seen := diagRead[fv]; !seen {
					diagRead[fv] = c.Pos(where)
				}
			}
			return true
		})
	}
	for _, fd := range AllFuncDecls(p) {
		if fd.Body == nil {
			continue
		}
		ast.Inspect(fd.Body, func(n ast.Node) bool {
			switch x := n.(type) {
			case *ast.CallExpr:
				if lvl := e.roles.diagPrim[CalleeOf(info, x)]; lvl != "" && len(x.Args) >= 3 {
					noteSpanOperand(x.Args[2], x.Pos())
				}
			case *ast.CompositeLit:
				if tv, ok := info.Types[x]; ok && tv.Type != nil {
					if nt, ok := types.Unalias(tv.Type).(*types.Named); ok && nt.Obj().Name() == "Diagnostic" {
						if sp := r2sibLitField(x, "Span"); sp != nil {
							noteSpanOperand(sp, x.Pos())
						}
					}
				}
			}
			return true
		})
	}
	var out []Obligation
	moduleT, _ := p.Types.Scope().Lookup("Module").(*types.TypeName)
	if moduleT == nil {
		fatalf("anchor unresolved: analyzer.Module")
	}
	isModuleMethod := func(fn *types.Func, prefix string) bool {
		if fn == nil || !strings.HasPrefix(fn.Name(), prefix) {
			return false
		}
		sig := fn.Type().(*types.Signature)
		return sig.Recv() != nil && recvNamed(sig.Recv().Type()) == moduleT.Type()
	}
	for _, fd := range AllFuncDecls(p) {
		if fd.Body == nil {
			continue
		}
		f := r2sibFuncOf(c, p, fd)
		objOf := func(id *ast.Ident) types.Object {
			if o := info.Defs[id]; o != nil {
				return o
			}
			return info.Uses[id]
		}
		// the module under analysis, by role: a Module-typed field of the analyzer receiver (self.currentModule), also
		// through a local that was assigned from it
		var ownModule func(x ast.Expr, depth int) bool
		ownModule = func(x ast.Expr, depth int) bool {
			x = ast.Unparen(x)
			if st, ok := x.(*ast.StarExpr); ok {
				x = ast.Unparen(st.X)
			}
			switch y := x.(type) {
			case *ast.SelectorExpr:
				if id, ok := ast.Unparen(y.X).(*ast.Ident); ok && f.recv != nil && info.Uses[id] == f.recv {
					if fv, ok := info.Uses[y.Sel].(*types.Var); ok && fv.IsField() && recvNamed(fv.Type()) == moduleT.Type() {
						return true
					}
				}
			case *ast.Ident:
				if o := info.Uses[y]; o != nil && depth < 3 {
					if ds := f.defs[o]; len(ds) == 1 && ds[0].kind == r2dAssign && ds[0].n == 1 {
						return ownModule(ds[0].rhs, depth+1)
					}
				}
			}
			return false
		}
		// foreign roots: results of Module.get* on another module, and copies of them
		foreign := map[types.Object]string{}
		lookupDef := map[types.Object]*ast.AssignStmt{}
		lookupFlag := map[types.Object]types.Object{}
		for changed := true; changed; {
			changed = false
			ast.Inspect(fd.Body, func(n ast.Node) bool {
				as, ok := n.(*ast.AssignStmt)
				if !ok || len(as.Rhs) != 1 {
					return true
				}
				lid, ok := as.Lhs[0].(*ast.Ident)
				if !ok || lid.Name == "_" {
					return true
				}
				lo := objOf(lid)
				if lo == nil || foreign[lo] != "" {
					return true
				}
				rhs := ast.Unparen(as.Rhs[0])
				if st, ok := rhs.(*ast.StarExpr); ok {
					rhs = ast.Unparen(st.X)
				}
				markLookup := func(src string) {
					foreign[lo] = src
					changed = true
					if len(as.Lhs) >= 2 {
						if fid, ok := as.Lhs[len(as.Lhs)-1].(*ast.Ident); ok && fid.Name != "_" {
							lookupDef[lo] = as
							lookupFlag[lo] = objOf(fid)
						}
					}
				}
				switch r := rhs.(type) {
				case *ast.CallExpr:
					if callee := CalleeOf(info, r); isModuleMethod(callee, "get") {
						if sel, ok := ast.Unparen(r.Fun).(*ast.SelectorExpr); ok && !ownModule(sel.X, 0) {
							markLookup(fmt.Sprintf("%s.%s(…)", exprStr(sel.X), callee.Name()))
						}
					}
				case *ast.IndexExpr:
					// a direct read of another module's tables: module.Scopes[0].Values[name]
					var root ast.Expr = r
					for {
						switch y := ast.Unparen(root).(type) {
						case *ast.IndexExpr:
							root = y.X
							continue
						case *ast.SelectorExpr:
							root = y.X
							continue
						case *ast.StarExpr:
							root = y.X
							continue
						}
						break
					}
					if id, ok := ast.Unparen(root).(*ast.Ident); ok {
						if o := objOf(id); o != nil && recvNamed(o.Type()) == moduleT.Type() && !ownModule(id, 0) {
							base := exprStr(r.X)
							markLookup(base + "[…]")
						}
					}
				case *ast.Ident:
					if src := foreign[objOf(r)]; src != "" && len(as.Lhs) == 1 {
						foreign[lo] = src
						changed = true
					}
				}
				return true
			})
		}
		if len(foreign) == 0 {
			continue
		}
		mentionsForeign := func(x ast.Expr) (types.Object, bool) {
			var hit types.Object
			ast.Inspect(x, func(n ast.Node) bool {
				if id, ok := n.(*ast.Ident); ok {
					if o := info.Uses[id]; o != nil && foreign[o] != "" {
						hit = o
					}
				}
				return hit == nil
			})
			return hit, hit != nil
		}
		parent := map[ast.Node]ast.Node{}
		var stack []ast.Node
		ast.Inspect(fd.Body, func(n ast.Node) bool {
			if n == nil {
				stack = stack[:len(stack)-1]
				return true
			}
			if len(stack) > 0 {
				parent[n] = stack[len(stack)-1]
			}
			stack = append(stack, n)
			return true
		})
		nKey := map[string]int{}
		ast.Inspect(fd.Body, func(n ast.Node) bool {
			call, ok := n.(*ast.CallExpr)
			if !ok || len(call.Args) < 2 {
				return true
			}
			callee := CalleeOf(info, call)
			if !isModuleMethod(callee, "add") {
				return true
			}
			sel, ok := ast.Unparen(call.Fun).(*ast.SelectorExpr)
			if !ok || !ownModule(sel.X, 0) {
				return true
			}
			// locals that merely name a sub-expression are looked through
			resolve := func(x ast.Expr) ast.Expr {
				for d := 0; d < 3; d++ {
					id, ok := ast.Unparen(x).(*ast.Ident)
					if !ok {
						break
					}
					o := info.Uses[id]
					if o == nil || foreign[o] != "" {
						break
					}
					ds := f.defs[o]
					if len(ds) != 1 || ds[0].kind != r2dAssign || ds[0].n != 1 {
						break
					}
					x = ds[0].rhs
				}
				return ast.Unparen(x)
			}
			entry := resolve(call.Args[1])
			root, isForeign := mentionsForeign(entry)
			if !isForeign {
				// one more level: the arguments of the constructor may be such locals
				if cx, ok := entry.(*ast.CallExpr); ok {
					for _, a := range cx.Args {
						if r, fr := mentionsForeign(resolve(a)); fr {
							root, isForeign = r, true
						}
					}
				}
			}
			if !isForeign {
				return true
			}
			if def := lookupDef[root]; def != nil && lookupFlag[root] != nil {
				if id := r4fsFirstUse(info, entry, root); id != nil && r4fuGuarded(info, parent, fd.Body, def, id, lookupFlag[root], -1) {
					return true // registered in the not-found handler: the looked-up value is the zero value there, a placeholder without a location
				}
			}
			key := fmt.Sprintf("homescript/analyzer.%s|%s of an entry from %s|spans are local", FuncName(fd), callee.Name(), foreign[root])
			nKey[key]++
			if k := nKey[key]; k > 1 {
				key = fmt.Sprintf("%s #%d", key, k)
			}
			ob := Obligation{Key: key, Pos: c.Pos(call.Pos()), Nontrivial: true}
			var problems, notes []string
			// the struct of the entry
			var entrySt *types.Struct
			var entryName string
			if tv, ok := info.Types[entry]; ok && tv.Type != nil {
				t := tv.Type
				if pt, ok := t.(*types.Pointer); ok {
					t = pt.Elem()
				}
				if nt, ok := types.Unalias(t).(*types.Named); ok {
					entryName = nt.Obj().Name()
					entrySt, _ = nt.Underlying().(*types.Struct)
				}
			}
			x := entry
			if st, ok := x.(*ast.StarExpr); ok {
				x = ast.Unparen(st.X)
			}
			switch v := x.(type) {
			case *ast.Ident:
				// (2) a copy of the foreign entry
				vo := info.Uses[v]
				if entrySt == nil {
					break
				}
				for i := 0; i < entrySt.NumFields(); i++ {
					fl := entrySt.Field(i)
					if !isSpan(fl.Type()) {
						continue
					}
					readAt, read := diagRead[fl]
					if !read {
						notes = append(notes, fmt.Sprintf("%s.%s is copied from the other module but no diagnostic reads it", entryName, fl.Name()))
						continue
					}
					// overwritten with a local span before the call?
					fixed := false
					ast.Inspect(fd.Body, func(m ast.Node) bool {
						as, ok := m.(*ast.AssignStmt)
						if !ok || as.Pos() > call.Pos() || len(as.Lhs) != len(as.Rhs) {
							return true
						}
						for i, l := range as.Lhs {
							ls, ok := ast.Unparen(l).(*ast.SelectorExpr)
							if !ok || info.Uses[ls.Sel] != types.Object(fl) {
								continue
							}
							if id, ok := ast.Unparen(ls.X).(*ast.Ident); ok && info.Uses[id] == vo {
								if _, fr := mentionsForeign(as.Rhs[i]); !fr {
									fixed = true
								}
							}
						}
						return true
					})
					if !fixed {
						problems = append(problems, fmt.Sprintf("%s is (a copy of) the entry of the other module and its field %s — the location of a diagnostic at %s — is not overwritten with a span of the importing module before it is registered", v.Name, fl.Name(), readAt))
					}
				}
			case *ast.CallExpr, *ast.CompositeLit:
				// (1) constructor / literal
				var args []ast.Expr
				switch y := v.(type) {
				case *ast.CallExpr:
					args = y.Args
				case *ast.CompositeLit:
					for _, el := range y.Elts {
						if kv, ok := el.(*ast.KeyValueExpr); ok {
							args = append(args, kv.Value)
						} else {
							args = append(args, el)
						}
					}
				}
				for _, a := range args {
					a = resolve(a)
					if _, fr := mentionsForeign(a); !fr {
						continue
					}
					tv := info.Types[a]
					if tv.Type != nil && isSpan(tv.Type) {
						problems = append(problems, fmt.Sprintf("the span argument `%s` is taken from the other module's object", exprStr(a)))
						continue
					}
					// a foreign value that carries spans (a Type) must be re-spanned with a local span
					respanned := false
					ast.Inspect(a, func(m ast.Node) bool {
						cx, ok := m.(*ast.CallExpr)
						if !ok {
							return true
						}
						// a method of the foreign object that is given a span of the importing module: SetSpan(span),
						// Type(span) …
						if cs, ok := ast.Unparen(cx.Fun).(*ast.SelectorExpr); ok {
							local := false
							for _, sa := range cx.Args {
								if tv, ok := info.Types[sa]; ok && tv.Type != nil && isSpan(tv.Type) {
									local = true
								}
							}
							for _, sa := range cx.Args {
								if _, fr := mentionsForeign(sa); fr {
									local = false
								}
							}
							if _, fr := mentionsForeign(cs.X); fr && local {
								respanned = true
							}
						}
						return true
					})
					if respanned {
						notes = append(notes, fmt.Sprintf("`%s` is re-spanned", exprStr(a)))
					} else if tv.Type != nil {
						if b, ok := tv.Type.Underlying().(*types.Basic); ok && b.Kind() != types.Invalid {
							continue // a flag or a name carries no span
						}
						problems = append(problems, fmt.Sprintf("`%s` is taken from the other module's object without being re-spanned (SetSpan with a span of the importing module)", exprStr(a)))
					}
				}
			default:
				ob.Status = Undecided
				ob.Detail = "the entry is neither a constructor call nor a local: shape not understood"
				out = append(out, ob)
				return true
			}
			if len(problems) > 0 {
				ob.Status = Violated
				ob.Detail = strings.Join(problems, "; ") + ": a diagnostic about the importing module would be rendered at a position of the exporting module's file"
			} else {
				ob.Detail = "every span of the registered entry comes from the importing module"
				if len(notes) > 0 {
					ob.Detail += " (" + strings.Join(notes, "; ") + ")"
				}
			}
			out = append(out, ob)
			return true
		})
	}
	sort.SliceStable(out, func(i, j int) bool { return out[i].Key < out[j].Key })
	return out
}

func r4fsFirstUse(info *types.Info, x ast.Expr, o types.Object) *ast.Ident {
	var hit *ast.Ident
	ast.Inspect(x, func(n ast.Node) bool {
		if id, ok := n.(*ast.Ident); ok && hit == nil && info.Uses[id] == o {
			hit = id
		}
		return hit == nil
	})
	return hit
}
