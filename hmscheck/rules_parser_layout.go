package main

import (
	"fmt"
	"go/ast"
	"go/types"
	"sort"
	"strings"

	"golang.org/x/tools/go/packages"
)

func init() {
	register(&Rule{ID: "R-layout-independence", Floor: 50, Run: ruleLayoutIndependence,
		Doc: "no branch decision of package parser (if / for condition, switch tag, case expression) — and therefore no decision about which node is built — reads a position: a value of type errors.Span or errors.Location, one of their fields (Line, Column, Index, Start, End, Filename), or a local variable computed from one (flow-insensitive taint inside the function). The tree then depends on token kinds and values only, so inserting whitespace or comments between tokens cannot change it (C07); positions may only be copied into Range/Span fields."})
}

func ruleLayoutIndependence(c *Ctx) []Obligation {
	r := pxDiscover(c)
	ep := c.Pkg("homescript/errors")
	spanT, _ := ep.Types.Scope().Lookup("Span").Type().(*types.Named)
	locT, _ := ep.Types.Scope().Lookup("Location").Type().(*types.Named)
	if spanT == nil || locT == nil {
		fatalf("anchor unresolved: errors.Span / errors.Location")
	}
	isPosType := func(t types.Type) bool {
		if t == nil {
			return false
		}
		if p, ok := t.(*types.Pointer); ok {
			t = p.Elem()
		}
		n, ok := types.Unalias(t).(*types.Named)
		return ok && (n.Obj() == spanT.Obj() || n.Obj() == locT.Obj())
	}
	var obs []Obligation
	total := 0
	for _, pk := range []*packages.Package{r.pkg} {
		info := pk.TypesInfo
		fds := AllFuncDecls(pk)
		sort.Slice(fds, func(i, j int) bool { return pxDeclKey(pk, fds[i]) < pxDeclKey(pk, fds[j]) })
		for _, fd := range fds {
			// taint: locals assigned from position-typed expressions or their fields
			tainted := map[types.Object]bool{}
			var scalarFromPos func(call *ast.CallExpr, depth int) string
			var mentionsPos func(e ast.Node) (bool, string)
			scalarFromPos = func(call *ast.CallExpr, depth int) string {
				g := CalleeOf(info, call)
				if g == nil || depth > 2 || r.declPkg[g] != pk {
					return ""
				}
				gd := r.decls[g]
				if gd == nil || gd.Body == nil || gd == fd {
					return ""
				}
				sig := g.Type().(*types.Signature)
				if sig.Results().Len() != 1 {
					return ""
				}
				if b, ok := sig.Results().At(0).Type().Underlying().(*types.Basic); !ok || b.Info()&(types.IsNumeric|types.IsBoolean|types.IsString) == 0 {
					return ""
				}
				out := ""
				ast.Inspect(gd.Body, func(n ast.Node) bool {
					if _, ok := n.(*ast.FuncLit); ok {
						return false
					}
					ret, ok := n.(*ast.ReturnStmt)
					if !ok || out != "" {
						return out == ""
					}
					for _, e := range ret.Results {
						ast.Inspect(e, func(m ast.Node) bool {
							if out != "" {
								return false
							}
							switch y := m.(type) {
							case *ast.SelectorExpr:
								if tv, ok := info.Types[y.X]; ok && isPosType(tv.Type) {
									out = exprStr(y)
								}
							case *ast.CallExpr:
								if w := scalarFromPos(y, depth+1); w != "" {
									out = w
								}
							}
							return out == ""
						})
					}
					return out == ""
				})
				return out
			}
			mentionsPos = func(e ast.Node) (bool, string) {
				found, what := false, ""
				if e == nil {
					return false, ""
				}
				ast.Inspect(e, func(n ast.Node) bool {
					if found {
						return false
					}
					switch x := n.(type) {
					case *ast.FuncLit:
						return false
					case *ast.SelectorExpr:
						// a field of a position, or any expression of position type
						if tv, ok := info.Types[x.X]; ok && isPosType(tv.Type) {
							found, what = true, exprStr(x)
							return false
						}
						if tv, ok := info.Types[x]; ok && isPosType(tv.Type) {
							found, what = true, exprStr(x)
							return false
						}
					case *ast.Ident:
						if o := info.Uses[x]; o != nil {
							if tainted[o] {
								found, what = true, x.Name+" (computed from a position)"
								return false
							}
							if v, ok := o.(*types.Var); ok && isPosType(v.Type()) {
								found, what = true, x.Name
								return false
							}
						}
					case *ast.CallExpr:
						if tv, ok := info.Types[x]; ok && isPosType(tv.Type) {
							found, what = true, exprStr(x)
							return false
						}
						// a scalar helper of the parser whose result is computed from a position
						// (`self.onSameLine()`): the decision reads the position through it
						if w := scalarFromPos(x, 0); w != "" {
							found, what = true, exprStr(x)+" (returns "+w+")"
							return false
						}
					}
					return true
				})
				return found, what
			}
			for changed := true; changed; {
				changed = false
				ast.Inspect(fd.Body, func(n ast.Node) bool {
					as, ok := n.(*ast.AssignStmt)
					if !ok {
						return true
					}
					for i, l := range as.Lhs {
						id, ok := l.(*ast.Ident)
						if !ok {
							continue
						}
						o := info.Defs[id]
						if o == nil {
							o = info.Uses[id]
						}
						if o == nil || tainted[o] {
							continue
						}
						if v, ok := o.(*types.Var); ok && isPosType(v.Type()) {
							continue // position-typed variables are tainted by type
						}
						var rhs ast.Expr
						if len(as.Rhs) == len(as.Lhs) {
							rhs = as.Rhs[i]
						} else if len(as.Rhs) == 1 {
							continue // tuple call results: kinds/values of sub-parsers, not positions
						}
						// node values (structs containing spans) are not positions: only scalar results count
						if rhs == nil {
							continue
						}
						if b, ok := o.Type().Underlying().(*types.Basic); !ok || b.Info()&(types.IsNumeric|types.IsBoolean|types.IsString) == 0 {
							continue
						}
						if m, _ := mentionsPos(rhs); m {
							tainted[o] = true
							changed = true
						}
					}
					return true
				})
			}
			var fails []string
			nconds := 0
			check := func(e ast.Expr, role string) {
				if e == nil {
					return
				}
				nconds++
				if m, what := mentionsPos(e); m {
					fails = append(fails, fmt.Sprintf("%s `%s` at %s reads the position %s", role, exprStr(e), c.Pos(e.Pos()), what))
				}
			}
			ast.Inspect(fd.Body, func(n ast.Node) bool {
				switch x := n.(type) {
				case *ast.IfStmt:
					check(x.Cond, "if condition")
				case *ast.ForStmt:
					check(x.Cond, "loop condition")
				case *ast.SwitchStmt:
					check(x.Tag, "switch tag")
					for _, cl := range x.Body.List {
						for _, e := range cl.(*ast.CaseClause).List {
							check(e, "case expression")
						}
					}
				case *ast.RangeStmt:
					if tv, ok := info.Types[x.X]; ok && isPosType(tv.Type) {
						fails = append(fails, "range over a position")
					}
				}
				return true
			})
			total += nconds
			if nconds == 0 {
				continue
			}
			o := Obligation{Key: pxDeclKey(pk, fd) + "|no branch decision reads a token position", Pos: c.Pos(fd.Pos()), Nontrivial: len(tainted) > 0}
			if len(fails) > 0 {
				o.Status, o.Detail = Violated, strings.Join(fails, "; ")
			} else {
				o.Status, o.Detail = Discharged, fmt.Sprintf("%d condition(s)/case expression(s), none mentions errors.Span/errors.Location, their fields or a scalar computed from them", nconds)
			}
			obs = append(obs, o)
		}
	}
	obs = append(obs, Obligation{Key: "summary|conditions inspected", Pos: "-", Status: Info, Detail: fmt.Sprintf("%d branch conditions / case expressions in package parser", total)})
	return obs
}
