package main

// R-lockset (C17): every access to VM state shared between cores happens with
// the owning mutex held in a sufficient mode.

import (
	"fmt"
	"go/ast"
	"go/token"
	"go/types"
	"sort"
	"strings"

	"golang.org/x/tools/go/packages"
	"golang.org/x/tools/go/ssa"
)

func init() {
	register(&Rule{ID: "R-lockset", Floor: 8, Run: ruleLockset,
		Doc: "C17: spawned cores run Core.Run in their own goroutines and share the VM. A struct of the runtime package that carries a sync.(RW)Mutex field declares its other fields to be guarded by that mutex (Globals.Data/Mutex, Cores.Cores/Lock); every read must execute with the mutex held (RLock or Lock), every write with Lock — a write under RLock runs concurrently with other readers/writers and is a data race. Mutable fields of the struct embedding those (VM.coreCnt) must be accessed under one common mutex (lockset intersection, writes need Lock). Handing the guarded map/slice itself to a caller moves all later accesses outside the lock. Lock state is computed per program point by abstract interpretation of each function (entry state of unexported helpers = join over their call sites). Also: the identity stored in Core.Corenum must come from a counter field that is only ever incremented (Wait removes finished cores by matching Corenum, so a number derived from the current length of the live-core list is reused while an older core with that number may still be alive), and values crossing into a new core in the spawn instruction must be cloned, otherwise two cores mutate the same list/object without synchronisation."})
}

type lsGuard struct {
	owner string // struct type name
	field *types.Var
	mutex string // "Owner.MutexField"
	rw    bool
}

type lsAccess struct {
	fn     string
	ctx    string
	field  *types.Var
	owner  string
	write  bool
	escape string
	pos    token.Pos
	st     dfState
}

type lsUnit struct {
	pkg   *packages.Package
	name  string
	obj   *types.Func // nil for function literals
	body  *ast.BlockStmt
	decl  *ast.FuncDecl
	entry dfState
	viaGo bool
}

func lsIsMutex(t types.Type) (bool, bool) {
	n, ok := t.(*types.Named)
	if !ok || n.Obj().Pkg() == nil || n.Obj().Pkg().Path() != "sync" {
		return false, false
	}
	switch n.Obj().Name() {
	case "Mutex":
		return true, false
	case "RWMutex":
		return true, true
	}
	return false, false
}

func ruleLockset(c *Ctx) []Obligation {
	rt := c.Pkg("homescript/runtime")
	// anchors
	c.MustFunc("homescript/runtime", "Core", "Run")
	c.MustFunc("homescript/runtime", "VM", "Wait")

	guards := map[*types.Var]*lsGuard{}
	guardedStructs := map[*types.Named]bool{}
	scope := rt.Types.Scope()
	for _, name := range scope.Names() {
		tn, ok := scope.Lookup(name).(*types.TypeName)
		if !ok {
			continue
		}
		named, ok := tn.Type().(*types.Named)
		if !ok {
			continue
		}
		st, ok := named.Underlying().(*types.Struct)
		if !ok {
			continue
		}
		var mus []*types.Var
		rw := false
		for i := 0; i < st.NumFields(); i++ {
			if is, isRW := lsIsMutex(st.Field(i).Type()); is {
				mus = append(mus, st.Field(i))
				rw = isRW
			}
		}
		if len(mus) != 1 {
			continue
		}
		guardedStructs[named] = true
		for i := 0; i < st.NumFields(); i++ {
			f := st.Field(i)
			if f == mus[0] {
				continue
			}
			guards[f] = &lsGuard{owner: name, field: f, mutex: name + "." + mus[0].Name(), rw: rw}
		}
	}
	if len(guards) == 0 {
		fatalf("anchor unresolved: no struct with a mutex field in homescript/runtime")
	}
	// fields of the embedding structs (VM) that are written after construction
	embed := map[*types.Var]string{} // field -> owner name
	for _, name := range scope.Names() {
		tn, ok := scope.Lookup(name).(*types.TypeName)
		if !ok {
			continue
		}
		named, _ := tn.Type().(*types.Named)
		if named == nil {
			continue
		}
		st, ok := named.Underlying().(*types.Struct)
		if !ok {
			continue
		}
		has := false
		for i := 0; i < st.NumFields(); i++ {
			if n, ok := st.Field(i).Type().(*types.Named); ok && guardedStructs[n] {
				has = true
			}
		}
		if !has {
			continue
		}
		for i := 0; i < st.NumFields(); i++ {
			f := st.Field(i)
			if n, ok := f.Type().(*types.Named); ok && guardedStructs[n] {
				continue
			}
			embed[f] = name
		}
	}

	// units: every function body of the module, function literals separately
	var units []*lsUnit
	byObj := map[*types.Func]*lsUnit{}
	for _, p := range c.All {
		for _, fd := range AllFuncDecls(p) {
			obj, _ := p.TypesInfo.Defs[fd.Name].(*types.Func)
			u := &lsUnit{pkg: p, name: relPkgShort(p.PkgPath) + "." + FuncName(fd), obj: obj, body: fd.Body, decl: fd}
			units = append(units, u)
			if obj != nil {
				byObj[obj] = u
			}
		}
	}
	// which packages matter: only those mentioning a guarded / embedded field
	mentions := func(u *lsUnit) bool {
		found := false
		ast.Inspect(u.body, func(n ast.Node) bool {
			if s, ok := n.(*ast.SelectorExpr); ok {
				if v, ok := u.pkg.TypesInfo.Uses[s.Sel].(*types.Var); ok && (guards[v] != nil || embed[v] != "") {
					found = true
				}
			}
			return !found
		})
		return found
	}

	// accessor functions: return the guarded reference itself
	accessor := map[*types.Func]*lsGuard{}
	var obs []Obligation
	for _, u := range units {
		if u.pkg != rt {
			continue
		}
		ast.Inspect(u.body, func(n ast.Node) bool {
			if _, ok := n.(*ast.FuncLit); ok {
				return false
			}
			r, ok := n.(*ast.ReturnStmt)
			if !ok {
				return true
			}
			for _, e := range r.Results {
				if s, ok := ast.Unparen(e).(*ast.SelectorExpr); ok {
					if v, ok := u.pkg.TypesInfo.Uses[s.Sel].(*types.Var); ok && guards[v] != nil && dmPointerLike(v.Type()) && u.obj != nil {
						accessor[u.obj] = guards[v]
						obs = append(obs, Obligation{Key: fmt.Sprintf("%s|%s.%s|hands out the guarded %s", u.name, guards[v].owner, v.Name(), lsKindWord(v.Type())), Pos: c.Pos(r.Pos()), Status: Violated, Nontrivial: true,
							Detail: fmt.Sprintf("returns %s itself: the caller reads/writes the %s after the function returned, i.e. outside %s, while cores may write it under Lock (documented unsafe before all cores have terminated). Fix: return a copy made under RLock, or offer Get/Set accessors that lock.", exprStr(e), lsKindWord(v.Type()), guards[v].mutex)})
					}
				}
			}
			return true
		})
	}

	// lock-state analysis with call-site entry states for unexported helpers
	type rec struct {
		u  *lsUnit
		n  ast.Node
		st dfState
	}
	var accesses []lsAccess
	ip := newDfInterproc(c, func(info *types.Info, call *ast.CallExpr, st dfState) bool {
		k, op, ok := dfMutexOp(info, call)
		if ok {
			dfApplyMutex(st, k, op)
		}
		return ok
	})
	callStates := map[*types.Func]dfState{}
	goTargets := map[*types.Func]bool{}
	for round := 0; round < 4; round++ {
		accesses = nil
		newCall := map[*types.Func]dfState{}
		work := append([]*lsUnit(nil), units...)
		for i := 0; i < len(work); i++ {
			u := work[i]
			if u.obj != nil && !mentions(u) && u.pkg != rt {
				continue
			}
			info := u.pkg.TypesInfo
			entry := dfState{}
			if u.obj != nil && !u.obj.Exported() && !goTargets[u.obj] {
				if cs, ok := callStates[u.obj]; ok {
					entry = cs.clone()
				}
			}
			var recs []rec
			fl := &dfFlow{info: info}
			fl.Call = ip.CallFn(info)
			fl.At = func(n ast.Node, st dfState) { recs = append(recs, rec{u, n, st.clone()}) }
			fl.Run(u.body, entry)
			last := map[ast.Node]int{}
			for i, r := range recs {
				last[r.n] = i
			}
			ranges := lsCaseRanges(info, u.body)
			for i, r := range recs {
				if last[r.n] != i {
					continue
				}
				lsCollect(c, u, r.n, r.st, guards, embed, accessor, ranges, &accesses)
				// call sites of module functions
				ast.Inspect(r.n, func(n ast.Node) bool {
					switch x := n.(type) {
					case *ast.FuncLit:
						return false
					case *ast.CallExpr:
						if fn := CalleeOf(info, x); fn != nil && byObj[fn] != nil {
							clean := dfState{}
							for k, v := range r.st {
								if !strings.HasPrefix(k, "defer|") {
									clean[k] = v
								}
							}
							newCall[fn] = dfJoin(newCall[fn], clean)
						}
					}
					return true
				})
			}
			for _, lit := range fl.funcLits {
				work = append(work, &lsUnit{pkg: u.pkg, name: u.name + "$lit", body: lit.Body, viaGo: true})
			}
			ast.Inspect(u.body, func(n ast.Node) bool {
				if g, ok := n.(*ast.GoStmt); ok {
					if fn := CalleeOf(info, g.Call); fn != nil {
						goTargets[fn] = true
					}
				}
				return true
			})
		}
		stable := len(newCall) == len(callStates)
		for k, v := range newCall {
			if !dfEqual(callStates[k], v) {
				stable = false
			}
		}
		callStates = newCall
		if stable {
			break
		}
	}

	// co-located fields: per access obligations
	ordinal := map[string]int{}
	for _, a := range accesses {
		g := guards[a.field]
		if g == nil {
			continue
		}
		kind := "read"
		if a.write {
			kind = "write"
		}
		base := fmt.Sprintf("%s|%s%s.%s|%s", a.fn, a.ctx, g.owner, a.field.Name(), kind)
		ordinal[base]++
		key := base
		if ordinal[base] > 1 {
			key = fmt.Sprintf("%s #%d", base, ordinal[base])
		}
		m := a.st.get(g.mutex)
		ob := Obligation{Key: key, Pos: c.Pos(a.pos), Nontrivial: true}
		switch {
		case a.write && m == dfW:
			ob.Status, ob.Detail = Discharged, fmt.Sprintf("%s is held for writing on every path reaching the write (state: %s)", g.mutex, a.st)
		case a.write && m&dfU == 0 && m&dfR != 0:
			ob.Status = Violated
			ob.Detail = fmt.Sprintf("write to %s.%s while %s is only read-locked (state: %s): RLock admits other readers and other RLock-holding writers concurrently — a data race on the %s under the race detector / `concurrent map writes` crash. Fix: take %s.Lock()/Unlock() around the write.", g.owner, a.field.Name(), g.mutex, dfModeString(m), lsKindWord(a.field.Type()), g.mutex)
		case a.write:
			ob.Status, ob.Detail = Violated, fmt.Sprintf("write to %s.%s while %s may be %s", g.owner, a.field.Name(), g.mutex, dfModeString(m))
		case m&dfU == 0:
			ob.Status, ob.Detail = Discharged, fmt.Sprintf("%s is held (%s) on every path reaching the read", g.mutex, dfModeString(m))
		default:
			ob.Status, ob.Detail = Violated, fmt.Sprintf("read of %s.%s while %s may be %s", g.owner, a.field.Name(), g.mutex, dfModeString(m))
		}
		obs = append(obs, ob)
	}
	// embedding struct fields: lockset intersection over all accesses of written fields
	byField := map[*types.Var][]lsAccess{}
	for _, a := range accesses {
		if embed[a.field] != "" {
			byField[a.field] = append(byField[a.field], a)
		}
	}
	var fields []*types.Var
	for f, as := range byField {
		written := false
		for _, a := range as {
			if a.write {
				written = true
			}
		}
		if written {
			fields = append(fields, f)
		}
	}
	sort.Slice(fields, func(i, j int) bool { return dmPosLess(c, fields[i].Pos(), fields[j].Pos()) })
	for _, f := range fields {
		as := byField[f]
		cand := map[string]bool{}
		for _, g := range guards {
			cand[g.mutex] = true
		}
		for _, a := range as {
			for mu := range cand {
				m := a.st.get(mu)
				if (a.write && m != dfW) || (!a.write && m&dfU != 0) {
					delete(cand, mu)
				}
			}
		}
		var cs []string
		for mu := range cand {
			cs = append(cs, mu)
		}
		sort.Strings(cs)
		ord := map[string]int{}
		for _, a := range as {
			kind := "read"
			if a.write {
				kind = "write"
			}
			base := fmt.Sprintf("%s|%s%s.%s|%s", a.fn, a.ctx, embed[f], f.Name(), kind)
			ord[base]++
			key := base
			if ord[base] > 1 {
				key = fmt.Sprintf("%s #%d", base, ord[base])
			}
			ob := Obligation{Key: key, Pos: c.Pos(a.pos), Nontrivial: true}
			if len(cs) > 0 {
				ob.Status, ob.Detail = Discharged, fmt.Sprintf("%s.%s is written after construction; all %d accesses hold %s (writes under Lock)", embed[f], f.Name(), len(as), strings.Join(cs, ", "))
			} else {
				ob.Status, ob.Detail = Violated, fmt.Sprintf("%s.%s is written after construction but no mutex is held consistently at all of its %d accesses (here: %s)", embed[f], f.Name(), len(as), a.st)
			}
			obs = append(obs, ob)
		}
	}
	obs = append(obs, lsCoreIdentity(c)...)
	obs = append(obs, lsSpawnClone(c)...)
	// read-modify-write under a lock reads inside the critical section (rules_r6rt.go)
	obs = append(obs, r6rtAtomicUpdates(c)...)
	return obs
}

func relPkgShort(path string) string {
	return strings.TrimPrefix(relPkg(path), "homescript/")
}

func lsKindWord(t types.Type) string {
	switch t.Underlying().(type) {
	case *types.Map:
		return "map"
	case *types.Slice:
		return "slice"
	}
	return "value"
}

type lsRange struct {
	pos, end token.Pos
	label    string
}

func lsCaseRanges(info *types.Info, body *ast.BlockStmt) []lsRange {
	var out []lsRange
	ast.Inspect(body, func(n ast.Node) bool {
		if cc, ok := n.(*ast.CaseClause); ok && len(cc.List) > 0 {
			if k := ConstOf(info, cc.List[0]); k != nil {
				out = append(out, lsRange{cc.Pos(), cc.End(), "case " + k.Name() + "|"})
			}
		}
		return true
	})
	return out
}

func lsCtx(ranges []lsRange, pos token.Pos) string {
	best := ""
	var size token.Pos = 1 << 40
	for _, r := range ranges {
		if pos >= r.pos && pos < r.end && r.end-r.pos < size {
			best, size = r.label, r.end-r.pos
		}
	}
	return best
}

// lsCollect finds the guarded-field accesses evaluated by node n.
func lsCollect(c *Ctx, u *lsUnit, n ast.Node, st dfState, guards map[*types.Var]*lsGuard, embed map[*types.Var]string, accessor map[*types.Func]*lsGuard, ranges []lsRange, out *[]lsAccess) {
	info := u.pkg.TypesInfo
	writes := map[ast.Expr]bool{}
	markWrite := func(e ast.Expr) {
		// the selector being assigned, or the container being indexed on the left
		for {
			switch x := ast.Unparen(e).(type) {
			case *ast.IndexExpr:
				e = x.X
				continue
			case *ast.SelectorExpr:
				writes[x] = true
				// a.b.c = v writes c only; stop
			case *ast.StarExpr:
				e = x.X
				continue
			}
			break
		}
	}
	switch s := n.(type) {
	case *ast.AssignStmt:
		for _, lh := range s.Lhs {
			markWrite(lh)
		}
	case *ast.IncDecStmt:
		markWrite(s.X)
	case *ast.RangeStmt:
	}
	ast.Inspect(n, func(nd ast.Node) bool {
		switch x := nd.(type) {
		case *ast.FuncLit:
			return false
		case *ast.CallExpr:
			if id, ok := ast.Unparen(x.Fun).(*ast.Ident); ok && len(x.Args) > 0 {
				if _, isB := info.Uses[id].(*types.Builtin); isB && (id.Name == "delete" || id.Name == "clear" || id.Name == "copy") {
					markWrite(x.Args[0])
				}
			}
			if fn := CalleeOf(info, x); fn != nil && accessor[fn] != nil {
				g := accessor[fn]
				*out = append(*out, lsAccess{fn: u.name, ctx: lsCtx(ranges, x.Pos()), field: g.field, owner: g.owner, pos: x.Pos(), st: st})
			}
		case *ast.UnaryExpr:
			if x.Op == token.AND {
				markWrite(x.X)
			}
		case *ast.SelectorExpr:
			v, ok := info.Uses[x.Sel].(*types.Var)
			if !ok || !v.IsField() {
				return true
			}
			if guards[v] == nil && embed[v] == "" {
				return true
			}
			if rs, ok := n.(*ast.ReturnStmt); ok && u.obj != nil && accessor[u.obj] != nil && accessor[u.obj].field == v {
				direct := false
				for _, r := range rs.Results {
					if ast.Unparen(r) == ast.Expr(x) {
						direct = true
					}
				}
				if direct {
					return true // covered by the "hands out" obligation
				}
			}
			*out = append(*out, lsAccess{fn: u.name, ctx: lsCtx(ranges, x.Pos()), field: v, write: writes[x], pos: x.Pos(), st: st})
		}
		return true
	})
	// writes must be marked before the selector is visited: AssignStmt/IncDec are
	// handled above; builtin calls are visited before their arguments (pre-order).
}

// ---- core identity ----

func lsCoreIdentity(c *Ctx) []Obligation {
	a := determMod(c)
	rt := c.Pkg("homescript/runtime")
	coreT, _ := rt.Types.Scope().Lookup("Core").(*types.TypeName)
	if coreT == nil {
		fatalf("anchor unresolved: runtime.Core")
	}
	st := coreT.Type().Underlying().(*types.Struct)
	// the identity field: the unsigned integer field of Core compared inside VM.Wait
	wait := c.MustFunc("homescript/runtime", "VM", "Wait")
	// (the comparison may sit in Wait itself or in a helper of the package that
	// Wait calls, e.g. a `removeCore(num)`; one side is a field of a Core, the
	// other the same field of another core or a value copied from it)
	var idField *types.Var
	isCoreField := func(info *types.Info, e ast.Expr) *types.Var {
		sel, ok := ast.Unparen(e).(*ast.SelectorExpr)
		if !ok {
			return nil
		}
		v, ok := info.Uses[sel.Sel].(*types.Var)
		if !ok || !v.IsField() {
			return nil
		}
		if b, ok := v.Type().Underlying().(*types.Basic); !ok || b.Info()&types.IsInteger == 0 {
			return nil
		}
		for i := 0; i < st.NumFields(); i++ {
			if st.Field(i) == v {
				return v
			}
		}
		return nil
	}
	seenFn := map[*ast.FuncDecl]bool{}
	var scan func(fd *ast.FuncDecl, depth int)
	scan = func(fd *ast.FuncDecl, depth int) {
		if seenFn[fd] || depth > 2 {
			return
		}
		seenFn[fd] = true
		ast.Inspect(fd.Body, func(n ast.Node) bool {
			switch x := n.(type) {
			case *ast.BinaryExpr:
				if (x.Op == token.EQL || x.Op == token.NEQ) && idField == nil {
					if v := isCoreField(rt.TypesInfo, x.X); v != nil {
						idField = v
					} else if v := isCoreField(rt.TypesInfo, x.Y); v != nil {
						idField = v
					}
				}
			case *ast.CallExpr:
				if fn := CalleeOf(rt.TypesInfo, x); fn != nil && fn.Pkg() == rt.Types {
					if ref := moDeclOf(c, fn); ref != nil && ref.fd.Body != nil {
						scan(ref.fd, depth+1)
					}
				}
			}
			return true
		})
	}
	scan(wait, 0)
	if idField == nil {
		return []Obligation{{Key: "runtime.Core|identity field", Status: Undecided, Detail: "VM.Wait no longer compares a Core field of two cores: cannot find the core identity"}}
	}
	var obs []Obligation
	// stores to the identity field
	type src struct {
		fn  *ssa.Function
		val ssa.Value
		pos token.Pos
	}
	var srcs []src
	for _, fn := range a.funcs {
		for _, b := range fn.Blocks {
			for _, in := range b.Instrs {
				if s, ok := in.(*ssa.Store); ok {
					if fa, ok := s.Addr.(*ssa.FieldAddr); ok && dmFieldOf(fa.X.Type(), fa.Field) == idField {
						srcs = append(srcs, src{fn, s.Val, s.Pos()})
					}
				}
			}
		}
	}
	if len(srcs) == 0 {
		return []Obligation{{Key: "runtime.Core." + idField.Name() + "|source", Status: Undecided, Detail: "no store to the identity field found"}}
	}
	// trace parameters to call sites
	var trace func(fn *ssa.Function, v ssa.Value, depth int) []src
	trace = func(fn *ssa.Function, v ssa.Value, depth int) []src {
		for {
			switch x := v.(type) {
			case *ssa.Convert:
				v = x.X
				continue
			case *ssa.ChangeType:
				v = x.X
				continue
			}
			break
		}
		p, ok := v.(*ssa.Parameter)
		if !ok || depth > 4 {
			return []src{{fn, v, v.Pos()}}
		}
		idx := dmParamIndex(fn, p)
		var out []src
		for _, caller := range a.sortedCallers(fn) {
			for _, b := range caller.Blocks {
				for _, in := range b.Instrs {
					ci, ok := in.(ssa.CallInstruction)
					if !ok {
						continue
					}
					for _, cal := range a.callees(ci) {
						if cal == fn {
							if arg := dmArgFor(ci.Common(), fn, idx); arg != nil {
								out = append(out, trace(caller, arg, depth+1)...)
							}
						}
					}
				}
			}
		}
		if len(out) == 0 {
			return []src{{fn, v, v.Pos()}}
		}
		return out
	}
	n := 0
	for _, s := range srcs {
		for _, t := range trace(s.fn, s.val, 0) {
			n++
			key := fmt.Sprintf("runtime.Core.%s|assigned in %s", idField.Name(), moCalleeName(t.fn))
			if n > 1 {
				key = fmt.Sprintf("%s #%d", key, n)
			}
			ob := Obligation{Key: key, Pos: c.Pos(s.pos), Nontrivial: true}
			if t.val.Pos().IsValid() {
				ob.Pos = c.Pos(t.val.Pos())
			}
			v := t.val
			for {
				if cv, ok := v.(*ssa.Convert); ok {
					v = cv.X
					continue
				}
				break
			}
			switch x := v.(type) {
			case *ssa.UnOp:
				fa, ok := x.X.(*ssa.FieldAddr)
				if x.Op != token.MUL || !ok {
					ob.Status, ob.Detail = Undecided, "identity comes from "+v.String()+": not a counter field"
					break
				}
				cf := dmFieldOf(fa.X.Type(), fa.Field)
				bad := lsNonMonotonicStores(c, a, cf)
				if len(bad) == 0 {
					ob.Status, ob.Detail = Discharged, fmt.Sprintf("identity is read from the counter field %s, whose only stores on a live object are `+ <positive constant>` increments: numbers are never reused", cf.Name())
				} else {
					ob.Status, ob.Detail = Violated, fmt.Sprintf("identity is read from field %s which is not a monotonic counter: %s", cf.Name(), strings.Join(bad, "; "))
				}
			case *ssa.Call:
				if b, ok := x.Common().Value.(*ssa.Builtin); ok && (b.Name() == "len" || b.Name() == "cap") {
					ob.Status = Violated
					ob.Detail = fmt.Sprintf("the core number is %s(%s): the current length of the live-core list. Wait removes finished cores from that list by matching %s, so after core 0 of {0,1} finished the next spawn is numbered 1 again while the old core 1 is still running; when either finishes, Wait drops both entries (or reports the wrong core in VMException.CoreNum) and the survivor is never waited for / blocks forever on its signal channel. Fix: number cores from a field that is only incremented.", b.Name(), lsArgString(x), idField.Name())
				} else {
					ob.Status, ob.Detail = Undecided, "identity is the result of a call: "+x.String()
				}
			case *ssa.Const:
				ob.Status, ob.Detail = Violated, "every core receives the same constant identity "+x.String()
			default:
				ob.Status, ob.Detail = Undecided, fmt.Sprintf("identity comes from %s (%T): cannot show it is a fresh number", v, v)
			}
			obs = append(obs, ob)
		}
	}
	return obs
}

func lsArgString(call *ssa.Call) string {
	if len(call.Common().Args) == 0 {
		return ""
	}
	v := call.Common().Args[0]
	if u, ok := v.(*ssa.UnOp); ok {
		if fa, ok := u.X.(*ssa.FieldAddr); ok {
			if f := dmFieldOf(fa.X.Type(), fa.Field); f != nil {
				return "…" + f.Name()
			}
		}
	}
	return v.Name()
}

// lsNonMonotonicStores lists stores to field f (on non-local objects) that are
// not `f = f + c`, c > 0.
func lsNonMonotonicStores(c *Ctx, a *dmAnalysis, f *types.Var) []string {
	var bad []string
	for _, fn := range a.funcs {
		for _, b := range fn.Blocks {
			for _, in := range b.Instrs {
				s, ok := in.(*ssa.Store)
				if !ok {
					continue
				}
				fa, ok := s.Addr.(*ssa.FieldAddr)
				if !ok || dmFieldOf(fa.X.Type(), fa.Field) != f {
					continue
				}
				local := true
				for _, o := range a.origin(fn, fa.X) {
					if o.Root != "local" {
						local = false
					}
				}
				if local {
					continue // construction of a fresh object
				}
				okInc := false
				if bo, ok := s.Val.(*ssa.BinOp); ok && bo.Op == token.ADD {
					if k, ok := bo.Y.(*ssa.Const); ok && k.Value != nil && k.Int64() > 0 {
						if ld, ok := bo.X.(*ssa.UnOp); ok && ld.Op == token.MUL && dmSameAddr(ld.X, s.Addr) {
							okInc = true
						}
					}
				}
				if !okInc {
					bad = append(bad, fmt.Sprintf("%s @%s stores %s", moCalleeName(fn), c.Pos(s.Pos()), s.Val))
				}
			}
		}
	}
	return bad
}

// ---- values crossing into a new core ----

func lsSpawnClone(c *Ctx) []Obligation {
	rt := c.Pkg("homescript/runtime")
	info := rt.TypesInfo
	var spawnObj types.Object // resolved by role in lsSpawnsCore
	var obs []Obligation
	// the in-language spawn: call sites of the VM's core-spawning method inside Core methods
	for _, fd := range AllFuncDecls(rt) {
		if recvTypeName2(fd) != "Core" {
			continue
		}
		ranges := lsCaseRanges(info, fd.Body)
		ast.Inspect(fd.Body, func(n ast.Node) bool {
			call, ok := n.(*ast.CallExpr)
			if !ok {
				return true
			}
			fn := CalleeOf(info, call)
			if fn == nil || !lsSpawnsCore(c, fn, spawnObj) {
				return true
			}
			ctx := lsCtx(ranges, call.Pos())
			// the clause (or function) containing the call must clone what it sends
			var scopeNode ast.Node = fd.Body
			ast.Inspect(fd.Body, func(m ast.Node) bool {
				if cc, ok := m.(*ast.CaseClause); ok && call.Pos() >= cc.Pos() && call.Pos() < cc.End() {
					scopeNode = cc
				}
				return true
			})
			cloned := false
			var hasClone func(node ast.Node, depth int)
			hasClone = func(node ast.Node, depth int) {
				ast.Inspect(node, func(m ast.Node) bool {
					if cl, ok := m.(*ast.CallExpr); ok && !cloned {
						f := CalleeOf(info, cl)
						switch {
						case f == nil || f.Pkg() == nil:
						case f.Name() == "Clone" && strings.HasSuffix(f.Pkg().Path(), "runtime/value"):
							cloned = true
						case f.Pkg() == rt.Types && depth < 2 && f != fn:
							// a helper of the package that pops / prepares the arguments
							if ref := moDeclOf(c, f); ref != nil && ref.fd.Body != nil {
								hasClone(ref.fd.Body, depth+1)
							}
						}
					}
					return true
				})
			}
			hasClone(scopeNode, 0)
			ob := Obligation{Key: fmt.Sprintf("runtime.%s|%sarguments of the new core are cloned", FuncName(fd), ctx), Pos: c.Pos(call.Pos()), Nontrivial: true}
			if cloned {
				ob.Status, ob.Detail = Discharged, "the values handed to the new core pass through Value.Clone"
			} else {
				ob.Status = Violated
				ob.Detail = "the popped argument values are passed to the new core as they are (the source carries a TODO): a list or object argument is then reachable from both cores, and `spawn f(xs)` followed by pushes/assignments in both is an unsynchronised concurrent mutation of one Go slice/map (data race; the spawned function does not run with the argument values given at the spawn). Fix: args = append([]value.Value{*(*self.pop()).Clone()}, args...)."
			}
			obs = append(obs, ob)
			return true
		})
	}
	if len(obs) == 0 {
		obs = append(obs, Obligation{Key: "runtime.Core|spawn site", Status: Undecided, Detail: "no call from a Core method to the VM's core-spawning function found"})
	}
	return obs
}

func recvTypeName2(fd *ast.FuncDecl) string {
	if fd.Recv == nil || len(fd.Recv.List) == 0 {
		return ""
	}
	return recvTypeName(fd.Recv.List[0].Type)
}

// lsSpawnsCore: fn is the VM method that starts a goroutine running Core.Run.
func lsSpawnsCore(c *Ctx, fn *types.Func, spawnObj types.Object) bool {
	if spawnObj != nil && fn == spawnObj {
		return true
	}
	if spawnObj != nil {
		return false
	}
	// fallback by role: a VM method whose body contains a go statement
	rt := c.Pkg("homescript/runtime")
	for _, fd := range AllFuncDecls(rt) {
		if rt.TypesInfo.Defs[fd.Name] == fn && recvTypeName2(fd) == "VM" {
			has := false
			ast.Inspect(fd.Body, func(n ast.Node) bool {
				if _, ok := n.(*ast.GoStmt); ok {
					has = true
				}
				return true
			})
			return has
		}
	}
	return false
}
