package main

import (
	"strings"
	"fmt"
	"go/ast"
	"go/token"
	"go/types"
	"sort"

	"golang.org/x/tools/go/packages"
)

// R-cell-fresh: "lists and objects are shared by reference while scalars are copied".
// Both engines represent every variable slot, list element and object field as a CELL, a
// pointer to a value; lists and objects carry their shared storage INSIDE the value, so
// copying the value into a new cell keeps reference semantics for containers and gives
// copy semantics for scalars. Storing a cell that is already reachable from another slot or
// container (the result of pop()/expression(), an element of another list …) into a second
// place makes two names one scalar: `let m = [x]; m[0] = 9` changes x.
func init() {
	register(&Rule{ID: "R-cell-fresh", Floor: 12, Run: ruleCellFresh,
		Doc: "in both engines and both value libraries every store of a value cell (*Value) into a variable slot (the VM's memory array), a list's element slice or an object's field map must store a FRESH cell: the address of a local of the storing function, of an element of a by-value argument slice, a constructor / Clone result, or the result of a function all of whose returns are fresh (fixpoint); moving a cell inside the same container (sort, insert shifting) is allowed. A cell obtained from the operand stack, from expression evaluation, from a parameter or from another container is shared: storing it aliases two places (scalars must be copied, C01) — and the engines must agree (C04)"})
}

type cellLib struct {
	p      *packages.Package
	valueT types.Type // the library's Value interface
}

func ruleCellFresh(c *Ctx) []Obligation {
	vmV := c.Pkg("homescript/runtime/value").Types.Scope().Lookup("Value")
	inV := c.Pkg("homescript/interpreter/value").Types.Scope().Lookup("Value")
	if vmV == nil || inV == nil {
		fatalf("anchor unresolved: the Value interfaces of the two value libraries")
	}
	isCell := func(t types.Type) bool {
		pt, ok := t.(*types.Pointer)
		if !ok {
			return false
		}
		return types.Identical(pt.Elem(), vmV.Type()) || types.Identical(pt.Elem(), inV.Type())
	}
	isCellSlice := func(t types.Type) bool {
		if pt, ok := t.Underlying().(*types.Pointer); ok {
			t = pt.Elem()
		}
		sl, ok := t.Underlying().(*types.Slice)
		return ok && isCell(sl.Elem())
	}
	isCellMap := func(t types.Type) bool {
		m, ok := t.Underlying().(*types.Map)
		return ok && isCell(m.Elem())
	}
	isValue := func(t types.Type) bool {
		return types.Identical(t, vmV.Type()) || types.Identical(t, inV.Type())
	}
	rels := []string{"homescript/runtime", "homescript/runtime/value", "homescript/interpreter", "homescript/interpreter/value"}
	type fnInfo struct {
		p  *packages.Package
		fd *ast.FuncDecl
	}
	fns := map[*types.Func]fnInfo{}
	for _, rel := range rels {
		p := c.Pkg(rel)
		for _, fd := range AllFuncDecls(p) {
			if fd.Body == nil {
				continue
			}
			if fn, ok := p.TypesInfo.Defs[fd.Name].(*types.Func); ok {
				fns[fn] = fnInfo{p, fd}
			}
		}
	}
	fresh := map[*types.Func]bool{} // functions whose every *Value result is a fresh cell
	// classify an expression producing a cell
	var classify func(info *types.Info, scope ast.Node, e ast.Expr, depth int) (string, string)
	defsIn := func(info *types.Info, scope ast.Node, obj types.Object) []ast.Expr {
		var out []ast.Expr
		ast.Inspect(scope, func(n ast.Node) bool {
			switch s := n.(type) {
			case *ast.AssignStmt:
				for i, l := range s.Lhs {
					if id, ok := l.(*ast.Ident); ok && (info.Defs[id] == obj || info.Uses[id] == obj) {
						if len(s.Rhs) == len(s.Lhs) {
							out = append(out, s.Rhs[i])
						} else if len(s.Rhs) == 1 {
							out = append(out, s.Rhs[0]) // tuple: the call
						}
					}
				}
			case *ast.ValueSpec:
				for i, nme := range s.Names {
					if info.Defs[nme] == obj && i < len(s.Values) {
						out = append(out, s.Values[i])
					}
				}
			case *ast.RangeStmt:
				for _, kv := range []ast.Expr{s.Key, s.Value} {
					if id, ok := kv.(*ast.Ident); ok && info.Defs[id] == obj {
						out = append(out, &ast.IndexExpr{X: s.X, Index: ast.NewIdent("_")})
					}
				}
			}
			return true
		})
		return out
	}
	isLocalVar := func(info *types.Info, scope ast.Node, obj types.Object) bool {
		v, ok := obj.(*types.Var)
		if !ok || v.IsField() {
			return false
		}
		return obj.Pos() >= scope.Pos() && obj.Pos() <= scope.End()
	}
	classify = func(info *types.Info, scope ast.Node, e ast.Expr, depth int) (string, string) {
		e = ast.Unparen(e)
		if depth > 6 {
			return "shared", "definition chain too long"
		}
		switch x := e.(type) {
		case *ast.UnaryExpr:
			if x.Op == token.AND {
				inner := ast.Unparen(x.X)
				switch y := inner.(type) {
				case *ast.Ident:
					if obj := info.Uses[y]; obj != nil && isLocalVar(info, scope, obj) {
						return "fresh", "address of the local " + y.Name
					}
					if obj := info.Uses[y]; obj != nil {
						if v, ok := obj.(*types.Var); ok && !v.IsField() && isValue(v.Type()) {
							return "fresh", "address of the by-value parameter " + y.Name
						}
					}
				case *ast.IndexExpr:
					// &args[i] with args []Value (a by-value slice built for this call)
					if sl, ok := info.TypeOf(y.X).Underlying().(*types.Slice); ok && isValue(sl.Elem()) {
						return "fresh", "address of an element of the by-value slice " + exprStr(y.X)
					}
				case *ast.CompositeLit:
					return "fresh", "address of a literal"
				}
			}
		case *ast.CallExpr:
			if tv, ok := info.Types[x.Fun]; ok && tv.IsType() {
				return classify(info, scope, x.Args[0], depth+1)
			}
			if fn := CalleeOf(info, x); fn != nil {
				if _, known := fns[fn]; known {
					if fresh[fn] {
						return "fresh", "result of " + fn.Name() + " (every return is fresh)"
					}
					return "shared", "result of " + fn.Name() + ", which can return an existing cell"
				}
				// interface method Clone() and friends: constructors by contract
				if fn.Name() == "Clone" {
					return "fresh", "Clone() result"
				}
				return "shared", "result of the external/dynamic call " + exprStr(x.Fun)
			}
			return "shared", "result of a dynamic call " + exprStr(x.Fun)
		case *ast.Ident:
			if x.Name == "nil" {
				return "fresh", "nil"
			}
			obj := info.Uses[x]
			if obj == nil {
				return "shared", "unresolved"
			}
			if !isLocalVar(info, scope, obj) {
				return "shared", "the parameter / outer variable " + x.Name
			}
			defs := defsIn(info, scope, obj)
			if len(defs) == 0 {
				return "shared", "the parameter " + x.Name
			}
			worst, why := "fresh", ""
			for _, d := range defs {
				k, w := classify(info, scope, d, depth+1)
				switch {
				case k == "element" && (worst == "fresh" || worst == "element"):
					worst, why = k, w // the container the element came from
				case k != "fresh":
					worst, why = "shared", x.Name+" = "+w
				case why == "":
					why = x.Name + " = " + w
				}
			}
			return worst, why
		case *ast.IndexExpr:
			src := ast.Unparen(x.X)
			if st, ok := src.(*ast.StarExpr); ok {
				src = ast.Unparen(st.X)
			}
			if id, ok := src.(*ast.Ident); ok {
				if obj := info.Uses[id]; obj != nil && isLocalVar(info, scope, obj) {
					if defs := defsIn(info, scope, obj); len(defs) == 1 {
						d := ast.Unparen(defs[0])
						if st, ok := d.(*ast.StarExpr); ok {
							d = ast.Unparen(st.X)
						}
						if _, isSel := d.(*ast.SelectorExpr); isSel {
							return "element", exprStr(d)
						}
					}
				}
			}
			return "element", exprStr(src)
		case *ast.SelectorExpr:
			return "shared", "the field " + exprStr(x)
		}
		return "shared", "expression " + exprStr(e)
	}
	// elemFieldVar: the struct field holding the container that the element expression e was read from (nil if unknown)
	var elemFieldVar func(info *types.Info, scope ast.Node, e ast.Expr, depth int) *types.Var
	elemFieldVar = func(info *types.Info, scope ast.Node, e ast.Expr, depth int) *types.Var {
		if depth > 6 {
			return nil
		}
		e = ast.Unparen(e)
		if st, ok := e.(*ast.StarExpr); ok {
			e = ast.Unparen(st.X)
		}
		switch x := e.(type) {
		case *ast.Ident:
			obj := info.Uses[x]
			if obj == nil || !isLocalVar(info, scope, obj) {
				return nil
			}
			var res *types.Var
			for _, d := range defsIn(info, scope, obj) {
				if fv := elemFieldVar(info, scope, d, depth+1); fv != nil {
					if res != nil && res != fv {
						return nil
					}
					res = fv
				}
			}
			return res
		case *ast.IndexExpr:
			return elemFieldVar(info, scope, x.X, depth+1)
		case *ast.SelectorExpr:
			if fv, ok := info.Uses[x.Sel].(*types.Var); ok && fv.IsField() {
				return fv
			}
		}
		return nil
	}
	// greatest fixpoint: assume every cell-returning function fresh, drop those with a return that is not
	// (recursion through itself is then consistent)
	for fn := range fns {
		sig := fn.Type().(*types.Signature)
		if sig.Results().Len() > 0 && isCell(sig.Results().At(0).Type()) {
			fresh[fn] = true
		}
	}
	for changed := true; changed; {
		changed = false
		for fn, fi := range fns {
			if !fresh[fn] {
				continue
			}
			all, any := true, false
			mbInspectNoLit(fi.fd.Body, func(n ast.Node) bool {
				ret, ok := n.(*ast.ReturnStmt)
				if !ok || len(ret.Results) == 0 {
					return true
				}
				any = true
				if k, _ := classify(fi.p.TypesInfo, fi.fd, ret.Results[0], 0); k != "fresh" {
					all = false
				}
				return true
			})
			if !(all && any) {
				fresh[fn] = false
				changed = true
			}
		}
	}
	// the operand stack: the []*Value field(s) of the core that its push/pop primitives touch (transient, not a sink)
	opStackField := map[*types.Var]bool{}
	{
		rp := c.Pkg("homescript/runtime")
		for _, fd := range AllFuncDecls(rp) {
			if fd.Recv == nil || fd.Body == nil || recvTypeName(fd.Recv.List[0].Type) != "Core" {
				continue
			}
			fn, _ := rp.TypesInfo.Defs[fd.Name].(*types.Func)
			sig := fn.Type().(*types.Signature)
			isPushPop := (sig.Params().Len() == 1 && isCell(sig.Params().At(0).Type()) && sig.Results().Len() == 0) || (sig.Params().Len() == 0 && sig.Results().Len() == 1 && isCell(sig.Results().At(0).Type()))
			if !isPushPop || len(fd.Body.List) > 6 {
				continue
			}
			ast.Inspect(fd.Body, func(n ast.Node) bool {
				if sel, ok := n.(*ast.SelectorExpr); ok {
					if fv, ok := rp.TypesInfo.Uses[sel.Sel].(*types.Var); ok && fv.IsField() && isCellSlice(fv.Type()) {
						opStackField[fv] = true
					}
				}
				return true
			})
		}
	}
	// constructors wrapping one cell: func(inner *Value) *Value whose body stores the parameter into a value struct literal
	cloneCopiesPayload := func(t types.Type) bool {
		n := recvNamed(t)
		if n == nil {
			return true
		}
		for fn, fi := range fns {
			sig := fn.Type().(*types.Signature)
			if fn.Name() != "Clone" || sig.Recv() == nil || recvNamed(sig.Recv().Type()) != n {
				continue
			}
			calls := false
			ast.Inspect(fi.fd.Body, func(m ast.Node) bool {
				if call, ok := m.(*ast.CallExpr); ok {
					if sel, ok := call.Fun.(*ast.SelectorExpr); ok && sel.Sel.Name == "Clone" {
						calls = true
					}
				}
				return true
			})
			return calls
		}
		return true
	}
	wrapsCell := map[*types.Func]bool{}
	for fn, fi := range fns {
		sig := fn.Type().(*types.Signature)
		if sig.Recv() != nil || sig.Params().Len() != 1 || sig.Results().Len() != 1 || !isCell(sig.Params().At(0).Type()) || !isCell(sig.Results().At(0).Type()) {
			continue
		}
		par := sig.Params().At(0)
		info := fi.p.TypesInfo
		ast.Inspect(fi.fd.Body, func(n ast.Node) bool {
			cl, ok := n.(*ast.CompositeLit)
			if !ok {
				return true
			}
			t := info.TypeOf(cl)
			if t == nil || !(types.Implements(t, vmV.Type().Underlying().(*types.Interface)) || types.Implements(t, inV.Type().Underlying().(*types.Interface))) {
				return true
			}
			for _, el := range cl.Elts {
				v := el
				if kv, ok := el.(*ast.KeyValueExpr); ok {
					v = kv.Value
				}
				if id, ok := ast.Unparen(v).(*ast.Ident); ok && info.Uses[id] == par {
					// a reference wrapper (the pointer value) shares its target by design: its own Clone() hands the
					// payload on without cloning it. A containing wrapper (the option) clones the payload.
					if cloneCopiesPayload(t) {
						wrapsCell[fn] = true
					}
				}
			}
			return true
		})
	}
	// containers whose cells are handed out raw (returned, or pushed onto the operand stack) by some engine function:
	// only those can be written in place by an assignment, so only their cells must not be shared with a payload
	rawExposed := map[*types.Var]bool{}
	pushPrim := map[*types.Func]bool{}
	for fn := range fns {
		sig := fn.Type().(*types.Signature)
		if sig.Recv() != nil && sig.Params().Len() == 1 && isCell(sig.Params().At(0).Type()) && sig.Results().Len() == 0 {
			if n := recvNamed(sig.Recv().Type()); n != nil && n.Obj().Name() == "Core" {
				pushPrim[fn] = true
			}
		}
	}
	// resultEscapes: does some caller of fn let the returned cell out (push, return, store, write through it)?
	// A lookup helper whose result is only wrapped, compared with nil or read is not an lvalue path.
	escMemo := map[*types.Func]bool{}
	resultEscapes := func(fn *types.Func) bool {
		if v, ok := escMemo[fn]; ok {
			return v
		}
		sites, esc := 0, false
		for _, fi := range fns {
			info := fi.p.TypesInfo
			var stack []ast.Node
			ast.Inspect(fi.fd.Body, func(n ast.Node) bool {
				if n == nil {
					stack = stack[:len(stack)-1]
					return true
				}
				stack = append(stack, n)
				call, ok := n.(*ast.CallExpr)
				if !ok || CalleeOf(info, call) != fn {
					return true
				}
				sites++
				var parent ast.Node
				if len(stack) >= 2 {
					parent = stack[len(stack)-2]
				}
				benignUse := func(par ast.Node, self ast.Expr, grand ast.Node) bool {
					switch pp := par.(type) {
					case *ast.CallExpr:
						if f := CalleeOf(info, pp); f != nil && wrapsCell[f] && len(pp.Args) == 1 && pp.Args[0] == self {
							return true
						}
					case *ast.BinaryExpr:
						return pp.Op == token.EQL || pp.Op == token.NEQ
					case *ast.StarExpr:
						if as, ok := grand.(*ast.AssignStmt); ok {
							for _, l := range as.Lhs {
								if l == pp {
									return false // *cell = … writes in place
								}
							}
						}
						return true
					case *ast.ParenExpr:
						return false
					}
					return false
				}
				switch par := parent.(type) {
				case *ast.AssignStmt:
					id, ok := par.Lhs[0].(*ast.Ident)
					if !ok || len(par.Rhs) != 1 {
						esc = true
						return true
					}
					obj := info.Defs[id]
					if obj == nil {
						obj = info.Uses[id]
					}
					if obj == nil || id.Name == "_" {
						return true
					}
					var st2 []ast.Node
					ast.Inspect(fi.fd.Body, func(m ast.Node) bool {
						if m == nil {
							st2 = st2[:len(st2)-1]
							return true
						}
						st2 = append(st2, m)
						if u, ok := m.(*ast.Ident); ok && info.Uses[u] == obj {
							var par2, grand ast.Node
							if len(st2) >= 2 {
								par2 = st2[len(st2)-2]
							}
							if len(st2) >= 3 {
								grand = st2[len(st2)-3]
							}
							if !benignUse(par2, u, grand) {
								esc = true
							}
						}
						return true
					})
				default:
					var grand ast.Node
					if len(stack) >= 3 {
						grand = stack[len(stack)-3]
					}
					if !benignUse(parent, call, grand) {
						esc = true
					}
				}
				return true
			})
		}
		escMemo[fn] = esc || sites == 0
		return escMemo[fn]
	}
	for thisFn, fi := range fns {
		info := fi.p.TypesInfo
		fd := fi.fd
		wrapsHere := map[*types.Var]bool{}
		note := func(e ast.Expr) {
			if e == nil || !isCell(info.TypeOf(e)) {
				return
			}
			if k, _ := classify(info, fd, e, 0); k == "element" {
				if fv := elemFieldVar(info, fd, e, 0); fv != nil && !wrapsHere[fv] {
					rawExposed[fv] = true
				}
			}
		}
		// a function that wraps a cell of the container into the payload wrapper on one branch and hands it out on a
		// sibling branch implements "read as option, optionally unwrapped" (`->` / `~>`): a value read, not an lvalue path
		ast.Inspect(fd.Body, func(n ast.Node) bool {
			if call, ok := n.(*ast.CallExpr); ok && len(call.Args) == 1 {
				if f := CalleeOf(info, call); f != nil && wrapsCell[f] {
					if fv := elemFieldVar(info, fd, call.Args[0], 0); fv != nil {
						wrapsHere[fv] = true
					}
				}
			}
			return true
		})
		ast.Inspect(fd.Body, func(n ast.Node) bool {
			switch x := n.(type) {
			case *ast.ReturnStmt:
				if len(x.Results) > 0 && (thisFn == nil || resultEscapes(thisFn)) {
					note(x.Results[0])
				}
			case *ast.CallExpr:
				if f := CalleeOf(info, x); f != nil && pushPrim[f] && len(x.Args) == 1 {
					note(x.Args[0])
				}
			}
			return true
		})
	}
	// sinks
	var obs []Obligation
	var order []*types.Func
	for fn := range fns {
		order = append(order, fn)
	}
	sort.Slice(order, func(i, j int) bool { return fns[order[i]].fd.Pos() < fns[order[j]].fd.Pos() })
	seen := map[string]int{}
	for _, fn := range order {
		fi := fns[fn]
		info := fi.p.TypesInfo
		fname := relPkg(fi.p.PkgPath) + "." + fn.Name()
		if fi.fd.Recv != nil {
			fname = relPkg(fi.p.PkgPath) + "." + recvTypeName(fi.fd.Recv.List[0].Type) + "." + fn.Name()
		}
		var stagingLocal func(name string) bool
		report := func(pos token.Pos, sink, container string, e ast.Expr, scope ast.Node) {
			k, why := classify(info, scope, e, 0)
			key := fmt.Sprintf("cell|%s|%s", fname, sink)
			seen[key]++
			if seen[key] > 1 {
				key += fmt.Sprintf("#%d", seen[key])
			}
			o := Obligation{Key: key, Pos: c.Pos(pos), Nontrivial: true}
			switch k {
			case "fresh":
				o.Status, o.Detail = Discharged, "stores "+why
			case "element":
				if why == container {
					o.Status, o.Detail = Discharged, "moves a cell inside the same container "+container
				} else if stagingLocal(why) {
					o.Status, o.Detail = Discharged, "moves cells out of the local staging container "+why+" (their freshness is decided where "+why+" is filled)"
				} else {
					o.Status, o.Detail = Violated, fmt.Sprintf("stores an element of %s into %s: the cell is now shared by two containers (a scalar written through one is changed in the other)", why, container)
				}
			default:
				o.Status, o.Detail = Violated, fmt.Sprintf("stores %s into %s without copying the value into a cell of its own: two places now share one cell, so a scalar assigned through one of them changes the other", why, container)
			}
			obs = append(obs, o)
		}
		// --- which containers are sinks (places a program can reach later) ---
		// (i) a field of a value struct (list elements, object fields) or the VM's variable memory;
		// (ii) a local slice/map that is handed to a value constructor / literal or installed as a scope;
		// (iii) a scope map (element of a []map[string]*Value).
		valueStructField := func(e ast.Expr) bool {
			e = ast.Unparen(e)
			if st, ok := e.(*ast.StarExpr); ok {
				e = ast.Unparen(st.X)
			}
			sel, ok := e.(*ast.SelectorExpr)
			if !ok {
				return false
			}
			fv, _ := info.Uses[sel.Sel].(*types.Var)
			if fv == nil || !fv.IsField() {
				return false
			}
			recvT := info.TypeOf(sel.X)
			if recvT == nil {
				return false
			}
			if pt, ok := recvT.(*types.Pointer); ok {
				recvT = pt.Elem()
			}
			if types.Implements(recvT, vmV.Type().Underlying().(*types.Interface)) || types.Implements(recvT, inV.Type().Underlying().(*types.Interface)) {
				return true
			}
			// the VM's variable memory: a []*Value field of the core that push/pop do not use
			if n := recvNamed(recvT); n != nil && n.Obj().Name() == "Core" && !opStackField[fv] {
				return true
			}
			return false
		}
		localEscapes := func(obj types.Object) bool {
			esc := false
			ast.Inspect(fi.fd.Body, func(n ast.Node) bool {
				switch x := n.(type) {
				case *ast.CallExpr:
					fnc := CalleeOf(info, x)
					if fnc == nil {
						return true
					}
					sig, _ := fnc.Type().(*types.Signature)
					if sig == nil || sig.Results().Len() == 0 || !isCell(sig.Results().At(0).Type()) {
						return true
					}
					for _, a := range x.Args {
						if id, ok := ast.Unparen(a).(*ast.Ident); ok && info.Uses[id] == obj {
							esc = true // handed to a function that wraps it into a value
						}
					}
				case *ast.CompositeLit:
					if t := info.TypeOf(x); t != nil && (types.Implements(t, vmV.Type().Underlying().(*types.Interface)) || types.Implements(t, inV.Type().Underlying().(*types.Interface))) {
						ast.Inspect(x, func(m ast.Node) bool {
							if id, ok := m.(*ast.Ident); ok && info.Uses[id] == obj {
								esc = true
							}
							return true
						})
					}
				case *ast.AssignStmt:
					// installed as / into a scope: X.scopes = obj, scopes[i][name] = … handled by (iii)
					for i, r := range x.Rhs {
						if id, ok := ast.Unparen(r).(*ast.Ident); ok && info.Uses[id] == obj && i < len(x.Lhs) {
							if valueStructField(x.Lhs[i]) {
								esc = true
							}
						}
					}
				case *ast.RangeStmt:
					// its cells are copied on into a sink by a later loop: for k, v := range obj { sink[k] = v }
					if id, ok := ast.Unparen(x.X).(*ast.Ident); ok && info.Uses[id] == obj {
						ast.Inspect(x.Body, func(m ast.Node) bool {
							if as, ok := m.(*ast.AssignStmt); ok {
								for _, l := range as.Lhs {
									if ix, ok := ast.Unparen(l).(*ast.IndexExpr); ok {
										if t := info.TypeOf(ix.X); t != nil && isCellMap(t) {
											if _, isIx := ast.Unparen(ix.X).(*ast.IndexExpr); isIx {
												esc = true
											}
										}
									}
								}
							}
							return true
						})
					}
				}
				return true
			})
			return esc
		}
		isSink := func(cont ast.Expr) bool {
			cont = ast.Unparen(cont)
			if st, ok := cont.(*ast.StarExpr); ok {
				cont = ast.Unparen(st.X)
			}
			switch x := cont.(type) {
			case *ast.SelectorExpr:
				return valueStructField(x)
			case *ast.IndexExpr:
				// scopes[i] : element of a slice of scope maps
				if sl, ok := info.TypeOf(x.X).Underlying().(*types.Slice); ok && isCellMap(sl.Elem()) {
					return true
				}
			case *ast.Ident:
				if obj := info.Uses[x]; obj != nil && isLocalVar(info, fi.fd, obj) {
					// alias of a value struct field? (temp := *self.Values)
					for _, d := range defsIn(info, fi.fd, obj) {
						if valueStructField(d) {
							return true
						}
					}
					return localEscapes(obj)
				}
			}
			return false
		}
		canon := func(e ast.Expr) string {
			e = ast.Unparen(e)
			if st, ok := e.(*ast.StarExpr); ok {
				e = ast.Unparen(st.X)
			}
			if id, ok := e.(*ast.Ident); ok {
				if obj := info.Uses[id]; obj != nil && isLocalVar(info, fi.fd, obj) {
					if defs := defsIn(info, fi.fd, obj); len(defs) == 1 {
						d := ast.Unparen(defs[0])
						if st, ok := d.(*ast.StarExpr); ok {
							d = ast.Unparen(st.X)
						}
						if _, isSel := d.(*ast.SelectorExpr); isSel {
							return exprStr(d)
						}
					}
				}
			}
			return exprStr(e)
		}
		_ = canon
		stagingLocal = func(name string) bool {
			// a local container of this function that is itself treated as a sink (so every store into it is checked)
			found := false
			ast.Inspect(fi.fd.Body, func(n ast.Node) bool {
				if id, ok := n.(*ast.Ident); ok && id.Name == name {
					if obj := info.Defs[id]; obj != nil && isLocalVar(info, fi.fd, obj) {
						if t := obj.Type(); isCellMap(t) || isCellSlice(t) {
							if isSink(id2expr(id, info, obj)) {
								found = true
							}
						}
					}
				}
				return true
			})
			return found
		}
		var scopeStack []ast.Node
		scopeStack = append(scopeStack, fi.fd)
		ast.Inspect(fi.fd.Body, func(n ast.Node) bool {
			switch s := n.(type) {
			case *ast.CallExpr:
				// a constructor that wraps ONE cell into a value (the option's payload): the payload is reachable
				// through the new value, so it must be a fresh cell like a list element
				if fn := CalleeOf(info, s); fn != nil && wrapsCell[fn] && len(s.Args) == 1 {
					if id, ok := ast.Unparen(s.Args[0]).(*ast.Ident); ok && id.Name == "nil" {
						return true
					}
					if k, why := classify(info, fi.fd, s.Args[0], 0); k == "element" {
					key := fmt.Sprintf("cell|%s|payload of %s", fname, fn.Name())
					seen[key]++
					if seen[key] > 1 {
						key += fmt.Sprintf("#%d", seen[key])
					}
					o := Obligation{Key: key, Pos: c.Pos(s.Pos()), Nontrivial: true}
					switch {
					case !rawExposed[elemFieldVar(info, fi.fd, s.Args[0], 0)] && elemFieldVar(info, fi.fd, s.Args[0], 0) != nil:
						o.Status, o.Detail = Discharged, "wraps an element of "+why+"; no engine function hands a cell of that container out raw, so it cannot be written in place and the sharing is unobservable"
					case reslicedInSameFunc(fi.fd, s, why):
						o.Status, o.Detail = Discharged, "wraps an element of "+why+" that the same function removes from the container (moved, not shared)"
					default:
						o.Status, o.Detail = Violated, fmt.Sprintf("wraps an element of %s into the new %s value: the payload is the container's own cell, so a scalar assigned to the element later changes the wrapped value too", why, fn.Name())
					}
					obs = append(obs, o)
					return true
				}
				report(s.Pos(), "payload of "+fn.Name(), "the new "+fn.Name()+" value", s.Args[0], fi.fd)
				}
			case *ast.AssignStmt:
				if len(s.Lhs) != len(s.Rhs) {
					return true
				}
				for i, l := range s.Lhs {
					ix, ok := ast.Unparen(l).(*ast.IndexExpr)
					if ok && isCell(info.TypeOf(s.Rhs[i])) {
						ct := info.TypeOf(ix.X)
						if ct != nil && (isCellSlice(ct) || isCellMap(ct)) && isSink(ix.X) {
							cont := canon(ix.X)
							// a variable of one scope bound under a name in another scope (an import): the VARIABLE is shared
							// by design, this is not a value stored into a second container
							isScopeElem := func(e ast.Expr) bool {
								x, ok := ast.Unparen(e).(*ast.IndexExpr)
								if !ok {
									return false
								}
								t := info.TypeOf(x.X)
								if t == nil {
									return false
								}
								sl, ok := t.Underlying().(*types.Slice)
								return ok && isCellMap(sl.Elem())
							}
							src := ast.Unparen(s.Rhs[i])
							if id, ok := src.(*ast.Ident); ok {
								if obj := info.Uses[id]; obj != nil && isLocalVar(info, fi.fd, obj) {
									if defs := defsIn(info, fi.fd, obj); len(defs) == 1 {
										src = ast.Unparen(defs[0])
									}
								}
							}
							if sx, ok := src.(*ast.IndexExpr); ok && isScopeElem(sx.X) && isScopeElem(ix.X) {
								key := fmt.Sprintf("cell|%s|variable of another scope bound into %s", fname, cont)
								seen[key]++
								if seen[key] > 1 {
									key += fmt.Sprintf("#%d", seen[key])
								}
								obs = append(obs, Obligation{Key: key, Pos: c.Pos(s.Pos()), Nontrivial: true, Status: Discharged,
									Detail: "binds the variable cell " + exprStr(sx) + " of another scope list under a name of this scope: an alias of the variable itself (import of a global), not a value stored into a second container"})
								continue
							}
							report(s.Pos(), "element store into "+cont, cont, s.Rhs[i], fi.fd)
						}
					}
					// append(sink, other...): all cells of another container are taken over
					if call, ok := ast.Unparen(s.Rhs[i]).(*ast.CallExpr); ok {
						if id, ok := call.Fun.(*ast.Ident); ok && id.Name == "append" && len(call.Args) == 2 && call.Ellipsis != token.NoPos && isCellSlice(info.TypeOf(call.Args[0])) && (isSink(call.Args[0]) || isSink(l)) {
							cont, src := canon(call.Args[0]), canon(call.Args[1])
							key := fmt.Sprintf("cell|%s|append of all cells to %s", fname, cont)
							seen[key]++
							if seen[key] > 1 {
								key += fmt.Sprintf("#%d", seen[key])
							}
							o := Obligation{Key: key, Pos: c.Pos(call.Pos()), Nontrivial: true}
							switch {
							case src == cont || src == canon(l):
								o.Status, o.Detail = Discharged, "re-appends cells of the same container"
							case stagingLocal(src) || !valueStructFieldText(info, call.Args[1]):
								o.Status, o.Detail = Discharged, "appends the cells of the local staging slice "+src+" (their freshness is decided where it is filled)"
							default:
								o.Status, o.Detail = Violated, fmt.Sprintf("appends all cells of %s to %s: the elements are now shared by two containers (a scalar assigned through one is changed in the other)", src, cont)
							}
							obs = append(obs, o)
						}
					}
					// append
					if call, ok := ast.Unparen(s.Rhs[i]).(*ast.CallExpr); ok {
						if id, ok := call.Fun.(*ast.Ident); ok && id.Name == "append" && len(call.Args) >= 2 && isCellSlice(info.TypeOf(call.Args[0])) && call.Ellipsis == token.NoPos && (isSink(call.Args[0]) || isSink(l)) {
							cont := canon(call.Args[0])
							for _, a := range call.Args[1:] {
								report(a.Pos(), "append to "+cont, cont, a, fi.fd)
							}
						}
					}
				}
			}
			return true
		})
	}
	return obs
}


// valueStructFieldText: e (after * and parens) is a field selector or a local defined from one (a container of some value)
func valueStructFieldText(info *types.Info, e ast.Expr) bool {
	e = ast.Unparen(e)
	if st, ok := e.(*ast.StarExpr); ok {
		e = ast.Unparen(st.X)
	}
	_, ok := e.(*ast.SelectorExpr)
	return ok
}

// lastSelName is the last selector component of an expression's text ("self.Values" → "Values").
func lastSelName(s string) string {
	if i := strings.LastIndex(s, "."); i >= 0 {
		return s[i+1:]
	}
	return s
}

// reslicedInSameFunc: the innermost function (literal) around call also assigns the container a sub-slice of itself.
func reslicedInSameFunc(fd *ast.FuncDecl, call *ast.CallExpr, container string) bool {
	var inner ast.Node = fd
	ast.Inspect(fd.Body, func(n ast.Node) bool {
		if fl, ok := n.(*ast.FuncLit); ok && fl.Pos() <= call.Pos() && call.End() <= fl.End() {
			inner = fl
		}
		return true
	})
	found := false
	strip := func(e ast.Expr) string {
		e = ast.Unparen(e)
		if st, ok := e.(*ast.StarExpr); ok {
			e = ast.Unparen(st.X)
		}
		return exprStr(e)
	}
	ast.Inspect(inner, func(n ast.Node) bool {
		as, ok := n.(*ast.AssignStmt)
		if !ok || len(as.Lhs) != 1 || len(as.Rhs) != 1 {
			return true
		}
		sl, ok := ast.Unparen(as.Rhs[0]).(*ast.SliceExpr)
		if !ok {
			return true
		}
		if strip(as.Lhs[0]) == container && strip(sl.X) == container {
			found = true
		}
		return true
	})
	return found
}

// id2expr returns an identifier expression that resolves (through info.Uses) to obj.
func id2expr(def *ast.Ident, info *types.Info, obj types.Object) ast.Expr {
	for id, o := range info.Uses {
		if o == obj {
			return id
		}
	}
	return def
}
