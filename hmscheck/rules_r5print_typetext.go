package main

// r5print: R-print-type-text — the constant text a resolved-type printer emits is a type the front end reads back.

import (
	"fmt"
	"go/ast"
	"go/constant"
	"go/types"
	"sort"
	"strings"
)

func init() {
	register(&Rule{ID: "R-print-type-text", Floor: 6, Run: ruleR5pTypeText,
		Doc: "Analysed programs are printed with their RESOLVED types (let annotations, parameters, return types, casts) and read back by the parser and Analyzer.ConvertType. For every struct of analyzer/ast that implements the resolved-type " +
			"interface and whose String() folds to a constant text (partial evaluation of the method body, including helpers such as self.Kind().String()): the text is (a) a spelling of the analyzer's type-name table — the switch over string " +
			"constants whose clauses construct resolved types — and that clause constructs THIS type, or (b) a complete constant text that a parser/ast type printer emits (a syntactic form such as `{ ? }`). " +
			"Types the front end never constructs from source (never, unknown) have no source syntax and are reported as information. " +
			"Necessary: a type printed under a diagnostic name (`any-object` for `{ ? }`) is read back as another type or not at all, and every printed program / fuzzer variant that mentions it is rejected (C19, C20)."})
}

func ruleR5pTypeText(c *Ctx) []Obligation {
	m := travGetModel(c)
	res := r2pPrintRun(c)
	an := c.Pkg("homescript/analyzer")
	info := an.TypesInfo
	semI := m.semType.Underlying().(*types.Interface)
	// the struct a constructor of analyzer/ast builds
	built := func(fn *types.Func) *types.Named {
		d := m.decls[fn]
		if d == nil {
			return nil
		}
		var out *types.Named
		ast.Inspect(d.Fd.Body, func(n ast.Node) bool {
			if lit, ok := n.(*ast.CompositeLit); ok && out == nil {
				if nn := travNamed(d.Pkg.TypesInfo.TypeOf(lit)); nn != nil && (types.Implements(nn, semI) || types.Implements(types.NewPointer(nn), semI)) {
					out = nn
				}
			}
			return true
		})
		return out
	}
	// (a) the name table: the switch over string constants (most cases) whose clauses return a constructed resolved type
	nameTable := map[string]*types.Named{}
	where := ""
	constructed := map[*types.Named]bool{}
	for _, fd := range AllFuncDecls(an) {
		ast.Inspect(fd.Body, func(n ast.Node) bool {
			if call, ok := n.(*ast.CallExpr); ok {
				if f := CalleeOf(info, call); f != nil && f.Pkg() == m.pA.Types {
					if b := built(f); b != nil {
						_ = b
					}
				}
			}
			sw, ok := n.(*ast.SwitchStmt)
			if !ok || sw.Tag == nil {
				return true
			}
			tbl := map[string]*types.Named{}
			for _, cl := range sw.Body.List {
				cc := cl.(*ast.CaseClause)
				var spell []string
				for _, e := range cc.List {
					if tv := info.Types[e]; tv.Value != nil && tv.Value.Kind() == constant.String {
						spell = append(spell, constant.StringVal(tv.Value))
					}
				}
				if len(spell) == 0 || len(cc.Body) == 0 {
					continue
				}
				rs, ok := cc.Body[len(cc.Body)-1].(*ast.ReturnStmt)
				if !ok || len(rs.Results) == 0 {
					continue
				}
				call, ok := ast.Unparen(rs.Results[0]).(*ast.CallExpr)
				if !ok {
					continue
				}
				if b := built(CalleeOf(info, call)); b != nil {
					for _, sp := range spell {
						tbl[sp] = b
					}
				}
			}
			if len(tbl) >= 3 && len(tbl) > len(nameTable) {
				nameTable, where = tbl, travFuncKeyAny(an, fd)
			}
			return true
		})
	}
	if len(nameTable) == 0 {
		return []Obligation{{Key: "<anchor>|type name table", Status: Undecided, Detail: "no switch over string constants whose clauses construct resolved types was found in package analyzer"}}
	}
	// resolved types the analyzer constructs while converting parser types (function that hosts the name table)
	for _, fd := range AllFuncDecls(an) {
		if travFuncKeyAny(an, fd) != where {
			continue
		}
		// clauses that end in an error diagnostic construct the error type (unknown): only returns of clause bodies whose
		// value is a constructor call directly under a case of a dispatch count; simply: every constructor called in the function
		// except those called with no arguments (placeholders such as NewUnknownType())
		ast.Inspect(fd.Body, func(n ast.Node) bool {
			if call, ok := n.(*ast.CallExpr); ok && len(call.Args) > 0 {
				if f := CalleeOf(info, call); f != nil && f.Pkg() == m.pA.Types {
					if b := built(f); b != nil {
						constructed[b] = true
					}
				}
			}
			return true
		})
	}
	// (b) complete constant texts of the parser-side type printers
	parserTexts := map[string]string{}
	hmsI := m.hmsType.Underlying().(*types.Interface)
	for _, mi := range res.methods {
		if !m.inP(mi.s.T) {
			continue
		}
		if !(types.Implements(mi.s.T, hmsI) || types.Implements(types.NewPointer(mi.s.T), hmsI)) {
			continue
		}
		for t := range mi.consts {
			parserTexts[strings.Join(strings.Fields(t), " ")] = mi.s.Short()
		}
	}
	var obs []Obligation
	for _, s := range m.sortedStructs() {
		if !s.IsSem || !m.inA(s.T) {
			continue
		}
		fd := FuncDecl(m.pA, s.Short(), "String")
		if fd == nil || fd.Body == nil {
			continue
		}
		fn, _ := m.pA.TypesInfo.Defs[fd.Name].(*types.Func)
		if fn == nil {
			continue
		}
		ev := &r3pEval{m: m}
		recv := func() (v any) {
			defer func() {
				if e := recover(); e != nil {
					if _, ok := e.(r3pEvalErr); ok {
						v = r3pOpaque{}
						return
					}
					panic(e)
				}
			}()
			return ev.zero(s.T)
		}()
		out, err := r3pCallConst(m, fn, []any{recv})
		if err != nil || len(out) != 1 {
			continue // not a constant text (composite type: its parts are printed by their own printers)
		}
		text, ok := out[0].(string)
		if !ok {
			continue
		}
		norm := strings.Join(strings.Fields(text), " ")
		ob := Obligation{Key: "analyzer/ast." + s.Short() + ".String|constant text is read back as this type", Pos: c.Pos(fd.Pos()), Nontrivial: true}
		switch {
		case nameTable[text] == s.T:
			ob.Status, ob.Detail = Discharged, fmt.Sprintf("%s prints as %q, the spelling for which %s constructs a %s", s.Short(), text, where, s.Short())
		case nameTable[text] != nil:
			ob.Status = Violated
			ob.Detail = fmt.Sprintf("%s prints as %q, but %s reads that spelling as a %s", s.Short(), text, where, nameTable[text].Obj().Name())
		case parserTexts[norm] != "":
			ob.Status, ob.Detail = Discharged, fmt.Sprintf("%s prints as %q, the complete text the parser-side type printer %s emits for its syntactic form", s.Short(), text, parserTexts[norm])
		case !constructed[s.T]:
			ob.Status, ob.Detail = Info, fmt.Sprintf("%s prints as %q; %s never constructs this type from source syntax (no spelling, no syntactic form): it cannot be read back at all", s.Short(), text, where)
		default:
			var sp []string
			for k, v := range nameTable {
				if v == s.T {
					sp = append(sp, k)
				}
			}
			var pt []string
			for k := range parserTexts {
				pt = append(pt, k)
			}
			sort.Strings(sp)
			sort.Strings(pt)
			ob.Status = Violated
			ob.Detail = fmt.Sprintf("%s.String() folds to the constant text %q, which is neither a spelling of the type-name table of %s (spellings of this type: %q) nor a complete text of a parser-side type printer (%q): "+
				"the analysed printer writes it into let annotations, parameters, return types and casts, and the printed program is read back with another type or rejected", s.Short(), text, where, sp, pt)
		}
		obs = append(obs, ob)
	}
	return obs
}
