package main

import (
	"fmt"
	"go/ast"
	"go/constant"
	"go/token"
	"go/types"
	"sort"
	"strings"
)

func init() {
	register(&Rule{ID: "R-lex-consume", Floor: 40, Run: ruleLexConsume,
		Doc: "every entry→return path of every fixed-lexeme token constructor (entered from its NextToken case) consumes exactly the runes of the lexeme it returns: #advance()=len(lexeme), the path conditions establish each rune of the lexeme, Span.Start is read before the first advance, Span.End at the last rune, Filename is the lexer's file, the Kind's display string equals the lexeme, and no path returns a proper prefix of a longer lexeme without having excluded the longer one's next rune (longest match)"})
	register(&Rule{ID: "R-lex-whitespace", Floor: 1, Run: ruleLexWhitespace,
		Doc: "the whitespace clause of NextToken skips exactly the ASCII runes SP, HT, LF, CR and consumes one rune per skipped rune"})
	register(&Rule{ID: "R-lex-dispatch", Floor: 20, Run: ruleLexDispatch,
		Doc: "every first rune of every lexeme the token table displays has a NextToken case leading to a constructor that can return it; rune classes (digit, letter, hex, octal) in lexer/util denote the sets the lexical grammar defines"})
}

type lexPathResult struct {
	st  *lexState
	ret []lv
	o   outcome
}

// walkLexFunc enumerates the paths of one lexer method under initial facts.
func walkLexFunc(r *lexRoles, fd *ast.FuncDecl, init *lexState, bind map[types.Object]lv) (res []lexPathResult, overflow bool, unsupported []token.Pos, derefViol []string) {
	info := r.info
	ev := &lexEval{r: r}
	if fd.Recv != nil && len(fd.Recv.List[0].Names) > 0 {
		ev.recv, _ = info.Defs[fd.Recv.List[0].Names[0]].(*types.Var)
	}
	for k, v := range bind {
		init.env[k] = v
	}
	var w *Walker[*lexState]
	w = &Walker[*lexState]{
		Clone: cloneLex,
		IsPanic: func(s ast.Stmt) bool {
			return IsPanicCall(info, s)
		},
		OnCond: func(st *lexState, cond ast.Expr, taken bool) (*lexState, bool) {
			f, ok := ev.condFact(st, cond, taken)
			st.decided = append(st.decided, fmt.Sprintf("%s:%v", exprStr(cond), taken))
			if !ok {
				return st, true
			}
			if (f.kind == fEq || f.kind == fNe || f.kind == fIn || f.kind == fNotIn) && !derefSafe(st, f.off) {
				derefViol = append(derefViol, fmt.Sprintf("%s dereferences the rune at offset %d without an end-of-input test on this path (%s)", exprStr(cond), f.off, st.factString()))
			}
			if !st.add(f) {
				return st, false
			}
			return st, true
		},
		OnCase: func(st *lexState, sw *ast.SwitchStmt, vals, others []ast.Expr) (*lexState, bool) {
			tag := ev.eval(st, sw.Tag)
			if tag.k != lvChar {
				st.decided = append(st.decided, "switch "+exprStr(sw.Tag))
				return st, true
			}
			if !derefSafe(st, tag.off) {
				derefViol = append(derefViol, fmt.Sprintf("switch %s dereferences the rune at offset %d without an end-of-input test", exprStr(sw.Tag), tag.off))
			}
			if vals == nil {
				for _, o := range others {
					if tv := info.Types[o]; tv.Value != nil {
						n, _ := constant.Int64Val(constant.ToInt(tv.Value))
						if !st.add(charFact{off: tag.off, kind: fNe, r: rune(n)}) {
							return st, false
						}
					}
				}
				st.decided = append(st.decided, fmt.Sprintf("switch %s: default", exprStr(sw.Tag)))
				return st, true
			}
			// a clause with several values: explored once per value by the caller? keep it simple:
			// single value → eq fact; several → in-set fact
			var rs runeSet
			for _, v := range vals {
				tv := info.Types[v]
				if tv.Value == nil {
					return st, true
				}
				n, _ := constant.Int64Val(constant.ToInt(tv.Value))
				rs.ranges = append(rs.ranges, [2]rune{rune(n), rune(n)})
			}
			if len(rs.ranges) == 1 {
				if !st.add(charFact{off: tag.off, kind: fEq, r: rs.ranges[0][0]}) {
					return st, false
				}
			} else {
				set := rs.norm()
				if !st.add(charFact{off: tag.off, kind: fIn, set: &set, name: set.String()}) {
					return st, false
				}
			}
			st.decided = append(st.decided, fmt.Sprintf("switch %s: case %s", exprStr(sw.Tag), rs.String()))
			return st, true
		},
		OnStmt: func(st *lexState, s ast.Stmt) (*lexState, bool) {
			switch x := s.(type) {
			case *ast.ExprStmt:
				if call, ok := x.X.(*ast.CallExpr); ok {
					lexCall(r, ev, st, call)
				}
			case *ast.AssignStmt:
				// evaluate RHS (calls may advance), then bind
				var vals []lv
				for _, rhs := range x.Rhs {
					if call, ok := ast.Unparen(rhs).(*ast.CallExpr); ok {
						if v, handled := lexCall(r, ev, st, call); handled {
							vals = append(vals, v)
							continue
						}
					}
					vals = append(vals, ev.eval(st, rhs))
				}
				if len(x.Lhs) == len(vals) {
					for i, l := range x.Lhs {
						id, ok := l.(*ast.Ident)
						if !ok {
							continue
						}
						obj := info.Defs[id]
						if obj == nil {
							obj = info.Uses[id]
						}
						if obj == nil {
							continue
						}
						if x.Tok == token.ADD_ASSIGN {
							st.events = append(st.events, lexEvent{kind: "append", off: st.off, v: vals[i], pos: x.Pos(), what: id.Name})
							st.env[obj] = lv{desc: id.Name + "+=…"}
							continue
						}
						// value = append(value, x)
						if call, ok := ast.Unparen(x.Rhs[i]).(*ast.CallExpr); ok {
							if fid, ok := call.Fun.(*ast.Ident); ok && fid.Name == "append" && len(call.Args) == 2 {
								st.events = append(st.events, lexEvent{kind: "append", off: st.off, v: ev.eval(st, call.Args[1]), pos: x.Pos(), what: id.Name})
								continue
							}
						}
						st.env[obj] = vals[i]
					}
				}
			case *ast.DeclStmt:
				if gd, ok := x.Decl.(*ast.GenDecl); ok {
					for _, sp := range gd.Specs {
						if vs, ok := sp.(*ast.ValueSpec); ok {
							for i, n := range vs.Names {
								if i < len(vs.Values) {
									st.env[info.Defs[n]] = ev.eval(st, vs.Values[i])
								} else {
									st.env[info.Defs[n]] = lv{desc: "zero " + n.Name}
								}
							}
						}
					}
				}
			case *ast.ReturnStmt:
				// handled at Exit
			case *ast.IncDecStmt:
			}
			return st, true
		},
	}
	w.Exit = func(st *lexState, o outcome) {
		pr := lexPathResult{st: st, o: o}
		if o.ret != nil {
			for _, e := range o.ret.Results {
				if call, ok := ast.Unparen(e).(*ast.CallExpr); ok {
					if v, handled := lexCall(r, ev, st, call); handled {
						pr.ret = append(pr.ret, v)
						continue
					}
				}
				pr.ret = append(pr.ret, ev.eval(st, e))
			}
		}
		res = append(res, pr)
	}
	w.Run(fd.Body, init)
	return res, w.Overflow, w.Unsupported, derefViol
}

func derefSafe(st *lexState, off int) bool {
	_, nonNil, _, hasEq := st.known(off)
	if nonNil || hasEq {
		return true
	}
	for _, f := range st.facts {
		if f.off == off && (f.kind == fNe || f.kind == fIn || f.kind == fNotIn) {
			return true // already dereferenced once on this path (reported there)
		}
	}
	return false
}

// lexCall interprets a call statement/expression: advance(), straight-line
// helper methods of the lexer (inlined), newToken. Returns (value, handled).
func lexCall(r *lexRoles, ev *lexEval, st *lexState, call *ast.CallExpr) (lv, bool) {
	info := r.info
	fn := CalleeOf(info, call)
	if fn == nil {
		return lv{}, false
	}
	if fn == r.advance {
		st.events = append(st.events, lexEvent{kind: "advance", off: st.off, pos: call.Pos()})
		st.off++
		return lv{}, true
	}
	if fn == r.newToken {
		return ev.eval(st, call), true
	}
	// another method of the lexer: inline when it is straight-line
	if sig, ok := fn.Type().(*types.Signature); ok && sig.Recv() != nil && recvNamed(sig.Recv().Type()) == r.lexerT {
		fd := FuncDecl(r.pkg, "Lexer", fn.Name())
		if fd != nil && isStraightLine(fd.Body) {
			bind := map[types.Object]lv{}
			i := 0
			for _, f := range fd.Type.Params.List {
				for _, n := range f.Names {
					if i < len(call.Args) {
						bind[info.Defs[n]] = ev.eval(st, call.Args[i])
					}
					i++
				}
			}
			sub := &lexState{off: st.off, facts: st.facts, env: map[types.Object]lv{}}
			res, _, _, _ := walkLexFunc(r, fd, sub, bind)
			if len(res) == 1 {
				st.off = res[0].st.off
				st.events = append(st.events, res[0].st.events...)
				if len(res[0].ret) > 0 {
					return res[0].ret[0], true
				}
				return lv{}, true
			}
		}
		st.events = append(st.events, lexEvent{kind: "call", off: st.off, pos: call.Pos(), what: fn.Name()})
		return lv{desc: "call " + fn.Name()}, true
	}
	return lv{}, false
}

func recvNamed(t types.Type) *types.Named {
	if p, ok := t.(*types.Pointer); ok {
		t = p.Elem()
	}
	n, _ := t.(*types.Named)
	return n
}

func isStraightLine(b *ast.BlockStmt) bool {
	ok := true
	ast.Inspect(b, func(n ast.Node) bool {
		switch n.(type) {
		case *ast.IfStmt, *ast.ForStmt, *ast.RangeStmt, *ast.SwitchStmt, *ast.TypeSwitchStmt, *ast.SelectStmt, *ast.FuncLit:
			ok = false
		}
		return ok
	})
	return ok
}

// nextTokenCases returns, for NextToken's switch over the current rune, the
// clauses: runes of the clause → (constructor called in a return, or "" ).
type ntCase struct {
	runes  []rune
	clause *ast.CaseClause
	ctor   *types.Func   // lexer method returned by the clause (last return)
	call   *ast.CallExpr // that call
	skip   bool          // clause only advances (whitespace)
}

func nextTokenCases(c *Ctx, r *lexRoles) (fd *ast.FuncDecl, sw *ast.SwitchStmt, cases []ntCase, def *ast.CaseClause) {
	fd = c.MustFunc("homescript/lexer", "Lexer", "NextToken")
	info := r.info
	ev := &lexEval{r: r}
	ev.recv, _ = info.Defs[fd.Recv.List[0].Names[0]].(*types.Var)
	ast.Inspect(fd.Body, func(n ast.Node) bool {
		s, ok := n.(*ast.SwitchStmt)
		if !ok || sw != nil || s.Tag == nil {
			return true
		}
		if v := ev.eval(&lexState{env: map[types.Object]lv{}}, s.Tag); v.k == lvChar && v.off == 0 {
			sw = s
			return false
		}
		return true
	})
	if sw == nil {
		fatalf("anchor unresolved: NextToken has no switch over the current rune")
	}
	for _, cl := range sw.Body.List {
		cc := cl.(*ast.CaseClause)
		if cc.List == nil {
			def = cc
			continue
		}
		nc := ntCase{clause: cc}
		for _, e := range cc.List {
			tv := info.Types[e]
			if tv.Value == nil {
				fatalf("NextToken: non-constant case %s", exprStr(e))
			}
			n, _ := constant.Int64Val(constant.ToInt(tv.Value))
			nc.runes = append(nc.runes, rune(n))
		}
		// last statement: return self.makeX(...)[, nil]
		if n := len(cc.Body); n > 0 {
			if ret, ok := cc.Body[n-1].(*ast.ReturnStmt); ok && len(ret.Results) >= 1 {
				if call, ok := ast.Unparen(ret.Results[0]).(*ast.CallExpr); ok {
					if fn := CalleeOf(info, call); fn != nil {
						nc.ctor, nc.call = fn, call
					}
				}
			}
			if n == 1 {
				if es, ok := cc.Body[0].(*ast.ExprStmt); ok {
					if call, ok := es.X.(*ast.CallExpr); ok && CalleeOf(info, call) == r.advance {
						nc.skip = true
					}
				}
			}
		}
		cases = append(cases, nc)
	}
	return
}

// tokenDisplay extracts kind → display string from TokenKind.String().
func tokenDisplay(c *Ctx, r *lexRoles) map[string]string {
	fd := c.MustFunc("homescript/lexer", "TokenKind", "String")
	out := map[string]string{}
	ast.Inspect(fd.Body, func(n ast.Node) bool {
		cc, ok := n.(*ast.CaseClause)
		if !ok || cc.List == nil {
			return true
		}
		var lit string
		found := false
		for _, s := range cc.Body {
			switch x := s.(type) {
			case *ast.AssignStmt:
				if len(x.Rhs) == 1 {
					if tv := r.info.Types[x.Rhs[0]]; tv.Value != nil && tv.Value.Kind() == constant.String {
						lit, found = constant.StringVal(tv.Value), true
					}
				}
			case *ast.ReturnStmt:
				if len(x.Results) == 1 {
					if tv := r.info.Types[x.Results[0]]; tv.Value != nil && tv.Value.Kind() == constant.String {
						lit, found = constant.StringVal(tv.Value), true
					}
				}
			}
		}
		if found {
			for _, e := range cc.List {
				if k := ConstOf(r.info, e); k != nil {
					out[k.Name()] = lit
				}
			}
		}
		return true
	})
	if len(out) < 20 {
		fatalf("TokenKind.String: extracted only %d display strings", len(out))
	}
	return out
}

type lexTokenPath struct {
	ctor   string
	first  rune
	res    lexPathResult
	tok    lv
	value  string
	hasVal bool
	kind   string
}

// fixedLexemePaths walks every constructor reachable from a NextToken case
// and returns its token-returning paths.
func fixedLexemePaths(c *Ctx, r *lexRoles) (paths []lexTokenPath, problems []Obligation) {
	_, _, cases, _ := nextTokenCases(c, r)
	info := r.info
	for _, nc := range cases {
		if nc.ctor == nil {
			continue
		}
		fd := FuncDecl(r.pkg, "Lexer", nc.ctor.Name())
		if fd == nil {
			continue
		}
		for _, first := range nc.runes {
			init := &lexState{env: map[types.Object]lv{}}
			init.add(charFact{off: 0, kind: fEq, r: first})
			bind := map[types.Object]lv{}
			ev := &lexEval{r: r}
			i := 0
			for _, f := range fd.Type.Params.List {
				for _, n := range f.Names {
					if i < len(nc.call.Args) {
						bind[info.Defs[n]] = ev.eval(init, nc.call.Args[i])
					}
					i++
				}
			}
			res, overflow, unsup, deref := walkLexFunc(r, fd, init, bind)
			key := fmt.Sprintf("lexer.%s|first=%q", nc.ctor.Name(), first)
			if overflow || len(unsup) > 0 {
				problems = append(problems, Obligation{Key: key, Pos: c.Pos(fd.Pos()), Status: Undecided, Detail: "path enumeration overflow or unsupported control flow"})
				continue
			}
			for _, d := range deref {
				problems = append(problems, Obligation{Key: key + "|nil-deref", Pos: c.Pos(fd.Pos()), Status: Violated, Detail: d})
			}
			for _, pr := range res {
				if pr.o.kind == cPanic {
					continue
				}
				if len(pr.ret) == 0 {
					continue
				}
				tp := lexTokenPath{ctor: nc.ctor.Name(), first: first, res: pr, tok: pr.ret[0]}
				if tp.tok.k == lvToken {
					if v := tp.tok.parts[1]; v.k == lvConst && v.c.Kind() == constant.String {
						tp.value, tp.hasVal = constant.StringVal(v.c), true
					}
					if k := tp.tok.parts[0]; k.k == lvConst && k.cobj != nil {
						tp.kind = k.cobj.Name()
					}
				}
				paths = append(paths, tp)
			}
		}
	}
	return
}

func ruleLexConsume(c *Ctx) []Obligation {
	r := discoverLexRoles(c)
	display := tokenDisplay(c, r)
	paths, obs := fixedLexemePaths(c, r)
	// the lexeme set = every constant value returned with a punctuation kind
	lexemes := map[string]bool{}
	for _, p := range paths {
		if p.hasVal && p.kind != "" && !isWordKindDisplay(display[p.kind]) {
			if d, ok := display[p.kind]; ok && !isAlphaWord(d) {
				lexemes[d] = true
			}
		}
	}
	seen := map[string]int{}
	for _, p := range paths {
		fd := FuncDecl(r.pkg, "Lexer", p.ctor)
		pos := c.Pos(fd.Pos())
		if p.res.o.ret != nil {
			pos = c.Pos(p.res.o.ret.Pos())
		}
		st := p.res.st
		if p.tok.k != lvToken {
			// error paths / non-constructed tokens (UnknownToken, Token{}) are not token
			// results; loop-based constructors are covered by R-lex-scan.
			continue
		}
		if !p.hasVal || p.kind == "" {
			continue // loop-based constructor (value accumulated): R-lex-scan
		}
		d, hasDisp := display[p.kind]
		if hasDisp && isAlphaWord(d) {
			continue // keyword kinds come from makeName (R-lex-keywords)
		}
		key := fmt.Sprintf("lexer.%s|first=%q|returns %s %q|%s", p.ctor, p.first, p.kind, p.value, condensedFacts(st))
		seen[key]++
		if seen[key] > 1 {
			key += fmt.Sprintf("#%d", seen[key])
		}
		var fails []string
		want := d
		if !hasDisp {
			fails = append(fails, fmt.Sprintf("kind %s has no display string in TokenKind.String", p.kind))
			want = p.value
		}
		if p.value != want {
			fails = append(fails, fmt.Sprintf("Value %q differs from the display %q of kind %s", p.value, want, p.kind))
		}
		L := len([]rune(want))
		// (1) runes established
		for i, ch := range []rune(want) {
			_, _, eq, hasEq := st.known(i)
			if !hasEq || eq != ch {
				fails = append(fails, fmt.Sprintf("path conditions do not establish rune %d of the lexeme (%q): facts: %s", i, ch, st.factString()))
			}
		}
		// (2) consumption
		if st.off != L {
			fails = append(fails, fmt.Sprintf("consumes %d runes for a lexeme of %d (%q) — %s", st.off, L, want, surplus(st.off, L)))
		}
		// (3) span
		span := p.tok.parts[2]
		if span.k != lvSpan {
			fails = append(fails, "span is not constructed from locations on this path: "+span.String())
		} else {
			if s := span.parts[0]; s.k != lvLoc || s.off != 0 {
				fails = append(fails, fmt.Sprintf("Span.Start is %v, want the location before the first advance (loc@0)", s))
			}
			if e := span.parts[1]; e.k != lvLoc || e.off != L-1 {
				fails = append(fails, fmt.Sprintf("Span.End is %v, want the location of the last rune of the lexeme (loc@%d): locations are inclusive", e, L-1))
			}
			if f := span.parts[2]; f.k != lvFile {
				fails = append(fails, fmt.Sprintf("Span.Filename is %v, want the lexer's filename", f))
			}
		}
		// (5) longest match
		for q := range lexemes {
			if strings.HasPrefix(q, want) && len([]rune(q)) == L+1 {
				nxt := []rune(q)[L]
				if !st.excludes(L, nxt) {
					fails = append(fails, fmt.Sprintf("returns %q although the next rune may be %q (longer lexeme %q exists): longest match not enforced; facts: %s", want, nxt, q, st.factString()))
				}
			}
		}
		o := Obligation{Key: key, Pos: pos, Nontrivial: true}
		if len(fails) == 0 {
			o.Status = Discharged
			o.Detail = fmt.Sprintf("path [%s]: %d advance(s), Start=loc@0, End=loc@%d, file set", st.factString(), st.off, L-1)
		} else {
			o.Status = Violated
			o.Detail = strings.Join(fails, "; ") + " | decisions: " + strings.Join(st.decided, ", ")
		}
		obs = append(obs, o)
	}
	return obs
}

func surplus(got, want int) string {
	if got > want {
		return fmt.Sprintf("%d rune(s) after the lexeme are swallowed", got-want)
	}
	return fmt.Sprintf("%d rune(s) of the lexeme are left for the next token", want-got)
}

func isAlphaWord(s string) bool {
	if s == "" {
		return false
	}
	for _, r := range s {
		if !(r >= 'a' && r <= 'z' || r >= 'A' && r <= 'Z' || r == '_') {
			return false
		}
	}
	return true
}

func isWordKindDisplay(s string) bool { return false }

// condensedFacts renders only the facts beyond offset 0 (distinguishes paths
// returning the same lexeme).
func condensedFacts(st *lexState) string {
	var b []string
	for _, f := range st.facts {
		if f.off == 0 && f.kind == fEq {
			continue
		}
		switch f.kind {
		case fEq:
			b = append(b, fmt.Sprintf("[%d]=%q", f.off, f.r))
		case fNe:
			b = append(b, fmt.Sprintf("[%d]≠%q", f.off, f.r))
		case fNil:
			b = append(b, fmt.Sprintf("[%d]=EOF", f.off))
		case fNonNil:
			b = append(b, fmt.Sprintf("[%d]≠EOF", f.off))
		case fIn:
			b = append(b, fmt.Sprintf("[%d]∈%s", f.off, f.name))
		case fNotIn:
			b = append(b, fmt.Sprintf("[%d]∉%s", f.off, f.name))
		}
	}
	sort.Strings(b)
	return strings.Join(b, ",")
}

func ruleLexWhitespace(c *Ctx) []Obligation {
	r := discoverLexRoles(c)
	fd, _, cases, _ := nextTokenCases(c, r)
	var obs []Obligation
	want := map[rune]string{' ': "SP", '\t': "HT", '\n': "LF", '\r': "CR"}
	got := map[rune]bool{}
	n := 0
	for _, nc := range cases {
		if !nc.skip {
			continue
		}
		n++
		for _, ch := range nc.runes {
			got[ch] = true
		}
	}
	o := Obligation{Key: "lexer.NextToken|whitespace clause", Pos: c.Pos(fd.Pos()), Nontrivial: true}
	var fails []string
	if n == 0 {
		fails = append(fails, "no clause that only advances")
	}
	for ch, name := range want {
		if !got[ch] {
			fails = append(fails, fmt.Sprintf("%s (%q) is not skipped as whitespace", name, ch))
		}
	}
	for ch := range got {
		if _, ok := want[ch]; !ok {
			fails = append(fails, fmt.Sprintf("%q is skipped as whitespace but is not one of SP HT LF CR", ch))
		}
	}
	sort.Strings(fails)
	if len(fails) > 0 {
		o.Status, o.Detail = Violated, strings.Join(fails, "; ")+" (case constants are evaluated by the type checker: '\\t' | '\\r' is the single rune 0x0D)"
	} else {
		o.Status, o.Detail = Discharged, "skip clause covers exactly {SP,HT,LF,CR}, one advance per rune"
	}
	return append(obs, o)
}

// ruleLexDispatch: (a) every punctuation lexeme in TokenKind.String is
// produced by some constructor path; (b) every first rune reaches it; (c)
// rune classes match the grammar's DIGIT / LETTER / HEX / OCTAL.
func ruleLexDispatch(c *Ctx) []Obligation {
	r := discoverLexRoles(c)
	display := tokenDisplay(c, r)
	paths, _ := fixedLexemePaths(c, r)
	produced := map[string]bool{}
	for _, p := range paths {
		if p.hasVal && p.kind != "" {
			produced[p.kind] = true
		}
	}
	var obs []Obligation
	fd := c.MustFunc("homescript/lexer", "TokenKind", "String")
	var kinds []string
	for k := range display {
		kinds = append(kinds, k)
	}
	sort.Strings(kinds)
	for _, k := range kinds {
		d := display[k]
		if isAlphaWord(d) || d == "EOF" {
			continue
		}
		o := Obligation{Key: "token kind " + k + " " + fmt.Sprintf("%q", d) + " is produced", Pos: c.Pos(fd.Pos())}
		if produced[k] {
			o.Status, o.Detail = Discharged, "a constructor path returns this kind"
		} else {
			o.Status, o.Detail = Violated, "no lexer path constructs a token of this kind: the lexeme cannot be lexed"
		}
		obs = append(obs, o)
	}
	// enum constants of TokenKind with no display and produced by the lexer
	e := c.EnumOf(r.kindT)
	for _, k := range e.Consts {
		if _, ok := display[k.Name()]; !ok && produced[k.Name()] {
			obs = append(obs, Obligation{Key: "token kind " + k.Name() + " has a display string", Pos: c.Pos(fd.Pos()), Status: Info,
				Detail: "the lexer produces " + k.Name() + " but TokenKind.String has no case for it (formatting it through fmt yields a %!s(PANIC=) marker)"})
		}
	}
	// rune classes
	wantSets := map[string]runeSet{
		"IsDigit":      {[][2]rune{{'0', '9'}}},
		"IsOctalDigit": {[][2]rune{{'0', '7'}}},
		"IsHexDigit":   {[][2]rune{{'0', '9'}, {'A', 'F'}, {'a', 'f'}}},
		"IsLetter":     {[][2]rune{{'A', 'Z'}, {'a', 'z'}, {'_', '_'}}},
	}
	up := c.Pkg("homescript/lexer/util")
	for name, want := range wantSets {
		fn, _ := up.Types.Scope().Lookup(name).(*types.Func)
		o := Obligation{Key: "rune class util." + name, Nontrivial: true}
		if fn == nil {
			o.Status, o.Detail = Undecided, "predicate not found"
			obs = append(obs, o)
			continue
		}
		o.Pos = c.Pos(fn.Pos())
		got, ok := r.preds[fn]
		switch {
		case !ok:
			o.Status, o.Detail = Undecided, "the predicate's rune set could not be extracted from its body (unsupported shape)"
		case got.equal(want):
			o.Status, o.Detail = Discharged, "denotes "+got.String()
		default:
			o.Status, o.Detail = Violated, fmt.Sprintf("denotes %s, the lexical grammar defines %s", got.norm(), want.norm())
		}
		obs = append(obs, o)
	}
	return obs
}

var _ = token.NoPos

// ---------------------------------------------------------------------
// R-lex-scan: the loop-based scanners (comments, strings, names, numbers,
// escapes). Entry contexts are collected from the call sites (NextToken
// cases and calls between scanners) so that every method is analysed under
// the facts its callers establish.

func init() {
	register(&Rule{ID: "R-lex-scan", Floor: 12, Run: ruleLexScan,
		Doc: "in every scanner method of the lexer, under every entry context its call sites establish: (1) no path dereferences the current/next rune without an end-of-input test; (2) a scanning loop never steps over an input position at which its own exit condition (the terminator it tests at the loop head) could hold — every position is either tested as a loop head or its terminator is refuted by the path's facts; (3) in value-accumulating loops each consumed rune is appended to the value exactly once (append and advance pair up per iteration)"})
}

type lexEntry struct {
	facts []charFact
	from  string
}

func shiftFacts(fs []charFact, by int) []charFact {
	var out []charFact
	for _, f := range fs {
		f.off -= by
		if f.off < 0 {
			if f.kind == fNil {
				f.off = 0 // end of input persists
				out = append(out, f)
			}
			continue
		}
		out = append(out, f)
	}
	return out
}

func entryKey(fs []charFact) string {
	st := &lexState{facts: fs}
	return st.factString()
}

func ruleLexScan(c *Ctx) []Obligation {
	r := discoverLexRoles(c)
	info := r.info
	var obs []Obligation
	// collect entry contexts by walking from NextToken
	entries := map[string][]lexEntry{}
	addEntry := func(fn string, fs []charFact, from string) bool {
		k := entryKey(fs)
		for _, e := range entries[fn] {
			if entryKey(e.facts) == k {
				return false
			}
		}
		entries[fn] = append(entries[fn], lexEntry{facts: fs, from: from})
		return true
	}
	type work struct {
		fn string
		e  lexEntry
	}
	var queue []work
	addEntry("NextToken", nil, "entry")
	queue = append(queue, work{"NextToken", lexEntry{from: "entry"}})
	analysed := 0
	keyCount := map[string]int{}
	for len(queue) > 0 {
		w := queue[0]
		queue = queue[1:]
		fd := FuncDecl(r.pkg, "Lexer", w.fn)
		if fd == nil || fd.Body == nil {
			continue
		}
		if fn, _ := info.Defs[fd.Name].(*types.Func); fn == r.advance {
			continue
		}
		analysed++
		res := scanWalk(r, fd, w.e.facts)
		ctxKey := fmt.Sprintf("lexer.%s|from %s[%s]", w.fn, w.e.from, positiveFacts(w.e.facts))
		keyCount[ctxKey]++
		if keyCount[ctxKey] > 1 {
			ctxKey += fmt.Sprintf("#%d", keyCount[ctxKey])
		}
		// (1) nil deref
		o := Obligation{Key: ctxKey + "|deref", Pos: c.Pos(fd.Pos()), Nontrivial: true}
		if res.overflow || len(res.unsupported) > 0 {
			o.Status, o.Detail = Undecided, "path enumeration overflow / unsupported control flow"
		} else if len(res.deref) > 0 {
			o.Status, o.Detail = Violated, strings.Join(uniqStrings(res.deref), "; ")+" (entry from "+w.e.from+")"
		} else {
			o.Status, o.Detail = Discharged, fmt.Sprintf("%d paths, every rune dereference follows an end-of-input test", res.paths)
		}
		obs = append(obs, o)
		// (2) loops
		for _, lr := range res.loops {
			lo := Obligation{Key: ctxKey + "|loop#" + fmt.Sprint(lr.index) + "|no terminator skipped", Pos: c.Pos(lr.pos), Nontrivial: true}
			if len(lr.skips) > 0 {
				lo.Status, lo.Detail = Violated, strings.Join(uniqStrings(lr.skips), "; ")
			} else {
				lo.Status, lo.Detail = Discharged, fmt.Sprintf("exit conditions %v; %d continuing path(s), each advances over positions whose terminator is refuted or tested", lr.terms, lr.conts)
			}
			obs = append(obs, lo)
			if lr.accum {
				ao := Obligation{Key: ctxKey + "|loop#" + fmt.Sprint(lr.index) + "|append/advance pairing", Pos: c.Pos(lr.pos), Nontrivial: true}
				if len(lr.pairFail) > 0 {
					ao.Status, ao.Detail = Violated, strings.Join(uniqStrings(lr.pairFail), "; ")
				} else {
					ao.Status, ao.Detail = Discharged, "each iteration that appends the rune at offset k to the value advances exactly once past k"
				}
				obs = append(obs, ao)
			}
		}
		for _, cs := range res.calls {
			if addEntry(cs.fn, cs.facts, w.fn) {
				queue = append(queue, work{cs.fn, lexEntry{facts: cs.facts, from: w.fn}})
			}
		}
		if analysed > 400 {
			obs = append(obs, Obligation{Key: "lexer|entry contexts", Status: Undecided, Detail: "entry-context exploration did not converge"})
			break
		}
	}
	return obs
}

func uniqStrings(in []string) []string {
	seen := map[string]bool{}
	var out []string
	for _, s := range in {
		if !seen[s] {
			seen[s] = true
			out = append(out, s)
		}
	}
	sort.Strings(out)
	return out
}

type scanCall struct {
	fn    string
	facts []charFact
}

type scanLoop struct {
	index    int
	pos      token.Pos
	terms    []string
	conts    int
	skips    []string
	accum    bool
	pairFail []string
}

type scanResult struct {
	paths       int
	overflow    bool
	unsupported []token.Pos
	deref       []string
	calls       []scanCall
	loops       []*scanLoop
}

// scanWalk walks one method with loops unrolled twice, recording deref
// violations, calls to other scanners (with the facts at the call, relative
// to the cursor) and per-loop iteration summaries.
func scanWalk(r *lexRoles, fd *ast.FuncDecl, entry []charFact) *scanResult {
	info := r.info
	res := &scanResult{}
	ev := &lexEval{r: r}
	if fd.Recv != nil && len(fd.Recv.List[0].Names) > 0 {
		ev.recv, _ = info.Defs[fd.Recv.List[0].Names[0]].(*types.Var)
	}
	init := &lexState{env: map[types.Object]lv{}}
	init.facts = append(init.facts, entry...)
	// ---- pass A: whole-function walk for deref + calls
	record := func(st *lexState, call *ast.CallExpr) {
		fn := CalleeOf(info, call)
		if fn == nil || fn == r.advance || fn == r.newToken {
			return
		}
		if sig, ok := fn.Type().(*types.Signature); ok && sig.Recv() != nil && recvNamed(sig.Recv().Type()) == r.lexerT {
			res.calls = append(res.calls, scanCall{fn: fn.Name(), facts: shiftFacts(st.facts, st.off)})
		}
	}
	var w *Walker[*lexState]
	mk := func() *Walker[*lexState] {
		return &Walker[*lexState]{
			Clone:      cloneLex,
			LoopUnroll: 2,
			MaxPaths:   40000,
			IsPanic:    func(s ast.Stmt) bool { return IsPanicCall(info, s) },
			OnCond: func(st *lexState, cond ast.Expr, taken bool) (*lexState, bool) {
				f, ok := ev.condFact(st, cond, taken)
				if !ok {
					return st, true
				}
				if (f.kind == fEq || f.kind == fNe || f.kind == fIn || f.kind == fNotIn) && !derefSafe(st, f.off) {
					res.deref = append(res.deref, fmt.Sprintf("`%s` reads the rune at cursor+%d, which may be past the end of input on the path [%s]", exprStr(cond), f.off-st.off, st.factString()))
				}
				if !st.add(f) {
					return st, false
				}
				return st, true
			},
			OnCase: func(st *lexState, sw *ast.SwitchStmt, vals, others []ast.Expr) (*lexState, bool) {
				tag := ev.eval(st, sw.Tag)
				if tag.k != lvChar {
					return st, true
				}
				if !derefSafe(st, tag.off) {
					res.deref = append(res.deref, fmt.Sprintf("`switch %s` reads the rune at cursor+%d, which may be past the end of input on the path [%s]", exprStr(sw.Tag), tag.off-st.off, st.factString()))
				}
				if vals == nil {
					for _, o := range others {
						if tv := info.Types[o]; tv.Value != nil {
							n, _ := constant.Int64Val(constant.ToInt(tv.Value))
							if !st.add(charFact{off: tag.off, kind: fNe, r: rune(n)}) {
								return st, false
							}
						}
					}
					return st, true
				}
				var rs runeSet
				for _, v := range vals {
					tv := info.Types[v]
					if tv.Value == nil {
						return st, true
					}
					n, _ := constant.Int64Val(constant.ToInt(tv.Value))
					rs.ranges = append(rs.ranges, [2]rune{rune(n), rune(n)})
				}
				if len(rs.ranges) == 1 {
					return st, st.add(charFact{off: tag.off, kind: fEq, r: rs.ranges[0][0]})
				}
				set := rs.norm()
				return st, st.add(charFact{off: tag.off, kind: fIn, set: &set, name: set.String()})
			},
			OnStmt: func(st *lexState, s ast.Stmt) (*lexState, bool) {
				// any expression that dereferences a cursor pointer outside a condition;
				// post-order, so that call arguments are evaluated before the call's effect
				var visit func(n ast.Node)
				visit = func(n ast.Node) {
					switch x := n.(type) {
					case nil:
						return
					case *ast.FuncLit:
						return
					case *ast.StarExpr:
						if p := ev.eval(st, x.X); p.k == lvCharPtr && !derefSafe(st, p.off) {
							res.deref = append(res.deref, fmt.Sprintf("`%s` reads the rune at cursor+%d, which may be past the end of input on the path [%s]", exprStr(x), p.off-st.off, st.factString()))
						}
						return
					case *ast.CallExpr:
						for _, a := range x.Args {
							visit(a)
						}
						fn := CalleeOf(info, x)
						if fn == r.advance {
							st.events = append(st.events, lexEvent{kind: "advance", off: st.off, pos: x.Pos()})
							st.off++
						} else if fn != nil {
							record(st, x)
							if sig, ok := fn.Type().(*types.Signature); ok && sig.Recv() != nil && recvNamed(sig.Recv().Type()) == r.lexerT && fn != r.newToken {
								// a sub-scanner consumes an unknown number of runes: forget what we
								// know about positions at and beyond the cursor
								st.events = append(st.events, lexEvent{kind: "call", off: st.off, what: fn.Name(), pos: x.Pos()})
								st.off += 1000
							}
						}
						return
					}
					ast.Inspect(n, func(m ast.Node) bool {
						if m == n || m == nil {
							return true
						}
						switch m.(type) {
						case *ast.FuncLit, *ast.StarExpr, *ast.CallExpr:
							visit(m)
							return false
						}
						return true
					})
				}
				visit(s)
				// appends to an accumulator: value += string(ch) / buf = append(buf, ch)
				if as, ok := s.(*ast.AssignStmt); ok && len(as.Lhs) == 1 && len(as.Rhs) == 1 {
					if as.Tok == token.ADD_ASSIGN {
						v := ev.eval(st, as.Rhs[0])
						if v.k == lvStrOfChar || v.k == lvChar {
							st.events = append(st.events, lexEvent{kind: "append", off: v.off, pos: as.Pos()})
						}
					} else if call, ok := ast.Unparen(as.Rhs[0]).(*ast.CallExpr); ok {
						if id, ok := call.Fun.(*ast.Ident); ok && id.Name == "append" && len(call.Args) == 2 {
							v := ev.eval(st, call.Args[1])
							if v.k == lvChar || v.k == lvStrOfChar {
								st.events = append(st.events, lexEvent{kind: "append", off: v.off, pos: as.Pos()})
							}
						}
					}
					// plain local bindings
					if id, ok := as.Lhs[0].(*ast.Ident); ok && as.Tok != token.ADD_ASSIGN {
						obj := info.Defs[id]
						if obj == nil {
							obj = info.Uses[id]
						}
						if obj != nil {
							st.env[obj] = ev.eval(st, as.Rhs[0])
						}
					}
				}
				return st, true
			},
		}
	}
	w = mk()
	w.Exit = func(st *lexState, o outcome) {}
	w.Run(fd.Body, init)
	res.paths, res.overflow, res.unsupported = w.Paths, w.Overflow, w.Unsupported
	// ---- pass B: per-loop iteration analysis (body walked once from a havoc state
	// that keeps only "cursor is not at end of input" when the loop condition says so)
	idx := 0
	ast.Inspect(fd.Body, func(n ast.Node) bool {
		fs, ok := n.(*ast.ForStmt)
		if !ok {
			return true
		}
		idx++
		lr := &scanLoop{index: idx, pos: fs.Pos()}
		advances := false
		ast.Inspect(fs.Body, func(m ast.Node) bool {
			if call, ok := m.(*ast.CallExpr); ok {
				if fn := CalleeOf(info, call); fn == r.advance {
					advances = true
				}
			}
			return true
		})
		if !advances {
			return true
		}
		res.loops = append(res.loops, lr)
		type iterPath struct {
			st    *lexState
			exits bool
		}
		var paths []iterPath
		lw := mk()
		lw.LoopUnroll = 1
		// wrap: treat the loop as `if cond { body; CONTINUE } else { EXIT }` by walking a
		// synthetic single iteration: evaluate cond true → body; cond false → exit.
		start := &lexState{env: map[types.Object]lv{}}
		collect := func(st *lexState, exits bool) { paths = append(paths, iterPath{st, exits}) }
		runBody := func(st *lexState) {
			lw.stmts(fs.Body.List, st, func(s2 *lexState, o outcome) {
				switch o.kind {
				case cNormal, cContinue:
					collect(s2, false)
				default:
					collect(s2, true)
				}
			})
		}
		if fs.Cond != nil {
			lw.cond(fs.Cond, cloneLex(start), false, func(s1 *lexState) { collect(s1, true) })
			lw.cond(fs.Cond, start, true, runBody)
		} else {
			runBody(start)
		}
		// exit conditions: positive rune facts of exiting paths that advanced at most the
		// terminator itself; keep only constant facts
		type term struct{ facts []charFact }
		var terms []term
		for _, p := range paths {
			if !p.exits {
				continue
			}
			var t term
			for _, f := range p.st.facts {
				if f.kind == fEq || f.kind == fIn {
					t.facts = append(t.facts, f)
				}
			}
			if len(t.facts) > 0 {
				terms = append(terms, t)
				lr.terms = append(lr.terms, (&lexState{facts: t.facts}).factString())
			}
		}
		sort.Strings(lr.terms)
		for _, p := range paths {
			if p.exits {
				continue
			}
			lr.conts++
			// positions advanced over directly
			var adv []int
			hasCall := false
			for _, e := range p.st.events {
				if e.kind == "advance" {
					adv = append(adv, e.off)
				}
				if e.kind == "call" {
					hasCall = true
				}
			}
			if hasCall {
				continue // positions consumed by a sub-scanner are that scanner's obligation
			}
			for _, j := range adv {
				if j == 0 {
					continue // the loop head position: its terminator was tested by this very iteration
				}
				for _, t := range terms {
					// shift terminator by j and try to refute with the path facts
					refuted := false
					probe := cloneLex(p.st)
					for _, f := range t.facts {
						f.off += j
						if !probe.add(f) {
							refuted = true
							break
						}
					}
					if !refuted {
						lr.skips = append(lr.skips, fmt.Sprintf("an iteration [%s] advances over cursor+%d without testing the exit condition [%s] there: a terminator starting at that position is stepped over", p.st.factString(), j, (&lexState{facts: t.facts}).factString()))
					}
				}
			}
			// append/advance pairing
			var apps []int
			for _, e := range p.st.events {
				if e.kind == "append" {
					apps = append(apps, e.off)
				}
			}
			if len(apps) > 0 {
				lr.accum = true
				if len(apps) != len(adv) {
					lr.pairFail = append(lr.pairFail, fmt.Sprintf("an iteration appends %d rune(s) but advances %d time(s) [%s]", len(apps), len(adv), p.st.factString()))
				} else {
					for i := range apps {
						if apps[i] != adv[i] {
							lr.pairFail = append(lr.pairFail, fmt.Sprintf("an iteration appends the rune at cursor+%d but advances past cursor+%d", apps[i], adv[i]))
						}
					}
				}
			}
		}
		return true
	})
	return res
}

func positiveFacts(fs []charFact) string {
	var b []string
	for _, f := range fs {
		switch f.kind {
		case fEq:
			b = append(b, fmt.Sprintf("ch[%d]==%q", f.off, f.r))
		case fIn:
			b = append(b, fmt.Sprintf("ch[%d] in %s", f.off, f.name))
		case fNil:
			b = append(b, fmt.Sprintf("ch[%d]=EOF", f.off))
		}
	}
	return strings.Join(b, ",")
}
