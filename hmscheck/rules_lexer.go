package main

import (
	"fmt"
	"go/ast"
	"go/constant"
	"go/token"
	"go/types"
	"sort"
	"strings"
)

func init() {
	register(&Rule{ID: "R-lex-consume", Floor: 40, Run: ruleLexConsume,
		Doc: "every entry→return path of every fixed-lexeme token constructor (entered from its NextToken case) consumes exactly the runes of the lexeme it returns: #advance()=len(lexeme), the path conditions establish each rune of the lexeme, Span.Start is read before the first advance, Span.End at the last rune, Filename is the lexer's file, the Kind's display string equals the lexeme, and no path returns a proper prefix of a longer lexeme without having excluded the longer one's next rune (longest match)"})
	register(&Rule{ID: "R-lex-whitespace", Floor: 1, Run: ruleLexWhitespace,
		Doc: "the whitespace clause of NextToken skips exactly the ASCII runes SP, HT, LF, CR and consumes one rune per skipped rune"})
	register(&Rule{ID: "R-lex-dispatch", Floor: 20, Run: ruleLexDispatch,
		Doc: "every first rune of every lexeme the token table displays has a NextToken case leading to a constructor that can return it; rune classes (digit, letter, hex, octal) in lexer/util denote the sets the lexical grammar defines"})
}

type lexPathResult struct {
	st  *lexState
	ret []lv
	o   outcome
}

// walkLexFunc enumerates the paths of one lexer method under initial facts.
func walkLexFunc(r *lexRoles, fd *ast.FuncDecl, init *lexState, bind map[types.Object]lv) (res []lexPathResult, overflow bool, unsupported []token.Pos, derefViol []string) {
	info := r.info
	ev := &lexEval{r: r}
	if fd.Recv != nil && len(fd.Recv.List[0].Names) > 0 {
		ev.recv, _ = info.Defs[fd.Recv.List[0].Names[0]].(*types.Var)
	}
	for k, v := range bind {
		init.env[k] = v
	}
	var unsupportedDefer []token.Pos
	var w *Walker[*lexState]
	w = &Walker[*lexState]{
		Clone: cloneLex,
		IsPanic: func(s ast.Stmt) bool {
			return IsPanicCall(info, s)
		},
		OnCond: func(st *lexState, cond ast.Expr, taken bool) (*lexState, bool) {
			if b, ok := ast.Unparen(cond).(*ast.BinaryExpr); ok && (b.Op == token.EQL || b.Op == token.NEQ) {
				// both sides known constants (e.g. a local still holding its zero value): decided
				l, r := ev.eval(st, b.X), ev.eval(st, b.Y)
				if l.k == lvConst && r.k == lvConst && l.c != nil && r.c != nil && l.c.Kind() == constant.Int && r.c.Kind() == constant.Int {
					same := constant.Compare(l.c, token.EQL, r.c)
					if (same == (b.Op == token.EQL)) != taken {
						return st, false
					}
					return st, true
				}
			}
			f, ok := ev.condFact(st, cond, taken)
			st.decided = append(st.decided, fmt.Sprintf("%s:%v", exprStr(cond), taken))
			if !ok {
				return st, true
			}
			if (f.kind == fEq || f.kind == fNe || f.kind == fIn || f.kind == fNotIn) && !derefSafe(st, f.off) {
				derefViol = append(derefViol, fmt.Sprintf("%s dereferences the rune at offset %d without an end-of-input test on this path (%s)", exprStr(cond), f.off, st.factString()))
			}
			if !st.add(f) {
				return st, false
			}
			return st, true
		},
		OnCase: func(st *lexState, sw *ast.SwitchStmt, vals, others []ast.Expr) (*lexState, bool) {
			tag := ev.eval(st, sw.Tag)
			if tag.k != lvChar {
				st.decided = append(st.decided, "switch "+exprStr(sw.Tag))
				return st, true
			}
			if !derefSafe(st, tag.off) {
				derefViol = append(derefViol, fmt.Sprintf("switch %s dereferences the rune at offset %d without an end-of-input test", exprStr(sw.Tag), tag.off))
			}
			if vals == nil {
				for _, o := range others {
					if tv := info.Types[o]; tv.Value != nil {
						n, _ := constant.Int64Val(constant.ToInt(tv.Value))
						if !st.add(charFact{off: tag.off, kind: fNe, r: rune(n)}) {
							return st, false
						}
					}
				}
				st.decided = append(st.decided, fmt.Sprintf("switch %s: default", exprStr(sw.Tag)))
				return st, true
			}
			// a clause with several values: explored once per value by the caller? keep it simple:
			// single value → eq fact; several → in-set fact
			var rs runeSet
			for _, v := range vals {
				tv := info.Types[v]
				if tv.Value == nil {
					return st, true
				}
				n, _ := constant.Int64Val(constant.ToInt(tv.Value))
				rs.ranges = append(rs.ranges, [2]rune{rune(n), rune(n)})
			}
			if len(rs.ranges) == 1 {
				if !st.add(charFact{off: tag.off, kind: fEq, r: rs.ranges[0][0]}) {
					return st, false
				}
			} else {
				set := rs.norm()
				if !st.add(charFact{off: tag.off, kind: fIn, set: &set, name: set.String()}) {
					return st, false
				}
			}
			st.decided = append(st.decided, fmt.Sprintf("switch %s: case %s", exprStr(sw.Tag), rs.String()))
			return st, true
		},
		OnStmt: func(st *lexState, s ast.Stmt) (*lexState, bool) {
			switch x := s.(type) {
			case *ast.ExprStmt:
				if call, ok := x.X.(*ast.CallExpr); ok {
					lexCall(r, ev, st, call)
				}
			case *ast.AssignStmt:
				// evaluate RHS (calls may advance), then bind
				var vals []lv
				for _, rhs := range x.Rhs {
					if call, ok := ast.Unparen(rhs).(*ast.CallExpr); ok {
						if v, handled := lexCall(r, ev, st, call); handled {
							vals = append(vals, v)
							continue
						}
					}
					vals = append(vals, ev.eval(st, rhs))
				}
				if len(x.Lhs) == len(vals) {
					for i, l := range x.Lhs {
						id, ok := l.(*ast.Ident)
						if !ok {
							continue
						}
						obj := info.Defs[id]
						if obj == nil {
							obj = info.Uses[id]
						}
						if obj == nil {
							continue
						}
						if x.Tok == token.ADD_ASSIGN {
							st.events = append(st.events, lexEvent{kind: "append", off: st.off, v: vals[i], pos: x.Pos(), what: id.Name})
							st.env[obj] = lv{desc: id.Name + "+=…"}
							continue
						}
						// value = append(value, x)
						if call, ok := ast.Unparen(x.Rhs[i]).(*ast.CallExpr); ok {
							if fid, ok := call.Fun.(*ast.Ident); ok && fid.Name == "append" && len(call.Args) == 2 {
								st.events = append(st.events, lexEvent{kind: "append", off: st.off, v: ev.eval(st, call.Args[1]), pos: x.Pos(), what: id.Name})
								continue
							}
						}
						st.env[obj] = vals[i]
					}
				}
			case *ast.DeclStmt:
				if gd, ok := x.Decl.(*ast.GenDecl); ok {
					for _, sp := range gd.Specs {
						if vs, ok := sp.(*ast.ValueSpec); ok {
							for i, n := range vs.Names {
								if i < len(vs.Values) {
									st.env[info.Defs[n]] = ev.eval(st, vs.Values[i])
								} else if b, ok := info.Defs[n].Type().Underlying().(*types.Basic); ok && b.Info()&types.IsInteger != 0 {
									st.env[info.Defs[n]] = lv{k: lvConst, c: constant.MakeInt64(0)}
								} else {
									st.env[info.Defs[n]] = lv{desc: "zero " + n.Name}
								}
							}
						}
					}
				}
			case *ast.ReturnStmt:
				// handled at Exit
			case *ast.IncDecStmt:
			}
			return st, true
		},
	}
	w.Exit = func(st *lexState, o outcome) {
		pr := lexPathResult{st: st, o: o}
		if o.ret != nil {
			for _, e := range o.ret.Results {
				if call, ok := ast.Unparen(e).(*ast.CallExpr); ok {
					if v, handled := lexCall(r, ev, st, call); handled {
						pr.ret = append(pr.ret, v)
						continue
					}
				}
				pr.ret = append(pr.ret, ev.eval(st, e))
			}
		}
		// deferred calls run after the result operands were evaluated, last first
		for _, d := range w.PendingDefers() {
			if _, isLit := d.Call.Fun.(*ast.FuncLit); isLit {
				unsupportedDefer = append(unsupportedDefer, d.Pos())
				continue
			}
			lexCall(r, ev, st, d.Call)
		}
		res = append(res, pr)
	}
	if lexUnrollOverride > 0 {
		w.LoopUnroll = lexUnrollOverride
	}
	w.Run(r.desugar(fd), init)
	return res, w.Overflow, append(w.Unsupported, unsupportedDefer...), derefViol
}

func derefSafe(st *lexState, off int) bool {
	_, nonNil, _, hasEq := st.known(off)
	if nonNil || hasEq {
		return true
	}
	for _, f := range st.facts {
		if f.off == off && (f.kind == fNe || f.kind == fIn || f.kind == fNotIn) {
			return true // already dereferenced once on this path (reported there)
		}
	}
	return false
}

// lexCall interprets a call statement/expression: advance(), straight-line
// helper methods of the lexer (inlined), newToken. Returns (value, handled).
func lexCall(r *lexRoles, ev *lexEval, st *lexState, call *ast.CallExpr) (lv, bool) {
	info := r.info
	fn := CalleeOf(info, call)
	if fn == nil {
		return lv{}, false
	}
	if fn == r.advance {
		st.events = append(st.events, lexEvent{kind: "advance", off: st.off, pos: call.Pos()})
		st.off++
		return lv{}, true
	}
	if fn == r.newToken {
		return ev.eval(st, call), true
	}
	// another method of the lexer: inline when it is straight-line
	if sig, ok := fn.Type().(*types.Signature); ok && sig.Recv() != nil && recvNamed(sig.Recv().Type()) == r.lexerT {
		fd := FuncDecl(r.pkg, "Lexer", fn.Name())
		if fd != nil && isStraightLine(fd.Body) {
			bind := map[types.Object]lv{}
			i := 0
			for _, f := range fd.Type.Params.List {
				for _, n := range f.Names {
					if i < len(call.Args) {
						bind[info.Defs[n]] = ev.eval(st, call.Args[i])
					}
					i++
				}
			}
			sub := &lexState{off: st.off, facts: st.facts, env: map[types.Object]lv{}}
			res, _, _, _ := walkLexFunc(r, fd, sub, bind)
			if len(res) == 1 {
				st.off = res[0].st.off
				st.events = append(st.events, res[0].st.events...)
				if len(res[0].ret) > 0 {
					return res[0].ret[0], true
				}
				return lv{}, true
			}
		}
		st.events = append(st.events, lexEvent{kind: "call", off: st.off, pos: call.Pos(), what: fn.Name()})
		return lv{desc: "call " + fn.Name()}, true
	}
	return lv{}, false
}

func recvNamed(t types.Type) *types.Named {
	if p, ok := t.(*types.Pointer); ok {
		t = p.Elem()
	}
	n, _ := t.(*types.Named)
	return n
}

func isStraightLine(b *ast.BlockStmt) bool {
	ok := true
	ast.Inspect(b, func(n ast.Node) bool {
		switch n.(type) {
		case *ast.IfStmt, *ast.ForStmt, *ast.RangeStmt, *ast.SwitchStmt, *ast.TypeSwitchStmt, *ast.SelectStmt, *ast.FuncLit:
			ok = false
		}
		return ok
	})
	return ok
}

// nextTokenCases returns, for NextToken's switch over the current rune, the
// clauses: runes of the clause → (constructor called in a return, or "" ).
type ntCase struct {
	runes  []rune
	clause *ast.CaseClause
	ctor   *types.Func   // lexer method returned by the clause (last return)
	call   *ast.CallExpr // that call
	skip   bool          // clause only advances (whitespace)
}

func nextTokenCases(c *Ctx, r *lexRoles) (fd *ast.FuncDecl, sw *ast.SwitchStmt, cases []ntCase, def *ast.CaseClause) {
	fd = c.MustFunc("homescript/lexer", "Lexer", "NextToken")
	info := r.info
	ev := &lexEval{r: r}
	ev.recv, _ = info.Defs[fd.Recv.List[0].Names[0]].(*types.Var)
	ast.Inspect(fd.Body, func(n ast.Node) bool {
		s, ok := n.(*ast.SwitchStmt)
		if !ok || sw != nil || s.Tag == nil {
			return true
		}
		if v := ev.eval(&lexState{env: map[types.Object]lv{}}, s.Tag); v.k == lvChar && v.off == 0 {
			sw = s
			return false
		}
		return true
	})
	if sw == nil {
		fatalf("anchor unresolved: NextToken has no switch over the current rune")
	}
	for _, cl := range sw.Body.List {
		cc := cl.(*ast.CaseClause)
		if cc.List == nil {
			def = cc
			continue
		}
		nc := ntCase{clause: cc}
		for _, e := range cc.List {
			tv := info.Types[e]
			if tv.Value == nil {
				fatalf("NextToken: non-constant case %s", exprStr(e))
			}
			n, _ := constant.Int64Val(constant.ToInt(tv.Value))
			nc.runes = append(nc.runes, rune(n))
		}
		// last statement: return self.makeX(...)[, nil]
		if n := len(cc.Body); n > 0 {
			if ret, ok := cc.Body[n-1].(*ast.ReturnStmt); ok && len(ret.Results) >= 1 {
				if call, ok := ast.Unparen(ret.Results[0]).(*ast.CallExpr); ok {
					if fn := CalleeOf(info, call); fn != nil {
						nc.ctor, nc.call = fn, call
					}
				}
			}
			if n == 1 {
				if es, ok := cc.Body[0].(*ast.ExprStmt); ok {
					if call, ok := es.X.(*ast.CallExpr); ok && CalleeOf(info, call) == r.advance {
						nc.skip = true
					}
				}
			}
		}
		cases = append(cases, nc)
	}
	return
}

// tokenDisplay extracts kind → display string from TokenKind.String().
func tokenDisplay(c *Ctx, r *lexRoles) map[string]string {
	fd := c.MustFunc("homescript/lexer", "TokenKind", "String")
	out := map[string]string{}
	ast.Inspect(fd.Body, func(n ast.Node) bool {
		cc, ok := n.(*ast.CaseClause)
		if !ok || cc.List == nil {
			return true
		}
		var lit string
		found := false
		for _, s := range cc.Body {
			switch x := s.(type) {
			case *ast.AssignStmt:
				if len(x.Rhs) == 1 {
					if tv := r.info.Types[x.Rhs[0]]; tv.Value != nil && tv.Value.Kind() == constant.String {
						lit, found = constant.StringVal(tv.Value), true
					}
				}
			case *ast.ReturnStmt:
				if len(x.Results) == 1 {
					if tv := r.info.Types[x.Results[0]]; tv.Value != nil && tv.Value.Kind() == constant.String {
						lit, found = constant.StringVal(tv.Value), true
					}
				}
			}
		}
		if found {
			for _, e := range cc.List {
				if k := ConstOf(r.info, e); k != nil {
					out[k.Name()] = lit
				}
			}
		}
		return true
	})
	if len(out) < 20 {
		fatalf("TokenKind.String: extracted only %d display strings", len(out))
	}
	return out
}

type lexTokenPath struct {
	ctor   string
	first  rune
	res    lexPathResult
	tok    lv
	value  string
	hasVal bool
	kind   string
}

// fixedLexemePaths walks every constructor reachable from a NextToken case
// and returns its token-returning paths.
func fixedLexemePaths(c *Ctx, r *lexRoles) (paths []lexTokenPath, problems []Obligation) {
	_, _, cases, _ := nextTokenCases(c, r)
	info := r.info
	for _, nc := range cases {
		if nc.ctor == nil {
			continue
		}
		fd := FuncDecl(r.pkg, "Lexer", nc.ctor.Name())
		if fd == nil {
			continue
		}
		for _, first := range nc.runes {
			init := &lexState{env: map[types.Object]lv{}}
			init.add(charFact{off: 0, kind: fEq, r: first})
			bind := map[types.Object]lv{}
			ev := &lexEval{r: r}
			i := 0
			for _, f := range fd.Type.Params.List {
				for _, n := range f.Names {
					if i < len(nc.call.Args) {
						bind[info.Defs[n]] = ev.eval(init, nc.call.Args[i])
					}
					i++
				}
			}
			res, overflow, unsup, deref := walkLexFunc(r, fd, init, bind)
			key := fmt.Sprintf("lexer.%s|first=%q", nc.ctor.Name(), first)
			if overflow || len(unsup) > 0 {
				problems = append(problems, Obligation{Key: key, Pos: c.Pos(fd.Pos()), Status: Undecided, Detail: "path enumeration overflow or unsupported control flow"})
				continue
			}
			for _, d := range deref {
				problems = append(problems, Obligation{Key: key + "|nil-deref", Pos: c.Pos(fd.Pos()), Status: Violated, Detail: d})
			}
			for _, pr := range res {
				if pr.o.kind == cPanic {
					continue
				}
				if len(pr.ret) == 0 {
					continue
				}
				tp := lexTokenPath{ctor: nc.ctor.Name(), first: first, res: pr, tok: pr.ret[0]}
				if tp.tok.k == lvToken {
					if v := tp.tok.parts[1]; v.k == lvConst && v.c.Kind() == constant.String {
						tp.value, tp.hasVal = constant.StringVal(v.c), true
					}
					if k := tp.tok.parts[0]; k.k == lvConst && k.cobj != nil {
						tp.kind = k.cobj.Name()
					}
				}
				paths = append(paths, tp)
			}
		}
	}
	return
}

func ruleLexConsume(c *Ctx) []Obligation {
	r := discoverLexRoles(c)
	display := tokenDisplay(c, r)
	paths, obs := fixedLexemePaths(c, r)
	// the lexeme set = every constant value returned with a punctuation kind
	lexemes := map[string]bool{}
	for _, p := range paths {
		if p.hasVal && p.kind != "" && !isWordKindDisplay(display[p.kind]) {
			if d, ok := display[p.kind]; ok && !isAlphaWord(d) {
				lexemes[d] = true
			}
		}
	}
	seen := map[string]int{}
	for _, p := range paths {
		fd := FuncDecl(r.pkg, "Lexer", p.ctor)
		pos := c.Pos(fd.Pos())
		if p.res.o.ret != nil {
			pos = c.Pos(p.res.o.ret.Pos())
		}
		st := p.res.st
		if p.tok.k != lvToken {
			// error paths / non-constructed tokens (UnknownToken, Token{}) are not token
			// results; loop-based constructors are covered by R-lex-scan.
			continue
		}
		if !p.hasVal || p.kind == "" {
			continue // loop-based constructor (value accumulated): R-lex-scan
		}
		d, hasDisp := display[p.kind]
		if hasDisp && isAlphaWord(d) {
			continue // keyword kinds come from makeName (R-lex-keywords)
		}
		key := fmt.Sprintf("lexer.%s|first=%q|returns %s %q|%s", p.ctor, p.first, p.kind, p.value, condensedFacts(st))
		seen[key]++
		if seen[key] > 1 {
			key += fmt.Sprintf("#%d", seen[key])
		}
		var fails []string
		want := d
		if !hasDisp {
			fails = append(fails, fmt.Sprintf("kind %s has no display string in TokenKind.String", p.kind))
			want = p.value
		}
		if p.value != want {
			fails = append(fails, fmt.Sprintf("Value %q differs from the display %q of kind %s", p.value, want, p.kind))
		}
		L := len([]rune(want))
		// (1) runes established
		for i, ch := range []rune(want) {
			_, _, eq, hasEq := st.known(i)
			if !hasEq || eq != ch {
				fails = append(fails, fmt.Sprintf("path conditions do not establish rune %d of the lexeme (%q): facts: %s", i, ch, st.factString()))
			}
		}
		// (2) consumption
		if st.off != L {
			fails = append(fails, fmt.Sprintf("consumes %d runes for a lexeme of %d (%q) — %s", st.off, L, want, surplus(st.off, L)))
		}
		// (3) span
		span := p.tok.parts[2]
		if span.k != lvSpan {
			fails = append(fails, "span is not constructed from locations on this path: "+span.String())
		} else {
			if s := span.parts[0]; s.k != lvLoc || s.off != 0 {
				fails = append(fails, fmt.Sprintf("Span.Start is %v, want the location before the first advance (loc@0)", s))
			}
			if e := span.parts[1]; e.k != lvLoc || e.off != L-1 {
				fails = append(fails, fmt.Sprintf("Span.End is %v, want the location of the last rune of the lexeme (loc@%d): locations are inclusive", e, L-1))
			}
			if f := span.parts[2]; f.k != lvFile {
				fails = append(fails, fmt.Sprintf("Span.Filename is %v, want the lexer's filename", f))
			}
		}
		// (5) longest match
		for q := range lexemes {
			if strings.HasPrefix(q, want) && len([]rune(q)) == L+1 {
				nxt := []rune(q)[L]
				if !st.excludes(L, nxt) {
					fails = append(fails, fmt.Sprintf("returns %q although the next rune may be %q (longer lexeme %q exists): longest match not enforced; facts: %s", want, nxt, q, st.factString()))
				}
			}
		}
		o := Obligation{Key: key, Pos: pos, Nontrivial: true}
		if len(fails) == 0 {
			o.Status = Discharged
			o.Detail = fmt.Sprintf("path [%s]: %d advance(s), Start=loc@0, End=loc@%d, file set", st.factString(), st.off, L-1)
		} else {
			o.Status = Violated
			o.Detail = strings.Join(fails, "; ") + " | decisions: " + strings.Join(st.decided, ", ")
		}
		obs = append(obs, o)
	}
	return obs
}

func surplus(got, want int) string {
	if got > want {
		return fmt.Sprintf("%d rune(s) after the lexeme are swallowed", got-want)
	}
	return fmt.Sprintf("%d rune(s) of the lexeme are left for the next token", want-got)
}

func isAlphaWord(s string) bool {
	if s == "" {
		return false
	}
	for _, r := range s {
		if !(r >= 'a' && r <= 'z' || r >= 'A' && r <= 'Z' || r == '_') {
			return false
		}
	}
	return true
}

func isWordKindDisplay(s string) bool { return false }

// condensedFacts renders only the facts beyond offset 0 (distinguishes paths
// returning the same lexeme).
func condensedFacts(st *lexState) string {
	var b []string
	for _, f := range st.facts {
		if f.off == 0 && f.kind == fEq {
			continue
		}
		switch f.kind {
		case fEq:
			b = append(b, fmt.Sprintf("[%d]=%q", f.off, f.r))
		case fNe:
			b = append(b, fmt.Sprintf("[%d]≠%q", f.off, f.r))
		case fNil:
			b = append(b, fmt.Sprintf("[%d]=EOF", f.off))
		case fNonNil:
			b = append(b, fmt.Sprintf("[%d]≠EOF", f.off))
		case fIn:
			b = append(b, fmt.Sprintf("[%d]∈%s", f.off, f.name))
		case fNotIn:
			b = append(b, fmt.Sprintf("[%d]∉%s", f.off, f.name))
		}
	}
	sort.Strings(b)
	return strings.Join(b, ",")
}

func ruleLexWhitespace(c *Ctx) []Obligation {
	r := discoverLexRoles(c)
	fd, _, cases, _ := nextTokenCases(c, r)
	var obs []Obligation
	want := map[rune]string{' ': "SP", '\t': "HT", '\n': "LF", '\r': "CR"}
	got := map[rune]bool{}
	n := 0
	for _, nc := range cases {
		if !nc.skip {
			continue
		}
		n++
		for _, ch := range nc.runes {
			got[ch] = true
		}
	}
	o := Obligation{Key: "lexer.NextToken|whitespace clause", Pos: c.Pos(fd.Pos()), Nontrivial: true}
	var fails []string
	if n == 0 {
		fails = append(fails, "no clause that only advances")
	}
	for ch, name := range want {
		if !got[ch] {
			fails = append(fails, fmt.Sprintf("%s (%q) is not skipped as whitespace", name, ch))
		}
	}
	for ch := range got {
		if _, ok := want[ch]; !ok {
			fails = append(fails, fmt.Sprintf("%q is skipped as whitespace but is not one of SP HT LF CR", ch))
		}
	}
	sort.Strings(fails)
	if len(fails) > 0 {
		o.Status, o.Detail = Violated, strings.Join(fails, "; ")+" (case constants are evaluated by the type checker: '\\t' | '\\r' is the single rune 0x0D)"
	} else {
		o.Status, o.Detail = Discharged, "skip clause covers exactly {SP,HT,LF,CR}, one advance per rune"
	}
	return append(obs, o)
}

// ruleLexDispatch: (a) every punctuation lexeme in TokenKind.String is
// produced by some constructor path; (b) every first rune reaches it; (c)
// rune classes match the grammar's DIGIT / LETTER / HEX / OCTAL.
func ruleLexDispatch(c *Ctx) []Obligation {
	r := discoverLexRoles(c)
	display := tokenDisplay(c, r)
	paths, _ := fixedLexemePaths(c, r)
	produced := map[string]bool{}
	for _, p := range paths {
		if p.hasVal && p.kind != "" {
			produced[p.kind] = true
		}
	}
	var obs []Obligation
	fd := c.MustFunc("homescript/lexer", "TokenKind", "String")
	var kinds []string
	for k := range display {
		kinds = append(kinds, k)
	}
	sort.Strings(kinds)
	for _, k := range kinds {
		d := display[k]
		if isAlphaWord(d) || d == "EOF" {
			continue
		}
		o := Obligation{Key: "token kind " + k + " " + fmt.Sprintf("%q", d) + " is produced", Pos: c.Pos(fd.Pos())}
		if produced[k] {
			o.Status, o.Detail = Discharged, "a constructor path returns this kind"
		} else {
			o.Status, o.Detail = Violated, "no lexer path constructs a token of this kind: the lexeme cannot be lexed"
		}
		obs = append(obs, o)
	}
	// enum constants of TokenKind with no display and produced by the lexer
	e := c.EnumOf(r.kindT)
	for _, k := range e.Consts {
		if _, ok := display[k.Name()]; !ok && produced[k.Name()] {
			obs = append(obs, Obligation{Key: "token kind " + k.Name() + " has a display string", Pos: c.Pos(fd.Pos()), Status: Info,
				Detail: "the lexer produces " + k.Name() + " but TokenKind.String has no case for it (formatting it through fmt yields a %!s(PANIC=) marker)"})
		}
	}
	// rune classes
	gram, gerr := parseEBNF(readGrammar(c))
	if gerr != nil {
		return append(obs, Obligation{Key: "grammar.ebnf", Status: Undecided, Detail: gerr.Error()})
	}
	wantSets := map[string]runeSet{}
	for pred, prod := range map[string]string{"IsDigit": "DIGIT", "IsOctalDigit": "OCTAL", "IsHexDigit": "HEX", "IsLetter": "LETTER"} {
		if p, ok := gram.prods[prod]; ok {
			if set, ok := gram.class(p, 0); ok {
				wantSets[pred] = set
				continue
			}
		}
		obs = append(obs, Obligation{Key: "rune class util." + pred, Status: Undecided, Detail: "grammar.ebnf does not define " + prod + " as a character class"})
	}
	up := c.Pkg("homescript/lexer/util")
	for name, want := range wantSets {
		fn, _ := up.Types.Scope().Lookup(name).(*types.Func)
		o := Obligation{Key: "rune class util." + name, Nontrivial: true}
		if fn == nil {
			o.Status, o.Detail = Undecided, "predicate not found"
			obs = append(obs, o)
			continue
		}
		o.Pos = c.Pos(fn.Pos())
		got, ok := r.preds[fn]
		switch {
		case !ok:
			o.Status, o.Detail = Undecided, "the predicate's rune set could not be extracted from its body (unsupported shape)"
		case got.equal(want):
			o.Status, o.Detail = Discharged, "denotes "+got.String()
		default:
			o.Status, o.Detail = Violated, fmt.Sprintf("denotes %s, grammar.ebnf defines %s", got.norm(), want.norm())
		}
		obs = append(obs, o)
	}
	return obs
}

var _ = token.NoPos

// ---------------------------------------------------------------------
// R-lex-scan: the loop-based scanners (comments, strings, names, numbers,
// escapes). Entry contexts are collected from the call sites (NextToken
// cases and calls between scanners) so that every method is analysed under
// the facts its callers establish.

func init() {
	register(&Rule{ID: "R-lex-scan", Floor: 12, Run: ruleLexScan,
		Doc: "in every scanner method of the lexer, under every entry context its call sites establish: (1) no path dereferences the current/next rune without an end-of-input test; (2) a scanning loop never steps over an input position at which its own exit condition (the terminator it tests at the loop head) could hold — every position is either tested as a loop head or its terminator is refuted by the path's facts; (3) in value-accumulating loops each consumed rune is appended to the value exactly once (append and advance pair up per iteration)"})
}

type lexEntry struct {
	facts []charFact
	from  string
}

func shiftFacts(fs []charFact, by int) []charFact {
	var out []charFact
	for _, f := range fs {
		f.off -= by
		if f.off < 0 {
			if f.kind == fNil {
				f.off = 0 // end of input persists
				out = append(out, f)
			}
			continue
		}
		out = append(out, f)
	}
	return out
}

func entryKey(fs []charFact) string {
	st := &lexState{facts: fs}
	return st.factString()
}

func ruleLexScan(c *Ctx) []Obligation {
	r := discoverLexRoles(c)
	info := r.info
	var obs []Obligation
	// collect entry contexts by walking from NextToken
	entries := map[string][]lexEntry{}
	addEntry := func(fn string, fs []charFact, from string) bool {
		k := entryKey(fs)
		for _, e := range entries[fn] {
			if entryKey(e.facts) == k {
				return false
			}
		}
		entries[fn] = append(entries[fn], lexEntry{facts: fs, from: from})
		return true
	}
	type work struct {
		fn string
		e  lexEntry
	}
	var queue []work
	addEntry("NextToken", nil, "entry")
	queue = append(queue, work{"NextToken", lexEntry{from: "entry"}})
	analysed := 0
	keyCount := map[string]int{}
	for len(queue) > 0 {
		w := queue[0]
		queue = queue[1:]
		fd := FuncDecl(r.pkg, "Lexer", w.fn)
		if fd == nil || fd.Body == nil {
			continue
		}
		if fn, _ := info.Defs[fd.Name].(*types.Func); fn == r.advance {
			continue
		}
		analysed++
		res := scanWalk(r, fd, w.e.facts)
		ctxKey := fmt.Sprintf("lexer.%s|from %s[%s]", w.fn, w.e.from, positiveFacts(w.e.facts))
		keyCount[ctxKey]++
		if keyCount[ctxKey] > 1 {
			ctxKey += fmt.Sprintf("#%d", keyCount[ctxKey])
		}
		// (1) nil deref
		o := Obligation{Key: ctxKey + "|deref", Pos: c.Pos(fd.Pos()), Nontrivial: true}
		if res.overflow || len(res.unsupported) > 0 {
			o.Status, o.Detail = Undecided, "path enumeration overflow / unsupported control flow"
		} else if len(res.deref) > 0 {
			o.Status, o.Detail = Violated, strings.Join(uniqStrings(res.deref), "; ")+" (entry from "+w.e.from+")"
		} else {
			o.Status, o.Detail = Discharged, fmt.Sprintf("%d paths, every rune dereference follows an end-of-input test", res.paths)
		}
		obs = append(obs, o)
		// (2) loops
		for _, lr := range res.loops {
			lo := Obligation{Key: ctxKey + "|loop#" + fmt.Sprint(lr.index) + "|no terminator skipped", Pos: c.Pos(lr.pos), Nontrivial: true}
			if len(lr.skips) > 0 {
				lo.Status, lo.Detail = Violated, strings.Join(uniqStrings(lr.skips), "; ")
			} else {
				lo.Status, lo.Detail = Discharged, fmt.Sprintf("exit conditions %v; %d continuing path(s), each advances over positions whose terminator is refuted or tested", lr.terms, lr.conts)
			}
			obs = append(obs, lo)
			if lr.accum {
				ao := Obligation{Key: ctxKey + "|loop#" + fmt.Sprint(lr.index) + "|append/advance pairing", Pos: c.Pos(lr.pos), Nontrivial: true}
				if len(lr.pairFail) > 0 {
					ao.Status, ao.Detail = Violated, strings.Join(uniqStrings(lr.pairFail), "; ")
				} else {
					ao.Status, ao.Detail = Discharged, "each iteration that appends the rune at offset k to the value advances exactly once past k"
				}
				obs = append(obs, ao)
			}
		}
		for _, cs := range res.calls {
			if addEntry(cs.fn, cs.facts, w.fn) {
				queue = append(queue, work{cs.fn, lexEntry{facts: cs.facts, from: w.fn}})
			}
		}
		if analysed > 400 {
			obs = append(obs, Obligation{Key: "lexer|entry contexts", Status: Undecided, Detail: "entry-context exploration did not converge"})
			break
		}
	}
	return obs
}

func uniqStrings(in []string) []string {
	seen := map[string]bool{}
	var out []string
	for _, s := range in {
		if !seen[s] {
			seen[s] = true
			out = append(out, s)
		}
	}
	sort.Strings(out)
	return out
}

type scanCall struct {
	fn    string
	facts []charFact
}

type scanLoop struct {
	index    int
	pos      token.Pos
	terms    []string
	conts    int
	skips    []string
	accum    bool
	pairFail []string
}

type scanResult struct {
	paths       int
	overflow    bool
	unsupported []token.Pos
	deref       []string
	calls       []scanCall
	loops       []*scanLoop
}

// scanWalk walks one method with loops unrolled twice, recording deref
// violations, calls to other scanners (with the facts at the call, relative
// to the cursor) and per-loop iteration summaries.
func scanWalk(r *lexRoles, fd *ast.FuncDecl, entry []charFact) *scanResult {
	info := r.info
	res := &scanResult{}
	ev := &lexEval{r: r}
	if fd.Recv != nil && len(fd.Recv.List[0].Names) > 0 {
		ev.recv, _ = info.Defs[fd.Recv.List[0].Names[0]].(*types.Var)
	}
	init := &lexState{env: map[types.Object]lv{}}
	init.facts = append(init.facts, entry...)
	// ---- pass A: whole-function walk for deref + calls
	record := func(st *lexState, call *ast.CallExpr) {
		fn := CalleeOf(info, call)
		if fn == nil || fn == r.advance || fn == r.newToken {
			return
		}
		if sig, ok := fn.Type().(*types.Signature); ok && sig.Recv() != nil && recvNamed(sig.Recv().Type()) == r.lexerT {
			res.calls = append(res.calls, scanCall{fn: fn.Name(), facts: shiftFacts(st.facts, st.off)})
		}
	}
	var w *Walker[*lexState]
	mk := func() *Walker[*lexState] {
		return &Walker[*lexState]{
			Clone:      cloneLex,
			LoopUnroll: 2,
			MaxPaths:   40000,
			IsPanic:    func(s ast.Stmt) bool { return IsPanicCall(info, s) },
			OnDefer: func(st *lexState, d *ast.DeferStmt) (*lexState, bool) {
				// a deferred advance() runs after everything this walk looks at; anything
				// else deferred (a sub-scanner, a closure) is not modelled here
				if fn := CalleeOf(info, d.Call); fn == nil || fn != r.advance {
					w.Unsupported = append(w.Unsupported, d.Pos())
				}
				return st, true
			},
			OnCond: func(st *lexState, cond ast.Expr, taken bool) (*lexState, bool) {
				f, ok := ev.condFact(st, cond, taken)
				if !ok {
					return st, true
				}
				if (f.kind == fEq || f.kind == fNe || f.kind == fIn || f.kind == fNotIn) && !derefSafe(st, f.off) {
					res.deref = append(res.deref, fmt.Sprintf("`%s` reads the rune at cursor+%d, which may be past the end of input on the path [%s]", exprStr(cond), f.off-st.off, st.factString()))
				}
				if !st.add(f) {
					return st, false
				}
				return st, true
			},
			OnCase: func(st *lexState, sw *ast.SwitchStmt, vals, others []ast.Expr) (*lexState, bool) {
				tag := ev.eval(st, sw.Tag)
				if tag.k != lvChar {
					return st, true
				}
				if !derefSafe(st, tag.off) {
					res.deref = append(res.deref, fmt.Sprintf("`switch %s` reads the rune at cursor+%d, which may be past the end of input on the path [%s]", exprStr(sw.Tag), tag.off-st.off, st.factString()))
				}
				if vals == nil {
					for _, o := range others {
						if tv := info.Types[o]; tv.Value != nil {
							n, _ := constant.Int64Val(constant.ToInt(tv.Value))
							if !st.add(charFact{off: tag.off, kind: fNe, r: rune(n)}) {
								return st, false
							}
						}
					}
					return st, true
				}
				var rs runeSet
				for _, v := range vals {
					tv := info.Types[v]
					if tv.Value == nil {
						return st, true
					}
					n, _ := constant.Int64Val(constant.ToInt(tv.Value))
					rs.ranges = append(rs.ranges, [2]rune{rune(n), rune(n)})
				}
				if len(rs.ranges) == 1 {
					return st, st.add(charFact{off: tag.off, kind: fEq, r: rs.ranges[0][0]})
				}
				set := rs.norm()
				return st, st.add(charFact{off: tag.off, kind: fIn, set: &set, name: set.String()})
			},
			OnStmt: func(st *lexState, s ast.Stmt) (*lexState, bool) {
				// any expression that dereferences a cursor pointer outside a condition;
				// post-order, so that call arguments are evaluated before the call's effect
				var visit func(n ast.Node)
				visit = func(n ast.Node) {
					switch x := n.(type) {
					case nil:
						return
					case *ast.FuncLit:
						return
					case *ast.StarExpr:
						if p := ev.eval(st, x.X); p.k == lvCharPtr && !derefSafe(st, p.off) {
							res.deref = append(res.deref, fmt.Sprintf("`%s` reads the rune at cursor+%d, which may be past the end of input on the path [%s]", exprStr(x), p.off-st.off, st.factString()))
						}
						return
					case *ast.CallExpr:
						for _, a := range x.Args {
							visit(a)
						}
						fn := CalleeOf(info, x)
						if fn == r.advance {
							st.events = append(st.events, lexEvent{kind: "advance", off: st.off, pos: x.Pos()})
							st.off++
						} else if fn != nil {
							record(st, x)
							if sig, ok := fn.Type().(*types.Signature); ok && sig.Recv() != nil && recvNamed(sig.Recv().Type()) == r.lexerT && fn != r.newToken {
								// a sub-scanner consumes an unknown number of runes: forget what we
								// know about positions at and beyond the cursor
								st.events = append(st.events, lexEvent{kind: "call", off: st.off, what: fn.Name(), pos: x.Pos()})
								st.off += 1000
							}
						}
						return
					}
					ast.Inspect(n, func(m ast.Node) bool {
						if m == n || m == nil {
							return true
						}
						switch m.(type) {
						case *ast.FuncLit, *ast.StarExpr, *ast.CallExpr:
							visit(m)
							return false
						}
						return true
					})
				}
				visit(s)
				// appends to an accumulator: value += string(ch) / buf = append(buf, ch)
				if as, ok := s.(*ast.AssignStmt); ok && len(as.Lhs) == 1 && len(as.Rhs) == 1 {
					if as.Tok == token.ADD_ASSIGN {
						v := ev.eval(st, as.Rhs[0])
						if v.k == lvStrOfChar || v.k == lvChar {
							st.events = append(st.events, lexEvent{kind: "append", off: v.off, pos: as.Pos()})
						}
					} else if call, ok := ast.Unparen(as.Rhs[0]).(*ast.CallExpr); ok {
						if id, ok := call.Fun.(*ast.Ident); ok && id.Name == "append" && len(call.Args) == 2 {
							v := ev.eval(st, call.Args[1])
							if v.k == lvChar || v.k == lvStrOfChar {
								st.events = append(st.events, lexEvent{kind: "append", off: v.off, pos: as.Pos()})
							}
						}
					}
					// plain local bindings
					if id, ok := as.Lhs[0].(*ast.Ident); ok && as.Tok != token.ADD_ASSIGN {
						obj := info.Defs[id]
						if obj == nil {
							obj = info.Uses[id]
						}
						if obj != nil {
							st.env[obj] = ev.eval(st, as.Rhs[0])
						}
					}
				}
				return st, true
			},
		}
	}
	w = mk()
	w.Exit = func(st *lexState, o outcome) {}
	dsBody := r.desugar(fd)
	w.Run(dsBody, init)
	res.paths, res.overflow, res.unsupported = w.Paths, w.Overflow, w.Unsupported
	// ---- pass B: per-loop iteration analysis (body walked once from a havoc state
	// that keeps only "cursor is not at end of input" when the loop condition says so)
	idx := 0
	ast.Inspect(dsBody, func(n ast.Node) bool {
		fs, ok := n.(*ast.ForStmt)
		if !ok {
			return true
		}
		idx++
		lr := &scanLoop{index: idx, pos: fs.Pos()}
		advances := false
		ast.Inspect(fs.Body, func(m ast.Node) bool {
			if call, ok := m.(*ast.CallExpr); ok {
				if fn := CalleeOf(info, call); fn == r.advance {
					advances = true
				}
			}
			return true
		})
		if !advances {
			return true
		}
		res.loops = append(res.loops, lr)
		type iterPath struct {
			st    *lexState
			exits bool
		}
		var paths []iterPath
		lw := mk()
		lw.LoopUnroll = 1
		// wrap: treat the loop as `if cond { body; CONTINUE } else { EXIT }` by walking a
		// synthetic single iteration: evaluate cond true → body; cond false → exit.
		start := &lexState{env: map[types.Object]lv{}}
		collect := func(st *lexState, exits bool) { paths = append(paths, iterPath{st, exits}) }
		runBody := func(st *lexState) {
			lw.stmts(fs.Body.List, st, func(s2 *lexState, o outcome) {
				switch o.kind {
				case cNormal, cContinue:
					collect(s2, false)
				default:
					collect(s2, true)
				}
			})
		}
		if fs.Cond != nil {
			lw.cond(fs.Cond, cloneLex(start), false, func(s1 *lexState) { collect(s1, true) })
			lw.cond(fs.Cond, start, true, runBody)
		} else {
			runBody(start)
		}
		// exit conditions: positive rune facts of exiting paths that advanced at most the
		// terminator itself; keep only constant facts
		type term struct{ facts []charFact }
		var terms []term
		for _, p := range paths {
			if !p.exits {
				continue
			}
			var t term
			for _, f := range p.st.facts {
				if f.kind == fEq || f.kind == fIn {
					t.facts = append(t.facts, f)
				}
			}
			if len(t.facts) > 0 {
				terms = append(terms, t)
				lr.terms = append(lr.terms, (&lexState{facts: t.facts}).factString())
			}
		}
		sort.Strings(lr.terms)
		for _, p := range paths {
			if p.exits {
				continue
			}
			lr.conts++
			// positions advanced over directly
			var adv []int
			hasCall := false
			for _, e := range p.st.events {
				if e.kind == "advance" {
					adv = append(adv, e.off)
				}
				if e.kind == "call" {
					hasCall = true
				}
			}
			if hasCall {
				continue // positions consumed by a sub-scanner are that scanner's obligation
			}
			for _, j := range adv {
				if j == 0 {
					continue // the loop head position: its terminator was tested by this very iteration
				}
				for _, t := range terms {
					// shift terminator by j and try to refute with the path facts
					refuted := false
					probe := cloneLex(p.st)
					for _, f := range t.facts {
						f.off += j
						if !probe.add(f) {
							refuted = true
							break
						}
					}
					if !refuted {
						lr.skips = append(lr.skips, fmt.Sprintf("an iteration [%s] advances over cursor+%d without testing the exit condition [%s] there: a terminator starting at that position is stepped over", p.st.factString(), j, (&lexState{facts: t.facts}).factString()))
					}
				}
			}
			// append/advance pairing
			var apps []int
			for _, e := range p.st.events {
				if e.kind == "append" {
					apps = append(apps, e.off)
				}
			}
			if len(apps) > 0 {
				lr.accum = true
				if len(apps) != len(adv) {
					lr.pairFail = append(lr.pairFail, fmt.Sprintf("an iteration appends %d rune(s) but advances %d time(s) [%s]", len(apps), len(adv), p.st.factString()))
				} else {
					for i := range apps {
						if apps[i] != adv[i] {
							lr.pairFail = append(lr.pairFail, fmt.Sprintf("an iteration appends the rune at cursor+%d but advances past cursor+%d", apps[i], adv[i]))
						}
					}
				}
			}
		}
		return true
	})
	return res
}

func positiveFacts(fs []charFact) string {
	var b []string
	for _, f := range fs {
		switch f.kind {
		case fEq:
			b = append(b, fmt.Sprintf("ch[%d]==%q", f.off, f.r))
		case fIn:
			b = append(b, fmt.Sprintf("ch[%d] in %s", f.off, f.name))
		case fNil:
			b = append(b, fmt.Sprintf("ch[%d]=EOF", f.off))
		}
	}
	return strings.Join(b, ",")
}

// ---------------------------------------------------------------------
// R-lex-span-loop / R-lex-number-kind / R-lex-escapes

func init() {
	register(&Rule{ID: "R-lex-span-loop", Floor: 3, Run: ruleLexSpanLoop,
		Doc: "for the loop-based token constructors (names, numbers, strings): on every path (loops explored for 0, 1 and 2 iterations) the returned token's span starts at the location before the first advance, ends at the location of the last rune consumed (inclusive), and names the lexer's file — every rune the constructor consumes belongs to the lexeme its span covers; a number token has kind Float exactly on the paths that consumed a '.' or the 'f' suffix, Int otherwise"})
	register(&Rule{ID: "R-lex-escapes", Floor: 4, Run: ruleLexEscapes,
		Doc: "the numeric escape forms decode the number of digits and the radix the lexical grammar (grammar.ebnf escape_seq) prescribes: 3 octal digits, \\x 2 hex, \\u 4 hex, \\U 8 hex; the digit class tested matches the radix"})
}

func ruleLexSpanLoop(c *Ctx) []Obligation {
	r := discoverLexRoles(c)
	_, _, cases, def := nextTokenCases(c, r)
	info := r.info
	type entry struct {
		fn    *types.Func
		call  *ast.CallExpr
		first []charFact
		label string
	}
	var entries []entry
	for _, nc := range cases {
		if nc.ctor == nil {
			continue
		}
		var rs runeSet
		for _, ch := range nc.runes {
			rs.ranges = append(rs.ranges, [2]rune{ch, ch})
		}
		set := rs.norm()
		f := charFact{off: 0, kind: fIn, set: &set, name: set.String()}
		if len(nc.runes) == 1 {
			f = charFact{off: 0, kind: fEq, r: nc.runes[0]}
		}
		entries = append(entries, entry{nc.ctor, nc.call, []charFact{{off: 0, kind: fNonNil}, f}, set.String()})
	}
	// default clause: `if pred(*cur) { return self.makeX() }`
	if def != nil {
		for _, s := range def.Body {
			ifs, ok := s.(*ast.IfStmt)
			if !ok {
				continue
			}
			call, ok := ast.Unparen(ifs.Cond).(*ast.CallExpr)
			if !ok {
				continue
			}
			pfn := CalleeOf(info, call)
			rs, ok := r.preds[pfn]
			if !ok || len(ifs.Body.List) == 0 {
				continue
			}
			ret, ok := ifs.Body.List[len(ifs.Body.List)-1].(*ast.ReturnStmt)
			if !ok || len(ret.Results) == 0 {
				continue
			}
			rc, ok := ast.Unparen(ret.Results[0]).(*ast.CallExpr)
			if !ok {
				continue
			}
			if fn := CalleeOf(info, rc); fn != nil {
				set := rs
				entries = append(entries, entry{fn, rc, []charFact{{off: 0, kind: fNonNil}, {off: 0, kind: fIn, set: &set, name: pfn.Name()}}, pfn.Name()})
			}
		}
	}
	var obs []Obligation
	for _, e := range entries {
		fd := FuncDecl(r.pkg, "Lexer", e.fn.Name())
		if fd == nil {
			continue
		}
		hasLoop := false
		ast.Inspect(fd.Body, func(n ast.Node) bool {
			if _, ok := n.(*ast.ForStmt); ok {
				hasLoop = true
			}
			return true
		})
		if !hasLoop {
			continue
		}
		init := &lexState{env: map[types.Object]lv{}}
		for _, f := range e.first {
			init.add(f)
		}
		res, overflow, unsup := walkLexFuncN(r, fd, init, nil, 2)
		key := fmt.Sprintf("lexer.%s|first in %s", e.fn.Name(), e.label)
		if overflow || len(unsup) > 0 {
			obs = append(obs, Obligation{Key: key, Pos: c.Pos(fd.Pos()), Status: Undecided, Detail: "path enumeration overflow or unsupported control flow"})
			continue
		}
		spanFails := map[string]bool{}
		kindFails := map[string]bool{}
		ntok := 0
		isNumber := false
		for _, pr := range res {
			if len(pr.ret) == 0 || pr.ret[0].k != lvToken {
				continue
			}
			tok := pr.ret[0]
			ntok++
			st := pr.st
			span := tok.parts[2]
			// consumed runes: advances; a sub-scanner call makes the count unknown
			unknown := false
			for _, ev := range st.events {
				if ev.kind == "call" {
					unknown = true
				}
			}
			if span.k != lvSpan {
				spanFails["span is not built from locations: "+span.String()] = true
			} else {
				if s := span.parts[0]; s.k != lvLoc || s.off != 0 {
					spanFails[fmt.Sprintf("Span.Start is %v, want the location before the first advance", s)] = true
				}
				if f := span.parts[2]; f.k != lvFile {
					spanFails[fmt.Sprintf("Span.Filename is %v, want the lexer's filename", f)] = true
				}
				if !unknown {
					if en := span.parts[1]; en.k != lvLoc || en.off != st.off-1 {
						spanFails[fmt.Sprintf("on the path [%s] the constructor consumes %d rune(s) but Span.End is %v, want the location of the last consumed rune (loc@%d)", consumedSummary(st), st.off, en, st.off-1)] = true
					}
				}
			}
			// number kinds
			if k := tok.parts[0]; k.k == lvConst && k.cobj != nil && (k.cobj.Name() == "Int" || k.cobj.Name() == "Float") {
				isNumber = true
				floaty := false
				for _, ev := range st.events {
					if ev.kind != "advance" {
						continue
					}
					if _, _, eq, has := st.known(ev.off); has && (eq == '.' || eq == 'f') {
						floaty = true
					}
				}
				if floaty != (k.cobj.Name() == "Float") {
					kindFails[fmt.Sprintf("path [%s] returns kind %s", consumedSummary(st), k.cobj.Name())] = true
				}
			}
		}
		if ntok == 0 {
			continue
		}
		o := Obligation{Key: key + "|span covers exactly the consumed runes", Pos: c.Pos(fd.Pos()), Nontrivial: true}
		if len(spanFails) > 0 {
			o.Status, o.Detail = Violated, strings.Join(sortedKeys(spanFails), "; ")
		} else {
			o.Status, o.Detail = Discharged, fmt.Sprintf("%d token-returning paths: Start=loc@0, End=last consumed rune, file set", ntok)
		}
		obs = append(obs, o)
		if isNumber {
			o := Obligation{Key: key + "|Float iff '.' or 'f' consumed", Pos: c.Pos(fd.Pos()), Nontrivial: true}
			if len(kindFails) > 0 {
				o.Status, o.Detail = Violated, strings.Join(sortedKeys(kindFails), "; ")
			} else {
				o.Status, o.Detail = Discharged, fmt.Sprintf("%d paths agree", ntok)
			}
			obs = append(obs, o)
		}
	}
	return obs
}

func sortedKeys(m map[string]bool) []string {
	var out []string
	for k := range m {
		out = append(out, k)
	}
	sort.Strings(out)
	return out
}

// consumedSummary renders what is known about each consumed position.
func consumedSummary(st *lexState) string {
	var b []string
	for i := 0; i < st.off && i < 8; i++ {
		_, _, eq, has := st.known(i)
		if has {
			b = append(b, fmt.Sprintf("%q", eq))
			continue
		}
		desc := "?"
		for _, f := range st.facts {
			if f.off == i && f.kind == fIn {
				desc = f.name
			}
		}
		b = append(b, desc)
	}
	return strings.Join(b, " ")
}

// walkLexFuncN is walkLexFunc with a chosen loop unrolling.
func walkLexFuncN(r *lexRoles, fd *ast.FuncDecl, init *lexState, bind map[types.Object]lv, unroll int) ([]lexPathResult, bool, []token.Pos) {
	lexUnrollOverride = unroll
	defer func() { lexUnrollOverride = 0 }()
	res, ov, un, _ := walkLexFunc(r, fd, init, bind)
	return res, ov, un
}

var lexUnrollOverride int

func ruleLexEscapes(c *Ctx) []Obligation {
	r := discoverLexRoles(c)
	info := r.info
	// grammar: escape_seq = '\' , ( ESCAPE_CHAR | 3 * OCTAL | 'x' , 2 * HEX | 'u' , 4 * HEX | 'U' , 8 * HEX ) ;
	gram := readGrammar(c)
	want := map[string][2]int{} // intro → (radix, digits incl. intro digit for octal)
	if m := regexpFind(gram, `(?s)escape_seq\s*=(.*?);`); m != "" {
		for _, alt := range strings.Split(m, "|") {
			alt = strings.TrimSpace(alt)
			if mm := regexpGroups(alt, `^(?:'(\w)'\s*,\s*)?(\d+)\s*\*\s*(OCTAL|HEX)`); mm != nil {
				radix := 16
				if mm[3] == "OCTAL" {
					radix = 8
				}
				n := 0
				fmt.Sscan(mm[2], &n)
				want[mm[1]] = [2]int{radix, n}
			}
		}
	}
	var obs []Obligation
	if len(want) < 4 {
		return []Obligation{{Key: "grammar.ebnf escape_seq", Status: Undecided, Detail: fmt.Sprintf("could not read the numeric escape forms from grammar.ebnf (got %v)", want)}}
	}
	fd, _ := lexEscapeFuncs(r)
	if fd == nil {
		return []Obligation{{Key: "lexer escape scanner", Status: Undecided, Detail: "anchor unresolved: the Lexer method that scans one escape sequence (no parameters, first result a rune)"}}
	}
	// find the switch over the rune after the backslash; each numeric case calls a helper(prefix, start, radix, digits)
	got := map[string][3]int{} // intro → radix, digits, prefixLen
	ast.Inspect(fd.Body, func(n ast.Node) bool {
		cc, ok := n.(*ast.CaseClause)
		if !ok {
			return true
		}
		intro := ""
		if cc.List == nil {
			intro = "" // default → octal
		} else if len(cc.List) == 1 {
			if tv := info.Types[cc.List[0]]; tv.Value != nil {
				v, _ := constant.Int64Val(constant.ToInt(tv.Value))
				intro = string(rune(v))
			}
		}
		ast.Inspect(cc, func(m ast.Node) bool {
			call, ok := m.(*ast.CallExpr)
			if !ok || len(call.Args) != 4 {
				return true
			}
			fn := CalleeOf(info, call)
			if fn == nil {
				return true
			}
			rv, dv := info.Types[call.Args[2]].Value, info.Types[call.Args[3]].Value
			if rv == nil || dv == nil {
				return true
			}
			radix, _ := constant.Int64Val(constant.ToInt(rv))
			digits, _ := constant.Int64Val(constant.ToInt(dv))
			pre := 0
			if tv := info.Types[call.Args[0]]; tv.Value == nil {
				pre = 1 // string(*cur): the first digit is passed in
			}
			got[intro] = [3]int{int(radix), int(digits), pre}
			return true
		})
		return true
	})
	var intros []string
	for k := range want {
		intros = append(intros, k)
	}
	sort.Strings(intros)
	for _, intro := range intros {
		w := want[intro]
		name := "\\" + intro
		if intro == "" {
			name = "octal"
		}
		o := Obligation{Key: "escape form " + name, Pos: c.Pos(fd.Pos()), Nontrivial: true}
		g, ok := got[intro]
		switch {
		case !ok:
			o.Status, o.Detail = Violated, "no decoding branch found for this escape form"
		case g[0] != w[0] || g[1]+g[2] != w[1]:
			o.Status, o.Detail = Violated, fmt.Sprintf("decodes %d digit(s) in radix %d, grammar.ebnf prescribes %d digit(s) in radix %d", g[1]+g[2], g[0], w[1], w[0])
		default:
			o.Status, o.Detail = Discharged, fmt.Sprintf("%d digit(s), radix %d", w[1], w[0])
		}
		obs = append(obs, o)
	}
	// the helper's digit class matches the radix: `if radix == 16 { f = IsHexDigit } else { f = IsOctalDigit }`
	_, hp := lexEscapeFuncs(r)
	if hp != nil {
		o := Obligation{Key: "escape digit class follows the radix", Pos: c.Pos(hp.Pos()), Nontrivial: true}
		okHex, okOct := false, false
		ast.Inspect(hp.Body, func(n ast.Node) bool {
			ifs, ok := n.(*ast.IfStmt)
			if !ok {
				return true
			}
			b, ok := ast.Unparen(ifs.Cond).(*ast.BinaryExpr)
			if !ok || b.Op != token.EQL {
				return true
			}
			tv := info.Types[b.Y]
			if tv.Value == nil {
				return true
			}
			v, _ := constant.Int64Val(constant.ToInt(tv.Value))
			assigned := func(bs ast.Stmt) *types.Func {
				var fn *types.Func
				ast.Inspect(bs, func(m ast.Node) bool {
					if as, ok := m.(*ast.AssignStmt); ok && len(as.Rhs) == 1 {
						switch x := ast.Unparen(as.Rhs[0]).(type) {
						case *ast.SelectorExpr:
							fn, _ = info.Uses[x.Sel].(*types.Func)
						case *ast.Ident:
							fn, _ = info.Uses[x].(*types.Func)
						}
					}
					return true
				})
				return fn
			}
			thenFn := assigned(ifs.Body)
			var elseFn *types.Func
			if ifs.Else != nil {
				elseFn = assigned(ifs.Else)
			}
			hex := runeSet{[][2]rune{{'0', '9'}, {'A', 'F'}, {'a', 'f'}}}
			oct := runeSet{[][2]rune{{'0', '7'}}}
			if v == 16 && thenFn != nil && elseFn != nil {
				if s, ok := r.preds[thenFn]; ok && s.equal(hex) {
					okHex = true
				}
				if s, ok := r.preds[elseFn]; ok && s.equal(oct) {
					okOct = true
				}
			}
			if v == 8 && thenFn != nil && elseFn != nil {
				if s, ok := r.preds[thenFn]; ok && s.equal(oct) {
					okOct = true
				}
				if s, ok := r.preds[elseFn]; ok && s.equal(hex) {
					okHex = true
				}
			}
			return true
		})
		if okHex && okOct {
			o.Status, o.Detail = Discharged, "radix 16 tests the hex class, radix 8 the octal class"
		} else {
			o.Status, o.Detail = Undecided, "could not establish which digit class is tested for which radix"
		}
		obs = append(obs, o)
	}
	return obs
}

func init() {
	register(&Rule{ID: "R-lex-classes", Floor: 2, Run: ruleLexClasses,
		Doc: "for the token families grammar.ebnf defines with repetition groups (ident = LETTER {LETTER|DIGIT}; number = DIGIT {DIGIT|'_'} [ 'f' | '.' DIGIT {DIGIT|'_'} ]) the continuation classes of the scanning loops of the corresponding constructor are exactly the grammar's repetition classes, in order — a rune the grammar allows inside the token must not end it"})
}

func ruleLexClasses(c *Ctx) []Obligation {
	r := discoverLexRoles(c)
	gram, err := parseEBNF(readGrammar(c))
	if err != nil {
		return []Obligation{{Key: "grammar.ebnf", Status: Undecided, Detail: err.Error()}}
	}
	_, _, _, def := nextTokenCases(c, r)
	info := r.info
	// constructor entered on a rune class in the default clause of NextToken
	ctorOf := map[string]*ast.FuncDecl{} // grammar class name → constructor
	if def != nil {
		for _, s := range def.Body {
			ifs, ok := s.(*ast.IfStmt)
			if !ok {
				continue
			}
			call, ok := ast.Unparen(ifs.Cond).(*ast.CallExpr)
			if !ok || len(ifs.Body.List) == 0 {
				continue
			}
			rs, ok := r.preds[CalleeOf(info, call)]
			if !ok {
				continue
			}
			ret, ok := ifs.Body.List[len(ifs.Body.List)-1].(*ast.ReturnStmt)
			if !ok || len(ret.Results) == 0 {
				continue
			}
			rc, ok := ast.Unparen(ret.Results[0]).(*ast.CallExpr)
			if !ok {
				continue
			}
			fn := CalleeOf(info, rc)
			if fn == nil {
				continue
			}
			for _, cls := range []string{"DIGIT", "LETTER"} {
				if p, ok := gram.prods[cls]; ok {
					if set, ok := gram.class(p, 0); ok && set.equal(rs) {
						ctorOf[cls] = FuncDecl(r.pkg, "Lexer", fn.Name())
					}
				}
			}
		}
	}
	var obs []Obligation
	for _, pair := range [][2]string{{"number", "DIGIT"}, {"ident", "LETTER"}} {
		prod, first := pair[0], pair[1]
		fd := ctorOf[first]
		o := Obligation{Key: "grammar production " + prod + " vs its constructor", Nontrivial: true}
		want, ok := gram.repClasses(prod)
		if fd == nil || !ok || len(want) == 0 {
			o.Status, o.Detail = Undecided, "could not pair the production with a constructor entered on "+first
			obs = append(obs, o)
			continue
		}
		o.Pos = c.Pos(fd.Pos())
		o.Key = "grammar production " + prod + " vs lexer." + fd.Name.Name
		// loop continuation classes: conditions of the for loops that advance, as a set over ch[0]
		var got []runeSet
		undec := ""
		ast.Inspect(fd.Body, func(n ast.Node) bool {
			fs, ok := n.(*ast.ForStmt)
			if !ok || fs.Cond == nil {
				return true
			}
			set, ok := condClass(r, fd, fs.Cond)
			if !ok {
				undec = "loop condition `" + exprStr(fs.Cond) + "` is not a rune-class test"
				return true
			}
			got = append(got, set)
			return true
		})
		var gs, ws []string
		for _, s := range got {
			gs = append(gs, s.norm().String())
		}
		for _, s := range want {
			ws = append(ws, s.norm().String())
		}
		switch {
		case undec != "":
			o.Status, o.Detail = Undecided, undec
		case strings.Join(gs, " ; ") == strings.Join(ws, " ; "):
			o.Status, o.Detail = Discharged, "loop classes "+strings.Join(gs, " ; ")
		default:
			o.Status, o.Detail = Violated, fmt.Sprintf("scanning loops continue on %s, grammar.ebnf repeats %s: a rune the grammar allows inside the token ends it (or vice versa)", strings.Join(gs, " ; "), strings.Join(ws, " ; "))
		}
		obs = append(obs, o)
	}
	return obs
}

// condClass: the set of runes for which a loop condition of the form
// `cur != nil && (pred(*cur) || *cur == 'c' ...)` is true.
func condClass(r *lexRoles, fd *ast.FuncDecl, cond ast.Expr) (runeSet, bool) {
	ev := &lexEval{r: r}
	if fd.Recv != nil && len(fd.Recv.List[0].Names) > 0 {
		ev.recv, _ = r.info.Defs[fd.Recv.List[0].Names[0]].(*types.Var)
	}
	st := &lexState{env: map[types.Object]lv{}}
	var eval func(e ast.Expr) (runeSet, bool, bool) // set, isNilTest, ok
	eval = func(e ast.Expr) (runeSet, bool, bool) {
		e = ast.Unparen(e)
		if b, ok := e.(*ast.BinaryExpr); ok {
			switch b.Op {
			case token.LAND:
				ls, ln, ok1 := eval(b.X)
				rs, rn, ok2 := eval(b.Y)
				if !ok1 || !ok2 {
					return runeSet{}, false, false
				}
				if ln {
					return rs, rn, true
				}
				if rn {
					return ls, false, true
				}
				return runeSet{}, false, false // intersection not needed in this code base
			case token.LOR:
				ls, ln, ok1 := eval(b.X)
				rs, rn, ok2 := eval(b.Y)
				if !ok1 || !ok2 || ln || rn {
					return runeSet{}, false, false
				}
				return runeSet{append(append([][2]rune{}, ls.ranges...), rs.ranges...)}.norm(), false, true
			}
		}
		f, ok := ev.condFact(st, e, true)
		if !ok || f.off != 0 {
			return runeSet{}, false, false
		}
		switch f.kind {
		case fNonNil:
			return runeSet{}, true, true
		case fEq:
			return runeSet{[][2]rune{{f.r, f.r}}}, false, true
		case fIn:
			return *f.set, false, true
		}
		return runeSet{}, false, false
	}
	s, isNil, ok := eval(cond)
	if !ok || isNil {
		return runeSet{}, false
	}
	return s.norm(), true
}

// ---------------------------------------------------------------------
// R-lex-number-value / R-loc-advance / R-lex-escape-decode

func init() {
	register(&Rule{ID: "R-lex-number-value", Floor: 1, Run: ruleLexNumberValue,
		Doc: "the value of a number token never contains a digit separator: on every path of the number constructor, every rune appended to the value that may be '_' is removed again (strings.ReplaceAll(value, \"_\", \"\")) before the token is built — the parser hands the value to strconv, which rejects '_'"})
	register(&Rule{ID: "R-loc-advance", Floor: 2, Run: ruleLocAdvance,
		Doc: "positions are counted the way the span convention states: Location.Advance adds 1 to Index always, and either (newline) sets Column to 1 and adds 1 to Line or adds 1 to Column; the lexer's advance passes newline = true exactly when the rune it leaves is LF (not CR, not any other rune) — otherwise every later line/column in the file is wrong"})
	register(&Rule{ID: "R-lex-escape-decode", Floor: 1, Run: ruleLexEscapeDecode,
		Doc: "the numeric escape decoder turns exactly the digits it consumed into the code point: either strconv.ParseInt/ParseUint over the accumulated digit string with the radix parameter, or a digit-value function that is correct on every range of the digit class the loop accepts (0-9 ↦ d-'0', A-F ↦ d-'A'+10, a-f ↦ d-'a'+10)"})
}

func ruleLexNumberValue(c *Ctx) []Obligation {
	r := discoverLexRoles(c)
	info := r.info
	_, _, _, def := nextTokenCases(c, r)
	var obs []Obligation
	if def == nil {
		return []Obligation{{Key: "lexer number constructor", Status: Undecided, Detail: "NextToken has no default clause"}}
	}
	for _, s := range def.Body {
		ifs, ok := s.(*ast.IfStmt)
		if !ok {
			continue
		}
		call, ok := ast.Unparen(ifs.Cond).(*ast.CallExpr)
		if !ok || len(ifs.Body.List) == 0 {
			continue
		}
		pfn := CalleeOf(info, call)
		rs, ok := r.preds[pfn]
		if !ok || !rs.equal(runeSet{[][2]rune{{'0', '9'}}}) {
			continue
		}
		ret, ok := ifs.Body.List[len(ifs.Body.List)-1].(*ast.ReturnStmt)
		if !ok || len(ret.Results) == 0 {
			continue
		}
		rc, ok := ast.Unparen(ret.Results[0]).(*ast.CallExpr)
		if !ok {
			continue
		}
		fn := CalleeOf(info, rc)
		fd := FuncDecl(r.pkg, "Lexer", fn.Name())
		if fd == nil {
			continue
		}
		init := &lexState{env: map[types.Object]lv{}}
		set := rs
		init.add(charFact{off: 0, kind: fNonNil})
		init.add(charFact{off: 0, kind: fIn, set: &set, name: pfn.Name()})
		res, overflow, unsup := walkLexFuncN(r, fd, init, nil, 2)
		o := Obligation{Key: "lexer." + fn.Name() + "|value free of digit separators", Pos: c.Pos(fd.Pos()), Nontrivial: true}
		if overflow || len(unsup) > 0 {
			o.Status, o.Detail = Undecided, "path overflow / unsupported control flow"
			obs = append(obs, o)
			continue
		}
		fails := map[string]bool{}
		n := 0
		for _, pr := range res {
			if len(pr.ret) == 0 || pr.ret[0].k != lvToken {
				continue
			}
			n++
			val := pr.ret[0].parts[1]
			if val.desc == "stripped(_)" {
				continue
			}
			for _, ev := range pr.st.events {
				if ev.kind == "append" && (ev.v.k == lvStrOfChar || ev.v.k == lvChar) && !pr.st.excludes(ev.v.off, '_') {
					fails[fmt.Sprintf("on the path [%s] the rune at offset %d, which may be '_', is appended to the value and the value reaches the token unstripped", consumedSummary(pr.st), ev.v.off)] = true
				}
			}
		}
		if len(fails) > 0 {
			o.Status, o.Detail = Violated, strings.Join(sortedKeys(fails), "; ")
		} else {
			o.Status, o.Detail = Discharged, fmt.Sprintf("%d token paths: separators are never appended or are stripped before the token is built", n)
		}
		obs = append(obs, o)
	}
	return obs
}

func ruleLocAdvance(c *Ctx) []Obligation {
	var obs []Obligation
	// (i) errors.Location.Advance
	ep := c.Pkg("homescript/errors")
	fd := FuncDecl(ep, "Location", "Advance")
	o := Obligation{Key: "errors.Location.Advance|counts index, line and column", Nontrivial: true}
	if fd == nil || fd.Type.Params.NumFields() != 1 {
		o.Status, o.Detail = Undecided, "errors.Location.Advance(newline bool) not found"
		obs = append(obs, o)
	} else {
		o.Pos = c.Pos(fd.Pos())
		info := ep.TypesInfo
		param := info.Defs[fd.Type.Params.List[0].Names[0]]
		type st struct {
			d        map[string]int // field → +n
			set      map[string]int // field → set to constant
			nl, seen bool
		}
		var fails []string
		w := &Walker[*st]{
			Clone: func(s *st) *st {
				n := &st{d: map[string]int{}, set: map[string]int{}, nl: s.nl, seen: s.seen}
				for k, v := range s.d {
					n.d[k] = v
				}
				for k, v := range s.set {
					n.set[k] = v
				}
				return n
			},
			OnCond: func(s *st, cond ast.Expr, taken bool) (*st, bool) {
				if id, ok := ast.Unparen(cond).(*ast.Ident); ok && info.Uses[id] == param {
					if s.seen && s.nl != taken {
						return s, false
					}
					s.seen, s.nl = true, taken
				}
				return s, true
			},
			OnStmt: func(s *st, stmt ast.Stmt) (*st, bool) {
				field := func(e ast.Expr) string {
					if sel, ok := ast.Unparen(e).(*ast.SelectorExpr); ok {
						return sel.Sel.Name
					}
					return ""
				}
				switch x := stmt.(type) {
				case *ast.IncDecStmt:
					if f := field(x.X); f != "" {
						if x.Tok == token.INC {
							s.d[f]++
						} else {
							s.d[f]--
						}
					}
				case *ast.AssignStmt:
					if len(x.Lhs) == 1 && len(x.Rhs) == 1 {
						f := field(x.Lhs[0])
						tv := info.Types[x.Rhs[0]]
						if f != "" && tv.Value != nil {
							n, _ := constant.Int64Val(constant.ToInt(tv.Value))
							switch x.Tok {
							case token.ADD_ASSIGN:
								s.d[f] += int(n)
							case token.SUB_ASSIGN:
								s.d[f] -= int(n)
							case token.ASSIGN:
								s.set[f] = int(n)
								delete(s.d, f)
							}
						} else if f != "" {
							s.set[f] = -999
						}
					}
				}
				return s, true
			},
		}
		paths := 0
		w.Exit = func(s *st, oc outcome) {
			paths++
			if !s.seen {
				fails = append(fails, "a path does not consult the newline parameter")
				return
			}
			if s.d["Index"] != 1 {
				fails = append(fails, fmt.Sprintf("newline=%v: Index changes by %+d, want +1", s.nl, s.d["Index"]))
			}
			if s.nl {
				if v, ok := s.set["Column"]; !ok || v != 1 || s.d["Column"] != 0 {
					fails = append(fails, "newline=true: Column is not reset to 1")
				}
				if s.d["Line"] != 1 {
					fails = append(fails, fmt.Sprintf("newline=true: Line changes by %+d, want +1", s.d["Line"]))
				}
			} else {
				if s.d["Column"] != 1 {
					fails = append(fails, fmt.Sprintf("newline=false: Column changes by %+d, want +1", s.d["Column"]))
				}
				if s.d["Line"] != 0 {
					fails = append(fails, "newline=false: Line changes")
				}
				if _, ok := s.set["Column"]; ok {
					fails = append(fails, "newline=false: Column is overwritten")
				}
			}
		}
		w.Run(fd.Body, &st{d: map[string]int{}, set: map[string]int{}})
		if len(fails) > 0 {
			o.Status, o.Detail = Violated, strings.Join(uniqStrings(fails), "; ")
		} else {
			o.Status, o.Detail = Discharged, fmt.Sprintf("%d paths: Index+1; newline → Line+1, Column=1; otherwise Column+1", paths)
		}
		obs = append(obs, o)
	}
	// (ii) the lexer's advance: newline argument ⇔ current rune == LF
	r := discoverLexRoles(c)
	var advFd *ast.FuncDecl
	for _, f := range AllFuncDecls(r.pkg) {
		if fn, _ := r.info.Defs[f.Name].(*types.Func); fn == r.advance {
			advFd = f
		}
	}
	o2 := Obligation{Key: "lexer.Lexer.advance|newline iff the rune left behind is LF", Nontrivial: true}
	if advFd == nil {
		o2.Status, o2.Detail = Undecided, "advance method not found"
		return append(obs, o2)
	}
	o2.Pos = c.Pos(advFd.Pos())
	var arg ast.Expr
	ast.Inspect(advFd.Body, func(n ast.Node) bool {
		if call, ok := n.(*ast.CallExpr); ok && len(call.Args) == 1 {
			if fn := CalleeOf(r.info, call); fn != nil && fn.Name() == "Advance" && fn.Pkg() != nil && strings.HasSuffix(fn.Pkg().Path(), "/errors") {
				arg = call.Args[0]
			}
		}
		return true
	})
	if arg == nil {
		o2.Status, o2.Detail = Undecided, "call of Location.Advance not found"
		return append(obs, o2)
	}
	ev := &lexEval{r: r}
	if advFd.Recv != nil && len(advFd.Recv.List[0].Names) > 0 {
		ev.recv, _ = r.info.Defs[advFd.Recv.List[0].Names[0]].(*types.Var)
	}
	var fails []string
	undecided := false
	w := &Walker[*lexState]{
		Clone: cloneLex,
		OnCond: func(st *lexState, cond ast.Expr, taken bool) (*lexState, bool) {
			f, ok := ev.condFact(st, cond, taken)
			if !ok {
				undecided = true
				return st, true
			}
			return st, st.add(f)
		},
	}
	check := func(st *lexState, truth bool) {
		isNil, _, eq, hasEq := st.known(0)
		if truth {
			if !(hasEq && eq == '\n') {
				fails = append(fails, fmt.Sprintf("newline is true on a path where the rune is not known to be LF [%s]", st.factString()))
			}
		} else if !isNil && !st.excludes(0, '\n') {
			fails = append(fails, fmt.Sprintf("newline is false on a path where the rune may be LF [%s]", st.factString()))
		}
	}
	w.cond(arg, &lexState{env: map[types.Object]lv{}}, true, func(s *lexState) { check(s, true) })
	w.cond(arg, &lexState{env: map[types.Object]lv{}}, false, func(s *lexState) { check(s, false) })
	switch {
	case undecided:
		o2.Status, o2.Detail = Undecided, "the newline argument `"+exprStr(arg)+"` contains a condition that is not a test of the current rune"
	case len(fails) > 0:
		o2.Status, o2.Detail = Violated, strings.Join(uniqStrings(fails), "; ")
	default:
		o2.Status, o2.Detail = Discharged, "`"+exprStr(arg)+"` is true exactly for LF"
	}
	return append(obs, o2)
}

func ruleLexEscapeDecode(c *Ctx) []Obligation {
	r := discoverLexRoles(c)
	info := r.info
	_, hp := lexEscapeFuncs(r)
	o := Obligation{Key: "lexer.escapePart|code point decoded from the consumed digits", Nontrivial: true}
	if hp == nil {
		o.Status, o.Detail = Undecided, "numeric escape helper not found"
		return []Obligation{o}
	}
	o.Pos = c.Pos(hp.Pos())
	// shape 1: strconv.ParseInt/ParseUint(<accumulated string>, radix param, _)
	var radixParam types.Object
	for _, f := range hp.Type.Params.List {
		for _, n := range f.Names {
			if strings.Contains(strings.ToLower(n.Name), "radix") || strings.Contains(strings.ToLower(n.Name), "base") {
				radixParam = info.Defs[n]
			}
		}
	}
	parse := false
	wrongBase := ""
	ast.Inspect(hp.Body, func(n ast.Node) bool {
		call, ok := n.(*ast.CallExpr)
		if !ok {
			return true
		}
		fn := CalleeOf(info, call)
		if fn != nil && fn.Pkg() != nil && fn.Pkg().Path() == "strconv" && (fn.Name() == "ParseInt" || fn.Name() == "ParseUint") && len(call.Args) == 3 {
			parse = true
			if id, ok := ast.Unparen(call.Args[1]).(*ast.Ident); !ok || radixParam == nil || info.Uses[id] != radixParam {
				wrongBase = exprStr(call.Args[1])
			}
		}
		return true
	})
	if parse {
		if wrongBase != "" {
			o.Status, o.Detail = Violated, "strconv is called with base `"+wrongBase+"`, not the helper's radix parameter"
		} else {
			o.Status, o.Detail = Discharged, "strconv.Parse*(accumulated digits, radix, …); accumulation is covered by R-lex-scan (append/advance pairing)"
		}
		return []Obligation{o}
	}
	// shape 2: a digit-value function applied to the consumed rune
	var valFn *types.Func
	ast.Inspect(hp.Body, func(n ast.Node) bool {
		call, ok := n.(*ast.CallExpr)
		if !ok || len(call.Args) != 1 {
			return true
		}
		fn := CalleeOf(info, call)
		if fn == nil || fn.Pkg() != r.pkg.Types {
			return true
		}
		sig := fn.Type().(*types.Signature)
		if sig.Params().Len() == 1 && sig.Results().Len() == 1 {
			if pb, ok := sig.Params().At(0).Type().(*types.Basic); ok && pb.Kind() == types.Int32 {
				if rb, ok := sig.Results().At(0).Type().Underlying().(*types.Basic); ok && rb.Info()&types.IsInteger != 0 {
					valFn = fn
				}
			}
		}
		return true
	})
	if valFn == nil {
		o.Status, o.Detail = Info, "the decoder neither uses strconv nor a recognisable digit-value function: not decided"
		return []Obligation{o}
	}
	vfd := FuncDecl(r.pkg, "", valFn.Name())
	if vfd == nil {
		o.Status, o.Detail = Info, "digit-value function body not found"
		return []Obligation{o}
	}
	param := info.Defs[vfd.Type.Params.List[0].Names[0]]
	// evaluate on each range of the hex class: expected affine d + k
	type rng struct {
		lo, hi rune
		k      int
		name   string
	}
	ranges := []rng{{'0', '9', -'0', "0-9"}, {'A', 'F', -'A' + 10, "A-F"}, {'a', 'f', -'a' + 10, "a-f"}}
	var fails []string
	undec := ""
	for _, rg := range ranges {
		// walk the function with the parameter constrained to the range
		var got []int
		var affine func(e ast.Expr) (a, b int, ok bool)
		affine = func(e ast.Expr) (int, int, bool) {
			e = ast.Unparen(e)
			if tv := info.Types[e]; tv.Value != nil {
				n, _ := constant.Int64Val(constant.ToInt(tv.Value))
				return 0, int(n), true
			}
			switch x := e.(type) {
			case *ast.Ident:
				if info.Uses[x] == param {
					return 1, 0, true
				}
			case *ast.CallExpr:
				if info.Types[x.Fun].IsType() && len(x.Args) == 1 {
					return affine(x.Args[0])
				}
			case *ast.BinaryExpr:
				a1, b1, ok1 := affine(x.X)
				a2, b2, ok2 := affine(x.Y)
				if ok1 && ok2 {
					switch x.Op {
					case token.ADD:
						return a1 + a2, b1 + b2, true
					case token.SUB:
						return a1 - a2, b1 - b2, true
					}
				}
			}
			return 0, 0, false
		}
		w := &Walker[*int]{
			Clone: func(s *int) *int { v := *s; return &v },
			OnCond: func(s *int, cond ast.Expr, taken bool) (*int, bool) {
				cond = ast.Unparen(cond)
				// predicate call on the parameter
				if call, ok := cond.(*ast.CallExpr); ok && len(call.Args) == 1 {
					if id, ok := ast.Unparen(call.Args[0]).(*ast.Ident); ok && info.Uses[id] == param {
						if set, ok := r.preds[CalleeOf(info, call)]; ok {
							all, none := true, true
							for ch := rg.lo; ch <= rg.hi; ch++ {
								if set.has(ch) {
									none = false
								} else {
									all = false
								}
							}
							if all {
								return s, taken
							}
							if none {
								return s, !taken
							}
							undec = "a condition splits the range " + rg.name
							return s, true
						}
					}
				}
				if b, ok := cond.(*ast.BinaryExpr); ok {
					if id, ok := ast.Unparen(b.X).(*ast.Ident); ok && info.Uses[id] == param {
						if tv := info.Types[b.Y]; tv.Value != nil {
							n, _ := constant.Int64Val(constant.ToInt(tv.Value))
							holdsAll, holdsNone := true, true
							for ch := rg.lo; ch <= rg.hi; ch++ {
								var h bool
								switch b.Op {
								case token.GEQ:
									h = int64(ch) >= n
								case token.LEQ:
									h = int64(ch) <= n
								case token.GTR:
									h = int64(ch) > n
								case token.LSS:
									h = int64(ch) < n
								case token.EQL:
									h = int64(ch) == n
								case token.NEQ:
									h = int64(ch) != n
								default:
									undec = "unsupported comparison"
								}
								if h {
									holdsNone = false
								} else {
									holdsAll = false
								}
							}
							if holdsAll {
								return s, taken
							}
							if holdsNone {
								return s, !taken
							}
							undec = "a condition splits the range " + rg.name
							return s, true
						}
					}
				}
				undec = "condition `" + exprStr(cond) + "` not understood"
				return s, true
			},
		}
		w.Exit = func(s *int, oc outcome) {
			if oc.ret == nil || len(oc.ret.Results) != 1 {
				return
			}
			a, b, ok := affine(oc.ret.Results[0])
			if !ok || a != 1 {
				undec = "return value `" + exprStr(oc.ret.Results[0]) + "` is not of the form digit ± constant"
				return
			}
			got = append(got, b)
		}
		zero := 0
		w.Run(vfd.Body, &zero)
		for _, b := range got {
			if b != rg.k {
				fails = append(fails, fmt.Sprintf("for the digits %s the function returns d%+d, the digit value is d%+d (e.g. %q ↦ %d instead of %d)", rg.name, b, rg.k, rg.lo, int(rg.lo)+b, int(rg.lo)+rg.k))
			}
		}
	}
	switch {
	case len(fails) > 0:
		o.Status, o.Detail = Violated, valFn.Name()+": "+strings.Join(fails, "; ")
	case undec != "":
		o.Status, o.Detail = Info, "digit-value function " + valFn.Name() + " not decided: " + undec
	default:
		o.Status, o.Detail = Discharged, "digit-value function " + valFn.Name() + " is correct on 0-9, A-F, a-f"
	}
	return []Obligation{o}
}


// lexEscapeFuncs resolves, by signature, the Lexer method that scans one escape sequence (no
// parameters, first result a rune) and its numeric helper (first result a rune, takes the radix
// and digit count as parameters).
func lexEscapeFuncs(r *lexRoles) (seq, part *ast.FuncDecl) {
	var seqs, parts []*ast.FuncDecl
	for _, fd := range AllFuncDecls(r.pkg) {
		if fd.Recv == nil || recvTypeName(fd.Recv.List[0].Type) != "Lexer" || fd.Body == nil {
			continue
		}
		fn, _ := r.info.Defs[fd.Name].(*types.Func)
		if fn == nil {
			continue
		}
		sig := fn.Type().(*types.Signature)
		if sig.Results().Len() < 1 {
			continue
		}
		b, ok := sig.Results().At(0).Type().Underlying().(*types.Basic)
		if !ok || b.Kind() != types.Int32 {
			continue
		}
		if sig.Params().Len() == 0 {
			seqs = append(seqs, fd)
		} else {
			parts = append(parts, fd)
		}
	}
	if len(seqs) == 1 {
		seq = seqs[0]
	}
	if len(parts) == 1 {
		part = parts[0]
	}
	return
}


// ---------------------------------------------------------------------------
// R-lex-comment: the comment skippers consume exactly a string of the grammar's
// comment production (bounded language inclusion over the enumerated paths).

func init() {
	register(&Rule{ID: "R-lex-comment", Floor: 2, Run: ruleLexComment,
		Doc: "comments are layout (grammar.ebnf: comment = '//' {CHAR} LF? | '/*' {CHAR} '*/'): for every alternative of the production, the skip routine NextToken enters on the opener is walked from that entry context (loops unrolled 3 times, every feasible exit enumerated with the rune facts of its path); an exit that is not at end of input must have consumed the whole opener before the runes that were recognised as the terminator (no overlap: at least len(opener)+len(terminator) runes), and the last runes consumed must be the terminator. A skipper that lets the opener's own runes take part in the terminator match ends the comment early and turns comment text into tokens."})
}

func ruleLexComment(c *Ctx) []Obligation {
	r := discoverLexRoles(c)
	info := r.info
	gram := readGrammar(c)
	prod := regexpFind(gram, `(?s)\ncomment\s*=(.*?);`)
	if prod == "" {
		prod = regexpFind(gram, `(?s)\ncomment\s*=(.*?)\n\s*\n`)
	}
	type alt struct{ open, term string }
	var alts []alt
	for _, a := range strings.Split(prod, "|") {
		lits := regexpGroupsAll(a, `'([^']+)'`)
		if len(lits) == 0 {
			continue
		}
		al := alt{open: lits[0]}
		if len(lits) >= 2 {
			al.term = lits[len(lits)-1]
		} else if strings.Contains(a, "LF") {
			al.term = "\n"
		}
		alts = append(alts, al)
	}
	if len(alts) == 0 {
		return []Obligation{{Key: "grammar.ebnf comment", Status: Undecided, Detail: "could not read the comment production from grammar.ebnf"}}
	}
	// entry contexts of the void Lexer methods NextToken calls
	nt := c.MustFunc("homescript/lexer", "Lexer", "NextToken")
	top := scanWalk(r, nt, nil)
	var obs []Obligation
	for _, al := range alts {
		o := Obligation{Key: fmt.Sprintf("comment %q…%q|skipper consumes opener, body, terminator", al.open, strings.ReplaceAll(al.term, "\n", "LF")), Nontrivial: true}
		// the call whose entry facts spell the opener
		var fd *ast.FuncDecl
		var entry []charFact
		for _, cs := range top.calls {
			ok := true
			for i, ch := range []rune(al.open) {
				found := false
				for _, f := range cs.facts {
					if f.off == i && f.kind == fEq && f.r == ch {
						found = true
					}
				}
				if !found {
					ok = false
				}
			}
			if !ok {
				continue
			}
			cand := FuncDecl(r.pkg, "Lexer", cs.fn)
			// a skipper returns nothing, or only an error (for input that is not a complete comment)
			if cand == nil {
				continue
			}
			if cand.Type.Results != nil && len(cand.Type.Results.List) > 0 {
				if len(cand.Type.Results.List) != 1 {
					continue
				}
				if _, isPtr := r.pkg.TypesInfo.TypeOf(cand.Type.Results.List[0].Type).(*types.Pointer); !isPtr {
					continue
				}
			}
			fd, entry = cand, cs.facts
		}
		if fd == nil {
			o.Status, o.Detail = Undecided, fmt.Sprintf("no Lexer method without a result (or with only an error result) is entered from NextToken on the opener %q", al.open)
			obs = append(obs, o)
			continue
		}
		o.Pos = c.Pos(fd.Pos())
		lexUnrollOverride = 3
		init := &lexState{env: map[types.Object]lv{}}
		init.facts = append(init.facts, entry...)
		res, overflow, unsupported, _ := walkLexFunc(r, fd, init, nil)
		lexUnrollOverride = 0
		if overflow || len(unsupported) > 0 {
			o.Status, o.Detail = Undecided, "path enumeration overflow / unsupported control flow in "+fd.Name.Name
			obs = append(obs, o)
			continue
		}
		need := len([]rune(al.open)) + len([]rune(al.term))
		var bad []string
		terminated, atEOF := 0, 0
		for _, pr := range res {
			if pr.o.kind == cPanic {
				continue
			}
			st := pr.st
			// end of input seen on this path (a nil fact at or before the cursor+1)?
			eof := false
			for _, f := range st.facts {
				if f.kind == fNil && f.off <= st.off+1 {
					eof = true
				}
			}
			if eof {
				atEOF++
				continue
			}
			terminated++
			tr := []rune(al.term)
			okTerm := st.off >= need
			if okTerm {
				for i, ch := range tr {
					_, _, eq, has := st.known(st.off - len(tr) + i)
					if !has || eq != ch {
						okTerm = false
					}
				}
			}
			if !okTerm {
				bad = append(bad, fmt.Sprintf("exit after consuming %d rune(s) [%s]: a complete %q…%q comment has at least %d and ends in the terminator (decisions: %s)", st.off, st.factString(), al.open, strings.ReplaceAll(al.term, "\n", "LF"), need, strings.Join(st.decided, ", ")))
				continue
			}
			// the comment ends at the FIRST terminator: at every body position the path must have refuted it
			for k := len([]rune(al.open)); k < st.off-len(tr); k++ {
				refuted := false
				for i, ch := range tr {
					if st.excludes(k+i, ch) {
						refuted = true
					}
				}
				if !refuted {
					bad = append(bad, fmt.Sprintf("exit after consuming %d rune(s) [%s]: the rune(s) at offset %d were skipped without being tested against the terminator %q — if they are the terminator the skipper runs past the end of the comment and swallows the text behind it (decisions: %s)", st.off, st.factString(), k, strings.ReplaceAll(al.term, "\n", "LF"), strings.Join(st.decided, ", ")))
					break
				}
			}
		}
		_ = info
		switch {
		case len(bad) > 0:
			o.Status, o.Detail = Violated, strings.Join(uniqStrings(bad), "; ")
		case terminated == 0:
			o.Status, o.Detail = Undecided, fmt.Sprintf("no terminated exit of %s was enumerated (%d end-of-input exits)", fd.Name.Name, atEOF)
		default:
			o.Status, o.Detail = Discharged, fmt.Sprintf("%s: %d terminated exit path(s) each consumed the opener, then the body, and end in the terminator; %d end-of-input exit(s)", fd.Name.Name, terminated, atEOF)
		}
		obs = append(obs, o)
	}
	return obs
}
