package main

// Extension of R-mangle-unique (r6emit): the number taken from a mangling
// counter is part of the name on EVERY returning path of the helper.

import (
	"fmt"
	"go/ast"
	"go/types"
)

// r6emNameCarriesCounter walks the mangling helper fd path by path. On every
// non-panicking path the returned string must be computed from the value read
// from the counter map f (one of the variables cnt, an index expression on f,
// or a local assigned from such an expression on that path). ok=false: shape not understood
// (the existence check of the caller stays in force).
func r6emNameCarriesCounter(c *Ctx, fd *ast.FuncDecl, info *types.Info, f *types.Var, cnt []types.Object) (bad []string, n int, ok bool) {
	obj, _ := info.Defs[fd.Name].(*types.Func)
	if obj == nil {
		return nil, 0, false
	}
	fn := vmDeclIndex(c).of(obj)
	if fn == nil {
		return nil, 0, false
	}
	sig := obj.Type().(*types.Signature)
	strRes := -1
	for i := 0; i < sig.Results().Len(); i++ {
		if types.Identical(sig.Results().At(i).Type(), types.Typ[types.String]) {
			if strRes >= 0 {
				return nil, 0, false
			}
			strRes = i
		}
	}
	if strRes < 0 {
		return nil, 0, false
	}
	rel := func(n ast.Node) bool {
		switch n.(type) {
		case *ast.AssignStmt, *ast.ReturnStmt, *ast.DeclStmt:
			return true
		}
		return false
	}
	res := vmWalk(vmWalkOpts{fn: fn, correlate: true, replace: vmSlicer(rel)})
	if res.overflow || len(res.paths) == 0 {
		return nil, 0, false
	}
	for i := range res.paths {
		p := &res.paths[i]
		if p.o.kind != cReturn && p.o.kind != cNormal {
			continue
		}
		// the returned expression
		var ret ast.Expr
		at := len(p.ev)
		for j := len(p.ev) - 1; j >= 0; j-- {
			if e := p.ev[j]; e.K == evRet && !e.Deferred {
				at = j
				if e.Ret != nil && len(e.Ret.Results) == sig.Results().Len() {
					ret = e.Ret.Results[strRes]
				}
				break
			}
		}
		if ret == nil {
			// bare return: the named result
			if sig.Results().At(strRes).Name() == "" {
				return nil, 0, false
			}
			ret = ast.NewIdent(sig.Results().At(strRes).Name())
			info.Uses[ret.(*ast.Ident)] = sig.Results().At(strRes)
		}
		n++
		// forward taint along the path: the counter variables carry the number; a
		// variable assigned from an expression that mentions a carrier (or reads the
		// counter map) carries it, an assignment from anything else clears it
		taint := map[types.Object]bool{}
		for _, o := range cnt {
			taint[o] = true
		}
		isCnt := func(o types.Object) bool {
			for _, x := range cnt {
				if x == o {
					return true
				}
			}
			return false
		}
		mentions := func(e ast.Expr) bool {
			if vmMentionsField(info, e, f) {
				return true
			}
			for o := range taint {
				if taint[o] && vmMentionsObj(info, e, o) {
					return true
				}
			}
			return false
		}
		for j := 0; j < at && j < len(p.ev); j++ {
			e := p.ev[j]
			if e.K != evAssign || e.Rhs == nil {
				continue
			}
			o := vmObjOf(info, e.Lhs)
			if o == nil || isCnt(o) {
				continue
			}
			if _, isVar := o.(*types.Var); !isVar {
				continue
			}
			taint[o] = mentions(e.Rhs)
		}
		good := mentions(ret)
		if !good {
			bad = append(bad, fmt.Sprintf("path [%s] returning @%s", vmTrunc(p.decisions(), 160), c.Pos(p.ev[minInt(at, len(p.ev)-1)].Pos)))
		}
	}
	return vmUniq(bad), n, n > 0
}

func minInt(a, b int) int {
	if a < b {
		return a
	}
	return b
}
